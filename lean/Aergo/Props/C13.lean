/-
C13 — Transaction pool: per-account nonce order, no stale or duplicate entries.

"For every account the pool offers block producers a gap-free run of transactions with nonces
state+1, state+2, ... in ascending order, holds transactions beyond a gap aside until the gap is
filled, never holds two transactions with the same account and nonce or the same hash, and its
reported totals equal what it actually holds. After a block is connected or the chain is
reorganised and the pool has processed the notification, no pooled transaction has a nonce at or
below its account's nonce in the new state, and these statements also hold when submissions,
block notifications and producer fetches run concurrently."

The theorems are about `Aergo.Pool` (Model/Pool.lean), the transcription of mempool/txlist.go and
mempool/mempool.go; the model is tied to the current source by the harness `c13`, which runs the real
`txList` and the real `MemPool` on the same operation lines and compares the full pool state after
every operation. All statements hold for every list, pool, transaction, account state and operation
sequence (no bound on sizes).

Invariants (Lemmas/PoolList.lean, Lemmas/PoolInv.lean):
* `LInv L`  : every nonce of `L.list` is above `L.base.nonce`, nonces strictly ascending,
              `L.ready` = length of the longest prefix with nonces base+1, base+2, …
* `PInv P`  : one list per account key, every list satisfies `LInv` and holds only its own account's
              transactions, the hash index is a permutation of the listed transactions and has no hash
              twice, `length = Σ|list|`, `orphan = Σ(|list| − ready)`.
* `BaseOK P`: every list's base state is the account state the pool currently sees.
* `NoEmpty P`: no empty list is kept (preserved by put / notifications / eviction; the unconfirmed report may
              add one).

Not carried by a theorem: the concurrency clause (Go memory model, lock discipline); the harness runs
a concurrent mix as a test only. The signature / recipient / governance parts of admission are outside
the model (the pooled transactions are plain transfers with zero fee).
-/
import Aergo.Lemmas.PoolOps

namespace Aergo.Props.C13
open Aergo.Pool

/-! ## Per-account list (`txList`) -/

/-- `Put` preserves the list invariant, whatever is submitted and whatever the outcome. -/
theorem linv_put (L : TxList) (tx : Tx) (h : LInv L) : LInv (L.put tx).1 := by
  cases hp : L.put tx with
  | mk L' r =>
    cases r with
    | error e => rw [(put_err h hp).1]; exact h
    | ok d => exact (put_ok h hp).1

/-- Outcome of `Put`: rejected as *nonce too low* exactly when the nonce is not above the base nonce;
rejected as *same nonce* exactly when a transaction with that nonce is already held (duplicates and
replacements are refused); otherwise the transaction is added and nothing else changes, and the
returned number is the decrease of the held-aside count. -/
theorem put_outcome (L : TxList) (tx : Tx) (h : LInv L) :
    ((L.put tx).2 = .error .low ↔ tx.nonce ≤ L.base.nonce) ∧
    ((L.put tx).2 = .error .same ↔ L.base.nonce < tx.nonce ∧ ∃ t ∈ L.list, t.nonce = tx.nonce) ∧
    (∀ d, (L.put tx).2 = .ok d →
      (L.put tx).1.list.Perm (tx :: L.list) ∧ (L.put tx).1.base = L.base ∧
      d = orph L - orph (L.put tx).1) ∧
    (∀ e, (L.put tx).2 = .error e → (L.put tx).1 = L) := by
  cases hp : L.put tx with
  | mk L' r =>
    cases r with
    | error e =>
      obtain ⟨h1, h2, h3⟩ := put_err h hp
      refine ⟨?_, ?_, fun d hd => (by cases hd), fun _ _ => h1⟩
      · constructor
        · intro he; injection he with he; exact h2 he
        · intro hlow
          cases e with
          | low => rfl
          | same => have := (h3 rfl).1; omega
      · constructor
        · intro he; injection he with he; exact h3 he
        · intro hs
          cases e with
          | same => rfl
          | low => have := h2 rfl; omega
    | ok d =>
      obtain ⟨_, hb, hperm, hd, hgt, hfresh⟩ := put_ok h hp
      refine ⟨⟨fun he => (by cases he), fun hl => (by omega)⟩,
        ⟨fun he => (by cases he), fun ⟨_, t, ht, hn⟩ => absurd hn (hfresh t ht)⟩,
        fun d' hd' => ?_, fun e he => (by cases he)⟩
      injection hd' with hd'; subst hd'
      exact ⟨hperm, hb, by rw [hd]; rfl⟩

/-- `FilterByState` (block notification for one account) preserves the list invariant, rebases the
list on the new state, only removes (never adds or reorders) transactions, removes only transactions
that are stale or unaffordable in the new state, and reports the exact held-aside decrease. -/
theorem linv_filter (L : TxList) (st : Acct) (h : LInv L) :
    LInv (L.filter st).1 ∧ (L.filter st).1.base = st ∧
    ((L.filter st).1.list ++ (L.filter st).2.2).Perm L.list ∧ (L.filter st).1.list.Sublist L.list ∧
    (L.filter st).2.1 = orph L - orph (L.filter st).1 ∧
    (∀ t ∈ (L.filter st).2.2, t.nonce ≤ st.nonce ∨ st.bal < t.cost) := by
  obtain ⟨a, b, c, d, e, _, g⟩ := filter_spec h st
  exact ⟨a, b, c, d, e, g⟩

/-- After `FilterByState` with new state nonce σ every remaining transaction has nonce > σ —
also when the state nonce went *down* (reorganisation) or did not change. -/
theorem no_stale_after_list (L : TxList) (st : Acct) (h : LInv L) :
    ∀ t ∈ (L.filter st).1.list, st.nonce < t.nonce :=
  (filter_spec h st).2.2.2.2.2.1

/-- `RemoveTx` preserves the list invariant; it removes exactly one transaction with the given hash
if one is held, else changes nothing; the returned number is the exact held-aside increase. -/
theorem linv_remove (L : TxList) (id : Nat) (h : LInv L) :
    LInv (L.remove id).1 ∧ (L.remove id).1.base = L.base ∧
    (match (L.remove id).2.2 with
     | none => (L.remove id).1 = L ∧ (L.remove id).2.1 = 0 ∧ ∀ t ∈ L.list, t.id ≠ id
     | some x => x.id = id ∧ L.list.Perm (x :: (L.remove id).1.list) ∧
        (L.remove id).2.1 = orph (L.remove id).1 - orph L) := by
  obtain ⟨a, b, c⟩ := remove_spec h id
  refine ⟨a, b, ?_⟩
  cases hr : (L.remove id).2.2 with
  | none => rw [hr] at c; exact c
  | some x => rw [hr] at c; exact ⟨c.1, c.2.1, c.2.2.2⟩

/-- What a list offers (`Get`) is exactly the nonces base+1, …, base+ready in ascending order. -/
theorem get_gapfree_list (L : TxList) (h : LInv L) :
    L.get.map (·.nonce) = List.range' (L.base.nonce + 1) L.ready :=
  get_nonces h

/-- A held transaction is offered if and only if every nonce from base+1 up to its own is held:
a transaction beyond a gap is kept aside, and becomes ready exactly when the gap is filled. -/
theorem orphans_held (L : TxList) (h : LInv L) (t : Tx) :
    t ∈ L.get ↔ t ∈ L.list ∧ ∀ n, L.base.nonce < n → n ≤ t.nonce → ∃ s ∈ L.list, s.nonce = n :=
  offered_iff h t

/-- Non-vacuity: a list with a ready run 1,2 and an orphan 5 on base nonce 0 satisfies `LInv`. -/
example : LInv ⟨⟨0, 100⟩, [⟨7, 1, 21, 5, false⟩, ⟨7, 2, 22, 5, false⟩, ⟨7, 5, 23, 5, false⟩], 2⟩ :=
  ⟨by decide, by decide, by decide⟩

/-- Test on sample values: filtering that list with state nonce 1 keeps 2 (ready) and 5 (orphan). -/
example : ((⟨⟨0, 100⟩, [⟨7, 1, 21, 5, false⟩, ⟨7, 2, 22, 5, false⟩, ⟨7, 5, 23, 5, false⟩], 2⟩ : TxList).filter ⟨1, 100⟩).2.2
    = [⟨7, 1, 21, 5, false⟩] := by decide

/-! ## The pool -/

/-- The empty pool satisfies the invariant. -/
theorem pinv_init : PInv Pool.init := Aergo.Pool.pinv_init

/-- `put` preserves the pool invariant for every submitted transaction (accepted or refused). -/
theorem pinv_put (P : Pool) (tx : Tx) (h : PInv P) : PInv (P.put tx).1 := Aergo.Pool.pinv_put h tx

/-- `removeTx` preserves the pool invariant. For a pooled transaction filed under a verified address (name
sender) nothing is assumed — the list key comes from the pooled transaction (repair ac6d27df). For the others
the sender field `a` of the transaction handed in must be the pooled one's (same hash ⇒ same transaction:
hash identity is a hypothesis, never an axiom). -/
theorem pinv_remove (P : Pool) (a id : Nat) (h : PInv P)
    (hacc : ∀ t ∈ P.cache, t.id = id → t.named = false → t.acc = a) :
    PInv (P.removeTx a id).1 := pinv_removeTx h a id hacc

/-- Block notification (`removeOnBlockArrival`) preserves the pool invariant for every block id, parent,
chain id, dirty set and new account state: advancing, rewinding, unchanged, fork reset. -/
theorem pinv_blockArrival (P : Pool) (new parent chain : Nat) (dirty : List Nat) (σ : Nat → Acct) (h : PInv P) :
    PInv (P.blockArrival new parent chain dirty σ) := Aergo.Pool.pinv_blockArrival h new parent chain dirty σ

/-- Eviction preserves the pool invariant for every set of expired accounts. -/
theorem pinv_evict (P : Pool) (old : List Nat) (h : PInv P) : PInv (P.evict old) := Aergo.Pool.pinv_evict h old

/-- The unconfirmed-transaction report preserves the pool invariant (it may add an empty list). -/
theorem pinv_unconfirmed (P : Pool) (a : Nat) (h : PInv P) : PInv (P.unconfirmed a).1 := Aergo.Pool.pinv_unconfirmed h a

/-- Operations of a pool session. `rm` carries the hash; the account is the one of the pooled
transaction with that hash (what the caller's transaction carries when a hash identifies one transaction). -/
inductive Op
  | put (tx : Tx)
  | rm (id : Nat)
  | block (new parent chain : Nat) (dirty : List Nat) (σ : Nat → Acct)
  | evict (old : List Nat)
  | unconf (a : Nat)

def step (P : Pool) : Op → Pool
  | .put tx => (P.put tx).1
  | .rm id => match P.exist id with
    | some t => (P.removeTx t.acc id).1
    | none => (P.removeTx 0 id).1
  | .block n p c d σ => P.blockArrival n p c d σ
  | .evict old => P.evict old
  | .unconf a => (P.unconfirmed a).1

/-- Every pool reachable from the empty pool by any sequence of submissions, removals, block
notifications, evictions and reports satisfies the invariant. -/
theorem pinv_reachable (ops : List Op) : PInv (ops.foldl step Pool.init) := by
  apply foldl_preserves PInv step _ ops _ Aergo.Pool.pinv_init
  intro P op h
  cases op with
  | put tx => exact Aergo.Pool.pinv_put h tx
  | rm id =>
    simp only [step]
    cases he : P.exist id with
    | none =>
      simp only
      apply pinv_removeTx h
      intro t ht hid _
      unfold Pool.exist at he
      have := List.find?_eq_none.1 he t ht
      simp [hid] at this
    | some t =>
      simp only
      apply pinv_removeTx h
      intro t' ht' hid' _
      unfold Pool.exist at he
      rw [find_id_unique h.ids he ht' hid']
  | block n p c d σ => exact Aergo.Pool.pinv_blockArrival h n p c d σ
  | evict old => exact Aergo.Pool.pinv_evict h old
  | unconf a => exact Aergo.Pool.pinv_unconfirmed h a

/-- Under the invariant the pool never holds two transactions with the same account and nonce, nor
two transactions with the same hash. -/
theorem no_duplicates (P : Pool) (h : PInv P) :
    ((allTxs P.lists).map (·.id)).Nodup ∧
    (∀ t1 t2, t1 ∈ allTxs P.lists → t2 ∈ allTxs P.lists → t1.acc = t2.acc → t1.nonce = t2.nonce → t1 = t2) := by
  refine ⟨(h.cache.map _).nodup_iff.1 h.ids, ?_⟩
  intro t1 t2 h1 h2 hacc hn
  obtain ⟨k1, N1, hk1, hm1⟩ := mem_allTxs.1 h1
  obtain ⟨k2, N2, hk2, hm2⟩ := mem_allTxs.1 h2
  have e1 := (h.lists k1 N1 hk1).2 t1 hm1
  have e2 := (h.lists k2 N2 hk2).2 t2 hm2
  have hk : k1 = k2 := by omega
  subst hk
  have := lookup_of_mem h.keys hk1
  rw [lookup_of_mem h.keys hk2] at this
  injection this with this
  subst this
  have hs := (h.lists k1 N2 hk1).1.sorted
  obtain ⟨i, hi, rfl⟩ := List.mem_iff_getElem.1 hm1
  obtain ⟨j, hj, rfl⟩ := List.mem_iff_getElem.1 hm2
  have := List.pairwise_iff_getElem.1 hs
  by_cases hij : i = j
  · subst hij; rfl
  · by_cases hlt : i < j
    · have := this i j hi hj hlt; omega
    · have := this j i hj hi (by omega); omega

/-- Reported totals equal what is held: `length` is the number of listed transactions and of index
entries, `orphan` is the number held aside; an existence query by hash succeeds exactly for held hashes. -/
theorem counters_exact (P : Pool) (h : PInv P) :
    P.length = ((allTxs P.lists).length : Int) ∧ P.length = (P.cache.length : Int) ∧
    P.orphan = orphans P.lists ∧
    (∀ id, (P.exist id).isSome ↔ ∃ t ∈ allTxs P.lists, t.id = id) := by
  refine ⟨h.length, by rw [h.length, h.cache.length_eq], h.orphan, fun id => ?_⟩
  unfold Pool.exist
  rw [List.find?_isSome]
  constructor
  · rintro ⟨t, ht, hid⟩; exact ⟨t, h.cache.subset ht, by simpa using hid⟩
  · rintro ⟨t, ht, hid⟩; exact ⟨t, h.cache.symm.subset ht, by simpa using hid⟩

/-- What a fetch returns: per account exactly the nonces base+1 … base+ready of that account's list,
ascending, nothing from beyond a gap, only that account's transactions. -/
theorem get_gapfree (P : Pool) (h : PInv P) :
    ∀ a txs, (a, txs) ∈ P.get → ∃ L, (a, L) ∈ P.lists ∧ txs = L.get ∧
      txs.map (·.nonce) = List.range' (L.base.nonce + 1) L.ready ∧ ∀ t ∈ txs, t.acc = a := by
  intro a txs hm
  unfold Pool.get at hm
  obtain ⟨⟨k, L⟩, hkL, he⟩ := List.mem_map.1 hm
  simp only [Prod.mk.injEq] at he
  obtain ⟨rfl, rfl⟩ := he
  obtain ⟨hL, hacc⟩ := h.lists k L hkL
  exact ⟨L, hkL, rfl, get_nonces hL, fun t ht => hacc t (List.mem_of_mem_take ht)⟩

/-- … and when every list is based on the state the pool sees (`BaseOK`), the run offered for
account `a` is state(a)+1, state(a)+2, …: gap-free from the state nonce. -/
theorem get_gapfree_state (P : Pool) (h : PInv P) (hb : BaseOK P) :
    ∀ a txs, (a, txs) ∈ P.get →
      ∃ n, txs.map (·.nonce) = List.range' ((P.state a).nonce + 1) n := by
  intro a txs hm
  obtain ⟨L, hL, _, hn, _⟩ := get_gapfree P h a txs hm
  exact ⟨L.ready, by rw [← hb a L hL]; exact hn⟩

/-! ### Block notifications -/

/-- `setStateDB` asks for the re-check of every list on every path (repair af8aff9a). -/
theorem recheck_all (P : Pool) (new parent chain : Nat) (σ : Nat → Acct) :
    (P.setStateDB new parent chain σ).2.1 = true := by
  unfold Pool.setStateDB
  split
  · split <;> simp
  · rfl

/-- After `removeOnBlockArrival` — for every block id, parent (extension, repetition, first block of a
reorganisation), chain id, dirty set and new account state — every list is based on the state the pool now
sees and holds no nonce at or below that state's nonce: no stale entry, also after a rewind. -/
theorem no_stale_after (P : Pool) (new parent chain : Nat) (dirty : List Nat) (σ : Nat → Acct) (h : PInv P) :
    ∀ a L, (a, L) ∈ (P.blockArrival new parent chain dirty σ).lists →
      L.base = (P.blockArrival new parent chain dirty σ).state a ∧
      ∀ t ∈ L.list, ((P.blockArrival new parent chain dirty σ).state a).nonce < t.nonce := by
  intro a L hL
  have hP' := Aergo.Pool.pinv_blockArrival h new parent chain dirty σ
  have hl := lookup_of_mem hP'.keys hL
  have hS : PInv (P.setStateDB new parent chain σ).1 := pinv_setStateDB h new parent chain σ
  have ha : rechecked (P.setStateDB new parent chain σ).2.1 dirty a = true := by
    simp [rechecked, recheck_all]
  by_cases hf : (P.setStateDB new parent chain σ).2.2 = true
  · simp only [Pool.blockArrival, hf, ↓reduceIte, Pool.resetAll, lookup] at hl
    cases hl
  · simp only [Pool.blockArrival, hf, Bool.false_eq_true, ↓reduceIte] at hl ⊢
    have := fold_fresh (fun k => rechecked (P.setStateDB new parent chain σ).2.1 dirty k)
      (keys (P.setStateDB new parent chain σ).1.lists) _ hS hS.keys a ha
      (by
        by_cases hk : a ∈ keys (P.setStateDB new parent chain σ).1.lists
        · exact Or.inl hk
        · right; intro M hM; rw [lookup_none.2 hk] at hM; cases hM)
    exact this L hl

/-- Hence every notification re-establishes `BaseOK` … -/
theorem baseOK_blockArrival (P : Pool) (new parent chain : Nat) (dirty : List Nat) (σ : Nat → Acct) (h : PInv P) :
    BaseOK (P.blockArrival new parent chain dirty σ) :=
  fun a L hL => (no_stale_after P new parent chain dirty σ h a L hL).1

/-- … and what a producer fetches right after any processed notification is, per account, a gap-free ascending
run starting at that account's nonce in the new state + 1. -/
theorem get_after_notification (P : Pool) (new parent chain : Nat) (dirty : List Nat) (σ : Nat → Acct) (h : PInv P) :
    ∀ a txs, (a, txs) ∈ (P.blockArrival new parent chain dirty σ).get →
      ∃ n, txs.map (·.nonce) = List.range' (((P.blockArrival new parent chain dirty σ).state a).nonce + 1) n :=
  get_gapfree_state _ (Aergo.Pool.pinv_blockArrival h new parent chain dirty σ)
    (baseOK_blockArrival P new parent chain dirty σ h)

/-- Regression witness for finding `C13-reorg-first-block-partial-recheck` (repaired by af8aff9a; test on sample
values). Pool best = block 2; account 7 holds nonce 2 on base nonce 1; the first block of a reorganisation has a
parent ≠ best, does not name account 7 and rewinds its state nonce to 0. Since `recheck_all`, account 7's list
goes through `FilterByState ⟨0, 100⟩`: it is rebased to nonce 0 and nonce 2 is held aside (ready 0). Before the
repair the list was skipped and stayed `base 1, ready 1`: nonce 2 was offered although state+1 = 1 was missing. -/
example : ((⟨⟨1, 95⟩, [⟨7, 2, 40, 5, false⟩], 1⟩ : TxList).filter ⟨0, 100⟩).1 = ⟨⟨0, 100⟩, [⟨7, 2, 40, 5, false⟩], 0⟩ := by
  simp [TxList.filter, filterGo, validate, updateReady_eq_run, run]

/-! ### `BaseOK` and `NoEmpty` -/

/-- Submissions keep every list based on the state the pool sees (a new list is created from it). -/
theorem baseOK_put (P : Pool) (tx : Tx) (h : PInv P) (hb : BaseOK P) : BaseOK (P.put tx).1 := by
  unfold Pool.put
  by_cases hc : cacheHas tx.id P.cache = true
  · simp only [hc, ↓reduceIte]; exact hb
  · have hc' : cacheHas tx.id P.cache = false := by simpa using hc
    simp only [hc', Bool.false_eq_true, ↓reduceIte]
    obtain ⟨hP1, hl, _⟩ := pinv_acquire h tx.acc
    have hb1 : BaseOK (P.acquire tx.acc).1 := baseOK_acquire h hb tx.acc
    have key : BaseOK (match ((P.acquire tx.acc).2.put tx).2 with
        | .error e => ((P.acquire tx.acc).1.release tx.acc, match e with | .low => PutRes.low | .same => PutRes.same)
        | .ok diff =>
          (({ (P.acquire tx.acc).1 with
              lists := setL tx.acc ((P.acquire tx.acc).2.put tx).1 (P.acquire tx.acc).1.lists,
              orphan := (P.acquire tx.acc).1.orphan - diff,
              cache := cacheStore tx (P.acquire tx.acc).1.cache,
              length := (P.acquire tx.acc).1.length + 1 } : Pool).release tx.acc, PutRes.ok)).1 := by
      cases hput : (P.acquire tx.acc).2.put tx with
      | mk L' r =>
        cases r with
        | error e =>
          simp only
          intro a L hL
          rw [(release_fields _ _).2.2.2.1]
          exact hb1 a L (mem_release hL)
        | ok d =>
          simp only
          intro a L hL
          rw [(release_fields _ _).2.2.2.1]
          have hL' := mem_release hL
          rcases mem_setL hL' with ⟨rfl, rfl⟩ | hL''
          · have hLi := (hP1.lists _ _ (lookup_mem hl)).1
            rw [(put_ok hLi hput).2.1]
            exact hb1 _ _ (lookup_mem hl)
          · exact hb1 a L hL''
    rcases validate_cases (P.state tx.acc) tx with ⟨hv, _⟩ | ⟨hv, _⟩ | ⟨hv, _⟩ | ⟨hv, _⟩
    · simp only [hv]; exact hb
    · simp only [hv]; exact hb
    · simp only [hv]; exact key
    · simp only [hv]; exact key

/-- Eviction keeps `BaseOK` (it only deletes lists). -/
theorem baseOK_evict (P : Pool) (old : List Nat) (hb : BaseOK P) : BaseOK (P.evict old) := by
  unfold Pool.evict
  apply foldl_preserves BaseOK _ _ _ _ hb
  intro Q a hQ
  split
  · unfold Pool.evictAcc
    split
    · exact hQ
    · intro b M hM
      have hM : (b, M) ∈ delL a (Q.dropTxs _).lists := hM
      rw [dropTxs_lists] at hM
      show M.base = (Q.dropTxs _).state b
      rw [dropTxs_state]
      exact hQ b M (mem_delL hM).1
  · exact hQ

/-- Removal keeps `BaseOK`. -/
theorem baseOK_remove (P : Pool) (a id : Nat) (h : PInv P) (hb : BaseOK P) : BaseOK (P.removeTx a id).1 := by
  unfold Pool.removeTx
  by_cases hc : cacheHas id P.cache = true
  · simp only [hc, Bool.not_true, Bool.false_eq_true, ↓reduceIte]
    generalize P.removeKey a id = key
    unfold Pool.removeAt
    obtain ⟨hP1, hl, _⟩ := pinv_acquire h key
    have hb1 := baseOK_acquire h hb key
    intro b M hM
    have hM' := mem_release hM
    show M.base = (Pool.release _ key).state b
    rw [(release_fields _ _).2.2.2.1]
    rcases mem_setL hM' with ⟨rfl, rfl⟩ | hM''
    · rw [(remove_spec (hP1.lists _ _ (lookup_mem hl)).1 id).2.1]
      exact hb1 _ _ (lookup_mem hl)
    · exact hb1 b M hM''
  · have hc' : cacheHas id P.cache = false := by simpa using hc
    simp only [hc', Bool.not_false, ↓reduceIte]
    exact hb

/-- The unconfirmed report keeps `BaseOK` (a list it creates is based on the visible state). -/
theorem baseOK_unconfirmed (P : Pool) (a : Nat) (h : PInv P) (hb : BaseOK P) : BaseOK (P.unconfirmed a).1 :=
  baseOK_acquire h hb a

/-- Submissions never leave an empty list behind (accepted or refused). -/
theorem noEmpty_put (P : Pool) (tx : Tx) (h : PInv P) (hn : NoEmpty P) : NoEmpty (P.put tx).1 := by
  unfold Pool.put
  by_cases hc : cacheHas tx.id P.cache = true
  · simp only [hc, ↓reduceIte]; exact hn
  · have hc' : cacheHas tx.id P.cache = false := by simpa using hc
    simp only [hc', Bool.false_eq_true, ↓reduceIte]
    obtain ⟨hP1, hl, hcache, _⟩ := pinv_acquire h tx.acc
    have hfresh : cacheHas tx.id (P.acquire tx.acc).1.cache = false := by rw [hcache]; exact hc'
    have key : NoEmpty (match ((P.acquire tx.acc).2.put tx).2 with
        | .error e => ((P.acquire tx.acc).1.release tx.acc, match e with | .low => PutRes.low | .same => PutRes.same)
        | .ok diff =>
          (({ (P.acquire tx.acc).1 with
              lists := setL tx.acc ((P.acquire tx.acc).2.put tx).1 (P.acquire tx.acc).1.lists,
              orphan := (P.acquire tx.acc).1.orphan - diff,
              cache := cacheStore tx (P.acquire tx.acc).1.cache,
              length := (P.acquire tx.acc).1.length + 1 } : Pool).release tx.acc, PutRes.ok)).1 := by
      cases hput : (P.acquire tx.acc).2.put tx with
      | mk L' r =>
        cases r with
        | error e =>
          simp only
          exact noEmpty_release hP1 _ (fun b M hM hba => hn b M (mem_acquire hM hba))
        | ok d =>
          simp only
          apply noEmpty_release (pinv_put_core hP1 hl hput hfresh)
          intro b M hM hba
          rcases mem_setL hM with ⟨h1, _⟩ | h2
          · exact absurd h1 hba
          · exact hn b M (mem_acquire h2 hba)
    rcases validate_cases (P.state tx.acc) tx with ⟨hv, _⟩ | ⟨hv, _⟩ | ⟨hv, _⟩ | ⟨hv, _⟩
    · simp only [hv]; exact hn
    · simp only [hv]; exact hn
    · simp only [hv]; exact key
    · simp only [hv]; exact key

/-- Block notifications never leave an empty list behind. -/
theorem noEmpty_blockArrival (P : Pool) (new parent chain : Nat) (dirty : List Nat) (σ : Nat → Acct)
    (h : PInv P) (hn : NoEmpty P) : NoEmpty (P.blockArrival new parent chain dirty σ) := by
  unfold Pool.blockArrival
  have hS : PInv (P.setStateDB new parent chain σ).1 ∧ NoEmpty (P.setStateDB new parent chain σ).1 :=
    ⟨pinv_setStateDB h new parent chain σ, by
      intro a L hL; rw [(setStateDB_fields P new parent chain σ).1] at hL; exact hn a L hL⟩
  simp only
  split
  · intro b M hM; simp [Pool.resetAll] at hM
  · refine (foldl_preserves (fun Q => PInv Q ∧ NoEmpty Q) _ ?_ _ _ hS).2
    intro Q a hQ
    split
    · exact ⟨pinv_filterAcc hQ.1 a, noEmpty_filterAcc hQ.1 hQ.2 a⟩
    · exact hQ

/-- Eviction never leaves an empty list behind. -/
theorem noEmpty_evict (P : Pool) (old : List Nat) (hn : NoEmpty P) : NoEmpty (P.evict old) := by
  unfold Pool.evict
  apply foldl_preserves NoEmpty _ _ _ _ hn
  intro Q a hQ
  split
  · exact noEmpty_evictAcc hQ a
  · exact hQ

/-- Sample pool (a test of the definitions, also the non-vacuity witness for the `PInv` hypotheses):
account 7 with ready nonce 1 and orphan nonce 3, account 9 with ready nonce 6 on base 5. -/
def samplePool : Pool :=
  ⟨[(7, ⟨⟨0, 100⟩, [⟨7, 1, 21, 5, false⟩, ⟨7, 3, 22, 5, false⟩], 1⟩), (9, ⟨⟨5, 50⟩, [⟨9, 6, 23, 1, false⟩], 1⟩)],
   [⟨9, 6, 23, 1, false⟩, ⟨7, 3, 22, 5, false⟩, ⟨7, 1, 21, 5, false⟩], 3, 1, 1, 1, fun a => if a = 9 then ⟨5, 50⟩ else ⟨0, 100⟩⟩

example : PInv samplePool := by
  refine ⟨by decide, ?_, by decide, by decide, by decide, by decide⟩
  intro a L h
  simp only [samplePool, List.mem_cons, Prod.mk.injEq, List.not_mem_nil, or_false] at h
  rcases h with ⟨rfl, rfl⟩ | ⟨rfl, rfl⟩
  · exact ⟨⟨by decide, by decide, by decide⟩, by decide⟩
  · exact ⟨⟨by decide, by decide, by decide⟩, by decide⟩

example : BaseOK samplePool := by
  intro a L h
  simp only [samplePool, List.mem_cons, Prod.mk.injEq, List.not_mem_nil, or_false] at h
  rcases h with ⟨rfl, rfl⟩ | ⟨rfl, rfl⟩ <;> rfl

/-- Regression witness for finding `C13-removeTx-named-sender` (repaired in /repo by ac6d27df; test on sample
values): account 7's transaction 21 was sent under a name and filed under the verified address 7. `removeTx` is
handed the bare transaction, whose sender field is the name (model account 100). With the repaired list key the
transaction leaves its list, the index and the counter together. -/
def namedPool : Pool :=
  ⟨[(7, ⟨⟨0, 100⟩, [⟨7, 1, 21, 5, true⟩, ⟨7, 3, 22, 5, false⟩], 1⟩)],
   [⟨7, 3, 22, 5, false⟩, ⟨7, 1, 21, 5, true⟩], 2, 1, 1, 1, fun _ => ⟨0, 100⟩⟩

example : (namedPool.removeTx 100 21).1.lists = [(7, ⟨⟨0, 100⟩, [⟨7, 3, 22, 5, false⟩], 0⟩)] ∧
    (namedPool.removeTx 100 21).1.cache = [⟨7, 3, 22, 5, false⟩] ∧
    (namedPool.removeTx 100 21).1.length = 1 ∧ (namedPool.removeTx 100 21).1.orphan = 1 := by
  refine ⟨?_, by decide, by decide, ?_⟩ <;>
    simp [namedPool, Pool.removeTx, Pool.removeAt, Pool.removeKey, Pool.acquire, Pool.release, cacheHas, cacheDel,
      lookup, setL, TxList.remove, removeFirst, updateReady, extendGo, contAt, nonceAt]

/-- The pre-repair behaviour (list key = the sender field handed in, here 100) is `removeAt 100`: it finds nothing
in the empty list of 100 but still drops the hash from the index and decrements `length` — the invariant breaks
(reported total 1, held 2). This is what the harness saw on the real code before ac6d27df, and why
`pinv_removeAt` needs the list key of the pooled transaction. -/
example : ¬ PInv (namedPool.removeAt 100 21) := by
  intro h
  have := h.length
  revert this
  decide

/-- Test on sample values: the fetch offers 7:[1] (3 is beyond a gap) and 9:[6]. -/
example : samplePool.get.map (fun e => (e.1, e.2.map (·.nonce))) = [(7, [1]), (9, [6])] := by decide

end Aergo.Props.C13
