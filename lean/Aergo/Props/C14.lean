/-
C14 — Admission totality: untrusted transactions never crash a node.

"Validating a transaction received from a client or peer always terminates with accept or a
specific rejection for any byte content of its fields and payload; it never panics. Any
transaction that passes pool admission can be executed in a block by producers and validators
without a crash: it yields a success or error receipt or is skipped."

Quantifier: all transaction bodies — every type, arbitrary and structurally valid-but-unexpected
JSON governance payloads (missing, extra, wrongly typed or null arguments, huge numbers), arbitrary
lengths of account, recipient, amount and price fields, against arbitrary sender states.

Model: `Aergo.Model.Json` (encoding/json into CallInfo, from raw bytes) and `Aergo.Model.Admit`
(`poolAdmit` = mempool verifyTx + validateTx, `execute` = chain executeTx, both with an explicit
`panic site` outcome).  Every theorem below is for *all* environments `e : Env`: all payload byte
strings, all field contents, all results of the library decoders, all sender/contract records.

Status on the pinned tree: the statement is VIOLATED.  Seven sites have no guard (`pinned`); each
is exhibited below by a concrete witness (`decide`), and each was reproduced on the real code by
the harness (notes/C14.md).  What is proved:

 * `admit_panics_only_at_unguarded`, `execute_panics_only_at_unguarded` — for every list `u` of
   still-unguarded sites: a panic can only happen at a site of `u` (under the state invariants
   spelled out as hypotheses).  All the *other* 23 traps of the model — every index, slice and type
   assertion on payload-derived data in the scanned functions — are unreachable.
 * `validate_total_partial`, `execute_total_partial` — the pinned tree (`u = pinned`): a panic is at
   one of the seven known sites.
 * `validate_total_repaired`, `execute_total_repaired` — the tree with the seven proposed repairs
   (`u = []`, notes/C14.md): no panic at all, i.e. the full-strength statement.  The repairs are
   modelled as *added checks* (`fixGuard`); the dangerous operations below them keep their panic
   semantics, so this is a theorem about the repaired code, not a definition.
 * termination: every model function is a total Lean function (structural recursion on lists, or on
   an explicit fuel ≥ 2·len+4 in the JSON parser), so "always terminates" holds by construction.
 * `assert_sites_known` … — tie T: the syntactic inventory regenerated from the source on every
   run equals the table the model was written against.
-/
import Aergo.Lemmas.Admit
import Aergo.Gen.AssertSites

namespace Aergo.Props.C14
open Aergo.Json Aergo.Admit

/-! ### Tie T: the inventory of panic-capable syntax -/

set_option maxRecDepth 100000 in
/-- Every non-comma-ok type assertion, index expression, slice expression and explicit `panic(` that the
extractor finds in the scanned functions of the *current* source is an entry of the model's site
table (same keys, same order).  A new unchecked assertion or index expression breaks this theorem
before any payload is found. -/
theorem assert_sites_known : knownSites.map (·.1) = Aergo.Gen.AssertSites.sites := by rfl

set_option maxRecDepth 100000 in
/-- The functions scanned are the ones the model transcribes (none renamed, none missing). -/
theorem scanned_functions_known : knownScanned = Aergo.Gen.AssertSites.scanned := by rfl

/-- `allSites` lists every constructor of `Site`. -/
theorem allSites_complete (s : Site) : s ∈ allSites := by cases s <;> decide

/-- Every trap of the model is anchored to at least one source expression of the inventory. -/
theorem every_trap_anchored : allSites.all (fun s => knownSites.any (fun k => k.2 == .trap s)) = true := by
  decide +kernel

/-- The sites that are unguarded on the pinned tree are traps of the model (hence anchored). -/
theorem pinned_are_sites : pinned.all (fun s => allSites.contains s) = true := by decide

/-! ### State invariants the theorems assume (each with the site it protects) -/

/-- What the theorems assume about the state and the Go runtime:
 * `admins`  — the stored admin list can be read back in 33-byte steps (site `gAdmins`);
 * `votes`   — the sender's old vote records only name candidates present in the tally (`rSubNil`);
 * `rpc`     — stored RPCPERMISSIONS values contain a `:` (`cRpcSplit`);
 * `cap`     — len ≤ cap for the candidate buffer (`rAddSlice`; a fact of Go slices).
On the pinned tree `admins` and `votes` can be *broken by admitted transactions* (appendAdmin of a
short address; voteBP of a peer id that is not 39 bytes) — that is two of the seven findings. -/
structure StateOk (e : Env) : Prop where
  admins : e.adminsReadable = true
  votes : OldVotesOk e
  rpc : RpcOk e
  cap : CapOk e

/-! ### Main theorems -/

/-- Pool admission (Validate, signature, sender state, stateful governance validation) of any
transaction panics only at a site whose guard is missing. -/
theorem admit_panics_only_at_unguarded (u : List Site) (e : Env)
    (hA : .gAdmins ∈ u ∨ e.adminsReadable = true) (hR : RpcOk e) (s : Site) :
    poolAdmit u e = .panic s → s ∈ u :=
  safe_poolAdmit u e hA hR s

/-- Block execution of any transaction (admitted or not) panics only at a site whose guard is missing. -/
theorem execute_panics_only_at_unguarded (u : List Site) (e : Env)
    (hA : .gAdmins ∈ u ∨ e.adminsReadable = true) (hR : RpcOk e) (hV : OldVotesOk e) (hC : CapOk e) (s : Site) :
    execute u e = .panic s → s ∈ u :=
  safe_execute u e hA hR hV hC s

/- Full statement (property C14), false on the pinned tree:
     validate_total : ∀ e s, StateOk e → poolAdmit pinned e ≠ .panic s
     execute_total  : ∀ e s, StateOk e → poolAdmit pinned e = .ok () → execute pinned e ≠ .panic s
   Missing: the guards of the seven sites of `pinned`.  Proved instead: -/

/-- PARTIAL (pinned tree): admission panics only at one of the known unguarded sites. -/
theorem validate_total_partial (e : Env) (hR : RpcOk e) (s : Site) (h : poolAdmit pinned e = .panic s) :
    s = .tNameUpdTo ∨ s = .tNameOwner0 ∨ s = .vDaoVal ∨ s = .eAdmin0 ∨ s = .eCheckArgs0 ∨ s = .rAddSlice ∨ s = .gAdmins := by
  have := admit_panics_only_at_unguarded pinned e (.inl (by decide)) hR s h
  simpa [pinned] using this

/-- PARTIAL (pinned tree): execution panics only at one of the known unguarded sites. -/
theorem execute_total_partial (e : Env) (hR : RpcOk e) (hV : OldVotesOk e) (hC : CapOk e) (s : Site)
    (h : execute pinned e = .panic s) :
    s = .tNameUpdTo ∨ s = .tNameOwner0 ∨ s = .vDaoVal ∨ s = .eAdmin0 ∨ s = .eCheckArgs0 ∨ s = .rAddSlice ∨ s = .gAdmins := by
  have := execute_panics_only_at_unguarded pinned e (.inl (by decide)) hR hV hC s h
  simpa [pinned] using this

/-- Full strength for the tree with the proposed repairs (`u = []`): admission never panics. -/
theorem validate_total_repaired (e : Env) (h : StateOk e) (s : Site) : poolAdmit [] e ≠ .panic s := by
  intro hp
  have := admit_panics_only_at_unguarded [] e (.inr h.admins) h.rpc s hp
  cases this

/-- Full strength for the tree with the proposed repairs: executing any transaction — in particular
any admitted one — never panics. -/
theorem execute_total_repaired (e : Env) (h : StateOk e) (s : Site) : execute [] e ≠ .panic s := by
  intro hp
  have := execute_panics_only_at_unguarded [] e (.inr h.admins) h.rpc h.votes h.cap s hp
  cases this

/-- Corollary in the property's own shape (repaired tree): admitted ⇒ execution does not panic. -/
theorem admitted_executes_repaired (e : Env) (_ : poolAdmit [] e = .ok ()) (h : StateOk e) (s : Site) :
    execute [] e ≠ .panic s :=
  execute_total_repaired e h s

/-! ### Witnesses: the pinned tree violates the statement (tests by `decide` on concrete inputs;
the same inputs panic in the real code, see notes/C14.md) -/

def wTx (rcpt : Str) (payload : Str) (amount : Nat) : Tx :=
  { chainOk := true, sizeOk := true, hashOk := true, sigOk := true, account := List.replicate 33 2,
    recipient := rcpt, amount := amount, gasPrice := 0, type := 1, payload := payload, nonce := 1 }

/-- A healthy private-network state: the sender staked 10000 aergo long ago, no admins, nothing stored. -/
def wEnv (rcpt : Str) (payload : Str) (amount : Nat) : Env :=
  { tx := wTx rcpt payload amount, isPublic := false, dpos := true, raft := false,
    maxAER := 500000000000000000000000000, forkVersion := 3, blockNo := 200000, stNonce := 0,
    balance := 1000000000000000000000000, staked := 10000000000000000000000, stakeRec := true, stakedWhen := 100,
    stakingMin := 10000000000000000000000, voteRec := [], oldVoteOk := [], voteAmt := [], candCap := 0,
    namePrice := 1000000000000000000, nameOwned := false, acctEqName := false, acctIsOwner := false,
    contractOwned := false, adminsReadable := true, admins := [], adminsEnc := [], senderInAdmins := false,
    confKey := none, confWhite := none, ccPeerOk := false, ccAddrOk := false, ccIdOk := false, argF := [] }

def w1 : Env := wEnv aergoName (str% "{\"Name\":\"v1updateName\",\"Args\":[\"abcdefghijkl\",5]}") 1000000000000000000
def w2 : Env := wEnv aergoName (str% "{\"Name\":\"v1setOwner\",\"Args\":[]}") 0
def w3 : Env := wEnv aergoSystem (str% "{\"Name\":\"v1voteDAO\",\"Args\":[\"BPCOUNT\"]}") 0
def w4 : Env := wEnv aergoEnterprise (str% "{\"Name\":\"appendAdmin\",\"Args\":[1]}") 0
def w5 : Env := wEnv aergoEnterprise (str% "{\"Name\":\"setConf\",\"Args\":[1,\"x\"]}") 0
/-- voteBP for a 22-byte peer id (a sha1 multihash: accepted by base58.Decode and IDFromBytes); Go gives
the 22-byte candidate buffer capacity 24. -/
def w6 : Env := { wEnv aergoSystem (str% "{\"Name\":\"v1voteBP\",\"Args\":[\"5dqt6AG4uYT6UYG9eZveuaurk12esx\"]}") 0 with
  argF := [{ b58 := some 22, pidOk := true }], candCap := 24 }
/-- a second BP vote by an account whose first vote named a 34-byte peer id (stored record misframed). -/
def w7 : Env := { wEnv aergoSystem (str% "{\"Name\":\"v1voteBP\",\"Args\":[\"16Uiu2HAmPZE7gT1hF2bjpg1UVH65xyNUbBVRf3mBFBJpz3tgLGGt\"]}") 0 with
  argF := [{ b58 := some 39, pidOk := true }], candCap := 48, voteRec := [true], oldVoteOk := [false], voteAmt := [5] }
/-- any enterprise transaction once the admin list holds a 3-byte "address". -/
def w8 : Env := { wEnv aergoEnterprise (str% "{\"Name\":\"enableConf\",\"Args\":[\"p2pwhite\",true]}") 0 with adminsReadable := false }

/-- test: `{"Name":"v1updateName","Args":["abcdefghijkl",5]}` panics inside Validate. -/
example : poolAdmit pinned w1 = .panic .tNameUpdTo := by decide +kernel
/-- test: `{"Name":"v1setOwner","Args":[]}` panics inside Validate. -/
example : poolAdmit pinned w2 = .panic .tNameOwner0 := by decide +kernel
/-- test: `{"Name":"v1voteDAO","Args":["BPCOUNT"]}` is admitted and panics in newVoteCmd. -/
example : poolAdmit pinned w3 = .ok () ∧ execute pinned w3 = .panic .vDaoVal := by decide +kernel
/-- test: `{"Name":"appendAdmin","Args":[1]}` panics in ValidateEnterpriseTx (admission). -/
example : poolAdmit pinned w4 = .panic .eAdmin0 := by decide +kernel
/-- test: `{"Name":"setConf","Args":[1,"x"]}` panics in checkArgs (admission). -/
example : poolAdmit pinned w5 = .panic .eCheckArgs0 := by decide +kernel
/-- test: a BP vote for a 22-byte peer id is admitted and panics in AddVote. -/
example : poolAdmit pinned w6 = .ok () ∧ execute pinned w6 = .panic .rAddSlice := by decide +kernel
/-- test: with a misframed old vote record the next vote is admitted and panics in SubVote. -/
example : poolAdmit pinned w7 = .ok () ∧ execute pinned w7 = .panic .rSubNil := by decide +kernel
/-- test: with an unreadable admin list every enterprise transaction panics in getAdmins. -/
example : poolAdmit pinned w8 = .panic .gAdmins := by decide +kernel

/-- The full statement is false on the pinned tree: admission panics on `w1` (a healthy state). -/
theorem validate_total_violated : ¬ ∀ e s, RpcOk e → poolAdmit pinned e ≠ .panic s := by
  intro h
  refine h w1 .tNameUpdTo ?_ (by decide +kernel)
  intro ci a0 c _ _ _ hc
  cases hc

/-- The full statement is false on the pinned tree: `w3` is admitted and its execution panics. -/
theorem execute_total_violated :
    ¬ ∀ e s, poolAdmit pinned e = .ok () → execute pinned e ≠ .panic s := by
  intro h
  exact h w3 .vDaoVal (by decide +kernel) (by decide +kernel)

/-- With the proposed repairs the same inputs are rejected (tests). -/
example : poolAdmit [] w1 = .reject .args ∧ poolAdmit [] w2 = .reject .args ∧ poolAdmit [] w3 = .reject .args
    ∧ poolAdmit [] w4 = .reject .args ∧ poolAdmit [] w5 = .reject .args ∧ poolAdmit [] w6 = .reject .payload := by decide +kernel

/-! ### Non-vacuity: the hypotheses hold on concrete non-trivial environments -/

/-- An admin enabling RPC permissions on a network that stores two permission entries. -/
def wOk : Env := { wEnv aergoEnterprise (str% "{\"Name\":\"enableConf\",\"Args\":[\"rpcpermissions\",true]}") 0 with
  admins := [List.replicate 33 2], adminsEnc := [str% "AmX"], senderInAdmins := true,
  confKey := some { on := false, values := [str% "dGVzdA==:RW", str% "Y2VydA==:R"] },
  voteRec := [true, false, false, false, false], oldVoteOk := [true, true, true, true, true], voteAmt := [7, 0, 0, 0, 0] }

/-- `StateOk` is satisfiable on a state with admins, stored permissions and an old vote. -/
example : StateOk wOk where
  admins := rfl
  votes := by
    intro i _
    match i with
    | 0 | 1 | 2 | 3 | 4 => rfl
    | _ + 5 => rfl
  rpc := by
    intro ci a0 c _ _ _ hc v hv
    have : c = { on := false, values := [str% "dGVzdA==:RW", str% "Y2VydA==:R"] } := by
      have : wOk.confKey = some { on := false, values := [str% "dGVzdA==:RW", str% "Y2VydA==:R"] } := rfl
      rw [this] at hc; cases hc; rfl
    subst this
    simp only [List.mem_cons, List.not_mem_nil, or_false] at hv
    rcases hv with hv | hv <;> subst hv <;> decide
  cap := by
    intro ci hci
    have : unmarshalCallInfo wOk.tx.payload = some ⟨str% "enableConf", [.str (str% "rpcpermissions"), .bool true]⟩ := by
      rfl
    rw [this] at hci; cases hci
    decide

/-- … and there the model accepts and executes the transaction (the theorems are not about an empty set). -/
example : poolAdmit pinned wOk = .ok () ∧ execute pinned wOk = .ok () ∧ poolAdmit [] wOk = .ok () := by decide +kernel

/-- The healthy state of the witnesses satisfies the hypotheses of the partial theorems too. -/
example : RpcOk w3 ∧ OldVotesOk w3 := by
  refine ⟨?_, ?_⟩
  · intro ci a0 c _ _ _ hc; cases hc
  · intro i h
    simp [w3, wEnv] at h

end Aergo.Props.C14
