/-
C14 — Admission totality: untrusted transactions never crash a node.

"Validating a transaction received from a client or peer always terminates with accept or a
specific rejection for any byte content of its fields and payload; it never panics. Any
transaction that passes pool admission can be executed in a block by producers and validators
without a crash: it yields a success or error receipt or is skipped."

Quantifier: all transaction bodies — every type, arbitrary and structurally valid-but-unexpected
JSON governance payloads (missing, extra, wrongly typed or null arguments, huge numbers), arbitrary
lengths of account, recipient, amount and price fields, against arbitrary sender states.

Model: `Aergo.Model.Json` (encoding/json into CallInfo, from raw bytes) and `Aergo.Model.Admit`
(`poolAdmit` = mempool verifyTx + validateTx, `execute` = chain executeTx, both with an explicit
`panic site` outcome).  Every theorem below is for *all* environments `e : Env`: all payload byte
strings, all field contents, all results of the library decoders, all sender/contract records.

History.  The first version of this check found eight ways to crash a node on the then-pinned
tree.  Six guards were added to /repo (fix commits b11917e3, 2586c6fa, 9f771520); the model's
`pinned` list lost those six sites, the harness treats any panic there as a fresh violation.

Status on the current tree:

 * FIRST CLAUSE (admission never panics): holds at FULL strength — `validate_total`.
 * SECOND CLAUSE (an admitted transaction executes without a crash): still VIOLATED at two
   execution-only sites, recorded as known findings (a guard would change which historical voteBP
   transactions validate and needs a hard-fork gate): `rAddSlice` (BP vote for a peer id that is not
   39 bytes) and its consequence `rSubNil`.  Witnesses `w6`, `w7`; `execute_total_violated`;
   `execute_total_partial` (a panic can only be at one of these two); `execute_total_repaired`
   (with the one remaining guard, and the state invariant it establishes, no panic at all).
 * `admit_panics_only_at_unguarded`, `execute_panics_only_at_unguarded` — the general form, for every
   list `u` of unguarded sites; `admit_reaches_only_admission_sites` — the syntactic complement.
   The repairs are modelled as *added checks* (`fixGuard`); the dangerous operations below them keep
   their panic semantics, so totality is proved about the repaired code, not defined.
 * termination: every model function is a total Lean function (structural recursion on lists, or on
   an explicit fuel ≥ 2·len+4 in the JSON parser), so "always terminates" holds by construction.
 * `assert_sites_known` … — tie T: the syntactic inventory regenerated from the source on every
   run equals the table the model was written against.
-/
import Aergo.Lemmas.Admit
import Aergo.Lemmas.AdmitReach
import Aergo.Gen.AssertSites

namespace Aergo.Props.C14
open Aergo.Json Aergo.Admit

/-! ### Tie T: the inventory of panic-capable syntax -/

set_option maxRecDepth 100000 in
/-- Every non-comma-ok type assertion, index expression, slice expression and explicit `panic(` that the
extractor finds in the scanned functions of the *current* source is an entry of the model's site
table (same keys, same order).  A new unchecked assertion or index expression breaks this theorem
before any payload is found. -/
theorem assert_sites_known : knownSites.map (·.1) = Aergo.Gen.AssertSites.sites := by rfl

set_option maxRecDepth 100000 in
/-- The functions scanned are the ones the model transcribes (none renamed, none missing). -/
theorem scanned_functions_known : knownScanned = Aergo.Gen.AssertSites.scanned := by rfl

/-- `allSites` lists every constructor of `Site`. -/
theorem allSites_complete (s : Site) : s ∈ allSites := by cases s <;> decide

/-- Every trap of the model is anchored to at least one source expression of the inventory. -/
theorem every_trap_anchored : allSites.all (fun s => knownSites.any (fun k => k.2 == .trap s)) = true := by
  decide +kernel

/-- The sites that are unguarded on the pinned tree are traps of the model (hence anchored). -/
theorem pinned_are_sites : pinned.all (fun s => allSites.contains s) = true := by decide

/-! ### State invariants the theorems assume (each with the site it protects) -/

/-- What the theorems assume about the state and the Go runtime:
 * `admins`  — the stored admin list can be read back in 33-byte steps (site `gAdmins`); since fix
   2586c6fa only 33-byte addresses are ever appended, so every reachable state satisfies it
   (argued, not machine-checked: the only writer is `setAdmins(append(admins, address))`);
 * `rpc`     — stored RPCPERMISSIONS values contain a `:` (`cRpcSplit`; `checkRPCPermissions` accepts
   nothing else);
 * `cap`     — len ≤ cap for the candidate buffer (`rAddSlice`; a fact of Go slices);
 * `votes`   — the sender's old vote records only name candidates present in the tally (`rSubNil`).
   On the current tree `votes` can still be broken by an admitted transaction (a BP vote for a 34-byte
   peer id): that is the known finding C14-subVote-corrupt-old-vote; the theorems about the pinned
   tree therefore do not assume it. -/
structure StateOk (e : Env) : Prop where
  admins : e.adminsReadable = true
  votes : OldVotesOk e
  rpc : RpcOk e
  cap : CapOk e

/-! ### General form -/

/-- Pool admission (Validate, signature, sender state, stateful governance validation) of any
transaction panics only at a site whose guard is missing. -/
theorem admit_panics_only_at_unguarded (u : List Site) (e : Env)
    (hA : .gAdmins ∈ u ∨ e.adminsReadable = true) (hR : RpcOk e) (s : Site) :
    poolAdmit u e = .panic s → s ∈ u :=
  safe_poolAdmit u e hA hR s

/-- Whatever the guards, pool admission only ever traps at an admission site: the execution-only traps
(`newVoteCmd`, `AddVote`, `SubVote`, `ExecuteNameTx`, `ExecuteEnterpriseTx`) do not occur in it. -/
theorem admit_reaches_only_admission_sites (u : List Site) (e : Env) (s : Site) :
    poolAdmit u e = .panic s → s ∈ admissionSites :=
  reach_poolAdmit u e s

/-- Block execution of any transaction (admitted or not) panics only at a site whose guard is missing. -/
theorem execute_panics_only_at_unguarded (u : List Site) (e : Env)
    (hA : .gAdmins ∈ u ∨ e.adminsReadable = true) (hR : RpcOk e) (hV : .rSubNil ∈ u ∨ OldVotesOk e)
    (hC : CapOk e) (s : Site) :
    execute u e = .panic s → s ∈ u :=
  safe_execute u e hA hR hV hC s

/-! ### The current tree (`pinned` = the two known execution sites) -/

/-- FULL STRENGTH, first clause of C14: on the current tree pool admission of any transaction —
any payload bytes, any field contents, any sender state — never panics. -/
theorem validate_total (e : Env) (hA : e.adminsReadable = true) (hR : RpcOk e) (s : Site) :
    poolAdmit pinned e ≠ .panic s := by
  intro hp
  have h1 := admit_panics_only_at_unguarded pinned e (.inr hA) hR s hp
  have h2 := admit_reaches_only_admission_sites pinned e s hp
  simp only [pinned, List.mem_cons, List.not_mem_nil, or_false] at h1
  rcases h1 with h1 | h1 <;> subst h1 <;> exact absurd h2 (by decide)

/- Full statement of the second clause, false on the current tree:
     execute_total : ∀ e s, StateOk e → poolAdmit pinned e = .ok () → execute pinned e ≠ .panic s
   Missing: the guard of `rAddSlice` (known finding, needs a hard-fork gate).  Proved instead: -/

/-- PARTIAL, second clause: executing any transaction (in particular any admitted one) panics at most
at one of the two known sites.  `OldVotesOk` is *not* assumed (it is what `rSubNil` is about). -/
theorem execute_total_partial (e : Env) (hA : e.adminsReadable = true) (hR : RpcOk e) (hC : CapOk e) (s : Site)
    (h : execute pinned e = .panic s) : s = .rAddSlice ∨ s = .rSubNil := by
  have := execute_panics_only_at_unguarded pinned e (.inr hA) hR (.inl (by decide)) hC s h
  simpa [pinned] using this

/-- With the one remaining guard (BP candidates must be 39 bytes; `u = []`) and the invariant on old
vote records it establishes, execution of any transaction never panics: the full second clause. -/
theorem execute_total_repaired (e : Env) (h : StateOk e) (s : Site) : execute [] e ≠ .panic s := by
  intro hp
  have := execute_panics_only_at_unguarded [] e (.inr h.admins) h.rpc (.inr h.votes) h.cap s hp
  cases this

/-- … and admission stays total with that guard. -/
theorem validate_total_repaired (e : Env) (h : StateOk e) (s : Site) : poolAdmit [] e ≠ .panic s := by
  intro hp
  have := admit_panics_only_at_unguarded [] e (.inr h.admins) h.rpc s hp
  cases this

/-! ### Witnesses (tests by `decide` on concrete inputs; the same inputs were run on the real code,
see notes/C14.md) -/

def wTx (rcpt : Str) (payload : Str) (amount : Nat) : Tx :=
  { chainOk := true, sizeOk := true, hashOk := true, sigOk := true, account := List.replicate 33 2,
    recipient := rcpt, amount := amount, gasPrice := 0, type := 1, payload := payload, nonce := 1 }

/-- A healthy private-network state: the sender staked 10000 aergo long ago, no admins, nothing stored. -/
def wEnv (rcpt : Str) (payload : Str) (amount : Nat) : Env :=
  { tx := wTx rcpt payload amount, isPublic := false, dpos := true, raft := false,
    maxAER := 500000000000000000000000000, forkVersion := 3, blockNo := 200000, stNonce := 0,
    balance := 1000000000000000000000000, staked := 10000000000000000000000, stakeRec := true, stakedWhen := 100,
    stakingMin := 10000000000000000000000, voteRec := [], oldVoteOk := [], voteAmt := [], candCap := 0,
    namePrice := 1000000000000000000, nameOwned := false, acctEqName := false, acctIsOwner := false,
    contractOwned := false, adminsReadable := true, admins := [], adminsEnc := [], senderInAdmins := false,
    confKey := none, confWhite := none, ccPeerOk := false, ccAddrOk := false, ccIdOk := false, argF := [] }

def w1 : Env := wEnv aergoName (str% "{\"Name\":\"v1updateName\",\"Args\":[\"abcdefghijkl\",5]}") 1000000000000000000
def w2 : Env := wEnv aergoName (str% "{\"Name\":\"v1setOwner\",\"Args\":[]}") 0
def w3 : Env := wEnv aergoSystem (str% "{\"Name\":\"v1voteDAO\",\"Args\":[\"BPCOUNT\"]}") 0
def w4 : Env := wEnv aergoEnterprise (str% "{\"Name\":\"appendAdmin\",\"Args\":[1]}") 0
def w5 : Env := wEnv aergoEnterprise (str% "{\"Name\":\"setConf\",\"Args\":[1,\"x\"]}") 0
/-- appendAdmin of a 3-byte "address" (`DecodeAddress` accepts names). -/
def w8 : Env := { wEnv aergoEnterprise (str% "{\"Name\":\"appendAdmin\",\"Args\":[\"abc\"]}") 0 with
  argF := [{ addr := some [97, 98, 99] }] }
/-- voteBP for a 22-byte peer id (a sha1 multihash: accepted by base58.Decode and IDFromBytes); Go gives
the 22-byte candidate buffer capacity 24. -/
def w6 : Env := { wEnv aergoSystem (str% "{\"Name\":\"v1voteBP\",\"Args\":[\"5dqt6AG4uYT6UYG9eZveuaurk12esx\"]}") 0 with
  argF := [{ b58 := some 22, pidOk := true }], candCap := 24 }
/-- a second BP vote by an account whose first vote named a 34-byte peer id (stored record misframed). -/
def w7 : Env := { wEnv aergoSystem (str% "{\"Name\":\"v1voteBP\",\"Args\":[\"16Uiu2HAmPZE7gT1hF2bjpg1UVH65xyNUbBVRf3mBFBJpz3tgLGGt\"]}") 0 with
  argF := [{ b58 := some 39, pidOk := true }], candCap := 48, voteRec := [true], oldVoteOk := [false], voteAmt := [5] }

/-- tests: the six repaired shapes are now *rejected* by admission (they panicked before the fix commits;
`unfixed` below is the tree before them). -/
example : poolAdmit pinned w1 = .reject .args ∧ poolAdmit pinned w2 = .reject .args ∧ poolAdmit pinned w3 = .reject .args
    ∧ poolAdmit pinned w4 = .reject .args ∧ poolAdmit pinned w5 = .reject .args ∧ poolAdmit pinned w8 = .reject .args := by
  decide +kernel

/-- The tree before the six fix commits, for the record. -/
def unfixed : List Site := [.tNameUpdTo, .tNameOwner0, .vDaoVal, .eAdmin0, .eCheckArgs0, .rAddSlice, .gAdmins, .rSubNil]

/-- tests: what the same inputs did before the fixes (w8 was admitted and executed: it wrote a 3-byte admin). -/
example : poolAdmit unfixed w1 = .panic .tNameUpdTo ∧ poolAdmit unfixed w2 = .panic .tNameOwner0
    ∧ (poolAdmit unfixed w3 = .ok () ∧ execute unfixed w3 = .panic .vDaoVal)
    ∧ poolAdmit unfixed w4 = .panic .eAdmin0 ∧ poolAdmit unfixed w5 = .panic .eCheckArgs0
    ∧ (poolAdmit unfixed w8 = .ok () ∧ execute unfixed w8 = .ok ()) := by
  decide +kernel

/-- test (known finding C14-addVote-voteBP-candidate-length): a BP vote for a 22-byte peer id is admitted
and panics in AddVote. -/
example : poolAdmit pinned w6 = .ok () ∧ execute pinned w6 = .panic .rAddSlice := by decide +kernel
/-- test (known finding C14-subVote-corrupt-old-vote): with a misframed old vote record the next vote is
admitted and panics in SubVote. -/
example : poolAdmit pinned w7 = .ok () ∧ execute pinned w7 = .panic .rSubNil := by decide +kernel
def wUnreadable : Env :=
  { wEnv aergoEnterprise (str% "{\"Name\":\"enableConf\",\"Args\":[\"p2pwhite\",true]}") 0 with adminsReadable := false }

/-- test: the admin-list hypothesis of `validate_total` is needed — in a state whose admin list cannot be
read back (unreachable since fix 2586c6fa) every enterprise transaction panics in getAdmins. -/
example : poolAdmit pinned wUnreadable = .panic .gAdmins := by
  decide +kernel

/-- The second clause is false on the current tree: `w6` (a healthy state) is admitted and its
execution panics. -/
theorem execute_total_violated :
    ¬ ∀ e s, poolAdmit pinned e = .ok () → execute pinned e ≠ .panic s := by
  intro h
  exact h w6 .rAddSlice (by decide +kernel) (by decide +kernel)

/-- With the remaining guard `w6` is rejected (test). -/
example : poolAdmit [] w6 = .reject .payload := by decide +kernel

/-! ### Non-vacuity: the hypotheses hold on concrete non-trivial environments -/

/-- An admin enabling RPC permissions on a network that stores two permission entries. -/
def wOk : Env := { wEnv aergoEnterprise (str% "{\"Name\":\"enableConf\",\"Args\":[\"rpcpermissions\",true]}") 0 with
  admins := [List.replicate 33 2], adminsEnc := [str% "AmX"], senderInAdmins := true,
  confKey := some { on := false, values := [str% "dGVzdA==:RW", str% "Y2VydA==:R"] },
  voteRec := [true, false, false, false, false], oldVoteOk := [true, true, true, true, true], voteAmt := [7, 0, 0, 0, 0] }

/-- `StateOk` is satisfiable on a state with admins, stored permissions and an old vote. -/
example : StateOk wOk where
  admins := rfl
  votes := by
    intro i _
    match i with
    | 0 | 1 | 2 | 3 | 4 => rfl
    | _ + 5 => rfl
  rpc := by
    intro ci a0 c _ _ _ hc v hv
    have : c = { on := false, values := [str% "dGVzdA==:RW", str% "Y2VydA==:R"] } := by
      have : wOk.confKey = some { on := false, values := [str% "dGVzdA==:RW", str% "Y2VydA==:R"] } := rfl
      rw [this] at hc; cases hc; rfl
    subst this
    simp only [List.mem_cons, List.not_mem_nil, or_false] at hv
    rcases hv with hv | hv <;> subst hv <;> decide
  cap := by
    intro ci hci
    have : unmarshalCallInfo wOk.tx.payload = some ⟨str% "enableConf", [.str (str% "rpcpermissions"), .bool true]⟩ := by
      rfl
    rw [this] at hci; cases hci
    decide

/-- … and there the model accepts and executes the transaction (the theorems are not about an empty set). -/
example : poolAdmit pinned wOk = .ok () ∧ execute pinned wOk = .ok () ∧ poolAdmit [] wOk = .ok () := by decide +kernel

/-- The healthy state of the witnesses satisfies the hypotheses of the partial theorems too. -/
example : RpcOk w3 ∧ OldVotesOk w3 := by
  refine ⟨?_, ?_⟩
  · intro ci a0 c _ _ _ hc; cases hc
  · intro i h
    simp [w3, wEnv] at h

end Aergo.Props.C14
