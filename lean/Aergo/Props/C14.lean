/-
C14 — Admission totality: untrusted transactions never crash a node.

"Validating a transaction received from a client or peer always terminates with accept or a
specific rejection for any byte content of its fields and payload; it never panics. Any
transaction that passes pool admission can be executed in a block by producers and validators
without a crash: it yields a success or error receipt or is skipped."

Quantifier: all transaction bodies — every type, arbitrary and structurally valid-but-unexpected
JSON governance payloads (missing, extra, wrongly typed or null arguments, huge numbers), arbitrary
lengths of account, recipient, amount and price fields, against arbitrary sender states.

Model: `Aergo.Model.Json` (encoding/json into CallInfo, from raw bytes) and `Aergo.Model.Admit`:
`poolAdmit` = mempool verifyTx + validateTx for EVERY transaction type (sender-state check with the fee
arithmetic of `ValidateMaxFee`, the recipient checks of NORMAL/TRANSFER/CALL/REDEPLOY, DEPLOY, MULTICALL, the
fee-delegation round trip to the chain service, the three governance validators), `execute` = chain executeTx
(governance execution incl. the parameter-vote tally: `SubVote`/`AddVote`, the tally sort `VoteList.Less`,
`Sync`'s `Votes[0]`, `threshold`'s division; for the other types the divisions by the voted gas price), both with
an explicit `panic site` outcome.  Every PARTIAL operation of the model (`idx`, `sliceFrom`, `asStr`, `divNat`,
`divInt`, the typed-reply assertion) names its site; a theorem `Safe u x` says "x panics only at a site whose
guard is missing (∈ u)", so each theorem below is the statement "every partial operation on the path is guarded
by what validation (or a named state invariant) established".  All theorems are for *all* environments
`e : Env`: all payload bytes, all field contents, all results of the library decoders, all sender / contract
records, all tallies, every map iteration order (the tally is an arbitrary list), every gas price ≠ 0.

History.  Round 1 found eight crashes (six repaired: b11917e3, 2586c6fa, 9f771520).  Round 3 (this file)
found `threshold`'s division by zero reachable once STAKINGMIN is voted below 100 aer (repaired f9db0000) and a
panic of the tally sort on a 39-character parameter candidate (repaired 3f9132cd); both are sites of the model
(`rThreshDiv`, `tLessSlice`) with their repair as a guard, `unfixed` lists the tree before the repairs.

Status on the current tree (`pinned` = two known execution-only sites):
 * FIRST CLAUSE (admission never panics), every transaction type: FULL — `validate_total`.
 * SECOND CLAUSE: still violated at `rAddSlice` / `rSubNil` (known findings; hard-fork gate needed):
   `execute_total_violated`, `execute_total_partial`, `execute_total_repaired`; for every type but GOVERNANCE it
   holds in full: `execute_total_other_types`.
 * `less_total`, `sort_total`, `threshold_total`: the two round-3 repairs are sufficient for all inputs.
 * `gasPrice_nonzero_all_histories` + `admitted_vote_candidates_validated`: the invariant the fee divisions rely on,
   over all histories of admitted votes.
 * tie T: `every_open_op_accounted`, `every_site_anchored`, `dispatch_known`, `auto_rules_known`, `conf_codec_known`
   (+ `serializeConf_nonempty`: the decoder's `data[0]` is guarded by what the only writer can store).
-/
import Aergo.Lemmas.Admit
import Aergo.Lemmas.AdmitReach
import Aergo.Gen.PartialOps
import Aergo.Gen.PartialOpsSelf

namespace Aergo.Props.C14
open Aergo.Json Aergo.Admit

/-! ### Tie T: the regenerated inventory of partial operations -/

set_option maxRecDepth 100000 in
/-- Every partial operation (index, slice, unchecked assertion, explicit panic, division, nil-able arithmetic
argument, map write) in a function REACHABLE from the admission / execution entry points of the current source,
which the extractor cannot discharge inside its own function, is an entry of the model's table, with the same
number of occurrences — as a trap carried by the theorems below, or with its stated reason — and the table has no
other entry.  A new unguarded operation anywhere on the path (also in a new helper, a new command, a callee)
breaks this theorem before any payload is found. -/
theorem every_open_op_accounted :
    Aergo.Gen.PartialOps.open_ = openOps.map (fun k => (k.1, k.2.1)) := by rfl

/-- The syntactic discharge rules the extractor used are among the documented ones. -/
theorem auto_rules_known :
    Aergo.Gen.PartialOps.autoRules.all (fun r => ["map", "maplocal", "fullslice", "lenguard", "loopbound", "constdiv", "nilinit",
      "stringer", "sortidx"].contains r) = true := by
  decide

set_option maxRecDepth 100000 in
/-- Every dispatch on a command name, system operation, transaction type or recipient in the reachable code has
exactly the case labels the model branches on: a new command or type is noticed before any payload is found. -/
theorem dispatch_known : Aergo.Gen.PartialOps.dispatch = knownDispatch := by rfl

/-- The functions that write and read an enterprise configuration record are, statement by statement, the ones
`serConf` / `confRead` transcribe (`serializeConf` has a single `return ret` after appending the on/off byte;
`getConf` guards `deserializeConf` with `data == nil` only; `setConf` stores `serializeConf`'s result). -/
theorem conf_codec_known : Aergo.Gen.PartialOps.shapes = knownShapes := by rfl

/-- What `setConf` stores is never empty — so the empty record that would make `deserializeConf`'s `data[0]` panic
(site `cDeser0`; what `SetData(key, nil)` leaves behind after a commit) cannot be written: `ConfRecOk` is an invariant. -/
theorem serializeConf_nonempty (c : Conf) : 1 ≤ (serConf c).length := by
  simp [serConf]

/-- Self-test of the extractor on the synthetic corpus (`corpus/C14`): pairs that only re-express a dispatch
(`if … else if` chain / `switch x` / tag-less `switch`) or move statements into a private single-caller helper give the same
accounted output; pairs that add a label, add an operation or lose a guard while doing so do not. -/
theorem extractor_selftest : Aergo.Gen.PartialOpsSelf.cases.all (fun c => c.2.1 == c.2.2) = true := by decide

/-- `allSites` lists every constructor of `Site`. -/
theorem allSites_complete (s : Site) : s ∈ allSites := by cases s <;> decide

/-- Every trap of the model is anchored to a source expression of the table. -/
theorem every_site_anchored :
    allSites.all (fun s => (openOps ++ guardedInSource).any (fun k => match k.2.2 with | .trap ss => ss.contains s | _ => false)) = true := by
  decide +kernel

/-- The sites that are unguarded on the pinned tree are traps of the model (hence anchored). -/
theorem pinned_are_sites : pinned.all (fun s => allSites.contains s) = true := by decide

/-! ### State invariants the theorems assume (each with the site it protects) -/

/-- What the theorems assume about the state, the Go runtime and the actor system:
 * `admins`   — the stored admin list can be read back in 33-byte steps (`gAdmins`; only 33-byte addresses are
   appended since fix 2586c6fa: argued);
 * `rpc`      — stored RPCPERMISSIONS values contain a `:` (`cRpcSplit`);
 * `cap`      — len ≤ cap for the candidate buffer (`rAddSlice`; a fact of Go slices);
 * `votes`    — the sender's old vote records only name candidates present in the tally (`rSubNil`); can still be
   broken by an admitted transaction on the current tree (known finding), so the pinned-tree theorems do not use it;
 * `daoVotes` — the sender's old parameter-vote record names a candidate (`rSyncTop` on unstake);
 * `gas`      — the voted gas price is not zero (`fCalcGas`; `gasPrice_nonzero_all_histories`);
 * `fd`       — the chain service answers fee-delegation requests with its typed reply or not at all (`pFdRsp`);
 * `conf`     — no enterprise configuration record is stored empty (`cDeser0`; `serializeConf_nonempty` + `conf_codec_known`). -/
structure StateOk (e : Env) : Prop where
  admins : e.adminsReadable = true
  votes : OldVotesOk e
  daoVotes : OldDaoVotesOk e
  rpc : RpcOk e
  cap : CapOk e
  gas : GasPriceOk e
  fd : FdReplyOk e
  conf : ConfRecOk e

/-! ### General form -/

/-- Pool admission (Validate, signature, sender state incl. the maximum-fee arithmetic, the per-type checks, the
stateful governance validation) of any transaction of any type panics only at a site whose guard is missing. -/
theorem admit_panics_only_at_unguarded (u : List Site) (e : Env)
    (hA : .gAdmins ∈ u ∨ e.adminsReadable = true) (hR : RpcOk e)
    (hG : .fCalcGas ∈ u ∨ GasPriceOk e) (hF : .pFdRsp ∈ u ∨ FdReplyOk e) (hK : .cDeser0 ∈ u ∨ ConfRecOk e) (s : Site) :
    poolAdmit u e = .panic s → s ∈ u :=
  safe_poolAdmit u e hA hR hG hF hK s

/-- Whatever the guards, pool admission only ever traps at an admission site: the execution-only traps do not occur in it. -/
theorem admit_reaches_only_admission_sites (u : List Site) (e : Env) (s : Site) :
    poolAdmit u e = .panic s → s ∈ admissionSites :=
  reach_poolAdmit u e s

/-- Block execution of any transaction (admitted or not) panics only at a site whose guard is missing. -/
theorem execute_panics_only_at_unguarded (u : List Site) (e : Env)
    (hA : .gAdmins ∈ u ∨ e.adminsReadable = true) (hR : RpcOk e) (hV : .rSubNil ∈ u ∨ OldVotesOk e)
    (hD : .rSyncTop ∈ u ∨ OldDaoVotesOk e) (hC : CapOk e) (hG : .fCalcGas ∈ u ∨ GasPriceOk e)
    (hK : .cDeser0 ∈ u ∨ ConfRecOk e) (s : Site) :
    execute u e = .panic s → s ∈ u :=
  safe_execute u e hA hR hV hD hC hG hK s

/-! ### The current tree (`pinned` = the two known execution sites) -/

/-- FULL STRENGTH, first clause of C14: on the current tree pool admission of any transaction — any type, any
payload bytes, any field contents, any sender state, any non-zero gas price — never panics. -/
theorem validate_total (e : Env) (hA : e.adminsReadable = true) (hR : RpcOk e) (hG : GasPriceOk e) (hF : FdReplyOk e)
    (hK : ConfRecOk e) (s : Site) : poolAdmit pinned e ≠ .panic s := by
  intro hp
  have h1 := admit_panics_only_at_unguarded pinned e (.inr hA) hR (.inr hG) (.inr hF) (.inr hK) s hp
  have h2 := admit_reaches_only_admission_sites pinned e s hp
  simp only [pinned, List.mem_cons, List.not_mem_nil, or_false] at h1
  rcases h1 with h1 | h1 <;> subst h1 <;> exact absurd h2 (by decide)

/- Full statement of the second clause, false on the current tree:
     execute_total : ∀ e s, StateOk e → poolAdmit pinned e = .ok () → execute pinned e ≠ .panic s
   Missing: the guard of `rAddSlice` (known finding, needs a hard-fork gate).  Proved instead: -/

/-- PARTIAL, second clause: executing any transaction (in particular any admitted one) panics at most
at one of the two known sites.  `OldVotesOk` is *not* assumed (it is what `rSubNil` is about). -/
theorem execute_total_partial (e : Env) (hA : e.adminsReadable = true) (hR : RpcOk e) (hD : OldDaoVotesOk e) (hC : CapOk e)
    (hG : GasPriceOk e) (hK : ConfRecOk e) (s : Site) (h : execute pinned e = .panic s) : s = .rAddSlice ∨ s = .rSubNil := by
  have := execute_panics_only_at_unguarded pinned e (.inr hA) hR (.inl (by decide)) (.inr hD) hC (.inr hG) (.inr hK) s h
  simpa [pinned] using this

/-- FULL, second clause for every type but GOVERNANCE (NORMAL, TRANSFER, CALL, DEPLOY, REDEPLOY, MULTICALL,
FEEDELEGATION): up to the VM (not modelled) execution never panics when the gas price is not zero. -/
theorem execute_total_other_types (e : Env) (ht : e.tx.type ≠ 1) (hG : GasPriceOk e) (s : Site) :
    execute pinned e ≠ .panic s := by
  intro hp
  have hne : ¬ (e.tx.type == 1) = true := by simpa using ht
  have h1 : Safe pinned (execute pinned e) := by
    unfold execute
    apply safe_bind (safe_typesValidate _ _); intro _ _
    apply safe_bind (safe_senderState _ _ _ (.inr hG)); intro _ _
    rw [if_neg hne]
    exact safe_execOther _ _ (.inr hG)
  have h2 : Safe admissionSites (execute pinned e) := by
    unfold execute
    apply safe_bind (reach_typesValidate _ _); intro _ _
    apply safe_bind (reach_senderState _ _); intro _ _
    rw [if_neg hne]
    exact safe_execOther _ _ (.inl (by decide))
  have m1 := h1 s hp
  have m2 := h2 s hp
  simp only [pinned, List.mem_cons, List.not_mem_nil, or_false] at m1
  rcases m1 with m1 | m1 <;> subst m1 <;> exact absurd m2 (by decide)

/-- With the one remaining guard (BP candidates must be 39 bytes; `u = []`) and the invariants, execution of any
transaction never panics: the full second clause. -/
theorem execute_total_repaired (e : Env) (h : StateOk e) (s : Site) : execute [] e ≠ .panic s := by
  intro hp
  have := execute_panics_only_at_unguarded [] e (.inr h.admins) h.rpc (.inr h.votes) (.inr h.daoVotes) h.cap (.inr h.gas) (.inr h.conf) s hp
  cases this

/-- … and admission stays total with that guard. -/
theorem validate_total_repaired (e : Env) (h : StateOk e) (s : Site) : poolAdmit [] e ≠ .panic s := by
  intro hp
  have := admit_panics_only_at_unguarded [] e (.inr h.admins) h.rpc (.inr h.gas) (.inr h.fd) (.inr h.conf) s hp
  cases this

/-! ### The round-3 repairs are sufficient for all inputs -/

/-- `VoteList.Less` (since 3f9132cd) is total on two entries with candidates of ARBITRARY lengths and amounts. -/
theorem less_total (a b : VoteEnt) (s : Site) : voteLess pinned a b ≠ .panic s := by
  intro hp
  have h1 := safe_voteLess pinned a b s hp
  have h2 := only_voteLess pinned a b s hp
  simp only [List.mem_cons, List.not_mem_nil, or_false] at h2
  subst h2
  simp [pinned] at h1

/-- The tally sort is total on every list of entries — every tally, every map iteration order. -/
theorem sort_total (l : List VoteEnt) (s : Site) : sortDesc pinned l ≠ .panic s := by
  intro hp
  have h1 := safe_sortDesc pinned l s hp
  have h2 := only_sortDesc pinned l s hp
  simp only [List.mem_cons, List.not_mem_nil, or_false] at h2
  subst h2
  simp [pinned] at h1

/-- `threshold` (since f9db0000) never divides by zero: for every top tally and staking total. -/
theorem threshold_total (power total : Nat) (s : Site) : threshold pinned power total ≠ .panic s := by
  intro hp
  have h1 := safe_threshold pinned power total s hp
  have h2 := only_threshold pinned power total s hp
  simp only [List.mem_cons, List.not_mem_nil, or_false] at h2
  subst h2
  simp [pinned] at h1

/-! ### The gas price over all histories of parameter votes -/

/-- `validateById` refuses the candidate 0 for every issue. -/
theorem validated_candidate_nonzero (e : Env) (issue : Nat) (c : Int) (h : validateById e issue c = true) : c ≠ 0 := by
  intro hc
  subst hc
  simp [validateById] at h

/-- The parameter state as far as one issue is concerned: the value in force and the candidates of its tally. -/
structure ParamSt where
  value : Int
  cands : List Int

/-- What an admitted parameter vote can do to it: add a (validated) candidate to the tally; and when `Sync` finds
the threshold reached, make SOME candidate of the tally — whichever sorts first — the value in force. -/
inductive ParamStep
  | vote (c : Int)
  | win (i : Nat)

def ParamStep.valid (e : Env) (issue : Nat) : ParamStep → Prop
  | .vote c => validateById e issue c = true
  | .win _ => True

def ParamSt.step (s : ParamSt) : ParamStep → ParamSt
  | .vote c => { s with cands := c :: s.cands }
  | .win i => match s.cands[i]? with
    | some c => { s with value := c }
    | none => s

/-- Over ALL histories of admitted votes and threshold crossings, in any order: starting from a non-zero value (the
defaults: 50 gaer, …) and a tally of validated candidates, the value in force is never zero — the invariant
`GasPriceOk` that the fee divisions (`fCalcGas`) need is preserved by everything admission lets through. -/
theorem gasPrice_nonzero_all_histories (e : Env) (issue : Nat) (s0 : ParamSt) (h0 : s0.value ≠ 0) (hc : ∀ c ∈ s0.cands, c ≠ 0)
    (steps : List ParamStep) (hs : ∀ st ∈ steps, st.valid e issue) : (steps.foldl ParamSt.step s0).value ≠ 0 := by
  induction steps generalizing s0 with
  | nil => exact h0
  | cons st r ih =>
    simp only [List.foldl_cons]
    apply ih
    · cases st with
      | vote c => exact h0
      | win i =>
        simp only [ParamSt.step]
        split
        · rename_i c hci
          exact hc c (List.mem_of_getElem? hci)
        · exact h0
    · cases st with
      | vote c =>
        intro c' hc'
        simp only [ParamSt.step, List.mem_cons] at hc'
        rcases hc' with rfl | hc'
        · exact validated_candidate_nonzero e issue _ (hs (.vote _) (by simp))
        · exact hc c' hc'
      | win i =>
        simp only [ParamSt.step]
        split <;> exact hc
    · intro st' hst'
      exact hs st' (by simp [hst'])

/-- The `vote` steps of that history are exactly what stateful validation lets through: every candidate of a
parameter vote accepted by `system.ValidateSystemTx` is a string that `SetString` parses to a number `validateById`
accepts for the issue (in particular: not zero). -/
theorem admitted_vote_candidates_validated (u : List Site) (e : Env) (c : SysCtx) (h : sysValidate u e = .ok c)
    (hp : c.proposal = true) :
    ∀ v ∈ c.ci.args.drop 1, ∃ s n, v = .str s ∧ parseBigInt s = some n ∧ ParamStep.valid e c.issue (.vote n) :=
  sysValidate_dao_valid h hp

/-! ### Witnesses (tests by `decide` on concrete inputs; the same inputs were run on the real code,
see notes/C14.md) -/

def wTx (rcpt : Str) (payload : Str) (amount : Nat) : Tx :=
  { chainOk := true, sizeOk := true, hashOk := true, sigOk := true, account := List.replicate 33 2,
    recipient := rcpt, amount := amount, gasPrice := 0, type := 1, payload := payload, nonce := 1 }

/-- A healthy private-network state: the sender staked 10000 aergo long ago, no admins, nothing stored. -/
def wEnv (rcpt : Str) (payload : Str) (amount : Nat) : Env :=
  { tx := wTx rcpt payload amount, isPublic := false, dpos := true, raft := false,
    maxAER := 500000000000000000000000000, forkVersion := 3, blockNo := 200000, stNonce := 0,
    balance := 1000000000000000000000000, staked := 10000000000000000000000, stakeRec := true, stakedWhen := 100,
    stakingMin := 10000000000000000000000, voteRec := [], oldVoteOk := [], voteAmt := [], candCap := 0,
    namePrice := 1000000000000000000, nameOwned := false, acctEqName := false, acctIsOwner := false,
    contractOwned := false, adminsReadable := true, admins := [], adminsEnc := [], senderInAdmins := false,
    confKey := none, confWhite := none, ccPeerOk := false, ccAddrOk := false, ccIdOk := false, argF := [] }

def w1 : Env := wEnv aergoName (str% "{\"Name\":\"v1updateName\",\"Args\":[\"abcdefghijkl\",5]}") 1000000000000000000
def w2 : Env := wEnv aergoName (str% "{\"Name\":\"v1setOwner\",\"Args\":[]}") 0
def w3 : Env := wEnv aergoSystem (str% "{\"Name\":\"v1voteDAO\",\"Args\":[\"BPCOUNT\"]}") 0
def w4 : Env := wEnv aergoEnterprise (str% "{\"Name\":\"appendAdmin\",\"Args\":[1]}") 0
def w5 : Env := wEnv aergoEnterprise (str% "{\"Name\":\"setConf\",\"Args\":[1,\"x\"]}") 0
/-- appendAdmin of a 3-byte "address" (`DecodeAddress` accepts names). -/
def w8 : Env := { wEnv aergoEnterprise (str% "{\"Name\":\"appendAdmin\",\"Args\":[\"abc\"]}") 0 with
  argF := [{ addr := some [97, 98, 99] }] }
/-- voteBP for a 22-byte peer id (a sha1 multihash: accepted by base58.Decode and IDFromBytes); Go gives
the 22-byte candidate buffer capacity 24. -/
def w6 : Env := { wEnv aergoSystem (str% "{\"Name\":\"v1voteBP\",\"Args\":[\"5dqt6AG4uYT6UYG9eZveuaurk12esx\"]}") 0 with
  argF := [{ b58 := some 22, pidOk := true }], candCap := 24 }
/-- a second BP vote by an account whose first vote named a 34-byte peer id (stored record misframed). -/
def w7 : Env := { wEnv aergoSystem (str% "{\"Name\":\"v1voteBP\",\"Args\":[\"16Uiu2HAmPZE7gT1hF2bjpg1UVH65xyNUbBVRf3mBFBJpz3tgLGGt\"]}") 0 with
  argF := [{ b58 := some 39, pidOk := true }], candCap := 48, voteRec := [true], oldVoteOk := [false], voteAmt := [5] }
/-- Round 3: a parameter vote by an account that staked 50 aer (possible once STAKINGMIN was voted down): the top
tally is below 100 aer. -/
def w9 : Env := { wEnv aergoSystem (str% "{\"Name\":\"v1voteDAO\",\"Args\":[\"BPCOUNT\",\"3\"]}") 0 with
  staked := 50, stakingMin := 10, stakingTotal := 50, forkVersion := 3 }
/-- Round 3: a parameter vote for a 39-character number while "3" holds the same tally. -/
def w10 : Env := { wEnv aergoSystem (str% "{\"Name\":\"v1voteDAO\",\"Args\":[\"BPCOUNT\",\"000000000000000000000000000000000000005\"]}") 0 with
  tally := [[], [{ cand := [51], amt := 10000000000000000000000 }]], stakingTotal := 20000000000000000000000 }

/-- tests: the six shapes repaired in round 1 are *rejected* by admission. -/
example : poolAdmit pinned w1 = .reject .args ∧ poolAdmit pinned w2 = .reject .args ∧ poolAdmit pinned w3 = .reject .args
    ∧ poolAdmit pinned w4 = .reject .args ∧ poolAdmit pinned w5 = .reject .args ∧ poolAdmit pinned w8 = .reject .args := by
  decide +kernel

/-- The tree before the eight repairs, for the record. -/
def unfixed : List Site := [.tNameUpdTo, .tNameOwner0, .vDaoVal, .eAdmin0, .eCheckArgs0, .rAddSlice, .gAdmins, .rSubNil,
  .rThreshDiv, .tLessSlice]

/-- tests: what the same inputs did before the fixes (w8 was admitted and executed: it wrote a 3-byte admin). -/
example : poolAdmit unfixed w1 = .panic .tNameUpdTo ∧ poolAdmit unfixed w2 = .panic .tNameOwner0
    ∧ (poolAdmit unfixed w3 = .ok () ∧ execute unfixed w3 = .panic .vDaoVal)
    ∧ poolAdmit unfixed w4 = .panic .eAdmin0 ∧ poolAdmit unfixed w5 = .panic .eCheckArgs0
    ∧ (poolAdmit unfixed w8 = .ok () ∧ execute unfixed w8 = .ok ()) := by
  decide +kernel

/-- tests (round 3): `w9` and `w10` are admitted; before f9db0000 / 3f9132cd their execution panicked (for `w10`:
in the iteration order [39-character key, "3"], one of the orders Go's map iteration produces), now it does not. -/
example : poolAdmit pinned w9 = .ok () ∧ execute unfixed w9 = .panic .rThreshDiv ∧ execute pinned w9 = .ok () := by
  decide +kernel
example : poolAdmit pinned w10 = .ok () ∧ execute pinned w10 = .ok () := by decide +kernel
example : voteLess unfixed ⟨List.replicate 38 48 ++ [53], 7⟩ ⟨[51], 7⟩ = .panic .tLessSlice
    ∧ voteLess pinned ⟨List.replicate 38 48 ++ [53], 7⟩ ⟨[51], 7⟩ = .ok true
    ∧ voteLess pinned ⟨[51], 7⟩ ⟨List.replicate 38 48 ++ [53], 7⟩ = .ok false := by decide +kernel
example : sortDesc unfixed [⟨[51], 7⟩, ⟨List.replicate 38 48 ++ [53], 7⟩] = .panic .tLessSlice := by decide +kernel

/-- test (known finding C14-addVote-voteBP-candidate-length): a BP vote for a 22-byte peer id is admitted
and panics in AddVote. -/
example : poolAdmit pinned w6 = .ok () ∧ execute pinned w6 = .panic .rAddSlice := by decide +kernel
/-- test (known finding C14-subVote-corrupt-old-vote): with a misframed old vote record the next vote is
admitted and panics in SubVote. -/
example : poolAdmit pinned w7 = .ok () ∧ execute pinned w7 = .panic .rSubNil := by decide +kernel
def wUnreadable : Env :=
  { wEnv aergoEnterprise (str% "{\"Name\":\"enableConf\",\"Args\":[\"p2pwhite\",true]}") 0 with adminsReadable := false }

/-- test: the admin-list hypothesis of `validate_total` is needed. -/
example : poolAdmit pinned wUnreadable = .panic .gAdmins := by
  decide +kernel

/-- A plain transfer with the fee enabled. -/
def wXfer (gp : Int) : Env := { wEnv (List.replicate 33 3) [] 5 with
  tx := { wTx (List.replicate 33 3) [] 5 with type := 4 }, zeroFee := false, gasPrice := gp }
/-- A fee-delegation call when no chain service is registered at the hub. -/
def wFd : Env := { wEnv (List.replicate 33 3) (str% "{}") 0 with
  tx := { wTx (List.replicate 33 3) (str% "{}") 0 with type := 3 }, rcptBalance := 1000000000000000000000, fdReply := .untyped }

/-- tests: the gas-price and typed-reply hypotheses of `validate_total` are needed (a zero gas price — which no
admitted vote can produce — would make admission of every paid transaction divide by zero). -/
example : poolAdmit pinned (wXfer 0) = .panic .fCalcGas ∧ poolAdmit pinned (wXfer 50000000000) = .ok ()
    ∧ poolAdmit pinned (wXfer (-5)) = .ok () ∧ execute pinned (wXfer 50000000000) = .ok ()
    ∧ poolAdmit pinned wFd = .panic .pFdRsp ∧ poolAdmit pinned { wFd with fdReply := .refused } = .reject .fd := by
  decide +kernel

/-- test: the stored-record hypothesis is needed — were an empty record stored (what seeded change C14-r3-2 makes
`setConf` do for a switched-off conf without values), every later transaction on that key would panic in admission. -/
def wEmptyRec : Env := { wEnv aergoEnterprise (str% "{\"Name\":\"enableConf\",\"Args\":[\"p2pblack\",true]}") 0 with
  confKeyEmpty := true, admins := [List.replicate 33 2], adminsEnc := [str% "AmX"], senderInAdmins := true }
example : poolAdmit pinned wEmptyRec = .panic .cDeser0 := by decide +kernel

/-- The second clause is false on the current tree: `w6` (a healthy state) is admitted and its
execution panics. -/
theorem execute_total_violated :
    ¬ ∀ e s, poolAdmit pinned e = .ok () → execute pinned e ≠ .panic s := by
  intro h
  exact h w6 .rAddSlice (by decide +kernel) (by decide +kernel)

/-- With the remaining guard `w6` is rejected (test). -/
example : poolAdmit [] w6 = .reject .payload := by decide +kernel

/-! ### Non-vacuity: the hypotheses hold on concrete non-trivial environments -/

/-- An admin enabling RPC permissions on a network that stores two permission entries. -/
def wOk : Env := { wEnv aergoEnterprise (str% "{\"Name\":\"enableConf\",\"Args\":[\"rpcpermissions\",true]}") 0 with
  admins := [List.replicate 33 2], adminsEnc := [str% "AmX"], senderInAdmins := true,
  confKey := some { on := false, values := [str% "dGVzdA==:RW", str% "Y2VydA==:R"] },
  voteRec := [true, true, false, false, false], oldVoteOk := [true, true, true, true, true], voteAmt := [7, 7, 0, 0, 0],
  tally := [[], [{ cand := [51], amt := 7, inOld := true }]] }

/-- `StateOk` is satisfiable on a state with admins, stored permissions, an old BP vote and an old parameter vote. -/
example : StateOk wOk where
  admins := rfl
  votes := by
    intro i _
    match i with
    | 0 | 1 | 2 | 3 | 4 => rfl
    | _ + 5 => rfl
  daoVotes := by
    intro i hi hv
    match i with
    | 0 => exact absurd rfl hi
    | 1 => decide
    | 2 | 3 | 4 => simp [wOk, wEnv] at hv
    | _ + 5 => simp [wOk, wEnv] at hv
  rpc := by
    intro ci a0 c _ _ _ hc v hv
    have : c = { on := false, values := [str% "dGVzdA==:RW", str% "Y2VydA==:R"] } := by
      have : wOk.confKey = some { on := false, values := [str% "dGVzdA==:RW", str% "Y2VydA==:R"] } := rfl
      rw [this] at hc; cases hc; rfl
    subst this
    simp only [List.mem_cons, List.not_mem_nil, or_false] at hv
    rcases hv with hv | hv <;> subst hv <;> decide
  cap := by
    intro ci hci
    have : unmarshalCallInfo wOk.tx.payload = some ⟨str% "enableConf", [.str (str% "rpcpermissions"), .bool true]⟩ := by
      rfl
    rw [this] at hci; cases hci
    decide
  gas := by unfold GasPriceOk; decide
  fd := by unfold FdReplyOk; decide
  conf := ⟨rfl, rfl⟩

/-- … and there the model accepts and executes the transaction (the theorems are not about an empty set). -/
example : poolAdmit pinned wOk = .ok () ∧ execute pinned wOk = .ok () ∧ poolAdmit [] wOk = .ok () := by decide +kernel

/-- The healthy state of the witnesses satisfies the hypotheses of the partial theorems too. -/
example : RpcOk w3 ∧ OldVotesOk w3 ∧ OldDaoVotesOk w3 ∧ GasPriceOk w3 ∧ FdReplyOk w3 := by
  refine ⟨?_, ?_, ?_, by unfold GasPriceOk; decide, by unfold FdReplyOk; decide⟩
  · intro ci a0 c _ _ _ hc; cases hc
  · intro i h
    simp [w3, wEnv] at h
  · intro i _ h
    simp [w3, wEnv] at h

end Aergo.Props.C14
