/-
C15 — Governance accounting: stakes, votes, rankings and names stay consistent.

"At every block boundary the recorded total stake equals the sum of all individual stakes and the balance
held by the staking system account; each candidate's tally equals the sum of the voting amounts recorded for
the accounts currently voting for it, and no account's recorded voting amount exceeds its current stake; the
producer ranking is the tally order under a fixed total tie-break; and the in-memory voting-power ranking
equals the one rebuilt from persisted state. Staking, unstaking and re-voting are refused within the lock
period and below the minimum stake, unstaking returns exactly the requested amount, and a name is bound to
at most one owner, created only for the price and changed only by its owner."

Quantifier: all sequences of stake, unstake, producer vote, parameter vote, name create/update and plain
transfers by several accounts over block heights that straddle the lock periods.

The theorems are about `Aergo.Model.Gov` (transcription of contract/system/*.go, contract/name/*.go,
types/vote.go; tied to the source by the correspondence run of harness/c15 against `model-c15`). They hold
after *every operation* (a fortiori at every block boundary), for every operation sequence of any length,
any number of accounts, candidates and names, any heights and amounts. Clause by clause:

* total = Σ stakes = balance of aergo.system ............ `ginv_preserved_partial`, `total_eq_sum_stakes`,
                                                          `system_balance_eq_total_partial`
    guard: no plain transfer (or name payment) credits the staking account — the pinned code executes such a
    transfer (finding C15-transfer-to-system-account): `transfer_to_system_breaks_balance`
* tally = Σ recorded voting amounts; amount ≤ stake ..... `tally_eq_sum_votes_partial`, `vote_le_stake`
    guard (built into the model): a voteBP whose candidate bytes are not a multiple of 39 is not executed by
    the model (`voteBP_misaligned`); the pinned code executes it and mis-frames the record (finding
    C15-votebp-candidate-not-39-bytes): `vote_codec_breaks_on_38_bytes`
* ranking = tallies under a strict total order ........... `less_strict_total_bp`, `less_strict_total_param`,
                                                          `ranking_is_permutation`, `ranking_sorted`,
                                                          `ranking_independent_of_map_order`, `bp_ranking_strict`
    (full strength since repair 1c75543b of VoteList.Less; the pre-repair tie is `less_tie_before_repair`)
    what consensus consumes (GetRankers, getVoteResult(n)): `rankers_are_top`
* voting-power rank: memory = reload, total = Σ ......... `vpr_memory_eq_reload`, `vpr_total_eq_sum`,
                                                          `vpr_power_eq_votes`
    at node level (model `Aergo.Model.GovNode`: blocks that are connected, fail, are abandoned, reorganisations,
    restarts; memory = rank *and* parameter table): `node_memory_eq_state_partial`, `failed_block_restores_memory`,
    `reorg_restores_memory`, `node_genesis_clean`
    guard: no block is connected on top of an abandoned own block before the memory was reloaded — the pinned
    code reloads nothing when the node's own block is not connected (finding
    C15-stale-own-block-leaves-memory-dirty): `stale_block_breaks_memory`; the two reorganisation defects this
    check found were repaired (01aa461f), pre-repair witness `reorg_old_params_before_repair`
* lock periods and minimum stake ......................... `stake_rule`, `stake_locked_iff`, `unstake_rule`,
                                                          `unstake_accepted`, `vote_rule`, `lock_restarts`,
                                                          `refused_unchanged`, `threshold_total`
    against the history (independent specification): `when_eq_last_action`, `lock_period_by_history`
* unstaking returns exactly the amount ................... `unstake_exact`, `unstake_never_insufficient`
* names .................................................. `name_unique`, `name_unique_reachable`, `name_create_rule`,
                                                          `name_update_rule`, `name_others_unchanged`
* record codecs (support) ................................ `staking_codec`, `vote_codec`, `voteEx_codec`,
                                                          `nameMap_codec`, `votingPower_codec`, `voteList_codec`,
                                                          `bucket_codec`

Not carried by a theorem (see notes/C15.md): that the *persisted* parameter-vote ranking never mixes
39-character and shorter candidate strings (then `Less` is not an order, and `Candidate[7:]` can panic);
`vpr.lowest`; the two hard-coded account-id exceptions of addVpr/subVpr; uint64 wrap of `when + delay`.
-/
import Aergo.Lemmas.GovCand
import Aergo.Lemmas.GovCodec
import Aergo.Lemmas.GovNode
import Aergo.Lemmas.GovHist

namespace Aergo.Props.C15
open Aergo.Gov

/-! ### The invariant and its preservation -/

/-- The governance invariant. -/
structure GInv (s : St) : Prop where
  total : InvTotal s
  sys : InvSys s
  votes : InvVotes s
  vpr : InvVpr s
  cand : InvCand s

/-- A genesis state: nothing staked, no vote, an empty voting-power rank, nothing held by the staking account, distinct
account ids; the tallies are those `chain.InitGenesisBPs` writes for a DPoS genesis — one entry per genesis block
producer (a 39-byte peer id, each listed once) with amount 0 — or none at all. Balances, parameters and names are
arbitrary. -/
structure Genesis (s : St) : Prop where
  stakes : s.stakes = []
  total : s.total = 0
  sysBal : s.balOf sysAddr = 0
  votes : s.votes = []
  tallyZero : ∀ e ∈ s.tally, e.2 = 0 ∧ e.1.1 = .bp ∧ e.1.2.length = 39
  tallyNodup : s.tally.keys.Nodup
  vpr : s.vpr = Vpr.empty
  vprDisk : s.vprDisk = []
  nameOwner : s.names.get nameAddr = none
  idsDistinct : ∀ a b id, s.accts.get a = some id → s.accts.get b = some id → a = b

/-- Distinct account ids in the table (the real ids are SHA-256 values of the addresses). -/
theorem idsDistinct_of_nodup {accts : AMap Bytes Bytes} (hn : (accts.map (·.2)).Nodup) :
    ∀ a b id, accts.get a = some id → accts.get b = some id → a = b := by
  have key : ∀ (l : AMap Bytes Bytes), (l.map (·.2)).Nodup → ∀ a b id, (a, id) ∈ l → (b, id) ∈ l → a = b := by
    intro l
    induction l with
    | nil => intro _ _ _ _ h; simp at h
    | cons x t iht =>
      intro hnd a b id h1 h2
      simp only [List.map_cons, List.nodup_cons] at hnd
      rcases List.mem_cons.mp h1 with e1 | h1'
      · rcases List.mem_cons.mp h2 with e2 | h2'
        · have e := e1.trans e2.symm
          injection e
        · exact absurd (List.mem_map.mpr ⟨(b, id), h2', rfl⟩) (by rw [← e1] at hnd; exact hnd.1)
      · rcases List.mem_cons.mp h2 with e2 | h2'
        · exact absurd (List.mem_map.mpr ⟨(a, id), h1', rfl⟩) (by rw [← e2] at hnd; exact hnd.1)
        · exact iht hnd.2 a b id h1' h2'
  intro a b id ha hb
  exact key accts hn a b id (AMap.mem_of_get ha) (AMap.mem_of_get hb)

/-- test: a genesis state with two funded accounts exists. -/
example : Genesis { St.init 2 with accts := [([2, 1], [7]), ([3, 1], [9])], bal := [([2, 1], 5), ([3, 1], 6)] } :=
  ⟨rfl, rfl, by decide, rfl, by decide, by decide, rfl, rfl, by decide, idsDistinct_of_nodup (by decide)⟩

/-- test: a DPoS genesis as `chain.InitGenesisBPs` leaves it — zero tallies for three genesis producers. -/
example :
    let bp (x : UInt8) : Bytes := [0, 0x25, 8, 2, 0x12, 0x21, 2] ++ List.replicate 32 x
    Genesis { genesisWith 5 [bp 1, bp 2, bp 3] with accts := [([2, 1], [7])], bal := [([2, 1], 5)] } :=
  ⟨rfl, rfl, by decide, rfl, by decide, by decide, rfl, rfl, by decide, idsDistinct_of_nodup (by decide)⟩

theorem ginv_genesis {s : St} (h : Genesis s) : GInv s := by
  refine ⟨⟨?_, ?_⟩, ⟨?_, ?_⟩, ⟨⟨?_, ?_, ?_⟩, ?_⟩, ⟨?_, ?_, ?_, ?_, h.idsDistinct, ?_⟩,
    ⟨fun e he _ => (h.tallyZero e he).2.2, by rw [h.votes]; intro e he; exact absurd he (by simp)⟩⟩
  · rw [h.stakes]; exact List.nodup_nil
  · rw [h.total, h.stakes]; rfl
  · rw [h.sysBal, h.total]
  · unfold St.nameState; rw [h.nameOwner]; exact nameAddr_ne_sys
  · rw [h.votes]; exact List.nodup_nil
  · exact h.tallyNodup
  · intro k
    rw [h.votes]
    show tget s.tally k = 0
    unfold tget
    cases hg : s.tally.get k with
    | none => rfl
    | some x => exact (h.tallyZero (k, x) (AMap.mem_of_get hg)).1
  · intro i a v hv; rw [h.votes] at hv; exact absurd hv (by simp)
  · rw [h.vpr, h.vprDisk]; exact vprOk_empty
  · rw [h.vpr]; exact List.nodup_nil
  · rw [h.vpr]; intro e he; exact absurd he (by simp [Vpr.empty])
  · intro _ a id _
    rw [h.vpr, h.votes]; rfl
  · intro i a v hv; rw [h.votes] at hv; exact absurd hv (by simp)

/-- One operation preserves the invariant, for every operation, argument and height — under the guards
`Op.guard` (nothing but staking credits/debits the staking account) and `Op.declared` (voters have an
account id). -/
theorem ginv_step {s : St} {o : Op} (h : GInv s) (hg : o.guard) (hd : o.declared s) : GInv (step s o).2 :=
  ⟨invTotal_step h.total, invSys_step h.total h.sys hg, invVotes_step h.votes, invVpr_step h.vpr hd,
   invCand_step h.cand⟩

/-- Operation sequences whose every operation satisfies the two guards (the account table is fixed). -/
def Admissible (s : St) (ops : List Op) : Prop := ∀ o ∈ ops, o.guard ∧ o.declared s

/-- The full statement — `GInv (runOps s ops)` for *every* operation sequence — is false on the pinned code
(`transfer_to_system_breaks_balance`). Proved: for every admissible sequence, by induction on the sequence. -/
theorem ginv_preserved_partial : ∀ (ops : List Op) (s : St), GInv s → Admissible s ops → GInv (runOps s ops)
  | [], _, h, _ => h
  | o :: ops, s, h, ha => by
    have ho := ha o List.mem_cons_self
    have h1 := ginv_step h ho.1 ho.2
    apply ginv_preserved_partial ops _ h1
    intro o' ho'
    have := ha o' (List.mem_cons_of_mem _ ho')
    exact ⟨this.1, declared_mono (step_accts s o).1 o' this.2⟩

/-- test (non-vacuity): a history with two accounts that stake, vote for overlapping candidate sets, one of
them unstakes partially after the delay (its votes shrink), across a block boundary and a restart, is admissible
from a genesis state, and every operation in it is executed (`ok`). -/
example :
    let a : Bytes := [2, 1]
    let b : Bytes := [3, 1]
    let c1 : Bytes := List.replicate 39 1
    let c2 : Bytes := List.replicate 39 2
    let s0 : St := { St.init 2 with accts := [(a, [7]), (b, [9])], bal := [(a, 50000 * aergo), (b, 50000 * aergo)] }
    let ops : List Op := [.stake a 1 (30000 * aergo), .stake b 1 (20000 * aergo), .voteBP a 2 [c1, c2], .voteBP b 2 [c2],
      .endBlock, .unstake a 86402 (10000 * aergo), .restart, .endBlock]
    Genesis s0 ∧ Admissible s0 ops ∧
    (ops.foldl (fun (acc : St × Bool) o => ((step acc.1 o).2, acc.2 && decide ((step acc.1 o).1 = .ok))) (s0, true)).2 = true := by
  refine ⟨⟨rfl, rfl, by decide, rfl, by decide, by decide, rfl, rfl, by decide, idsDistinct_of_nodup (by decide)⟩, ?_, by decide⟩
  intro o ho
  simp only [List.mem_cons, List.not_mem_nil, or_false] at ho
  rcases ho with rfl | rfl | rfl | rfl | rfl | rfl | rfl | rfl <;>
    exact ⟨by simp only [Op.guard] <;> first | trivial | decide, by simp only [Op.declared] <;> first | trivial | decide⟩

/-! ### Clause 1: total = Σ stakes = balance of the staking account -/

/-- The recorded total equals the sum of all staking records (no guard needed). -/
theorem total_eq_sum_stakes {s : St} (h : GInv s) : s.total = stakeSum s.stakes := h.total.total

/-- … and the balance of `aergo.system` (along admissible histories). -/
theorem system_balance_eq_total_partial {s : St} (ops : List Op) (h : GInv s) (ha : Admissible s ops) :
    (runOps s ops).balOf sysAddr = (runOps s ops).total ∧ (runOps s ops).total = stakeSum (runOps s ops).stakes :=
  let g := ginv_preserved_partial ops s h ha
  ⟨g.sys.sys, g.total.total⟩

/-- Negation of the unguarded statement, concrete witness (finding C15-transfer-to-system-account): after a
plain transfer of 7 to `aergo.system` the staking account holds 7 while nothing is staked. The real
`executeTx` executes this transfer with a SUCCESS receipt (harness session `scripted:transfer-to-system`). -/
theorem transfer_to_system_breaks_balance :
    let s0 : St := { St.init 2 with accts := [([2, 1], [7])], bal := [([2, 1], 100)] }
    let s1 := (step s0 (.transfer [2, 1] sysAddr 7)).2
    Genesis s0 ∧ s1.balOf sysAddr = 7 ∧ s1.total = 0 ∧ ¬ InvSys s1 := by
  refine ⟨⟨rfl, rfl, by decide, rfl, by decide, by decide, rfl, rfl, by decide, idsDistinct_of_nodup (by decide)⟩, by decide, by decide, ?_⟩
  · intro h
    have := h.sys
    revert this
    decide

/-! ### Clause 2: tally = Σ votes, vote ≤ stake -/

/-- Every tally entry equals the sum, over the accounts whose recorded vote names the candidate, of their
recorded voting amounts (`contrib` counts a candidate named twice in one vote twice, as AddVote does; the
admission rules refuse duplicates). `_partial`: holds for the operations the model executes — see
`voteBP_misaligned`. -/
theorem tally_eq_sum_votes_partial {s : St} (h : GInv s) (i : Issue) (c : Bytes) :
    tget s.tally (i, c) = voteSum s.votes (i, c) := h.votes.tally.2.2 (i, c)

/-- `voteSum` spelled out: Σ over the vote records of the issue of amount × multiplicity of the candidate. -/
theorem voteSum_def (votes : AMap (Issue × Bytes) Vote) (i : Issue) (c : Bytes) :
    voteSum votes (i, c) = ((votes.map fun e => if e.1.1 = i then e.2.amount * e.2.cands.count c else 0).sum) := by
  unfold voteSum AMap.sum contrib
  congr 1
  apply List.map_congr_left
  intro e _
  by_cases h : e.1.1 = i
  · simp [h]
  · have : ¬ i = e.1.1 := fun e' => h e'.symm
    simp [h, this]

/-- No recorded voting amount exceeds the voter's current stake. -/
theorem vote_le_stake {s : St} (h : GInv s) (i : Issue) (a : Bytes) (v : Vote) (hv : s.votes.get (i, a) = some v) :
    v.amount ≤ s.stakedAmount a := h.votes.le i a v hv

/-- The model does not execute a producer vote whose candidate bytes are not a multiple of 39. -/
theorem voteBP_misaligned (s : St) (a : Bytes) (h : Nat) (cs : List Bytes) (hm : cs.flatten.length % 39 ≠ 0) :
    voteBP s a h cs = (.misaligned, s) := by
  unfold voteBP; simp only; rw [if_pos hm]

/-- Why: the vote record has no framing. With a 38-byte candidate (a valid ed25519 peer id, admitted by
types.ValidateSystemTx) and a 10-byte amount the decoder (`len % 39`) returns a 39-byte "candidate" that
swallows the first amount byte, and a 9-byte amount — concrete witness of finding
C15-votebp-candidate-not-39-bytes. -/
theorem vote_codec_breaks_on_38_bytes :
    let c : Bytes := List.replicate 38 0x77
    let a : Bytes := [2, 30, 25, 224, 201, 186, 178, 64, 0, 0]   -- 10000 aergo
    deserVote (serVote c a) = (c ++ [2], [30, 25, 224, 201, 186, 178, 64, 0, 0]) ∧ deserVote (serVote c a) ≠ (c, a) := by
  decide

/-! ### Clause 3: the ranking is the tally order under a strict total order -/

/-- On block-producer tallies (all candidates 39 bytes) `VoteList.Less` is a strict total order:
irreflexive, asymmetric, transitive, and any two different entries are ordered. -/
theorem less_strict_total_bp : GoodOrder Is39 := good39

/-- The same on parameter tallies whose candidates are not 39 characters long. -/
theorem less_strict_total_param : GoodOrder Not39 := goodNot39

/-- test: the two candidates that tied before repair 1c75543b (same bytes from index 7 on, parity byte 02/03
at index 6, equal tallies) are ordered now. -/
example :
    let x : Bytes := List.replicate 32 0x55
    let a : Entry := ([0, 0x25, 8, 2, 0x12, 0x21, 2] ++ x, 5)
    let b : Entry := ([0, 0x25, 8, 2, 0x12, 0x21, 3] ++ x, 5)
    less a b = false ∧ less b a = true := by decide

/-- The pre-repair comparison (integer keys only) left them unordered in both directions: the ranking then
depended on Go's map iteration order (DESIGN §5 lead 4, repaired by 1c75543b). -/
theorem less_tie_before_repair :
    let lessOld : Entry → Entry → Bool := fun a b =>
      if a.2 < b.2 then true else if a.2 = b.2 then
        (if a.1.length = 39 then decide (beNat (a.1.drop 7) > beNat (b.1.drop 7)) else decide (beNat a.1 > beNat b.1))
      else false
    let x : Bytes := List.replicate 32 0x55
    let a : Entry := ([0, 0x25, 8, 2, 0x12, 0x21, 2] ++ x, 5)
    let b : Entry := ([0, 0x25, 8, 2, 0x12, 0x21, 3] ++ x, 5)
    a ≠ b ∧ lessOld a b = false ∧ lessOld b a = false := by decide

/-- The persisted ranking is a rearrangement of the tally entries. -/
theorem ranking_is_permutation (l : List Entry) : (rankSort l).Perm l := rankSort_perm l

/-- … in which no entry is `Less` than a later one. -/
theorem ranking_sorted {P : Entry → Prop} (g : GoodOrder P) (l : List Entry) (hP : ∀ e ∈ l, P e) :
    (rankSort l).Pairwise rankOk := rankSort_sorted g l hP

/-- … and it does not depend on the order in which Go's map iteration delivers the entries: any two
iteration orders `l₁`, `l₂` of the same tally give the same ranking, and any sorted arrangement whatsoever
(whatever sort.Sort does) is that ranking. -/
theorem ranking_independent_of_map_order {P : Entry → Prop} (g : GoodOrder P) (l₁ l₂ : List Entry)
    (hP : ∀ e ∈ l₁, P e) (hp : l₁.Perm l₂) :
    rankSort l₁ = rankSort l₂ ∧
    ∀ r : List Entry, r.Perm l₁ → r.Pairwise rankOk → r = rankSort l₁ := by
  have hP₂ : ∀ e ∈ l₂, P e := fun e he => hP e (hp.symm.subset he)
  refine ⟨?_, fun r hr hs => ?_⟩
  · apply sorted_unique g _ _ (fun e he => hP e ((rankSort_perm l₁).subset he))
      (((rankSort_perm l₁).trans hp).trans (rankSort_perm l₂).symm) (rankSort_sorted g l₁ hP) (rankSort_sorted g l₂ hP₂)
  · exact sorted_unique g _ _ (fun e he => hP e (hr.subset he)) (hr.trans (rankSort_perm l₁).symm) hs
      (rankSort_sorted g l₁ hP)

/-- In every reachable state the persisted block-producer ranking is *strictly* ordered — every entry is
`Less` than every entry before it, no two are tied — and is the same whatever order the map iteration
delivered the tallies in: all its candidates are 39 bytes long and pairwise different. -/
theorem bp_ranking_strict {s : St} (h : GInv s) :
    (rankOf s.tally .bp).Pairwise (fun x y => less y x = true) ∧
    ∀ l : List Entry, l.Perm (entriesOf s.tally .bp) → rankSort l = rankOf s.tally .bp := by
  obtain ⟨h39, hnd⟩ := bp_entries h.cand h.votes.tally.2.1
  have hperm := rankSort_perm (entriesOf s.tally .bp)
  have h39r : ∀ e ∈ rankOf s.tally .bp, Is39 e := fun e he => h39 e (hperm.subset he)
  have hsorted : (rankOf s.tally .bp).Pairwise rankOk := rankSort_sorted good39 _ h39
  have hndr : (rankOf s.tally .bp).Nodup := by
    have : ((rankOf s.tally .bp).map (·.1)).Nodup := ((hperm.map (·.1)).nodup_iff).mpr hnd
    exact List.Pairwise.of_map (·.1) (fun a b hab e => hab (by rw [e])) this
  refine ⟨?_, fun l hl => ?_⟩
  · have hne : (rankOf s.tally .bp).Pairwise (· ≠ ·) := hndr
    refine (hsorted.and hne).imp_of_mem ?_
    intro x y hx hy hxy
    rcases good39.total x y (h39r x hx) (h39r y hy) hxy.2 with hl | hl
    · have := hxy.1; rw [rankOk] at this; rw [this] at hl; exact absurd hl (by simp)
    · exact hl
  · exact (ranking_independent_of_map_order good39 l _ (fun e he => h39 e (hl.subset he)) hl).1

/-- test: three producer entries, two iteration orders, one ranking (descending amount, then the tie-break). -/
example :
    let c (p x : UInt8) : Bytes := [0, 0x25, 8, 2, 0x12, 0x21, p] ++ List.replicate 32 x
    rankSort [(c 2 1, 5), (c 3 1, 5), (c 2 9, 7)] = rankSort [(c 2 9, 7), (c 3 1, 5), (c 2 1, 5)] ∧
    rankSort [(c 2 1, 5), (c 3 1, 5), (c 2 9, 7)] = [(c 2 9, 7), (c 2 1, 5), (c 3 1, 5)] := by decide

/-! ### Clause 4: voting-power rank, memory = reload -/

/-- The live rank equals the rank `loadVpr` rebuilds from the persisted buckets: same voters with the same
address and power, same buckets in the same order, same total power. -/
theorem vpr_memory_eq_reload {s : St} (h : GInv s) : VprEq (loadVpr s.vprDisk) s.vpr := vprOk_reload h.vpr.ok

/-- totalPower is the sum of the powers of the bucket entries, every entry is a voter of the `powers` map
with a positive power, and every voter of the map is the entry of its bucket. -/
theorem vpr_total_eq_sum {s : St} (h : GInv s) :
    s.vpr.total = bucketsTotal s.vpr.buckets ∧
    (∀ i e, e ∈ getBucket s.vpr.buckets i → s.vpr.powers.get e.id = some e ∧ 0 < e.power) ∧
    (∀ id p, s.vpr.powers.get id = some p → p ∈ getBucket s.vpr.buckets (bucketIdx id)) := by
  refine ⟨h.vpr.ok.total, fun i e he => ?_, fun id p hp => ?_⟩
  · have hw := h.vpr.ok.wf i
    have hidx := (hw.1 e he).1
    refine ⟨?_, (hw.1 e he).2⟩
    rw [h.vpr.ok.powers e.id, hidx]
    exact findId_of_mem hw.2 he
  · rw [h.vpr.ok.powers id] at hp
    exact (findId_some hp).1

/-- From hard fork 2 on, a declared account's voting power is the sum of its recorded voting amounts over
the five issues (this is what keeps every power non-negative, hence the persisted bytes faithful). -/
theorem vpr_power_eq_votes {s : St} (h : GInv s) (hfv : 2 ≤ s.fv) (a id : Bytes) (ha : s.accts.get a = some id) :
    powerOf s.vpr id = votePower s.votes a := h.vpr.link hfv a id ha

/-! ### Clause 5: lock periods and minimum stake -/

/-- Staking: the result is decided by three tests in this order — balance, lock period, minimum — and is
`ok` exactly when all pass. -/
theorem stake_rule (s : St) (a : Bytes) (h amt : Nat) :
    (stake s a h amt).1 =
      if s.balOf a < amt then .insufficient
      else if s.stakeLocked a h then .lessTime
      else if minStake s > ((s.stakedAmount a + amt : Nat) : Int) then .tooSmall
      else .ok := by
  rw [stake_fst]; unfold stakeCheck
  by_cases h1 : s.balOf a < amt
  · simp only [if_pos h1]
  · simp only [if_neg h1]
    by_cases h2 : s.stakeLocked a h = true
    · simp only [if_pos h2]
    · simp only [if_neg h2]
      by_cases h3 : minStake s > ((s.stakedAmount a + amt : Nat) : Int)
      · simp only [if_pos h3]
      · simp only [if_neg h3]

/-- "Within the lock period" for staking: a staking record exists and fewer than StakingDelay blocks have
passed since it was last written (by a stake, an unstake or a vote). -/
theorem stake_locked_iff (s : St) (a : Bytes) (h : Nat) :
    s.stakeLocked a h = true ↔ ∃ st, s.stakes.get a = some st ∧ h < st.when + stakingDelay := by
  unfold St.stakeLocked
  cases s.stakes.get a with
  | none => simp
  | some st => simp

/-- Unstaking: refused with the first failing test of — staked at all, not more than staked, lock period,
remainder zero or at least the minimum — and the state is unchanged. -/
theorem unstake_rule (s : St) (a : Bytes) (h amt : Nat) :
    (unstakeCheck s a h amt =
      if s.stakedAmount a = 0 then some .mustStakeUnstake
      else if s.stakedAmount a < amt then some .exceed
      else if s.stakedWhen a + stakingDelay > h then some .lessTime
      else if s.stakedAmount a - amt ≠ 0 ∧ minStake s > ((s.stakedAmount a - amt : Nat) : Int) then some .tooSmall
      else none) ∧
    (∀ r, unstakeCheck s a h amt = some r → unstake s a h amt = (r, s)) := by
  refine ⟨rfl, fun r hr => ?_⟩
  unfold unstake; rw [hr]

/-- An accepted unstake passed all four tests. -/
theorem unstake_accepted {s s' : St} {a : Bytes} {h amt : Nat} (hr : unstake s a h amt = (.ok, s')) :
    s.stakedAmount a ≠ 0 ∧ amt ≤ s.stakedAmount a ∧ s.stakedWhen a + stakingDelay ≤ h ∧
    (s.stakedAmount a - amt = 0 ∨ minStake s ≤ ((s.stakedAmount a - amt : Nat) : Int)) :=
  unstakeCheck_none (unstake_ok hr).1

/-- Voting (producer or parameter vote): refused without stake; a *re*-vote (a vote record for the issue
exists) is refused until VotingDelay blocks have passed since the staking record was last written; otherwise
it is executed (`panic` stands for the Go panic the model keeps explicit: a nil tally entry in SubVote, which
`tally_eq_sum_votes_partial` excludes in reachable states; the division by zero in `threshold` was repaired by
f9db0000, see `threshold_total`). -/
theorem vote_rule (s : St) (i : Issue) (a : Bytes) (h : Nat) (cands : List Bytes) :
    (s.stakedAmount a = 0 → castVote s i a h cands = (.mustStakeVote, s)) ∧
    (s.stakedAmount a ≠ 0 → (s.voteOf i a).isSome → h < s.stakedWhen a + votingDelay →
      castVote s i a h cands = (.lessTime, s)) ∧
    (s.stakedAmount a ≠ 0 → ¬ ((s.voteOf i a).isSome ∧ h < s.stakedWhen a + votingDelay) →
      (castVote s i a h cands).1 = .ok ∨ (castVote s i a h cands).1 = .panic) := by
  refine ⟨fun h1 => ?_, fun h1 hv hw => ?_, fun h1 h2 => ?_⟩
  · unfold castVote voteCheck; rw [if_pos h1]
  · unfold castVote voteCheck; rw [if_neg h1, if_pos ⟨hv, hw⟩]
  · unfold castVote voteCheck
    have : ¬ ((s.voteOf i a).isSome ∧ s.stakedWhen a + votingDelay > h) := h2
    rw [if_neg h1, if_neg this]
    simp only
    unfold voteRun
    split
    · exact Or.inr rfl
    · exact Or.inl rfl

/-- Every successful stake, unstake or vote at height `h` restarts the account's lock periods: the staking
record's `When` becomes `h` (all three delays are measured from it). -/
theorem lock_restarts {s s' : St} {a : Bytes} {h : Nat} :
    (∀ amt, stake s a h amt = (.ok, s') → s'.stakedWhen a = h) ∧
    (∀ amt, unstake s a h amt = (.ok, s') → s'.stakedWhen a = h) ∧
    (∀ i cands, castVote s i a h cands = (.ok, s') → s'.stakedWhen a = h) := by
  refine ⟨fun amt hr => ?_, fun amt hr => ?_, fun i cands hr => ?_⟩
  · obtain ⟨_, bal, _, rfl⟩ := stake_ok hr
    unfold St.stakedWhen; simp only; rw [AMap.get_set_eq]
  · obtain ⟨_, s2, bal, hf, _, rfl⟩ := unstake_ok hr
    obtain ⟨_, _, _, hst, _⟩ := refreshVotes_frame _ _ _ _ _ hf
    unfold St.stakedWhen; simp only; rw [hst]
    show (match AMap.get (s.stakes.set a ⟨s.stakedAmount a - amt, h⟩) a with | some st => st.when | none => 0) = h
    rw [AMap.get_set_eq]
  · obtain ⟨_, hv⟩ := castVote_ok hr
    obtain ⟨_, _, _, hst, _⟩ := revote_frame hv
    unfold St.stakedWhen; rw [hst]
    show (match AMap.get (s.stakes.set a ⟨s.stakedAmount a, h⟩) a with | some st => st.when | none => 0) = h
    rw [AMap.get_set_eq]

/-- A refused operation leaves the whole state unchanged (the transaction is rolled back). -/
theorem refused_unchanged (s : St) (o : Op) (hr : (step s o).1 ≠ .ok) : (step s o).2 = s := by
  rcases step_result s o with h | h
  · exact absurd h hr
  · exact h

/-! ### Clause 5 against the history (independent specification)

The rule theorems above unfold the model's own checks (their content comes from the correspondence run). This one states
the lock period against what a *history* says, without looking at the state: `traceOf` lists the submitted operations with
the answers they got, `lastAct a` scans that list for `a`'s last successful stake, unstake or vote. -/

/-- For every history from a state in which `a` has no staking record: the staking record's `When` is the height of `a`'s
last successful stake, unstake or vote in the history (none of them: no record). -/
theorem when_eq_last_action (s0 : St) (ops : List Op) (a : Bytes) (hfresh : s0.stakes.get a = none) :
    (runOps s0 ops).whenOf a = lastAct a (traceOf s0 ops) := by
  have := whenOf_runOps a ops s0
  rw [this]
  have h0 : s0.whenOf a = none := by unfold St.whenOf; rw [hfresh]; rfl
  rw [h0]; rfl

/-- Lock period, history form. After any history (from a state where `a` has no staking record): if `a`'s last successful
stake, unstake or vote was at height `h0`, then every stake and every unstake of `a` at a height below `h0 + 86400` is
refused (and the state is unchanged), and a stake at or above it is not refused for the lock period; if `a` never acted
successfully, a stake is never refused for the lock period and an unstake is refused ("must stake before"). -/
theorem lock_period_by_history (s0 : St) (ops : List Op) (a : Bytes) (hfresh : s0.stakes.get a = none) (h amt : Nat) :
    match lastAct a (traceOf s0 ops) with
    | some h0 =>
      (h < h0 + stakingDelay →
        (stake (runOps s0 ops) a h amt).1 ≠ .ok ∧ (stake (runOps s0 ops) a h amt).2 = runOps s0 ops ∧
        (unstake (runOps s0 ops) a h amt).1 ≠ .ok ∧ (unstake (runOps s0 ops) a h amt).2 = runOps s0 ops) ∧
      (h0 + stakingDelay ≤ h → (stake (runOps s0 ops) a h amt).1 ≠ .lessTime)
    | none =>
      (stake (runOps s0 ops) a h amt).1 ≠ .lessTime ∧ unstake (runOps s0 ops) a h amt = (.mustStakeUnstake, runOps s0 ops) := by
  have hw := when_eq_last_action s0 ops a hfresh
  generalize runOps s0 ops = s at hw
  unfold St.whenOf at hw
  cases hl : lastAct a (traceOf s0 ops) with
  | none =>
    rw [hl] at hw
    have hg : s.stakes.get a = none := by
      cases hget : s.stakes.get a with
      | none => rfl
      | some st => rw [hget] at hw; simp at hw
    simp only
    constructor
    · rw [stake_rule]
      have : s.stakeLocked a h = false := by unfold St.stakeLocked; rw [hg]
      rw [this]
      split
      · simp
      · simp only [Bool.false_eq_true, if_false]; split <;> simp
    · have hz : s.stakedAmount a = 0 := by unfold St.stakedAmount; rw [hg]
      have := (unstake_rule s a h amt).2 .mustStakeUnstake (by rw [(unstake_rule s a h amt).1, if_pos hz])
      exact this
  | some h0 =>
    rw [hl] at hw
    obtain ⟨st, hget, hwhen⟩ : ∃ st, s.stakes.get a = some st ∧ st.when = h0 := by
      cases hget : s.stakes.get a with
      | none => rw [hget] at hw; simp at hw
      | some st => rw [hget] at hw; simp at hw; exact ⟨st, rfl, hw⟩
    simp only
    refine ⟨fun hlt => ?_, fun hge => ?_⟩
    · have hlock : s.stakeLocked a h = true := (stake_locked_iff s a h).mpr ⟨st, hget, by rw [hwhen]; exact hlt⟩
      have hs1 : (stake s a h amt).1 ≠ .ok := by
        rw [stake_rule, hlock]
        split
        · simp
        · simp
      have hu : ∃ r, unstakeCheck s a h amt = some r ∧ r ≠ .ok := by
        rw [(unstake_rule s a h amt).1]
        by_cases h1 : s.stakedAmount a = 0
        · exact ⟨_, by rw [if_pos h1], by simp⟩
        · rw [if_neg h1]
          by_cases h2 : s.stakedAmount a < amt
          · exact ⟨_, by rw [if_pos h2], by simp⟩
          · rw [if_neg h2]
            have h3 : s.stakedWhen a + stakingDelay > h := by
              unfold St.stakedWhen; rw [hget]; simp only; rw [hwhen]; exact hlt
            exact ⟨_, by rw [if_pos h3], by simp⟩
      obtain ⟨r, hr, hne⟩ := hu
      have hun := (unstake_rule s a h amt).2 r hr
      refine ⟨hs1, refused_unchanged s (.stake a h amt) hs1, ?_, ?_⟩
      · rw [hun]; exact hne
      · rw [hun]
    · rw [stake_rule]
      have hlock : s.stakeLocked a h = false := by
        unfold St.stakeLocked; rw [hget]; simp only; rw [hwhen]
        exact decide_eq_false (by omega)
      rw [hlock]
      split
      · simp
      · simp only [Bool.false_eq_true, if_false]; split <;> simp

/-- test (non-vacuity): in the history [a stakes at 5, a votes at 7, b stakes at 9, a's stake at 100 is refused] the last
successful action of `a` is at height 7 (the refused stake does not count, `b`'s stake does not count). -/
example :
    let a : Bytes := [2, 1]
    let b : Bytes := [3, 1]
    let s0 : St := { St.init 2 with accts := [(a, [7]), (b, [9])], bal := [(a, 50000 * aergo), (b, 50000 * aergo)] }
    let ops : List Op := [.stake a 5 (20000 * aergo), .voteBP a 7 [List.replicate 39 1], .stake b 9 (10000 * aergo), .stake a 100 aergo]
    lastAct a (traceOf s0 ops) = some 7 ∧ (traceOf s0 ops).map (·.2) = [.ok, .ok, .ok, .lessTime] := by
  decide +kernel

/-! ### Clause 3, what consensus consumes of the ranking -/

/-- `getVoteResult(…, n)` returns the first `n` entries of the persisted ranking and `GetRankers` the candidates of its
first `GetBpCount()` entries. In every reachable state this is the *top* of the tally order: every entry that is kept
ranks strictly above every entry that is cut off (no tie can straddle the cut), whatever order the map iteration
delivered the tallies in. -/
theorem rankers_are_top {s : St} (h : GInv s) (n : Nat) :
    voteResultTop s.tally .bp n = (rankOf s.tally .bp).take n ∧
    (voteResultTop s.tally .bp n).length = min n (rankOf s.tally .bp).length ∧
    (∀ x ∈ voteResultTop s.tally .bp n, ∀ y ∈ (rankOf s.tally .bp).drop n, less y x = true) ∧
    rankers s = ((rankOf s.tally .bp).take s.bpCount).map (·.1) ∧
    (∀ l : List Entry, l.Perm (entriesOf s.tally .bp) → (rankSort l).take n = voteResultTop s.tally .bp n) := by
  refine ⟨rfl, by simp [voteResultTop, List.length_take], ?_, rfl, fun l hl => ?_⟩
  · exact take_append_drop_pairwise (bp_ranking_strict h).1 n
  · unfold voteResultTop; rw [(bp_ranking_strict h).2 l hl]

/-- `VoteResult.threshold` never fails (repair f9db0000: before it a top tally below 100 aer divided by zero), and says
"reached" exactly when the top tally has a hundredth and the staking total is at most 150 of them. -/
theorem threshold_total (total power : Nat) :
    ∃ b, threshold total power = some b ∧ (b = true ↔ 100 ≤ power ∧ total / (power / 100) ≤ 150) := by
  unfold threshold
  by_cases h0 : power = 0
  · exact ⟨false, by rw [if_pos h0], by simp [h0]⟩
  · rw [if_neg h0]
    by_cases h1 : power / 100 = 0
    · refine ⟨false, by rw [if_pos h1], ?_⟩
      have : power < 100 := by omega
      simp; omega
    · rw [if_neg h1]
      refine ⟨_, rfl, ?_⟩
      have : 100 ≤ power := by omega
      simp [this]

/-! ### Clause 6: unstaking returns exactly the requested amount -/

/-- A successful unstake of `amt` by `a` moves exactly `amt` from `aergo.system` to `a`, lowers the record and
the total by `amt`, and touches no other balance or record. -/
theorem unstake_exact {s s' : St} {a : Bytes} {h amt : Nat} (hi : GInv s) (ha : a ≠ sysAddr)
    (hr : unstake s a h amt = (.ok, s')) :
    s'.balOf a = s.balOf a + amt ∧ s'.balOf sysAddr = s.balOf sysAddr - amt ∧ amt ≤ s.balOf sysAddr ∧
    s'.stakedAmount a = s.stakedAmount a - amt ∧ amt ≤ s.stakedAmount a ∧
    s'.total = s.total - amt ∧ amt ≤ s.total ∧
    (∀ x, x ≠ a → x ≠ sysAddr → s'.balOf x = s.balOf x) ∧ (∀ x, x ≠ a → s'.stakedAmount x = s.stakedAmount x) := by
  obtain ⟨hc, s2, bal, hf, hs, rfl⟩ := unstake_ok hr
  obtain ⟨_, hle, _, _⟩ := unstakeCheck_none hc
  obtain ⟨_, _, hb, hst, _⟩ := refreshVotes_frame _ _ _ _ _ hf
  obtain ⟨_, htot, hle2⟩ := invTotal_unstake hi.total hr
  have hsp := sendBalance_spec hs (Ne.symm ha)
  rw [hb] at hsp
  have hstk : ∀ x, St.stakedAmount { s2 with total := ((s2.total : Int) - amt).natAbs, bal := bal } x
      = if a = x then s.stakedAmount a - amt else s.stakedAmount x := fun x =>
    stakedAmount_set s a x ⟨s.stakedAmount a - amt, h⟩ _ (by simp only; rw [hst]; rfl)
  refine ⟨?_, ?_, ?_, ?_, hle, htot, hle2, fun x hx hy => ?_, fun x hx => ?_⟩
  · show bget bal a = _; rw [hsp.2.2.1]; rfl
  · show bget bal sysAddr = _; rw [hsp.2.1]; rfl
  · exact hsp.1
  · rw [hstk a]; simp
  · show bget bal x = _; rw [hsp.2.2.2 x hy hx]; rfl
  · rw [hstk x]; simp [Ne.symm hx]

/-- Under the invariant the staking account always holds what an accepted unstake pays out: the
`insufficient` answer of SendBalance cannot occur after validation. -/
theorem unstake_never_insufficient {s : St} {a : Bytes} {h amt : Nat} (hi : GInv s)
    (hc : unstakeCheck s a h amt = none) : (unstake s a h amt).1 = .ok ∨ (unstake s a h amt).1 = .panic := by
  unfold unstake; rw [hc]; simp only
  unfold unstakeRun
  cases hf : refreshVotes a (s.stakedAmount a - amt) catalog (unstakeMid s a h amt) with
  | none => exact Or.inr rfl
  | some s2 =>
    simp only
    obtain ⟨_, _, hb, _⟩ := refreshVotes_frame _ _ _ _ _ hf
    obtain ⟨_, hle, _, _⟩ := unstakeCheck_none hc
    have h1 := stakedAmount_le_total hi.total a
    have h2 := hi.sys.sys
    obtain ⟨bal, hs⟩ := sendBalance_ok s2.bal sysAddr a amt (by rw [hb]; show amt ≤ bget s.bal sysAddr; rw [← St.balOf_eq, h2]; omega)
    rw [hs]; exact Or.inl rfl

/-! ### Clause 7: names -/

/-- The name table binds a name to at most one (owner, destination) record — in every reachable state. -/
structure InvNames (s : St) : Prop where
  nodup : s.names.keys.Nodup

theorem name_unique {s : St} (h : InvNames s) (n : Bytes) (r₁ r₂ : NameRec) (h₁ : (n, r₁) ∈ s.names)
    (h₂ : (n, r₂) ∈ s.names) : r₁ = r₂ := by
  have e1 := AMap.get_of_mem h.nodup h₁
  have e2 := AMap.get_of_mem h.nodup h₂
  rw [e1] at e2; injection e2

/-- No operation creates a second record for a name. -/
theorem name_unique_step {s : St} (o : Op) (hn : InvNames s) : InvNames (step s o).2 := by
  rcases step_result s o with hok | hsame
  case inr => rw [hsame]; exact hn
  · have hr : step s o = (.ok, (step s o).2) := Prod.ext hok rfl
    generalize (step s o).2 = s' at hr
    cases o with
    | stake a h amt => obtain ⟨_, bal, _, rfl⟩ := stake_ok hr; exact ⟨hn.nodup⟩
    | unstake a h amt =>
      obtain ⟨_, s2, bal, hf, _, rfl⟩ := unstake_ok hr
      obtain ⟨_, _, _, _, _, _, hnm, _⟩ := refreshVotes_frame _ _ _ _ _ hf
      exact ⟨by show (AMap.keys s2.names).Nodup; rw [hnm]; exact hn.nodup⟩
    | voteBP a h c =>
      obtain ⟨_, hv⟩ := castVote_ok (voteBP_ok hr).2
      obtain ⟨_, _, _, _, _, _, _, hnm, _⟩ := revote_frame hv
      exact ⟨by rw [hnm]; exact hn.nodup⟩
    | voteDAO a h id args =>
      obtain ⟨_, i, _, _, _, hc⟩ := voteDAO_ok hr
      obtain ⟨_, hv⟩ := castVote_ok hc
      obtain ⟨_, _, _, _, _, _, _, hnm, _⟩ := revote_frame hv
      exact ⟨by rw [hnm]; exact hn.nodup⟩
    | transfer x y amt => obtain ⟨_, bal, _, rfl⟩ := transfer_ok hr; exact ⟨hn.nodup⟩
    | nameCreate a n amt => obtain ⟨_, _, _, bal, _, rfl⟩ := nameCreate_ok hr; exact ⟨AMap.nodup_set hn.nodup _ _⟩
    | nameUpdate t sd n to amt => obtain ⟨_, _, _, _, bal, _, rfl⟩ := nameUpdate_ok hr; exact ⟨AMap.nodup_set hn.nodup _ _⟩
    | setOwner o => obtain ⟨_, bal, _, rfl⟩ := nameSetOwner_ok hr; exact ⟨AMap.nodup_set hn.nodup _ _⟩
    | endBlock => simp only [step, Prod.mk.injEq, true_and] at hr; subst hr; exact ⟨hn.nodup⟩
    | restart => simp only [step, Prod.mk.injEq, true_and] at hr; subst hr; exact ⟨hn.nodup⟩

/-- … hence in every state reachable from one with at most one record per name (the empty name table of a genesis
state in particular), by any operation sequence. -/
theorem name_unique_reachable : ∀ (ops : List Op) (s : St), InvNames s → InvNames (runOps s ops)
  | [], _, h => h
  | o :: os, s, h => name_unique_reachable os _ (name_unique_step o h)

/-- test: the name table of `St.init` is empty, so every state reachable from it binds a name at most once. -/
example (fv : Nat) (ops : List Op) : InvNames (runOps (St.init fv) ops) :=
  name_unique_reachable ops _ ⟨List.nodup_nil⟩

/-- A name is created only when it is free and at least the name price is paid; the sender becomes owner and
destination, and the amount leaves the sender's balance (it goes to `aergo.name`, or to the contract owner
once one is set — nothing moves when the sender *is* that owner). -/
theorem name_create_rule {s s' : St} {a n : Bytes} {amt : Nat} (hr : nameCreate s a n amt = (.ok, s')) :
    s.names.get n = none ∧ namePrice s ≤ (amt : Int) ∧ amt ≤ s.balOf a ∧
    s'.names.get n = some ⟨a, a⟩ ∧
    (a ≠ s.nameState → s'.balOf a = s.balOf a - amt ∧ s'.balOf s.nameState = s.balOf s.nameState + amt) := by
  obtain ⟨hb, hp, hfree, bal, hs, rfl⟩ := nameCreate_ok hr
  refine ⟨hfree, hp, hb, AMap.get_set_eq _ _ _, fun hne => ?_⟩
  have := sendBalance_spec hs hne
  exact ⟨this.2.1, this.2.2.1⟩

/-- A name is changed only by a transaction whose account is the name itself (signed by the holder of its
destination address) or its recorded owner, again for at least the price. -/
theorem name_update_rule {s s' : St} {t sd n to : Bytes} {amt : Nat} (hr : nameUpdate s t sd n to amt = (.ok, s')) :
    (t = n ∨ some t = s.ownerOf n) ∧ namePrice s ≤ (amt : Int) ∧ 12 < (s.committedDest n).length ∧
    s'.names.get n = some ⟨s.resolve to, s.resolve to⟩ := by
  obtain ⟨_, hp, hauth, hc, bal, _, rfl⟩ := nameUpdate_ok hr
  exact ⟨hauth, hp, hc, AMap.get_set_eq _ _ _⟩

/-- Whatever an operation does, it changes at most the record of the one name it is about: every other name
keeps its owner and destination (only the three name operations write the name table at all). -/
theorem name_others_unchanged (s : St) (o : Op) (m : Bytes)
    (hm : match o with
      | .nameCreate _ n _ => m ≠ n
      | .nameUpdate _ _ n _ _ => m ≠ n
      | .setOwner _ => m ≠ nameAddr
      | _ => True) :
    (step s o).2.names.get m = s.names.get m := by
  rcases step_result s o with hok | hsame
  case inr => rw [hsame]
  · have hr : step s o = (.ok, (step s o).2) := Prod.ext hok rfl
    generalize (step s o).2 = s' at hr
    cases o with
    | stake a h amt => obtain ⟨_, bal, _, rfl⟩ := stake_ok hr; rfl
    | unstake a h amt =>
      obtain ⟨_, s2, bal, hf, _, rfl⟩ := unstake_ok hr
      obtain ⟨_, _, _, _, _, _, hn, _⟩ := refreshVotes_frame _ _ _ _ _ hf
      show s2.names.get m = _; rw [hn]; rfl
    | voteBP a h c =>
      obtain ⟨_, hv⟩ := castVote_ok (voteBP_ok hr).2
      obtain ⟨_, _, _, _, _, _, _, hn, _⟩ := revote_frame hv
      rw [hn]; rfl
    | voteDAO a h id args =>
      obtain ⟨_, i, _, _, _, hc⟩ := voteDAO_ok hr
      obtain ⟨_, hv⟩ := castVote_ok hc
      obtain ⟨_, _, _, _, _, _, _, hn, _⟩ := revote_frame hv
      rw [hn]; rfl
    | transfer x y amt => obtain ⟨_, bal, _, rfl⟩ := transfer_ok hr; rfl
    | nameCreate a n amt =>
      obtain ⟨_, _, _, bal, _, rfl⟩ := nameCreate_ok hr
      exact AMap.get_set_ne _ _ (Ne.symm hm)
    | nameUpdate t sd n to amt =>
      obtain ⟨_, _, _, _, bal, _, rfl⟩ := nameUpdate_ok hr
      exact AMap.get_set_ne _ _ (Ne.symm hm)
    | setOwner o =>
      obtain ⟨_, bal, _, rfl⟩ := nameSetOwner_ok hr
      exact AMap.get_set_ne _ _ (Ne.symm hm)
    | endBlock => simp only [step, Prod.mk.injEq, true_and] at hr; subst hr; rfl
    | restart => simp only [step, Prod.mk.injEq, true_and] at hr; subst hr; rfl

/-! ### Clause 4 at node level: memory against the state of the best block, through failed, abandoned and reorganised blocks

`Aergo.Model.GovNode`: a node = the storage of its best block + the process-wide memory (rank, parameter table), and the
snapshots of the best block's ancestors. Events: a block produced by the node and connected (`own`), produced and never
connected (`stale`), received and connected (`net`), received and failing after its transactions ran (`netFail`), a
reorganisation to a side branch that succeeds or fails at some block (`reorg`), a process restart. -/

private theorem ginv_of_all {s : St} (h : AllInv s) : GInv s := ⟨h.total, h.sys, h.votes, h.vpr, h.cand⟩
private theorem all_of_ginv {s : St} (h : GInv s) : AllInv s := ⟨h.total, h.sys, h.votes, h.vpr, h.cand⟩

/-- "Memory = state" for one node state: the governance invariant (in particular the live rank is the one `loadVpr`
rebuilds from the persisted buckets), nothing pending in the parameter table, and every current parameter value is the
persisted one (`loadParams`: the stored value, else the default). -/
structure MemoryIsState (s : St) : Prop where
  ginv : GInv s
  rank : VprEq (loadVpr s.vprDisk) s.vpr
  noPending : s.nextParams = []
  params : ∀ i, s.param i = diskParam s i

private theorem memoryIsState_of_clean {s : St} (h : Clean s) : MemoryIsState s :=
  ⟨ginv_of_all h.inv, vprOk_reload h.inv.vpr.ok, h.par.none, h.par.cur⟩

/-- A node whose best block is a genesis state (default parameters, nothing persisted or pending) starts clean. -/
theorem node_genesis_clean {s : St} (h : Genesis s) (hp : s.params = []) (hn : s.nextParams = []) (hd : s.paramsDisk = []) :
    NClean s { cur := s, hist := [] } := by
  refine ⟨⟨all_of_ginv (ginv_genesis h), hn, fun i => ?_⟩, rfl, fun p hp => absurd hp (by simp)⟩
  unfold St.param diskParam; rw [hp, hd]; rfl

/-- **The clause at node level.** Full statement: after every history of block events the in-memory rank equals the one
rebuilt from the state of the best block (and the parameter table equals the persisted one). It is false on the pinned
code (`stale_block_breaks_memory`, known finding C15-stale-own-block-leaves-memory-dirty). Proved, for every history of
any length with admissible transactions: as long as no block is connected on top of an abandoned own block before the
memory was reloaded (`Node.runTracked` ≠ none: after a `stale` event the next `own`/`net` must be preceded by a failed
block, a reorganisation or a restart), then at every boundary where no abandoned block is outstanding (flag false) memory
= state; and while one is outstanding (flag true) the storage is still sound: reloading the memory from it gives a state
that satisfies the whole invariant, and the current parameter values are still the persisted ones. A failed block, a
reorganisation (successful or failed at any block) and a restart each re-establish memory = state, whatever the memory
was before. -/
theorem node_memory_eq_state_partial (s0 : St) (n : Node) (evs : List Ev) (r : Node × Bool) (hn : NClean s0 n)
    (hok : ∀ e ∈ evs, e.ok s0) (hr : Node.runTracked n false evs = some r) :
    r.1 = n.run evs ∧
    (r.2 = false → MemoryIsState r.1.cur) ∧
    (r.2 = true → MemoryIsState (restart r.1.cur) ∧ ∀ i, r.1.cur.param i = diskParam r.1.cur i) := by
  have hi := runTracked_inv s0 evs n false r hok hn hr
  refine ⟨runTracked_run evs n false r hr, fun h2 => ?_, fun h2 => ?_⟩
  · rw [h2] at hi; exact memoryIsState_of_clean hi.1
  · rw [h2] at hi
    exact ⟨memoryIsState_of_clean (clean_restart_of_dirty hi.1), hi.1.cur⟩

/-- A block that fails after any of its transactions ran (Status.Update, rollback branch) restores memory = state, from a
clean memory and from one an abandoned block left dirty; the storage is untouched. No guard on the transactions. -/
theorem failed_block_restores_memory (s0 : St) (n : Node) (txs : List Op) (h : NDirty s0 n) :
    MemoryIsState (n.step (.netFail txs)).cur ∧
    (n.step (.netFail txs)).cur.vprDisk = n.cur.vprDisk ∧ (n.step (.netFail txs)).cur.stakes = n.cur.stakes ∧
    (n.step (.netFail txs)).cur.votes = n.cur.votes ∧ (n.step (.netFail txs)).cur.tally = n.cur.tally ∧
    (n.step (.netFail txs)).cur.paramsDisk = n.cur.paramsDisk :=
  ⟨memoryIsState_of_clean (nclean_netFail s0 txs h).1, rfl, rfl, rfl, rfl, rfl⟩

/-- A reorganisation to a branch root in the history restores memory = state whether it succeeds or fails at any block
(since repair 01aa461f: rank *and* parameters are reloaded at the branch root, and from the old best block on failure). -/
theorem reorg_restores_memory (s0 : St) (n : Node) (k : Nat) (blocks : List (List Op)) (failAt : Option Nat)
    (h : NDirty s0 n) (hk : k < n.hist.length) (hok : ∀ b ∈ blocks, ∀ o ∈ b, TxOk s0 o) :
    MemoryIsState (n.step (.reorg k blocks failAt)).cur :=
  memoryIsState_of_clean (nclean_reorg s0 h hk hok).1

/-- test (non-vacuity of `node_memory_eq_state_partial`): from a DPoS genesis, blocks that connect, a block that fails
after a stake and two votes ran, an abandoned own block followed by a failed block, a reorganisation two blocks deep
whose second block fails, a successful one, a restart: the guard holds and no abandoned block is outstanding at the end. -/
example :
    let a : Bytes := [2, 1]
    let b : Bytes := [3, 1]
    let c (x : UInt8) : Bytes := [0, 0x25, 8, 2, 0x12, 0x21, 2] ++ List.replicate 32 x
    let s0 : St := { genesisWith 5 [c 1, c 2] with accts := [(a, [7]), (b, [9])], bal := [(a, 90000 * aergo), (b, 90000 * aergo)] }
    let three : Bytes := [51] ++ List.replicate 18 48
    let evs : List Ev := [
      .own [.stake a 1 (40000 * aergo), .voteBP a 1 [c 1]],
      .net [.stake b 2 (10000 * aergo), .voteDAO a 2 "NAMEPRICE" [three]],
      .netFail [.voteBP b 3 [c 2, c 1], .voteDAO b 3 "BPCOUNT" [[53]]],
      .stale [.voteBP b 3 [c 2]],
      .netFail [],
      .reorg 1 [[.stake b 2 (20000 * aergo)], [.voteBP b 3 [c 1]], []] (some 1),
      .reorg 0 [[.voteBP b 3 [c 1]], []] none,
      .restart, .own []]
    Genesis s0 ∧ (∀ e ∈ evs, e.ok s0) ∧
    (Node.runTracked { cur := s0, hist := [] } false evs).map (·.2) = some false := by
  exact ⟨⟨rfl, rfl, by decide, rfl, by decide, by decide, rfl, rfl, by decide, idsDistinct_of_nodup (by decide)⟩,
    evs_ok_of_b (by decide +kernel), by decide +kernel⟩

/-- Negation of the unguarded clause, concrete witness (known finding C15-stale-own-block-leaves-memory-dirty; harness
sessions `node:stale-own-block…` show the same on the real chain service and block factory). `a` stakes and votes in a
connected block. The block factory then gathers [b stakes, b votes, a votes NAMEPRICE = 3 aergo] and the block is never
connected: the rank in memory gives `b` the power 10000 aergo, the rank rebuilt from the state of the best block does not
know `b`. The next (empty) block that is connected activates the pending value: the name price in memory is 3 aergo, the
state says 1 aergo (the default). -/
theorem stale_block_breaks_memory :
    let a : Bytes := [2, 1]
    let b : Bytes := [3, 1]
    let c1 : Bytes := List.replicate 39 1
    let s0 : St := { St.init 2 with accts := [(a, [7]), (b, [9])], bal := [(a, 50000 * aergo), (b, 50000 * aergo)] }
    let three : Bytes := [51] ++ List.replicate 18 48
    let n1 := Node.step { cur := s0, hist := [] } (.own [.stake a 1 (40000 * aergo), .voteBP a 1 [c1]])
    let n2 := n1.step (.stale [.stake b 2 (10000 * aergo), .voteBP b 2 [c1], .voteDAO a 2 "NAMEPRICE" [three]])
    let n3 := n2.step (.own [])
    Genesis s0 ∧ NClean s0 n1 ∧
    powerOf n2.cur.vpr [9] = 10000 * aergo ∧ powerOf (loadVpr n2.cur.vprDisk) [9] = 0 ∧
    ¬ VprEq (loadVpr n2.cur.vprDisk) n2.cur.vpr ∧
    n3.cur.param .namePrice = 3 * aergo ∧ diskParam n3.cur .namePrice = aergo ∧ ¬ MemoryIsState n3.cur := by
  intro a b c1 s0 three n1 n2 n3
  have hg : Genesis s0 := ⟨rfl, rfl, by decide, rfl, by decide, by decide, rfl, rfl, by decide, idsDistinct_of_nodup (by decide)⟩
  have h2 : powerOf n2.cur.vpr [9] = 10000 * aergo ∧ powerOf (loadVpr n2.cur.vprDisk) [9] = 0 := by decide +kernel
  have h3 : n3.cur.param .namePrice = 3 * aergo ∧ diskParam n3.cur .namePrice = aergo := by decide +kernel
  refine ⟨hg, ?_, h2.1, h2.2, ?_, h3.1, h3.2, ?_⟩
  · exact nclean_connect s0 _ (node_genesis_clean hg rfl rfl rfl) (txsOk_of_b (by decide +kernel))
  · intro he
    have := he.powers [9]
    have e1 : powerOf (loadVpr n2.cur.vprDisk) [9] = powerOf n2.cur.vpr [9] := by unfold powerOf; rw [this]
    rw [h2.1, h2.2] at e1
    revert e1; decide
  · intro hm
    have := hm.params .namePrice
    rw [h3.1, h3.2] at this
    revert this; decide

/-- Before repair 01aa461f (found by this check): the rollback branch of Status.Update kept the *current* parameter values,
so the blocks of the new branch were executed under the old tip's parameters. Witness on the model's `updateElse` (which
is that branch): the old branch voted the name price to 3 aergo; rolled back to the genesis block the memory still says
3 aergo while the state there says 1 aergo. `reloadParams` (what reorganizer.rollback() calls now) makes them equal. -/
theorem reorg_old_params_before_repair :
    let a : Bytes := [2, 1]
    let s0 : St := { St.init 2 with accts := [(a, [7])], bal := [(a, 50000 * aergo)] }
    let three : Bytes := [51] ++ List.replicate 18 48
    let n2 := (Node.step { cur := s0, hist := [] } (.own [.stake a 1 (40000 * aergo), .voteDAO a 1 "NAMEPRICE" [three]])).step (.own [])
    let rolledBackOld := updateElse s0 n2.cur
    rolledBackOld.param .namePrice = 3 * aergo ∧ diskParam rolledBackOld .namePrice = aergo ∧
    (reloadParams rolledBackOld).param .namePrice = aergo := by
  decide +kernel

/-! ### Record codecs (support for the structured state of the model) -/

/-- Staking record round trip (block number below 2^64). -/
theorem staking_codec (w : Nat) (a : Bytes) (hw : w < 2 ^ 64) : deserStaking (serStaking w a) = some (w, a) :=
  staking_roundtrip w a hw

/-- Producer-vote record round trip — exactly under the framing condition: candidate bytes a multiple of 39,
amount shorter than 39 bytes. Without it: `vote_codec_breaks_on_38_bytes`. -/
theorem vote_codec (c a : Bytes) (hc : c.length % 39 = 0) (ha : a.length < 39) : deserVote (serVote c a) = (c, a) :=
  vote_roundtrip c a hc ha

/-- test: the hypotheses are satisfiable — two 39-byte candidates and a 10-byte amount. -/
example : deserVote (serVote (List.replicate 78 1) (List.replicate 10 2)) = (List.replicate 78 1, List.replicate 10 2) := by
  decide

/-- Parameter-vote record round trip (length-prefixed candidate). -/
theorem voteEx_codec (c a : Bytes) (hc : c.length < 2 ^ 64) : deserVoteEx (serVoteEx c a) = some (c, a) :=
  voteEx_roundtrip c a hc

/-- Name record round trip. -/
theorem nameMap_codec (o d : Bytes) (ho : o.length < 2 ^ 64) (hd : d.length < 2 ^ 64) :
    deserNameMap (serNameMap o d) = some (o, d) := nameMap_roundtrip o d ho hd

/-- Voting-power entry round trip, also when further entries follow in the bucket. -/
theorem votingPower_codec (id addr pwr rest : Bytes) (hid : id.length = 32) (ha : addr.length < 65536)
    (hp : pwr.length < 65536) :
    unmarshalVP (marshalVP id addr pwr ++ rest) = some (id, addr, pwr, 36 + addr.length + pwr.length) :=
  vp_roundtrip id addr pwr rest hid ha hp

/-- Persisted vote list (the ranking) round trip: each element framed correctly (producer list: candidate
39·k bytes and amount shorter than 39 bytes; parameter list: length-prefixed). -/
theorem voteList_codec (ex : Bool) (l : List (Bytes × Bytes)) (hok : ∀ e ∈ l, ElemOk ex e) :
    deserVoteList ex (serVoteList ex l) = some l := voteList_roundtrip ex l hok

/-- test: a two-entry producer list satisfies the framing condition. -/
example : ∀ e ∈ [((List.replicate 39 1 : Bytes), ([5, 6] : Bytes)), (List.replicate 39 2, [7])], ElemOk false e := by
  intro e he
  simp only [List.mem_cons, List.not_mem_nil, or_false] at he
  rcases he with rfl | rfl <;> simp [ElemOk, elemSer, serVote]

/-- Persisted voting-power bucket round trip (what `loadVpr` reads is what `vpr.apply` wrote). -/
theorem bucket_codec (l : List (Bytes × Bytes × Bytes)) (hok : ∀ e ∈ l, VpOk e) :
    unmarshalBucket (marshalBucket l) = some l := bucket_roundtrip l hok

end Aergo.Props.C15
