/-
C15 — Governance accounting: stakes, votes, rankings and names stay consistent.

"At every block boundary the recorded total stake equals the sum of all individual stakes and the balance
held by the staking system account; each candidate's tally equals the sum of the voting amounts recorded for
the accounts currently voting for it, and no account's recorded voting amount exceeds its current stake; the
producer ranking is the tally order under a fixed total tie-break; and the in-memory voting-power ranking
equals the one rebuilt from persisted state. Staking, unstaking and re-voting are refused within the lock
period and below the minimum stake, unstaking returns exactly the requested amount, and a name is bound to
at most one owner, created only for the price and changed only by its owner."

Quantifier: all sequences of stake, unstake, producer vote, parameter vote, name create/update and plain
transfers by several accounts over block heights that straddle the lock periods.

The theorems are about `Aergo.Model.Gov` (transcription of contract/system/*.go, contract/name/*.go,
types/vote.go; tied to the source by the correspondence run of harness/c15 against `model-c15`). They hold
after *every operation* (a fortiori at every block boundary), for every operation sequence of any length,
any number of accounts, candidates and names, any heights and amounts. Clause by clause:

* total = Σ stakes = balance of aergo.system ............ `ginv_preserved_partial`, `total_eq_sum_stakes`,
                                                          `system_balance_eq_total_partial`
    guard: no plain transfer (or name payment) credits the staking account — the pinned code executes such a
    transfer (finding C15-transfer-to-system-account): `transfer_to_system_breaks_balance`
* tally = Σ recorded voting amounts; amount ≤ stake ..... `tally_eq_sum_votes_partial`, `vote_le_stake`
    guard (built into the model): a voteBP whose candidate bytes are not a multiple of 39 is not executed by
    the model (`voteBP_misaligned`); the pinned code executes it and mis-frames the record (finding
    C15-votebp-candidate-not-39-bytes): `vote_codec_breaks_on_38_bytes`
* ranking = tallies under a strict total order ........... `less_strict_total_bp`, `less_strict_total_param`,
                                                          `ranking_is_permutation`, `ranking_sorted`,
                                                          `ranking_independent_of_map_order`, `bp_ranking_strict`
    (full strength since repair 1c75543b of VoteList.Less; the pre-repair tie is `less_tie_before_repair`)
* voting-power rank: memory = reload, total = Σ ......... `vpr_memory_eq_reload`, `vpr_total_eq_sum`,
                                                          `vpr_power_eq_votes`
* lock periods and minimum stake ......................... `stake_rule`, `stake_locked_iff`, `unstake_rule`,
                                                          `unstake_accepted`, `vote_rule`, `lock_restarts`,
                                                          `refused_unchanged`
* unstaking returns exactly the amount ................... `unstake_exact`, `unstake_never_insufficient`
* names .................................................. `name_unique`, `name_create_rule`, `name_update_rule`,
                                                          `name_others_unchanged`
* record codecs (support) ................................ `staking_codec`, `vote_codec`, `voteEx_codec`,
                                                          `nameMap_codec`, `votingPower_codec`, `voteList_codec`,
                                                          `bucket_codec`

Not carried by a theorem (see notes/C15.md): that the *persisted* parameter-vote ranking never mixes
39-character and shorter candidate strings (then `Less` is not an order, and `Candidate[7:]` can panic);
`vpr.lowest`; the two hard-coded account-id exceptions of addVpr/subVpr; uint64 wrap of `when + delay`.
-/
import Aergo.Lemmas.GovCand
import Aergo.Lemmas.GovCodec

namespace Aergo.Props.C15
open Aergo.Gov

/-! ### The invariant and its preservation -/

/-- The governance invariant. -/
structure GInv (s : St) : Prop where
  total : InvTotal s
  sys : InvSys s
  votes : InvVotes s
  vpr : InvVpr s
  cand : InvCand s

/-- A state with empty governance storage: nothing staked, no vote, no tally, an empty voting-power rank,
nothing held by the staking account, distinct account ids. Balances, parameters and names are arbitrary. -/
structure Genesis (s : St) : Prop where
  stakes : s.stakes = []
  total : s.total = 0
  sysBal : s.balOf sysAddr = 0
  votes : s.votes = []
  tally : s.tally = []
  vpr : s.vpr = Vpr.empty
  vprDisk : s.vprDisk = []
  nameOwner : s.names.get nameAddr = none
  idsDistinct : ∀ a b id, s.accts.get a = some id → s.accts.get b = some id → a = b

/-- Distinct account ids in the table (the real ids are SHA-256 values of the addresses). -/
theorem idsDistinct_of_nodup {accts : AMap Bytes Bytes} (hn : (accts.map (·.2)).Nodup) :
    ∀ a b id, accts.get a = some id → accts.get b = some id → a = b := by
  have key : ∀ (l : AMap Bytes Bytes), (l.map (·.2)).Nodup → ∀ a b id, (a, id) ∈ l → (b, id) ∈ l → a = b := by
    intro l
    induction l with
    | nil => intro _ _ _ _ h; simp at h
    | cons x t iht =>
      intro hnd a b id h1 h2
      simp only [List.map_cons, List.nodup_cons] at hnd
      rcases List.mem_cons.mp h1 with e1 | h1'
      · rcases List.mem_cons.mp h2 with e2 | h2'
        · have e := e1.trans e2.symm
          injection e
        · exact absurd (List.mem_map.mpr ⟨(b, id), h2', rfl⟩) (by rw [← e1] at hnd; exact hnd.1)
      · rcases List.mem_cons.mp h2 with e2 | h2'
        · exact absurd (List.mem_map.mpr ⟨(a, id), h1', rfl⟩) (by rw [← e2] at hnd; exact hnd.1)
        · exact iht hnd.2 a b id h1' h2'
  intro a b id ha hb
  exact key accts hn a b id (AMap.mem_of_get ha) (AMap.mem_of_get hb)

/-- test: a genesis state with two funded accounts exists. -/
example : Genesis { St.init 2 with accts := [([2, 1], [7]), ([3, 1], [9])], bal := [([2, 1], 5), ([3, 1], 6)] } :=
  ⟨rfl, rfl, by decide, rfl, rfl, rfl, rfl, by decide, idsDistinct_of_nodup (by decide)⟩

theorem ginv_genesis {s : St} (h : Genesis s) : GInv s := by
  refine ⟨⟨?_, ?_⟩, ⟨?_, ?_⟩, ⟨⟨?_, ?_, ?_⟩, ?_⟩, ⟨?_, ?_, ?_, ?_, h.idsDistinct, ?_⟩,
    ⟨by rw [h.tally]; intro e he; exact absurd he (by simp), by rw [h.votes]; intro e he; exact absurd he (by simp)⟩⟩
  · rw [h.stakes]; exact List.nodup_nil
  · rw [h.total, h.stakes]; rfl
  · rw [h.sysBal, h.total]
  · unfold St.nameState; rw [h.nameOwner]; exact nameAddr_ne_sys
  · rw [h.votes]; exact List.nodup_nil
  · rw [h.tally]; exact List.nodup_nil
  · intro k; rw [h.tally, h.votes]; rfl
  · intro i a v hv; rw [h.votes] at hv; exact absurd hv (by simp)
  · rw [h.vpr, h.vprDisk]; exact vprOk_empty
  · rw [h.vpr]; exact List.nodup_nil
  · rw [h.vpr]; intro e he; exact absurd he (by simp [Vpr.empty])
  · intro _ a id _
    rw [h.vpr, h.votes]; rfl
  · intro i a v hv; rw [h.votes] at hv; exact absurd hv (by simp)

/-- One operation preserves the invariant, for every operation, argument and height — under the guards
`Op.guard` (nothing but staking credits/debits the staking account) and `Op.declared` (voters have an
account id). -/
theorem ginv_step {s : St} {o : Op} (h : GInv s) (hg : o.guard) (hd : o.declared s) : GInv (step s o).2 :=
  ⟨invTotal_step h.total, invSys_step h.total h.sys hg, invVotes_step h.votes, invVpr_step h.vpr hd,
   invCand_step h.cand⟩

/-- Operation sequences whose every operation satisfies the two guards (the account table is fixed). -/
def Admissible (s : St) (ops : List Op) : Prop := ∀ o ∈ ops, o.guard ∧ o.declared s

/-- The full statement — `GInv (runOps s ops)` for *every* operation sequence — is false on the pinned code
(`transfer_to_system_breaks_balance`). Proved: for every admissible sequence, by induction on the sequence. -/
theorem ginv_preserved_partial : ∀ (ops : List Op) (s : St), GInv s → Admissible s ops → GInv (runOps s ops)
  | [], _, h, _ => h
  | o :: ops, s, h, ha => by
    have ho := ha o List.mem_cons_self
    have h1 := ginv_step h ho.1 ho.2
    apply ginv_preserved_partial ops _ h1
    intro o' ho'
    have := ha o' (List.mem_cons_of_mem _ ho')
    exact ⟨this.1, declared_mono (step_accts s o).1 o' this.2⟩

/-- test (non-vacuity): a history with two accounts that stake, vote for overlapping candidate sets, one of
them unstakes partially after the delay (its votes shrink), across a block boundary and a restart, is admissible
from a genesis state, and every operation in it is executed (`ok`). -/
example :
    let a : Bytes := [2, 1]
    let b : Bytes := [3, 1]
    let c1 : Bytes := List.replicate 39 1
    let c2 : Bytes := List.replicate 39 2
    let s0 : St := { St.init 2 with accts := [(a, [7]), (b, [9])], bal := [(a, 50000 * aergo), (b, 50000 * aergo)] }
    let ops : List Op := [.stake a 1 (30000 * aergo), .stake b 1 (20000 * aergo), .voteBP a 2 [c1, c2], .voteBP b 2 [c2],
      .endBlock, .unstake a 86402 (10000 * aergo), .restart, .endBlock]
    Genesis s0 ∧ Admissible s0 ops ∧
    (ops.foldl (fun (acc : St × Bool) o => ((step acc.1 o).2, acc.2 && decide ((step acc.1 o).1 = .ok))) (s0, true)).2 = true := by
  refine ⟨⟨rfl, rfl, by decide, rfl, rfl, rfl, rfl, by decide, idsDistinct_of_nodup (by decide)⟩, ?_, by decide⟩
  intro o ho
  simp only [List.mem_cons, List.not_mem_nil, or_false] at ho
  rcases ho with rfl | rfl | rfl | rfl | rfl | rfl | rfl | rfl <;>
    exact ⟨by simp only [Op.guard] <;> first | trivial | decide, by simp only [Op.declared] <;> first | trivial | decide⟩

/-! ### Clause 1: total = Σ stakes = balance of the staking account -/

/-- The recorded total equals the sum of all staking records (no guard needed). -/
theorem total_eq_sum_stakes {s : St} (h : GInv s) : s.total = stakeSum s.stakes := h.total.total

/-- … and the balance of `aergo.system` (along admissible histories). -/
theorem system_balance_eq_total_partial {s : St} (ops : List Op) (h : GInv s) (ha : Admissible s ops) :
    (runOps s ops).balOf sysAddr = (runOps s ops).total ∧ (runOps s ops).total = stakeSum (runOps s ops).stakes :=
  let g := ginv_preserved_partial ops s h ha
  ⟨g.sys.sys, g.total.total⟩

/-- Negation of the unguarded statement, concrete witness (finding C15-transfer-to-system-account): after a
plain transfer of 7 to `aergo.system` the staking account holds 7 while nothing is staked. The real
`executeTx` executes this transfer with a SUCCESS receipt (harness session `scripted:transfer-to-system`). -/
theorem transfer_to_system_breaks_balance :
    let s0 : St := { St.init 2 with accts := [([2, 1], [7])], bal := [([2, 1], 100)] }
    let s1 := (step s0 (.transfer [2, 1] sysAddr 7)).2
    Genesis s0 ∧ s1.balOf sysAddr = 7 ∧ s1.total = 0 ∧ ¬ InvSys s1 := by
  refine ⟨⟨rfl, rfl, by decide, rfl, rfl, rfl, rfl, by decide, idsDistinct_of_nodup (by decide)⟩, by decide, by decide, ?_⟩
  · intro h
    have := h.sys
    revert this
    decide

/-! ### Clause 2: tally = Σ votes, vote ≤ stake -/

/-- Every tally entry equals the sum, over the accounts whose recorded vote names the candidate, of their
recorded voting amounts (`contrib` counts a candidate named twice in one vote twice, as AddVote does; the
admission rules refuse duplicates). `_partial`: holds for the operations the model executes — see
`voteBP_misaligned`. -/
theorem tally_eq_sum_votes_partial {s : St} (h : GInv s) (i : Issue) (c : Bytes) :
    tget s.tally (i, c) = voteSum s.votes (i, c) := h.votes.tally.2.2 (i, c)

/-- `voteSum` spelled out: Σ over the vote records of the issue of amount × multiplicity of the candidate. -/
theorem voteSum_def (votes : AMap (Issue × Bytes) Vote) (i : Issue) (c : Bytes) :
    voteSum votes (i, c) = ((votes.map fun e => if e.1.1 = i then e.2.amount * e.2.cands.count c else 0).sum) := by
  unfold voteSum AMap.sum contrib
  congr 1
  apply List.map_congr_left
  intro e _
  by_cases h : e.1.1 = i
  · simp [h]
  · have : ¬ i = e.1.1 := fun e' => h e'.symm
    simp [h, this]

/-- No recorded voting amount exceeds the voter's current stake. -/
theorem vote_le_stake {s : St} (h : GInv s) (i : Issue) (a : Bytes) (v : Vote) (hv : s.votes.get (i, a) = some v) :
    v.amount ≤ s.stakedAmount a := h.votes.le i a v hv

/-- The model does not execute a producer vote whose candidate bytes are not a multiple of 39. -/
theorem voteBP_misaligned (s : St) (a : Bytes) (h : Nat) (cs : List Bytes) (hm : cs.flatten.length % 39 ≠ 0) :
    voteBP s a h cs = (.misaligned, s) := by
  unfold voteBP; simp only; rw [if_pos hm]

/-- Why: the vote record has no framing. With a 38-byte candidate (a valid ed25519 peer id, admitted by
types.ValidateSystemTx) and a 10-byte amount the decoder (`len % 39`) returns a 39-byte "candidate" that
swallows the first amount byte, and a 9-byte amount — concrete witness of finding
C15-votebp-candidate-not-39-bytes. -/
theorem vote_codec_breaks_on_38_bytes :
    let c : Bytes := List.replicate 38 0x77
    let a : Bytes := [2, 30, 25, 224, 201, 186, 178, 64, 0, 0]   -- 10000 aergo
    deserVote (serVote c a) = (c ++ [2], [30, 25, 224, 201, 186, 178, 64, 0, 0]) ∧ deserVote (serVote c a) ≠ (c, a) := by
  decide

/-! ### Clause 3: the ranking is the tally order under a strict total order -/

/-- On block-producer tallies (all candidates 39 bytes) `VoteList.Less` is a strict total order:
irreflexive, asymmetric, transitive, and any two different entries are ordered. -/
theorem less_strict_total_bp : GoodOrder Is39 := good39

/-- The same on parameter tallies whose candidates are not 39 characters long. -/
theorem less_strict_total_param : GoodOrder Not39 := goodNot39

/-- test: the two candidates that tied before repair 1c75543b (same bytes from index 7 on, parity byte 02/03
at index 6, equal tallies) are ordered now. -/
example :
    let x : Bytes := List.replicate 32 0x55
    let a : Entry := ([0, 0x25, 8, 2, 0x12, 0x21, 2] ++ x, 5)
    let b : Entry := ([0, 0x25, 8, 2, 0x12, 0x21, 3] ++ x, 5)
    less a b = false ∧ less b a = true := by decide

/-- The pre-repair comparison (integer keys only) left them unordered in both directions: the ranking then
depended on Go's map iteration order (DESIGN §5 lead 4, repaired by 1c75543b). -/
theorem less_tie_before_repair :
    let lessOld : Entry → Entry → Bool := fun a b =>
      if a.2 < b.2 then true else if a.2 = b.2 then
        (if a.1.length = 39 then decide (beNat (a.1.drop 7) > beNat (b.1.drop 7)) else decide (beNat a.1 > beNat b.1))
      else false
    let x : Bytes := List.replicate 32 0x55
    let a : Entry := ([0, 0x25, 8, 2, 0x12, 0x21, 2] ++ x, 5)
    let b : Entry := ([0, 0x25, 8, 2, 0x12, 0x21, 3] ++ x, 5)
    a ≠ b ∧ lessOld a b = false ∧ lessOld b a = false := by decide

/-- The persisted ranking is a rearrangement of the tally entries. -/
theorem ranking_is_permutation (l : List Entry) : (rankSort l).Perm l := rankSort_perm l

/-- … in which no entry is `Less` than a later one. -/
theorem ranking_sorted {P : Entry → Prop} (g : GoodOrder P) (l : List Entry) (hP : ∀ e ∈ l, P e) :
    (rankSort l).Pairwise rankOk := rankSort_sorted g l hP

/-- … and it does not depend on the order in which Go's map iteration delivers the entries: any two
iteration orders `l₁`, `l₂` of the same tally give the same ranking, and any sorted arrangement whatsoever
(whatever sort.Sort does) is that ranking. -/
theorem ranking_independent_of_map_order {P : Entry → Prop} (g : GoodOrder P) (l₁ l₂ : List Entry)
    (hP : ∀ e ∈ l₁, P e) (hp : l₁.Perm l₂) :
    rankSort l₁ = rankSort l₂ ∧
    ∀ r : List Entry, r.Perm l₁ → r.Pairwise rankOk → r = rankSort l₁ := by
  have hP₂ : ∀ e ∈ l₂, P e := fun e he => hP e (hp.symm.subset he)
  refine ⟨?_, fun r hr hs => ?_⟩
  · apply sorted_unique g _ _ (fun e he => hP e ((rankSort_perm l₁).subset he))
      (((rankSort_perm l₁).trans hp).trans (rankSort_perm l₂).symm) (rankSort_sorted g l₁ hP) (rankSort_sorted g l₂ hP₂)
  · exact sorted_unique g _ _ (fun e he => hP e (hr.subset he)) (hr.trans (rankSort_perm l₁).symm) hs
      (rankSort_sorted g l₁ hP)

/-- In every reachable state the persisted block-producer ranking is *strictly* ordered — every entry is
`Less` than every entry before it, no two are tied — and is the same whatever order the map iteration
delivered the tallies in: all its candidates are 39 bytes long and pairwise different. -/
theorem bp_ranking_strict {s : St} (h : GInv s) :
    (rankOf s.tally .bp).Pairwise (fun x y => less y x = true) ∧
    ∀ l : List Entry, l.Perm (entriesOf s.tally .bp) → rankSort l = rankOf s.tally .bp := by
  obtain ⟨h39, hnd⟩ := bp_entries h.cand h.votes.tally.2.1
  have hperm := rankSort_perm (entriesOf s.tally .bp)
  have h39r : ∀ e ∈ rankOf s.tally .bp, Is39 e := fun e he => h39 e (hperm.subset he)
  have hsorted : (rankOf s.tally .bp).Pairwise rankOk := rankSort_sorted good39 _ h39
  have hndr : (rankOf s.tally .bp).Nodup := by
    have : ((rankOf s.tally .bp).map (·.1)).Nodup := ((hperm.map (·.1)).nodup_iff).mpr hnd
    exact List.Pairwise.of_map (·.1) (fun a b hab e => hab (by rw [e])) this
  refine ⟨?_, fun l hl => ?_⟩
  · have hne : (rankOf s.tally .bp).Pairwise (· ≠ ·) := hndr
    refine (hsorted.and hne).imp_of_mem ?_
    intro x y hx hy hxy
    rcases good39.total x y (h39r x hx) (h39r y hy) hxy.2 with hl | hl
    · have := hxy.1; rw [rankOk] at this; rw [this] at hl; exact absurd hl (by simp)
    · exact hl
  · exact (ranking_independent_of_map_order good39 l _ (fun e he => h39 e (hl.subset he)) hl).1

/-- test: three producer entries, two iteration orders, one ranking (descending amount, then the tie-break). -/
example :
    let c (p x : UInt8) : Bytes := [0, 0x25, 8, 2, 0x12, 0x21, p] ++ List.replicate 32 x
    rankSort [(c 2 1, 5), (c 3 1, 5), (c 2 9, 7)] = rankSort [(c 2 9, 7), (c 3 1, 5), (c 2 1, 5)] ∧
    rankSort [(c 2 1, 5), (c 3 1, 5), (c 2 9, 7)] = [(c 2 9, 7), (c 2 1, 5), (c 3 1, 5)] := by decide

/-! ### Clause 4: voting-power rank, memory = reload -/

/-- The live rank equals the rank `loadVpr` rebuilds from the persisted buckets: same voters with the same
address and power, same buckets in the same order, same total power. -/
theorem vpr_memory_eq_reload {s : St} (h : GInv s) : VprEq (loadVpr s.vprDisk) s.vpr := vprOk_reload h.vpr.ok

/-- totalPower is the sum of the powers of the bucket entries, every entry is a voter of the `powers` map
with a positive power, and every voter of the map is the entry of its bucket. -/
theorem vpr_total_eq_sum {s : St} (h : GInv s) :
    s.vpr.total = bucketsTotal s.vpr.buckets ∧
    (∀ i e, e ∈ getBucket s.vpr.buckets i → s.vpr.powers.get e.id = some e ∧ 0 < e.power) ∧
    (∀ id p, s.vpr.powers.get id = some p → p ∈ getBucket s.vpr.buckets (bucketIdx id)) := by
  refine ⟨h.vpr.ok.total, fun i e he => ?_, fun id p hp => ?_⟩
  · have hw := h.vpr.ok.wf i
    have hidx := (hw.1 e he).1
    refine ⟨?_, (hw.1 e he).2⟩
    rw [h.vpr.ok.powers e.id, hidx]
    exact findId_of_mem hw.2 he
  · rw [h.vpr.ok.powers id] at hp
    exact (findId_some hp).1

/-- From hard fork 2 on, a declared account's voting power is the sum of its recorded voting amounts over
the five issues (this is what keeps every power non-negative, hence the persisted bytes faithful). -/
theorem vpr_power_eq_votes {s : St} (h : GInv s) (hfv : 2 ≤ s.fv) (a id : Bytes) (ha : s.accts.get a = some id) :
    powerOf s.vpr id = votePower s.votes a := h.vpr.link hfv a id ha

/-! ### Clause 5: lock periods and minimum stake -/

/-- Staking: the result is decided by three tests in this order — balance, lock period, minimum — and is
`ok` exactly when all pass. -/
theorem stake_rule (s : St) (a : Bytes) (h amt : Nat) :
    (stake s a h amt).1 =
      if s.balOf a < amt then .insufficient
      else if s.stakeLocked a h then .lessTime
      else if minStake s > ((s.stakedAmount a + amt : Nat) : Int) then .tooSmall
      else .ok := by
  rw [stake_fst]; unfold stakeCheck
  by_cases h1 : s.balOf a < amt
  · simp only [if_pos h1]
  · simp only [if_neg h1]
    by_cases h2 : s.stakeLocked a h = true
    · simp only [if_pos h2]
    · simp only [if_neg h2]
      by_cases h3 : minStake s > ((s.stakedAmount a + amt : Nat) : Int)
      · simp only [if_pos h3]
      · simp only [if_neg h3]

/-- "Within the lock period" for staking: a staking record exists and fewer than StakingDelay blocks have
passed since it was last written (by a stake, an unstake or a vote). -/
theorem stake_locked_iff (s : St) (a : Bytes) (h : Nat) :
    s.stakeLocked a h = true ↔ ∃ st, s.stakes.get a = some st ∧ h < st.when + stakingDelay := by
  unfold St.stakeLocked
  cases s.stakes.get a with
  | none => simp
  | some st => simp

/-- Unstaking: refused with the first failing test of — staked at all, not more than staked, lock period,
remainder zero or at least the minimum — and the state is unchanged. -/
theorem unstake_rule (s : St) (a : Bytes) (h amt : Nat) :
    (unstakeCheck s a h amt =
      if s.stakedAmount a = 0 then some .mustStakeUnstake
      else if s.stakedAmount a < amt then some .exceed
      else if s.stakedWhen a + stakingDelay > h then some .lessTime
      else if s.stakedAmount a - amt ≠ 0 ∧ minStake s > ((s.stakedAmount a - amt : Nat) : Int) then some .tooSmall
      else none) ∧
    (∀ r, unstakeCheck s a h amt = some r → unstake s a h amt = (r, s)) := by
  refine ⟨rfl, fun r hr => ?_⟩
  unfold unstake; rw [hr]

/-- An accepted unstake passed all four tests. -/
theorem unstake_accepted {s s' : St} {a : Bytes} {h amt : Nat} (hr : unstake s a h amt = (.ok, s')) :
    s.stakedAmount a ≠ 0 ∧ amt ≤ s.stakedAmount a ∧ s.stakedWhen a + stakingDelay ≤ h ∧
    (s.stakedAmount a - amt = 0 ∨ minStake s ≤ ((s.stakedAmount a - amt : Nat) : Int)) :=
  unstakeCheck_none (unstake_ok hr).1

/-- Voting (producer or parameter vote): refused without stake; a *re*-vote (a vote record for the issue
exists) is refused until VotingDelay blocks have passed since the staking record was last written; otherwise
it is executed (`panic` stands for the two Go panics the model keeps explicit: nil tally entry, division by
zero in `threshold`). -/
theorem vote_rule (s : St) (i : Issue) (a : Bytes) (h : Nat) (cands : List Bytes) :
    (s.stakedAmount a = 0 → castVote s i a h cands = (.mustStakeVote, s)) ∧
    (s.stakedAmount a ≠ 0 → (s.voteOf i a).isSome → h < s.stakedWhen a + votingDelay →
      castVote s i a h cands = (.lessTime, s)) ∧
    (s.stakedAmount a ≠ 0 → ¬ ((s.voteOf i a).isSome ∧ h < s.stakedWhen a + votingDelay) →
      (castVote s i a h cands).1 = .ok ∨ (castVote s i a h cands).1 = .panic) := by
  refine ⟨fun h1 => ?_, fun h1 hv hw => ?_, fun h1 h2 => ?_⟩
  · unfold castVote voteCheck; rw [if_pos h1]
  · unfold castVote voteCheck; rw [if_neg h1, if_pos ⟨hv, hw⟩]
  · unfold castVote voteCheck
    have : ¬ ((s.voteOf i a).isSome ∧ s.stakedWhen a + votingDelay > h) := h2
    rw [if_neg h1, if_neg this]
    simp only
    unfold voteRun
    split
    · exact Or.inr rfl
    · exact Or.inl rfl

/-- Every successful stake, unstake or vote at height `h` restarts the account's lock periods: the staking
record's `When` becomes `h` (all three delays are measured from it). -/
theorem lock_restarts {s s' : St} {a : Bytes} {h : Nat} :
    (∀ amt, stake s a h amt = (.ok, s') → s'.stakedWhen a = h) ∧
    (∀ amt, unstake s a h amt = (.ok, s') → s'.stakedWhen a = h) ∧
    (∀ i cands, castVote s i a h cands = (.ok, s') → s'.stakedWhen a = h) := by
  refine ⟨fun amt hr => ?_, fun amt hr => ?_, fun i cands hr => ?_⟩
  · obtain ⟨_, bal, _, rfl⟩ := stake_ok hr
    unfold St.stakedWhen; simp only; rw [AMap.get_set_eq]
  · obtain ⟨_, s2, bal, hf, _, rfl⟩ := unstake_ok hr
    obtain ⟨_, _, _, hst, _⟩ := refreshVotes_frame _ _ _ _ _ hf
    unfold St.stakedWhen; simp only; rw [hst]
    show (match AMap.get (s.stakes.set a ⟨s.stakedAmount a - amt, h⟩) a with | some st => st.when | none => 0) = h
    rw [AMap.get_set_eq]
  · obtain ⟨_, hv⟩ := castVote_ok hr
    obtain ⟨_, _, _, hst, _⟩ := revote_frame hv
    unfold St.stakedWhen; rw [hst]
    show (match AMap.get (s.stakes.set a ⟨s.stakedAmount a, h⟩) a with | some st => st.when | none => 0) = h
    rw [AMap.get_set_eq]

/-- A refused operation leaves the whole state unchanged (the transaction is rolled back). -/
theorem refused_unchanged (s : St) (o : Op) (hr : (step s o).1 ≠ .ok) : (step s o).2 = s := by
  rcases step_result s o with h | h
  · exact absurd h hr
  · exact h

/-! ### Clause 6: unstaking returns exactly the requested amount -/

/-- A successful unstake of `amt` by `a` moves exactly `amt` from `aergo.system` to `a`, lowers the record and
the total by `amt`, and touches no other balance or record. -/
theorem unstake_exact {s s' : St} {a : Bytes} {h amt : Nat} (hi : GInv s) (ha : a ≠ sysAddr)
    (hr : unstake s a h amt = (.ok, s')) :
    s'.balOf a = s.balOf a + amt ∧ s'.balOf sysAddr = s.balOf sysAddr - amt ∧ amt ≤ s.balOf sysAddr ∧
    s'.stakedAmount a = s.stakedAmount a - amt ∧ amt ≤ s.stakedAmount a ∧
    s'.total = s.total - amt ∧ amt ≤ s.total ∧
    (∀ x, x ≠ a → x ≠ sysAddr → s'.balOf x = s.balOf x) ∧ (∀ x, x ≠ a → s'.stakedAmount x = s.stakedAmount x) := by
  obtain ⟨hc, s2, bal, hf, hs, rfl⟩ := unstake_ok hr
  obtain ⟨_, hle, _, _⟩ := unstakeCheck_none hc
  obtain ⟨_, _, hb, hst, _⟩ := refreshVotes_frame _ _ _ _ _ hf
  obtain ⟨_, htot, hle2⟩ := invTotal_unstake hi.total hr
  have hsp := sendBalance_spec hs (Ne.symm ha)
  rw [hb] at hsp
  have hstk : ∀ x, St.stakedAmount { s2 with total := ((s2.total : Int) - amt).natAbs, bal := bal } x
      = if a = x then s.stakedAmount a - amt else s.stakedAmount x := fun x =>
    stakedAmount_set s a x ⟨s.stakedAmount a - amt, h⟩ _ (by simp only; rw [hst]; rfl)
  refine ⟨?_, ?_, ?_, ?_, hle, htot, hle2, fun x hx hy => ?_, fun x hx => ?_⟩
  · show bget bal a = _; rw [hsp.2.2.1]; rfl
  · show bget bal sysAddr = _; rw [hsp.2.1]; rfl
  · exact hsp.1
  · rw [hstk a]; simp
  · show bget bal x = _; rw [hsp.2.2.2 x hy hx]; rfl
  · rw [hstk x]; simp [Ne.symm hx]

/-- Under the invariant the staking account always holds what an accepted unstake pays out: the
`insufficient` answer of SendBalance cannot occur after validation. -/
theorem unstake_never_insufficient {s : St} {a : Bytes} {h amt : Nat} (hi : GInv s)
    (hc : unstakeCheck s a h amt = none) : (unstake s a h amt).1 = .ok ∨ (unstake s a h amt).1 = .panic := by
  unfold unstake; rw [hc]; simp only
  unfold unstakeRun
  cases hf : refreshVotes a (s.stakedAmount a - amt) catalog (unstakeMid s a h amt) with
  | none => exact Or.inr rfl
  | some s2 =>
    simp only
    obtain ⟨_, _, hb, _⟩ := refreshVotes_frame _ _ _ _ _ hf
    obtain ⟨_, hle, _, _⟩ := unstakeCheck_none hc
    have h1 := stakedAmount_le_total hi.total a
    have h2 := hi.sys.sys
    obtain ⟨bal, hs⟩ := sendBalance_ok s2.bal sysAddr a amt (by rw [hb]; show amt ≤ bget s.bal sysAddr; rw [← St.balOf_eq, h2]; omega)
    rw [hs]; exact Or.inl rfl

/-! ### Clause 7: names -/

/-- The name table binds a name to at most one (owner, destination) record — in every reachable state. -/
structure InvNames (s : St) : Prop where
  nodup : s.names.keys.Nodup

theorem name_unique {s : St} (h : InvNames s) (n : Bytes) (r₁ r₂ : NameRec) (h₁ : (n, r₁) ∈ s.names)
    (h₂ : (n, r₂) ∈ s.names) : r₁ = r₂ := by
  have e1 := AMap.get_of_mem h.nodup h₁
  have e2 := AMap.get_of_mem h.nodup h₂
  rw [e1] at e2; injection e2

/-- No operation creates a second record for a name. -/
theorem name_unique_step {s : St} (o : Op) (hn : InvNames s) : InvNames (step s o).2 := by
  rcases step_result s o with hok | hsame
  case inr => rw [hsame]; exact hn
  · have hr : step s o = (.ok, (step s o).2) := Prod.ext hok rfl
    generalize (step s o).2 = s' at hr
    cases o with
    | stake a h amt => obtain ⟨_, bal, _, rfl⟩ := stake_ok hr; exact ⟨hn.nodup⟩
    | unstake a h amt =>
      obtain ⟨_, s2, bal, hf, _, rfl⟩ := unstake_ok hr
      obtain ⟨_, _, _, _, _, _, hnm, _⟩ := refreshVotes_frame _ _ _ _ _ hf
      exact ⟨by show (AMap.keys s2.names).Nodup; rw [hnm]; exact hn.nodup⟩
    | voteBP a h c =>
      obtain ⟨_, hv⟩ := castVote_ok (voteBP_ok hr).2
      obtain ⟨_, _, _, _, _, _, _, hnm, _⟩ := revote_frame hv
      exact ⟨by rw [hnm]; exact hn.nodup⟩
    | voteDAO a h id args =>
      obtain ⟨_, i, _, _, _, hc⟩ := voteDAO_ok hr
      obtain ⟨_, hv⟩ := castVote_ok hc
      obtain ⟨_, _, _, _, _, _, _, hnm, _⟩ := revote_frame hv
      exact ⟨by rw [hnm]; exact hn.nodup⟩
    | transfer x y amt => obtain ⟨_, bal, _, rfl⟩ := transfer_ok hr; exact ⟨hn.nodup⟩
    | nameCreate a n amt => obtain ⟨_, _, _, bal, _, rfl⟩ := nameCreate_ok hr; exact ⟨AMap.nodup_set hn.nodup _ _⟩
    | nameUpdate t sd n to amt => obtain ⟨_, _, _, _, bal, _, rfl⟩ := nameUpdate_ok hr; exact ⟨AMap.nodup_set hn.nodup _ _⟩
    | setOwner o => obtain ⟨_, bal, _, rfl⟩ := nameSetOwner_ok hr; exact ⟨AMap.nodup_set hn.nodup _ _⟩
    | endBlock => simp only [step, Prod.mk.injEq, true_and] at hr; subst hr; exact ⟨hn.nodup⟩
    | restart => simp only [step, Prod.mk.injEq, true_and] at hr; subst hr; exact ⟨hn.nodup⟩

/-- A name is created only when it is free and at least the name price is paid; the sender becomes owner and
destination, and the amount leaves the sender's balance (it goes to `aergo.name`, or to the contract owner
once one is set — nothing moves when the sender *is* that owner). -/
theorem name_create_rule {s s' : St} {a n : Bytes} {amt : Nat} (hr : nameCreate s a n amt = (.ok, s')) :
    s.names.get n = none ∧ namePrice s ≤ (amt : Int) ∧ amt ≤ s.balOf a ∧
    s'.names.get n = some ⟨a, a⟩ ∧
    (a ≠ s.nameState → s'.balOf a = s.balOf a - amt ∧ s'.balOf s.nameState = s.balOf s.nameState + amt) := by
  obtain ⟨hb, hp, hfree, bal, hs, rfl⟩ := nameCreate_ok hr
  refine ⟨hfree, hp, hb, AMap.get_set_eq _ _ _, fun hne => ?_⟩
  have := sendBalance_spec hs hne
  exact ⟨this.2.1, this.2.2.1⟩

/-- A name is changed only by a transaction whose account is the name itself (signed by the holder of its
destination address) or its recorded owner, again for at least the price. -/
theorem name_update_rule {s s' : St} {t sd n to : Bytes} {amt : Nat} (hr : nameUpdate s t sd n to amt = (.ok, s')) :
    (t = n ∨ some t = s.ownerOf n) ∧ namePrice s ≤ (amt : Int) ∧ 12 < (s.committedDest n).length ∧
    s'.names.get n = some ⟨s.resolve to, s.resolve to⟩ := by
  obtain ⟨_, hp, hauth, hc, bal, _, rfl⟩ := nameUpdate_ok hr
  exact ⟨hauth, hp, hc, AMap.get_set_eq _ _ _⟩

/-- Whatever an operation does, it changes at most the record of the one name it is about: every other name
keeps its owner and destination (only the three name operations write the name table at all). -/
theorem name_others_unchanged (s : St) (o : Op) (m : Bytes)
    (hm : match o with
      | .nameCreate _ n _ => m ≠ n
      | .nameUpdate _ _ n _ _ => m ≠ n
      | .setOwner _ => m ≠ nameAddr
      | _ => True) :
    (step s o).2.names.get m = s.names.get m := by
  rcases step_result s o with hok | hsame
  case inr => rw [hsame]
  · have hr : step s o = (.ok, (step s o).2) := Prod.ext hok rfl
    generalize (step s o).2 = s' at hr
    cases o with
    | stake a h amt => obtain ⟨_, bal, _, rfl⟩ := stake_ok hr; rfl
    | unstake a h amt =>
      obtain ⟨_, s2, bal, hf, _, rfl⟩ := unstake_ok hr
      obtain ⟨_, _, _, _, _, _, hn, _⟩ := refreshVotes_frame _ _ _ _ _ hf
      show s2.names.get m = _; rw [hn]; rfl
    | voteBP a h c =>
      obtain ⟨_, hv⟩ := castVote_ok (voteBP_ok hr).2
      obtain ⟨_, _, _, _, _, _, _, hn, _⟩ := revote_frame hv
      rw [hn]; rfl
    | voteDAO a h id args =>
      obtain ⟨_, i, _, _, _, hc⟩ := voteDAO_ok hr
      obtain ⟨_, hv⟩ := castVote_ok hc
      obtain ⟨_, _, _, _, _, _, _, hn, _⟩ := revote_frame hv
      rw [hn]; rfl
    | transfer x y amt => obtain ⟨_, bal, _, rfl⟩ := transfer_ok hr; rfl
    | nameCreate a n amt =>
      obtain ⟨_, _, _, bal, _, rfl⟩ := nameCreate_ok hr
      exact AMap.get_set_ne _ _ (Ne.symm hm)
    | nameUpdate t sd n to amt =>
      obtain ⟨_, _, _, _, bal, _, rfl⟩ := nameUpdate_ok hr
      exact AMap.get_set_ne _ _ (Ne.symm hm)
    | setOwner o =>
      obtain ⟨_, bal, _, rfl⟩ := nameSetOwner_ok hr
      exact AMap.get_set_ne _ _ (Ne.symm hm)
    | endBlock => simp only [step, Prod.mk.injEq, true_and] at hr; subst hr; rfl
    | restart => simp only [step, Prod.mk.injEq, true_and] at hr; subst hr; rfl

/-! ### Record codecs (support for the structured state of the model) -/

/-- Staking record round trip (block number below 2^64). -/
theorem staking_codec (w : Nat) (a : Bytes) (hw : w < 2 ^ 64) : deserStaking (serStaking w a) = some (w, a) :=
  staking_roundtrip w a hw

/-- Producer-vote record round trip — exactly under the framing condition: candidate bytes a multiple of 39,
amount shorter than 39 bytes. Without it: `vote_codec_breaks_on_38_bytes`. -/
theorem vote_codec (c a : Bytes) (hc : c.length % 39 = 0) (ha : a.length < 39) : deserVote (serVote c a) = (c, a) :=
  vote_roundtrip c a hc ha

/-- test: the hypotheses are satisfiable — two 39-byte candidates and a 10-byte amount. -/
example : deserVote (serVote (List.replicate 78 1) (List.replicate 10 2)) = (List.replicate 78 1, List.replicate 10 2) := by
  decide

/-- Parameter-vote record round trip (length-prefixed candidate). -/
theorem voteEx_codec (c a : Bytes) (hc : c.length < 2 ^ 64) : deserVoteEx (serVoteEx c a) = some (c, a) :=
  voteEx_roundtrip c a hc

/-- Name record round trip. -/
theorem nameMap_codec (o d : Bytes) (ho : o.length < 2 ^ 64) (hd : d.length < 2 ^ 64) :
    deserNameMap (serNameMap o d) = some (o, d) := nameMap_roundtrip o d ho hd

/-- Voting-power entry round trip, also when further entries follow in the bucket. -/
theorem votingPower_codec (id addr pwr rest : Bytes) (hid : id.length = 32) (ha : addr.length < 65536)
    (hp : pwr.length < 65536) :
    unmarshalVP (marshalVP id addr pwr ++ rest) = some (id, addr, pwr, 36 + addr.length + pwr.length) :=
  vp_roundtrip id addr pwr rest hid ha hp

/-- Persisted vote list (the ranking) round trip: each element framed correctly (producer list: candidate
39·k bytes and amount shorter than 39 bytes; parameter list: length-prefixed). -/
theorem voteList_codec (ex : Bool) (l : List (Bytes × Bytes)) (hok : ∀ e ∈ l, ElemOk ex e) :
    deserVoteList ex (serVoteList ex l) = some l := voteList_roundtrip ex l hok

/-- test: a two-entry producer list satisfies the framing condition. -/
example : ∀ e ∈ [((List.replicate 39 1 : Bytes), ([5, 6] : Bytes)), (List.replicate 39 2, [7])], ElemOk false e := by
  intro e he
  simp only [List.mem_cons, List.not_mem_nil, or_false] at he
  rcases he with rfl | rfl <;> simp [ElemOk, elemSer, serVote]

/-- Persisted voting-power bucket round trip (what `loadVpr` reads is what `vpr.apply` wrote). -/
theorem bucket_codec (l : List (Bytes × Bytes × Bytes)) (hok : ∀ e ∈ l, VpOk e) :
    unmarshalBucket (marshalBucket l) = some l := bucket_roundtrip l hok

end Aergo.Props.C15
