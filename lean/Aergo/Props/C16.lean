/-
C16 — Raft log storage and membership: durable, truncating correctly, quorum-safe.

"The replicated-log storage returns, for every index up to the last one written, exactly the
entry most recently stored at that index (with the block it carries), reports entries removed by
a conflicting overwrite as absent, and preserves the hard state, snapshot and node identity
across restart, so that a restarted node hands the consensus library the same log it
acknowledged. Cluster membership changes are refused when they would duplicate a member's name,
id, address or peer id, re-add a removed member, remove an unknown one, or remove a healthy node
when the remaining healthy nodes would lose quorum."

The theorems are about the model `Aergo.RaftLog` (Model/RaftLog.lean), which transcribes
chain/chaindbForRaft.go, raftv2/waldb.go and the membership checks of raftv2/cluster.go; the
harness `c16` runs the real functions and the model on the same operation lines on every check.
The quorum arithmetic is `Aergo.Gen.RaftQuorum`, regenerated from cluster.go on every run.

Vocabulary (Lemmas/RaftLog.lean): a history is a list of operations applied to the fresh store
(`run empty ops`); `ValidFrom empty ops` says that every batch handed to the storage is what
etcd/raft hands it: non-empty, contiguous ascending, starting at an index in `[1, last+1]`, block
entries with their block and conf-change entries with their proposal; there is no bound on the
length of the history, the batches, or the amount of overlap. `mostRecent ops j` is the item
most recently stored at index `j` since the last ClearWAL/ResetWAL.

Not carried by a theorem here: that a restart really is the identity on the key/value store
(a property of the DB; exercised by the harness with a restart after every operation), the byte
codecs (gob, protobuf, JSON), and etcd/raft itself. The block-addressed lookup
`GetRaftEntryOfBlock` keeps a stale inverse-index entry after a truncation (DESIGN §5 lead 10,
reproduced on the real code); the property speaks of index-addressed reads, the model has the
behaviour and the example marked "lead 10" at the end of this file records it.
-/
import Aergo.Lemmas.RaftLog

namespace Aergo.Props.C16
open Aergo.RaftLog

/-! ## The log -/

/-- **Log refinement.** After any admissible history — any number of append batches, overwrites
of a suffix (shorter, equal or longer than the existing one), hard-state, snapshot and identity
writes, restarts, ClearWAL and ResetWAL, in any order — `GetRaftEntry j` returns exactly the entry
most recently stored at `j` for every `j` up to the last index, and reports every index beyond
the last index (in particular everything a conflicting overwrite truncated) as absent. -/
theorem log_refines (ops : List Op) (hv : ValidFrom empty ops) (j : Nat) :
    (j ≤ lastIdx (run empty ops) →
      getRaftEntry (run empty ops) j = match mostRecent ops j with
                                        | some it => .ok it.e
                                        | none => .noEntry) ∧
    (lastIdx (run empty ops) < j → getRaftEntry (run empty ops) j = .noEntry) := by
  obtain ⟨⟨w1, _⟩, h⟩ := logInv_run ops hv
  constructor
  · intro hj
    have := h j hj
    unfold getRaftEntry
    rw [this]
    cases hm : mostRecent ops j with
    | none => rfl
    | some it => simp [mostRecent_index ops j it hm]
  · intro hj
    unfold getRaftEntry
    rw [w1 j hj]

/-- `GetRaftEntry` never answers "mismatched entry" on an admissible history. -/
theorem get_never_mismatch (ops : List Op) (hv : ValidFrom empty ops) (j : Nat) :
    getRaftEntry (run empty ops) j ≠ .mismatch := by
  obtain ⟨h1, h2⟩ := log_refines ops hv j
  by_cases hj : j ≤ lastIdx (run empty ops)
  · rw [h1 hj]; split <;> simp
  · rw [h2 (by omega)]; simp

/-- A valid batch succeeds and leaves the last index at the index of its last entry: whatever
the previous last index was, everything from the batch's end up to it is gone
(with `log_refines`: reported absent). -/
theorem last_after_write (ops : List Op) (items : List Item)
    (hv : ValidFrom empty (ops ++ [.write items])) :
    ∃ f, Contig f items ∧ 1 ≤ f ∧ f ≤ lastIdx (run empty ops) + 1 ∧
      lastIdx (run empty (ops ++ [.write items])) = f + items.length - 1 ∧
      (step (run empty ops) (.write items)).2 = .ok := by
  obtain ⟨_, hok⟩ := (validFrom_snoc empty ops _).mp hv
  have hvb : ValidBatch (lastIdx (run empty ops)) items := by simpa [OpOk, Op.items] using hok
  obtain ⟨s', f, hw, hf1, hf2, hc, hl, -⟩ := writeRaftEntry_valid hvb
  refine ⟨f, hc, hf1, hf2, ?_, ?_⟩
  · rw [run_snoc]; simp only [applyOp, step, hw]; exact hl
  · simp only [step, hw]

/-- **The block an entry carries.** If the entry most recently stored at `j ≤ last` is a block
entry written together with block `b` (its data being `b`'s hash, as `convertFromRaft` makes it),
then `GetBlock(entry.Data)` returns exactly `b` — provided no two different blocks the history
stored share a hash (collision resistance of the block hash: a hypothesis, not an axiom). -/
theorem block_carried (ops : List Op) (hv : ValidFrom empty ops)
    (hinj : ∀ b ∈ blocksOf ops, ∀ b' ∈ blocksOf ops, b.hash = b'.hash → b = b')
    (j : Nat) (it : Item) (b : Block)
    (hm : mostRecent ops j = some it) (ht : it.e.typ = tBlock) (hb : it.blk = some b)
    (hd : it.e.data = b.hash) (hne : b.hash ≠ []) :
    getBlock (run empty ops) it.e.data = .ok b := by
  obtain ⟨i1, i2⟩ := blkInv_run ops hv
  have hmem := mostRecent_stored ops j it b hm ht hb
  have hs := i1 b hmem
  cases hx : (run empty ops).blocks b.hash with
  | none => simp [hx] at hs
  | some b' =>
    obtain ⟨e1, e2⟩ := i2 _ _ hx
    have : b' = b := hinj b' e2 b hmem e1
    subst this
    simp [getBlock, hd, hne, hx]

/-- **What a restarted node hands back to etcd/raft.** Whenever `ReadAll(snapshot)` succeeds it
returns the stored hard state and identity and exactly `last − snapshot.Index` entries: the
`k`-th one is the conversion of the entry `GetRaftEntry` returns for index
`snapshot.Index + 1 + k` (whose term is not below the snapshot term). Holds in every state. -/
theorem readAll_sound (s : St) (snap : Option (Nat × Nat)) (id : Option Identity) (hs : HardState)
    (es : List RaftOut) (h : readAll s snap = .ok (id, hs, es)) :
    s.hard = some hs ∧ id = s.ident ∧ es.length = lastIdx s - (snap.getD (0, 0)).1 ∧
    ∀ k, k < es.length → ∃ e re, getRaftEntry s ((snap.getD (0, 0)).1 + 1 + k) = .ok e ∧
      (snap.getD (0, 0)).2 ≤ e.term ∧ convertWalToRaft s e = .ok re ∧ es[k]? = some re := by
  unfold readAll at h
  cases hh : s.hard with
  | none => simp [hh] at h
  | some hs' =>
    simp only [hh] at h
    cases hr : readFrom s (snap.getD (0, 0)).2 ((snap.getD (0, 0)).1 + 1) (lastIdx s - (snap.getD (0, 0)).1) with
    | error r => simp [hr] at h
    | ok es' =>
      simp only [hr] at h
      cases h
      obtain ⟨hl, hk⟩ := readFrom_sound s _ _ _ _ hr
      exact ⟨rfl, rfl, hl, fun k hk' => hk k (by omega)⟩

/-- `ReadAll` end to end: on an admissible history, every entry it returns for an index
`j ≤ last` is the conversion of the entry most recently stored at `j`. -/
theorem readAll_returns_most_recent (ops : List Op) (hv : ValidFrom empty ops) (snap : Option (Nat × Nat))
    (id : Option Identity) (hs : HardState) (es : List RaftOut)
    (h : readAll (run empty ops) snap = .ok (id, hs, es)) (k : Nat) (hk : k < es.length) :
    ∃ it re, mostRecent ops ((snap.getD (0, 0)).1 + 1 + k) = some it ∧
      convertWalToRaft (run empty ops) it.e = .ok re ∧ es[k]? = some re := by
  obtain ⟨_, _, hl, hall⟩ := readAll_sound _ snap id hs es h
  obtain ⟨e, re, hg, _, hc, he⟩ := hall k hk
  have hj : (snap.getD (0, 0)).1 + 1 + k ≤ lastIdx (run empty ops) := by omega
  have := (log_refines ops hv _).1 hj
  rw [this] at hg
  cases hm : mostRecent ops ((snap.getD (0, 0)).1 + 1 + k) with
  | none => simp [hm] at hg
  | some it =>
    simp only [hm, GetRes.ok.injEq] at hg
    exact ⟨it, re, rfl, by rw [hg]; exact hc, he⟩

/-! ## Restart, clear, reset -/

/-- **Restart.** A restart (fresh ChainDB on the same store) leaves every durable map as it
is, hence every WAL getter answers as before: entries by index, last index, entry of a block,
hard state, snapshot, identity, conf-change progress, and `ReadAll`. -/
theorem restart_same (s s' : St) (h : restart s = some s') :
    (∀ j, getRaftEntry s' j = getRaftEntry s j) ∧ lastIdx s' = lastIdx s ∧
    (∀ hsh, getRaftEntryOfBlock s' hsh = getRaftEntryOfBlock s hsh) ∧
    (∀ hsh, getBlock s' hsh = getBlock s hsh) ∧
    s'.hard = s.hard ∧ s'.snap = s.snap ∧ s'.ident = s.ident ∧ s'.ccp = s.ccp ∧
    (∀ snap, readAll s' snap = readAll s snap) := by
  unfold restart at h
  split at h
  · next b hb =>
    cases h
    have hrf : ∀ t i n, readFrom { s with best := b } t i n = readFrom s t i n := by
      intro t i n
      induction n generalizing i with
      | zero => rfl
      | succ n ih => simp only [readFrom]; rw [ih]; rfl
    exact ⟨fun _ => rfl, rfl, fun _ => rfl, fun _ => rfl, rfl, rfl, rfl, rfl, fun snap => by
      simp only [readAll, hrf]; rfl⟩
  · cases h

/-- **Hard state.** After any admissible history the stored hard state is the last non-empty one
handed to `SaveEntry` (or `WriteHardState`), with all three fields — term, vote, commit — whatever
the previous one was (in particular when it differs from it only in the vote); with `restart_same`
this is also what a restarted node reads back, through `GetHardState` and through `ReadAll`. -/
theorem hard_state_refines (ops : List Op) (hv : ValidFrom empty ops) :
    (run empty ops).hard = lastHard ops ∧
    ∀ snap id hs es, readAll (run empty ops) snap = .ok (id, hs, es) → lastHard ops = some hs := by
  refine ⟨hard_run ops hv, fun snap id hs es h => ?_⟩
  rw [← hard_run ops hv]
  exact (readAll_sound _ snap id hs es h).1

/-- **Restart of a reachable state.** After any admissible history, a restart succeeds and
changes nothing at all — the best block reloaded from the latest key, the number index and the
block store is the one that was in memory — provided the stored blocks have pairwise different,
non-empty hashes (hypothesis `HashOk`, not an axiom). -/
theorem restart_reachable (ops : List Op) (hv : ValidFrom empty ops) (hh : HashOk (blocksOf ops)) :
    restart (run empty ops) = some (run empty ops) :=
  restart_id (blkInv_run ops hv) (bestInv_run ops hv hh) hh

/-- **ClearWAL.** In a state reached by an admissible history, after ClearWAL nothing of the WAL
is readable: no entry at any index, last index 0, no hard state, snapshot or identity, and
`ReadAll` fails. -/
theorem clear_forgets (ops : List Op) (hv : ValidFrom empty ops) :
    (∀ j, getRaftEntry (clearWAL (run empty ops)) j = .noEntry) ∧ lastIdx (clearWAL (run empty ops)) = 0 ∧
    (clearWAL (run empty ops)).hard = none ∧ (clearWAL (run empty ops)).snap = none ∧
    (clearWAL (run empty ops)).ident = none ∧
    (∀ snap, readAll (clearWAL (run empty ops)) snap = .error .hardState) := by
  obtain ⟨⟨w1, w2⟩, _⟩ := logInv_clear (logInv_run ops hv)
  refine ⟨fun j => ?_, rfl, rfl, rfl, rfl, fun _ => rfl⟩
  unfold getRaftEntry
  by_cases h0 : j = 0
  · subst h0; rw [w2]
  · rw [w1 j (by have : lastIdx (clearWAL (run empty ops)) = 0 := rfl; omega)]

/-- **ResetWAL.** With a best block `b`, `ResetWAL(term, commit)` succeeds and leaves: last index
= `commit`, hard state `(term, 0, commit)`, a snapshot at `(commit, term)` of `b`, no identity and
no readable entry. -/
theorem reset_state (ops : List Op) (hv : ValidFrom empty ops) (term commit : Nat) (b : Block)
    (hb : (run empty ops).best = some b) :
    (resetWAL (run empty ops) (some (term, commit))).2 = .ok ∧
    lastIdx (resetWAL (run empty ops) (some (term, commit))).1 = commit ∧
    (resetWAL (run empty ops) (some (term, commit))).1.hard = some ⟨term, 0, commit⟩ ∧
    (resetWAL (run empty ops) (some (term, commit))).1.snap = some ⟨commit, term, b⟩ ∧
    (resetWAL (run empty ops) (some (term, commit))).1.ident = none ∧
    (∀ j, getRaftEntry (resetWAL (run empty ops) (some (term, commit))).1 j = .noEntry) := by
  have hbb : (clearWAL (run empty ops)).best = some b := hb
  obtain ⟨hall, _⟩ := clear_forgets ops hv
  have hr : resetWAL (run empty ops) (some (term, commit)) =
      ({ clearWAL (run empty ops) with hard := some ⟨term, 0, commit⟩, snap := some ⟨commit, term, b⟩,
                                        lastKey := some commit }, .ok) := by
    simp only [resetWAL, hbb]
  rw [hr]
  exact ⟨rfl, rfl, rfl, rfl, rfl, fun j => hall j⟩

/-- Without a best block `ResetWAL` panics *after* it cleared the WAL and wrote the hard state
(it is not atomic); a nil argument is refused without touching anything. -/
theorem reset_not_atomic (s : St) (term commit : Nat) (hb : s.best = none) :
    (resetWAL s (some (term, commit))).2 = .panic ∧
    (resetWAL s (some (term, commit))).1.hard = some ⟨term, 0, commit⟩ ∧
    lastIdx (resetWAL s (some (term, commit))).1 = 0 ∧
    resetWAL s none = (s, .nilHardState) := by
  have hbb : (clearWAL s).best = none := hb
  have hr : resetWAL s (some (term, commit)) = ({ clearWAL s with hard := some ⟨term, 0, commit⟩ }, .panic) := by
    simp only [resetWAL, hbb]
  rw [hr]
  exact ⟨rfl, rfl, rfl, rfl⟩

/-! ## Membership -/

/-- **Adding.** A request to add member `m` is refused by `validateChangeMembership` exactly when
its id is 0, the id belongs to a removed member, the member is invalid (empty name, address or
peer id, unparseable address), or an applied member has the same id, name, address or peer id. -/
theorem add_refused_iff (cl : Cluster) (m : Member) :
    validate cl ccAdd (some m) ≠ .ok ↔
      m.id = 0 ∨ m.id ∈ cl.removed ∨ m.isValid = false ∨
      ∃ p ∈ cl.applied, p.id = m.id ∨ p.name = m.name ∨ p.addr = m.addr ∨ p.peer = m.peer := by
  have hdup : hasDuplicatedMember cl.applied m = true ↔
      ∃ p ∈ cl.applied, p.name = m.name ∨ p.id = m.id ∨ p.addr = m.addr ∨ p.peer = m.peer := by
    simp [hasDuplicatedMember, Member.hasDupAttr, List.any_eq_true, or_assoc]
  have hget : (getMember cl.applied m.id).isSome = true → ∃ p ∈ cl.applied, p.id = m.id := by
    intro h
    cases hf : getMember cl.applied m.id with
    | none => simp [hf] at h
    | some p =>
      unfold getMember at hf
      exact ⟨p, List.mem_of_find?_eq_some hf, by simpa using List.find?_some hf⟩
  have hok : validate cl ccAdd (some m) = .ok ↔
      (m.id ≠ 0 ∧ cl.removed.contains m.id = false ∧ m.isValid = true ∧
       (getMember cl.applied m.id).isSome = false ∧ hasDuplicatedMember cl.applied m = false) := by
    unfold validate
    by_cases h0 : m.id = 0 <;> by_cases hr : cl.removed.contains m.id = true <;>
    by_cases hv : m.isValid = true <;> by_cases hg : (getMember cl.applied m.id).isSome = true <;>
    by_cases hd : hasDuplicatedMember cl.applied m = true <;> simp_all [ccAdd]
  rw [ne_eq, hok]
  constructor
  · intro h
    by_cases h0 : m.id = 0
    · exact Or.inl h0
    by_cases hr : m.id ∈ cl.removed
    · exact Or.inr (Or.inl hr)
    by_cases hv : m.isValid = true
    · by_cases hg : (getMember cl.applied m.id).isSome = true
      · obtain ⟨p, hp, hpid⟩ := hget hg
        exact Or.inr (Or.inr (Or.inr ⟨p, hp, Or.inl hpid⟩))
      · by_cases hd : hasDuplicatedMember cl.applied m = true
        · obtain ⟨p, hp, hh⟩ := hdup.mp hd
          refine Or.inr (Or.inr (Or.inr ⟨p, hp, ?_⟩))
          rcases hh with h | h | h | h
          · exact Or.inr (Or.inl h)
          · exact Or.inl h
          · exact Or.inr (Or.inr (Or.inl h))
          · exact Or.inr (Or.inr (Or.inr h))
        · exact absurd ⟨h0, by simpa using hr, hv, by simpa using hg, by simpa using hd⟩ h
    · exact Or.inr (Or.inr (Or.inl (by simpa using hv)))
  · rintro (h | h | h | ⟨p, hp, hh⟩) ⟨a1, a2, a3, a4, a5⟩
    · exact a1 h
    · have : ¬ m.id ∈ cl.removed := by simpa using a2
      exact this h
    · rw [a3] at h; cases h
    · have : hasDuplicatedMember cl.applied m = true := by
        apply hdup.mpr
        refine ⟨p, hp, ?_⟩
        rcases hh with h | h | h | h
        · exact Or.inr (Or.inl h)
        · exact Or.inl h
        · exact Or.inr (Or.inr (Or.inl h))
        · exact Or.inr (Or.inr (Or.inr h))
      rw [a5] at this; cases this

/-- The clauses of the property, one by one: a duplicated name, id, address or peer id refuses the add. -/
theorem duplicate_refused (cl : Cluster) (m p : Member) (hp : p ∈ cl.applied)
    (h : p.name = m.name ∨ p.id = m.id ∨ p.addr = m.addr ∨ p.peer = m.peer) :
    validate cl ccAdd (some m) ≠ .ok := by
  apply (add_refused_iff cl m).mpr
  refine Or.inr (Or.inr (Or.inr ⟨p, hp, ?_⟩))
  rcases h with h | h | h | h
  · exact Or.inr (Or.inl h)
  · exact Or.inl h
  · exact Or.inr (Or.inr (Or.inl h))
  · exact Or.inr (Or.inr (Or.inr h))

/-- Re-adding a removed member (same id) is refused. -/
theorem readd_removed_refused (cl : Cluster) (m : Member) (h : m.id ∈ cl.removed) :
    validate cl ccAdd (some m) ≠ .ok :=
  (add_refused_iff cl m).mpr (Or.inr (Or.inl h))

/-- **Removing.** A request to remove member `m` is refused by `validateChangeMembership` exactly
when its id is 0, it was already removed, or no applied member has this id (unknown member). -/
theorem remove_refused_iff (cl : Cluster) (m : Member) :
    validate cl ccRemove (some m) ≠ .ok ↔
      m.id = 0 ∨ m.id ∈ cl.removed ∨ ¬ ∃ p ∈ cl.applied, p.id = m.id := by
  have hget : (getMember cl.applied m.id).isNone = true ↔ ¬ ∃ p ∈ cl.applied, p.id = m.id := by
    unfold getMember
    simp [List.find?_eq_none]
  have hok : validate cl ccRemove (some m) = .ok ↔
      (m.id ≠ 0 ∧ cl.removed.contains m.id = false ∧ (getMember cl.applied m.id).isNone = false) := by
    unfold validate
    by_cases h0 : m.id = 0 <;> by_cases hr : cl.removed.contains m.id = true <;>
    cases hg : getMember cl.applied m.id <;> simp_all [ccAdd, ccRemove]
  rw [ne_eq, hok]
  constructor
  · intro h
    by_cases h0 : m.id = 0
    · exact Or.inl h0
    by_cases hr : m.id ∈ cl.removed
    · exact Or.inr (Or.inl hr)
    by_cases hg : (getMember cl.applied m.id).isNone = true
    · exact Or.inr (Or.inr (hget.mp hg))
    · exact absurd ⟨h0, by simpa using hr, Bool.eq_false_iff.mpr hg⟩ h
  · rintro (h | h | h) ⟨a1, a2, a3⟩
    · exact a1 h
    · have : ¬ m.id ∈ cl.removed := by simpa using a2
      exact this h
    · have := hget.mpr h
      rw [a3] at this; cases this

/-- Removing an unknown member is refused. -/
theorem remove_unknown_refused (cl : Cluster) (m : Member) (h : ¬ ∃ p ∈ cl.applied, p.id = m.id) :
    validate cl ccRemove (some m) ≠ .ok :=
  (remove_refused_iff cl m).mpr (Or.inr (Or.inr h))

/-- The cluster size reported by `GetClusterProgress` is the number of progress rows. -/
private theorem cp_len (r : Raft) : (clusterProgress r).1 = (clusterProgress r).2.length := by
  unfold clusterProgress
  split
  · rfl
  · split
    · rfl
    · simp

/-- **Removing a healthy node.** When the raft status is available and node `id` is healthy, the
removal is refused with "remove of a healthy node may cause the cluster to hang" exactly when the
remaining healthy nodes, `healthy − 1`, are fewer than the quorum `(N − 1)/2 + 1` of the remaining
cluster; otherwise it is allowed. (`/` is Go's integer division; the formula is the regenerated
`removeKeepsQuorum`.) -/
theorem remove_healthy_refused_iff (r : Raft) (id : Nat) (hn : r.hasNode = true) (hs : r.statusId ≠ 0)
    (hh : (clusterProgress r).2.lookup id = some healthy) :
    (enable r ccRemove id = .removeHealthy ↔
      ((healthyCount (clusterProgress r).2 : Int) - 1 <
        Int.tdiv (((clusterProgress r).1 : Int) - 1) 2 + 1)) ∧
    (enable r ccRemove id = .removeHealthy ∨ enable r ccRemove id = .ok) := by
  have hkq : Aergo.Gen.RaftQuorum.removeKeepsQuorum (((clusterProgress r).1 : Int))
      ((healthyCount (clusterProgress r).2 : Int)) = true ↔
      (healthyCount (clusterProgress r).2 : Int) - 1 ≥ Int.tdiv (((clusterProgress r).1 : Int) - 1) 2 + 1 := by
    simp [Aergo.Gen.RaftQuorum.removeKeepsQuorum, Aergo.Gen.RaftQuorum.isClusterAvilable]
  cases hk : Aergo.Gen.RaftQuorum.removeKeepsQuorum (((clusterProgress r).1 : Int))
      ((healthyCount (clusterProgress r).2 : Int)) with
  | true =>
    have he : enable r ccRemove id = .ok := by
      simp [enable, hn, hs, hh, ccAdd, ccRemove, healthy, hk]
    have := hkq.mp hk
    rw [he]
    exact ⟨⟨(fun h => by cases h), (fun h => by omega)⟩, Or.inr rfl⟩
  | false =>
    have he : enable r ccRemove id = .removeHealthy := by
      simp [enable, hn, hs, hh, ccAdd, ccRemove, healthy, hk]
    have : ¬ ((healthyCount (clusterProgress r).2 : Int) - 1 ≥ Int.tdiv (((clusterProgress r).1 : Int) - 1) 2 + 1) := by
      intro hq; have := hkq.mpr hq; rw [hk] at this; cases this
    rw [he]
    exact ⟨⟨(fun _ => by omega), (fun _ => rfl)⟩, Or.inl rfl⟩

/-- **Quorum safety.** If the removal of a healthy node is allowed, the healthy nodes that remain
are a strict majority of the nodes that remain: `2·(healthy − 1) > N − 1`. -/
theorem remove_quorum_safe (r : Raft) (id : Nat) (hn : r.hasNode = true) (hs : r.statusId ≠ 0)
    (hh : (clusterProgress r).2.lookup id = some healthy) (hok : enable r ccRemove id = .ok) :
    2 * ((healthyCount (clusterProgress r).2 : Int) - 1) > ((clusterProgress r).1 : Int) - 1 := by
  obtain ⟨h1, h2⟩ := remove_healthy_refused_iff r id hn hs hh
  have hnot : ¬ ((healthyCount (clusterProgress r).2 : Int) - 1 <
      Int.tdiv (((clusterProgress r).1 : Int) - 1) 2 + 1) := by
    intro hlt
    have := h1.mpr hlt
    rw [hok] at this
    cases this
  have hN : 1 ≤ (clusterProgress r).1 := by
    rw [cp_len]
    cases hl : (clusterProgress r).2 with
    | nil => simp [hl] at hh
    | cons a t => simp
  have hnn : (0 : Int) ≤ ((clusterProgress r).1 : Int) - 1 := by
    have : (1 : Int) ≤ ((clusterProgress r).1 : Int) := Int.ofNat_le.mpr hN
    omega
  rw [Int.tdiv_eq_ediv_of_nonneg hnn] at hnot
  omega

/-- An unhealthy (slow or syncing) node can always be removed, whatever the quorum. -/
theorem remove_unhealthy_allowed (r : Raft) (id st : Nat) (hn : r.hasNode = true) (hs : r.statusId ≠ 0)
    (hh : (clusterProgress r).2.lookup id = some st) (hst : st ≠ healthy) :
    enable r ccRemove id = .ok := by
  unfold enable
  have : (st != healthy) = true := by simpa using hst
  simp [hn, hs, hh, ccAdd, ccRemove, this]

/-- Adding is allowed by the availability check exactly when the raft status is available and
no member is reported unhealthy. -/
theorem add_enabled_iff (r : Raft) (id : Nat) :
    enable r ccAdd id = .ok ↔
      r.hasNode = true ∧ r.statusId ≠ 0 ∧ ∀ x ∈ (clusterProgress r).2, x.2 = healthy := by
  have hany : (clusterProgress r).2.any (fun x => x.2 != healthy) = false ↔
      ∀ x ∈ (clusterProgress r).2, x.2 = healthy := by
    simp [List.any_eq_false]
  cases hn : r.hasNode with
  | false => simp [enable, hn]
  | true =>
    by_cases hs : r.statusId = 0
    · simp [enable, hn, hs]
    · cases ha : (clusterProgress r).2.any (fun x => x.2 != healthy) with
      | false =>
        have he : enable r ccAdd id = .ok := by simp [enable, hn, hs, ccAdd, ha]
        rw [he]
        exact ⟨fun _ => ⟨rfl, hs, hany.mp ha⟩, fun _ => rfl⟩
      | true =>
        have he : enable r ccAdd id = .unhealthyExists := by simp [enable, hn, hs, ccAdd, ha]
        rw [he]
        refine ⟨(fun h => by cases h), fun ⟨_, _, h3⟩ => ?_⟩
        have := hany.mpr h3
        rw [ha] at this; cases this

/-- A change passes the whole gate only if both checks pass; in particular every refusal above
refuses the request. -/
theorem accepted_iff (cl : Cluster) (r : Raft) (ty : Nat) (m : Member) :
    changeAccepted cl r ty (some m) = true ↔ validate cl ty (some m) = .ok ∧ enable r ty m.id = .ok := by
  simp [changeAccepted]

/-! ## Non-vacuity and witnesses (tests on sample values, not proofs of the property) -/

section Samples

def blkA : Block := ⟨[1], 10⟩
def blkB : Block := ⟨[2], 11⟩
def blkC : Block := ⟨[3], 12⟩
def itB (t i : Nat) (b : Block) : Item := ⟨⟨tBlock, t, i, b.hash⟩, some b, none⟩
def itE (t i : Nat) : Item := ⟨⟨tEmpty, t, i, []⟩, none, none⟩
def itC (t i id : Nat) : Item := ⟨⟨tConf, t, i, [9]⟩, none, some id⟩

/-- A history with an append, a shorter overwrite, a longer overwrite, a restart, a hard state. -/
def sampleOps : List Op :=
  [.best blkA, .write [itB 1 1 blkA, itB 1 2 blkB, itE 1 3, itC 1 4 5],
   .write [itE 2 2], .restart, .hard ⟨2, 1, 1⟩, .write [itB 3 2 blkC, itE 3 3, itE 3 4, itE 3 5]]

/-- test: the sample history is admissible (hypothesis of `log_refines` is satisfiable) -/
example : ValidFrom empty sampleOps := by
  refine ⟨trivial, ⟨by decide, ?_, 1, by decide, by decide, by simp [Contig, itB, itE, itC]⟩,
    ⟨by decide, ?_, 2, by decide, by decide, by simp [Contig, itE]⟩, trivial, trivial,
    ⟨by decide, ?_, 2, by decide, by decide, by simp [Contig, itB, itE]⟩, trivial⟩ <;>
  · intro it hit
    simp only [List.mem_cons, List.not_mem_nil, or_false] at hit
    rcases hit with rfl | rfl | rfl | rfl <;> simp [Item.wf, itB, itE, itC, tBlock, tEmpty, tConf]

/-- test: after the shorter overwrite `[2]` of the suffix `2..4`, indices 3 and 4 are absent and 2 is the new entry -/
example : getRaftEntry (run empty (sampleOps.take 3)) 2 = .ok ⟨tEmpty, 2, 2, []⟩ ∧
    getRaftEntry (run empty (sampleOps.take 3)) 3 = .noEntry ∧
    getRaftEntry (run empty (sampleOps.take 3)) 4 = .noEntry ∧ lastIdx (run empty (sampleOps.take 3)) = 2 := by decide

/-- test: end of the sample history; the block entry at 2 carries block C -/
example : lastIdx (run empty sampleOps) = 5 ∧ getRaftEntry (run empty sampleOps) 2 = .ok ⟨tBlock, 3, 2, [3]⟩ ∧
    getBlock (run empty sampleOps) [3] = .ok blkC ∧ (run empty sampleOps).hard = some ⟨2, 1, 1⟩ := by decide

/-- test: a hard state that differs from the previous one only in the vote is the one stored (and survives the restart) -/
example : (run empty [.save ⟨5, 0, 4⟩ [], .save ⟨5, 3, 4⟩ [], .save ⟨0, 0, 0⟩ [], .restart]).hard = some ⟨5, 3, 4⟩ ∧
    lastHard [.save ⟨5, 0, 4⟩ [], .save ⟨5, 3, 4⟩ [], .save ⟨0, 0, 0⟩ [], .restart] = some ⟨5, 3, 4⟩ := by decide

/-- test (lead 10): block B was written at index 2 and truncated by the overwrite `[empty@2]`; the
block-addressed lookup still answers, with the *empty* entry now stored at index 2. -/
example : getRaftEntryOfBlock (run empty (sampleOps.take 3)) blkB.hash = some (.ok ⟨tEmpty, 2, 2, []⟩) := by decide

/-- test: `HashOk` is satisfiable on the sample history, and the restart is the identity there -/
example : HashOk (blocksOf sampleOps) := by
  constructor
  · decide
  · decide

/-- test: index 0 is outside `ClearWAL`'s range `last … 1`: a batch starting at index 0 (never
produced by etcd/raft, excluded by `ValidBatch`) would survive ClearWAL. -/
example : getRaftEntry (clearWAL (run empty [.write [itE 1 0, itE 1 1]])) 0 ≠ .noEntry := by decide

/-- test: a gap (first index beyond last+1, excluded by `ValidBatch`) is why `first ≤ last+1` is
needed: index 3 was written, then truncated, and is ≤ last after the gap write, yet absent. -/
example : getRaftEntry (run empty [.write [itE 1 1, itE 1 2, itE 1 3], .write [itE 2 2], .write [itE 3 5]]) 3 = .noEntry ∧
    lastIdx (run empty [.write [itE 1 1, itE 1 2, itE 1 3], .write [itE 2 2], .write [itE 3 5]]) = 5 := by decide

def m1 : Member := ⟨1, "a", "/ip4/10.0.0.1/tcp/1", true, [1]⟩
def m2 : Member := ⟨2, "b", "/ip4/10.0.0.2/tcp/1", true, [2]⟩
def m3 : Member := ⟨3, "c", "/ip4/10.0.0.3/tcp/1", true, [3]⟩
def cl3 : Cluster := ⟨[m1, m2, m3], [7]⟩
def raft3 (st2 st3 : Nat) : Raft := ⟨true, 1, true, 1, 500, 100, [⟨1, 1, 500⟩, ⟨2, st2, 500⟩, ⟨3, st3, 500⟩]⟩

/-- test: a fresh valid member is accepted on a healthy 3-node cluster; duplicates and the removed id are not -/
example : validate cl3 ccAdd (some ⟨4, "d", "/ip4/10.0.0.4/tcp/1", true, [4]⟩) = .ok ∧
    validate cl3 ccAdd (some ⟨4, "a", "/ip4/10.0.0.4/tcp/1", true, [4]⟩) = .dup ∧
    validate cl3 ccAdd (some ⟨4, "d", "/ip4/10.0.0.4/tcp/1", true, [2]⟩) = .dup ∧
    validate cl3 ccAdd (some ⟨7, "d", "/ip4/10.0.0.4/tcp/1", true, [4]⟩) = .alreadyRemoved ∧
    validate cl3 ccRemove (some ⟨9, "", "", false, []⟩) = .noMember ∧
    validate cl3 ccRemove (some ⟨2, "", "", false, []⟩) = .ok := by decide

/-- test: 3 nodes all healthy: removing a healthy node leaves 2 of 2 (allowed); with node 3 slow, removing
healthy node 2 would leave 1 healthy of 2 (refused), removing slow node 3 is allowed. -/
example : enable (raft3 1 1) ccRemove 2 = .ok ∧ enable (raft3 1 0) ccRemove 2 = .removeHealthy ∧
    enable (raft3 1 0) ccRemove 3 = .ok ∧ enable (raft3 1 0) ccAdd 4 = .unhealthyExists := by decide

end Samples

end Aergo.Props.C16
