/-
C16 — Raft log storage and membership: durable, truncating correctly, quorum-safe.

"The replicated-log storage returns, for every index up to the last one written, exactly the
entry most recently stored at that index (with the block it carries), reports entries removed by
a conflicting overwrite as absent, and preserves the hard state, snapshot and node identity
across restart, so that a restarted node hands the consensus library the same log it
acknowledged. Cluster membership changes are refused when they would duplicate a member's name,
id, address or peer id, re-add a removed member, remove an unknown one, or remove a healthy node
when the remaining healthy nodes would lose quorum."

The theorems are about the model `Aergo.RaftLog` (Model/RaftLog.lean), which transcribes
chain/chaindbForRaft.go, raftv2/waldb.go and the membership checks of raftv2/cluster.go; the
harness `c16` runs the real functions and the model on the same operation lines on every check.
The quorum arithmetic is `Aergo.Gen.RaftQuorum`, regenerated from cluster.go on every run.

Vocabulary (Lemmas/RaftLog.lean): a history is a list of operations applied to the fresh store
(`run empty ops`); `ValidFrom empty ops` says that every batch handed to the storage is what
etcd/raft hands it: non-empty, contiguous ascending, starting at an index in `[1, last+1]`, block
entries with their block and conf-change entries with their proposal; there is no bound on the
length of the history, the batches, or the amount of overlap. `mostRecent ops j` is the item
most recently stored at index `j` since the last ClearWAL/ResetWAL.

Not carried by a theorem here: that a restart really is the identity on the key/value store
(a property of the DB; exercised by the harness with a restart after every operation), the byte
codecs (gob, protobuf, JSON), and etcd/raft itself. The block-addressed lookup
`GetRaftEntryOfBlock` keeps a stale inverse-index entry after a truncation (DESIGN §5 lead 10,
reproduced on the real code); the property speaks of index-addressed reads, the model has the
behaviour and the example marked "lead 10" at the end of this file records it.
-/
import Aergo.Lemmas.RaftLog
import Aergo.Lemmas.RaftLogCrash
import Aergo.Lemmas.RaftMember

namespace Aergo.Props.C16
open Aergo.RaftLog

/-! ## The log -/

/-- **Log refinement.** After any admissible history — any number of append batches, overwrites
of a suffix (shorter, equal or longer than the existing one), hard-state, snapshot and identity
writes, restarts, ClearWAL and ResetWAL, in any order — `GetRaftEntry j` returns exactly the entry
most recently stored at `j` for every `j` up to the last index, and reports every index beyond
the last index (in particular everything a conflicting overwrite truncated) as absent. -/
theorem log_refines (ops : List Op) (hv : ValidFrom empty ops) (j : Nat) :
    (j ≤ lastIdx (run empty ops) →
      getRaftEntry (run empty ops) j = match mostRecent ops j with
                                        | some it => .ok it.e
                                        | none => .noEntry) ∧
    (lastIdx (run empty ops) < j → getRaftEntry (run empty ops) j = .noEntry) := by
  obtain ⟨⟨w1, _⟩, h⟩ := logInv_run ops hv
  constructor
  · intro hj
    have := h j hj
    unfold getRaftEntry
    rw [this]
    cases hm : mostRecent ops j with
    | none => rfl
    | some it => simp [mostRecent_index ops j it hm]
  · intro hj
    unfold getRaftEntry
    rw [w1 j hj]

/-- `GetRaftEntry` never answers "mismatched entry" on an admissible history. -/
theorem get_never_mismatch (ops : List Op) (hv : ValidFrom empty ops) (j : Nat) :
    getRaftEntry (run empty ops) j ≠ .mismatch := by
  obtain ⟨h1, h2⟩ := log_refines ops hv j
  by_cases hj : j ≤ lastIdx (run empty ops)
  · rw [h1 hj]; split <;> simp
  · rw [h2 (by omega)]; simp

/-- A valid batch succeeds and leaves the last index at the index of its last entry: whatever
the previous last index was, everything from the batch's end up to it is gone
(with `log_refines`: reported absent). -/
theorem last_after_write (ops : List Op) (items : List Item)
    (hv : ValidFrom empty (ops ++ [.write items])) :
    ∃ f, Contig f items ∧ 1 ≤ f ∧ f ≤ lastIdx (run empty ops) + 1 ∧
      lastIdx (run empty (ops ++ [.write items])) = f + items.length - 1 ∧
      (step (run empty ops) (.write items)).2 = .ok := by
  obtain ⟨_, hok⟩ := (validFrom_snoc empty ops _).mp hv
  have hvb : ValidBatch (lastIdx (run empty ops)) items := by simpa [OpOk, Op.items] using hok
  obtain ⟨s', f, hw, hf1, hf2, hc, hl, -⟩ := writeRaftEntry_valid hvb
  refine ⟨f, hc, hf1, hf2, ?_, ?_⟩
  · rw [run_snoc]; simp only [applyOp, step, hw]; exact hl
  · simp only [step, hw]

/-- **The block an entry carries.** If the entry most recently stored at `j ≤ last` is a block
entry written together with block `b` (its data being `b`'s hash, as `convertFromRaft` makes it),
then `GetBlock(entry.Data)` returns exactly `b` — provided no two different blocks the history
stored share a hash (collision resistance of the block hash: a hypothesis, not an axiom). -/
theorem block_carried (ops : List Op) (hv : ValidFrom empty ops)
    (hinj : ∀ b ∈ blocksOf ops, ∀ b' ∈ blocksOf ops, b.hash = b'.hash → b = b')
    (j : Nat) (it : Item) (b : Block)
    (hm : mostRecent ops j = some it) (ht : it.e.typ = tBlock) (hb : it.blk = some b)
    (hd : it.e.data = b.hash) (hne : b.hash ≠ []) :
    getBlock (run empty ops) it.e.data = .ok b := by
  obtain ⟨i1, i2⟩ := blkInv_run ops hv.toG
  have hmem := mostRecent_stored ops j it b hm ht hb
  have hs := i1 b hmem
  cases hx : (run empty ops).blocks b.hash with
  | none => simp [hx] at hs
  | some b' =>
    obtain ⟨e1, e2⟩ := i2 _ _ hx
    have : b' = b := hinj b' e2 b hmem e1
    subst this
    simp [getBlock, hd, hne, hx]

/-- **What a restarted node hands back to etcd/raft.** Whenever `ReadAll(snapshot)` succeeds it
returns the stored hard state and identity and exactly `last − snapshot.Index` entries: the
`k`-th one is the conversion of the entry `GetRaftEntry` returns for index
`snapshot.Index + 1 + k` (whose term is not below the snapshot term). Holds in every state. -/
theorem readAll_sound (s : St) (snap : Option (Nat × Nat)) (id : Option Identity) (hs : HardState)
    (es : List RaftOut) (h : readAll s snap = .ok (id, hs, es)) :
    s.hard = some hs ∧ id = s.ident ∧ es.length = lastIdx s - (snap.getD (0, 0)).1 ∧
    ∀ k, k < es.length → ∃ e re, getRaftEntry s ((snap.getD (0, 0)).1 + 1 + k) = .ok e ∧
      (snap.getD (0, 0)).2 ≤ e.term ∧ convertWalToRaft s e = .ok re ∧ es[k]? = some re := by
  unfold readAll at h
  cases hh : s.hard with
  | none => simp [hh] at h
  | some hs' =>
    simp only [hh] at h
    cases hr : readFrom s (snap.getD (0, 0)).2 ((snap.getD (0, 0)).1 + 1) (lastIdx s - (snap.getD (0, 0)).1) with
    | error r => simp [hr] at h
    | ok es' =>
      simp only [hr] at h
      cases h
      obtain ⟨hl, hk⟩ := readFrom_sound s _ _ _ _ hr
      exact ⟨rfl, rfl, hl, fun k hk' => hk k (by omega)⟩

/-- `ReadAll` end to end: on an admissible history, every entry it returns for an index
`j ≤ last` is the conversion of the entry most recently stored at `j`. -/
theorem readAll_returns_most_recent (ops : List Op) (hv : ValidFrom empty ops) (snap : Option (Nat × Nat))
    (id : Option Identity) (hs : HardState) (es : List RaftOut)
    (h : readAll (run empty ops) snap = .ok (id, hs, es)) (k : Nat) (hk : k < es.length) :
    ∃ it re, mostRecent ops ((snap.getD (0, 0)).1 + 1 + k) = some it ∧
      convertWalToRaft (run empty ops) it.e = .ok re ∧ es[k]? = some re := by
  obtain ⟨_, _, hl, hall⟩ := readAll_sound _ snap id hs es h
  obtain ⟨e, re, hg, _, hc, he⟩ := hall k hk
  have hj : (snap.getD (0, 0)).1 + 1 + k ≤ lastIdx (run empty ops) := by omega
  have := (log_refines ops hv _).1 hj
  rw [this] at hg
  cases hm : mostRecent ops ((snap.getD (0, 0)).1 + 1 + k) with
  | none => simp [hm] at hg
  | some it =>
    simp only [hm, GetRes.ok.injEq] at hg
    exact ⟨it, re, rfl, by rw [hg]; exact hc, he⟩

/-- **Log refinement, general form** (also for the follower catch-up flow: a batch that starts right
after an installed snapshot whose index lies beyond the stored log). After any history whose batches are
non-empty and contiguous with first index ≥ 1 — no bound relative to the last index — `GetRaftEntry j`
returns, at *every* index `j`, exactly what the log holds there by the specification `stored`: the entry
most recently stored at `j`, and nothing if a later overwrite starting at or below `j` did not rewrite
it, if ClearWAL/ResetWAL came after it, or if nothing was ever stored there. -/
theorem log_refines_all (ops : List Op) (hv : ValidFromG ops) (j : Nat) :
    getRaftEntry (run empty ops) j = match stored ops j with
                                      | some it => .ok it.e
                                      | none => .noEntry :=
  (logView_run ops hv).1 j

/-- Nothing is stored above the last index, nor at index 0 (so `log_refines_all` reports both as absent). -/
theorem nothing_beyond_last (ops : List Op) (hv : ValidFromG ops) (j : Nat)
    (hj : lastIdx (run empty ops) < j ∨ j = 0) : getRaftEntry (run empty ops) j = .noEntry := by
  obtain ⟨⟨w1, w2⟩, _⟩ := logEq_run ops hv
  unfold getRaftEntry
  rcases hj with hj | rfl
  · rw [w1 j hj]
  · rw [w2]

/-! ## Crash points inside one operation

`prefixStates s op` lists the store before `op` and after each of its write units (committed
transaction / flushed bulk); the harness rebuilds exactly these stores from the journal of the real
writes and compares them with the model, unit by unit. -/

/-- The write units of an operation add up to the operation. -/
theorem units_complete (s : St) (op : Op) (h : op ≠ .restart) :
    (prefixStates s op).getLast? = some (applyOp s op) :=
  prefixStates_last s op h

/-- **Crash consistency of the log writes.** Take any admissible history `ops` followed by a
`WriteRaftEntry` / `SaveEntry` call `op`, and any durable state `c` the call passes through (a crash
after any number of its write units). A node restarted on `c` reads either the log it had acknowledged
before the call or the log the call asked for — the whole log, last index included, never a mixture
(truncation and rewrite are one write unit); its hard state is the one before or the one of the call,
and if it is the one of the call then the entries of the call are there too (hard state only after the
entries); snapshot and identity are untouched. -/
theorem crash_consistent (ops : List Op) (op : Op)
    (hop : (∃ items, op = .write items) ∨ ∃ hs ents, op = .save hs ents)
    (hv : ValidFromG (ops ++ [op])) (c : St) (hc : c ∈ prefixStates (run empty ops) op) :
    (LogView c ops ∨ LogView c (ops ++ [op])) ∧
    (c.hard = lastHard ops ∨ c.hard = lastHard (ops ++ [op])) ∧
    (c.hard ≠ lastHard ops → LogView c (ops ++ [op])) ∧
    c.snap = (run empty ops).snap ∧ c.ident = (run empty ops).ident := by
  obtain ⟨hv1, hv2⟩ := (validFromG_snoc ops op).mp hv
  have pre : LogView (run empty ops) ops := logView_run ops hv1
  have post : LogView (run empty (ops ++ [op])) (ops ++ [op]) := logView_run _ hv
  have hpre : (run empty ops).hard = lastHard ops := hard_run ops hv1
  have hpost : (run empty (ops ++ [op])).hard = lastHard (ops ++ [op]) := hard_run _ hv
  have fr := frame_step (s := run empty ops) op hv2
  have post' : LogView (applyOp (run empty ops) op) (ops ++ [op]) := by rw [← run_snoc]; exact post
  have hpost' : (applyOp (run empty ops) op).hard = lastHard (ops ++ [op]) := by rw [← run_snoc]; exact hpost
  rcases hop with ⟨items, rfl⟩ | ⟨hs, ents, rfl⟩
  · rcases mem_prefixStates_write hc with rfl | rfl
    · exact ⟨Or.inl pre, Or.inl hpre, fun h => absurd hpre h, rfl, rfl⟩
    · exact ⟨Or.inr post', Or.inr hpost', fun _ => post', fr.2.1.trans rfl, fr.1.trans rfl⟩
  · rcases mem_prefixStates_save hc with rfl | rfl | rfl
    · exact ⟨Or.inl pre, Or.inl hpre, fun h => absurd hpre h, rfl, rfl⟩
    · -- the entries of the call are durable, its hard state is not yet
      have hvm : ValidFromG (ops ++ [.save ⟨0, 0, 0⟩ ents]) :=
        (validFromG_snoc ops _).mpr ⟨hv1, by simpa [OpOkG, Op.items] using hv2⟩
      have mid : LogView (run empty (ops ++ [.save ⟨0, 0, 0⟩ ents])) (ops ++ [.save ⟨0, 0, 0⟩ ents]) := logView_run _ hvm
      have hst : stored (ops ++ [.save ⟨0, 0, 0⟩ ents]) = stored (ops ++ [.save hs ents]) := by
        rw [stored_snoc, stored_snoc]; rfl
      have hl : lastIdx (run empty (ops ++ [.save ⟨0, 0, 0⟩ ents])) = lastIdx (run empty (ops ++ [.save hs ents])) := by
        rw [run_snoc, run_snoc]
        unfold lastIdx
        rw [(save_log_indep (run empty ops) ⟨0, 0, 0⟩ hs ents).2]
      have hm : LogView (applyOp (run empty ops) (.save ⟨0, 0, 0⟩ ents)) (ops ++ [.save hs ents]) := by
        rw [← run_snoc]
        refine ⟨fun j => ?_, ?_⟩
        · rw [mid.1 j, hst]
        · rw [hl]
      have hh : (applyOp (run empty ops) (.save ⟨0, 0, 0⟩ ents)).hard = lastHard ops := by
        rw [← run_snoc, hard_run _ hvm]
        simp [lastHard, List.foldl_append, hardStep]
      have fr0 := frame_step (s := run empty ops) (.save ⟨0, 0, 0⟩ ents) (by simpa [OpOkG, Op.items] using hv2)
      exact ⟨Or.inr hm, Or.inl hh, fun _ => hm, fr0.2.1.trans rfl, fr0.1.trans rfl⟩
    · exact ⟨Or.inr post', Or.inr hpost', fun _ => post', fr.2.1.trans rfl, fr.1.trans rfl⟩

/-- **ClearWAL / ResetWAL are not atomic, but a half-cleared WAL is never taken for a WAL.** Both
delete the identity in their first write unit: from then on, at every crash point and at the end,
`HasWal` answers "no identity" whatever the configuration, so the node does not restart from the
remains (it starts as a new or joining node). -/
theorem clear_reset_never_half_wal (s c : St) (op : Op) (hop : op = .clear ∨ ∃ x, op = .reset x)
    (hc : c ∈ unitStates s op) (cfg : Config) : hasWal c cfg = .noIdentity := by
  rcases hop with rfl | ⟨x, rfl⟩
  · exact hasWal_no_identity (unitStates_clear_ident hc) cfg
  · exact hasWal_no_identity (unitStates_reset_ident hc) cfg

/-! ## Restart, clear, reset -/

/-- **Restart.** A restart (fresh ChainDB on the same store) leaves every durable map as it
is, hence every WAL getter answers as before: entries by index, last index, entry of a block,
hard state, snapshot, identity, conf-change progress, and `ReadAll`. -/
theorem restart_same (s s' : St) (h : restart s = some s') :
    (∀ j, getRaftEntry s' j = getRaftEntry s j) ∧ lastIdx s' = lastIdx s ∧
    (∀ hsh, getRaftEntryOfBlock s' hsh = getRaftEntryOfBlock s hsh) ∧
    (∀ hsh, getBlock s' hsh = getBlock s hsh) ∧
    s'.hard = s.hard ∧ s'.snap = s.snap ∧ s'.ident = s.ident ∧ s'.ccp = s.ccp ∧
    (∀ snap, readAll s' snap = readAll s snap) := by
  unfold restart at h
  split at h
  · next b hb =>
    cases h
    have hrf : ∀ t i n, readFrom { s with best := b } t i n = readFrom s t i n := by
      intro t i n
      induction n generalizing i with
      | zero => rfl
      | succ n ih => simp only [readFrom]; rw [ih]; rfl
    exact ⟨fun _ => rfl, rfl, fun _ => rfl, fun _ => rfl, rfl, rfl, rfl, rfl, fun snap => by
      simp only [readAll, hrf]; rfl⟩
  · cases h

/-- **Hard state.** After any admissible history the stored hard state is the last non-empty one
handed to `SaveEntry` (or `WriteHardState`), with all three fields — term, vote, commit — whatever
the previous one was (in particular when it differs from it only in the vote); with `restart_same`
this is also what a restarted node reads back, through `GetHardState` and through `ReadAll`. -/
theorem hard_state_refines (ops : List Op) (hv : ValidFrom empty ops) :
    (run empty ops).hard = lastHard ops ∧
    ∀ snap id hs es, readAll (run empty ops) snap = .ok (id, hs, es) → lastHard ops = some hs := by
  refine ⟨hard_run ops hv.toG, fun snap id hs es h => ?_⟩
  rw [← hard_run ops hv.toG]
  exact (readAll_sound _ snap id hs es h).1

/-- **Restart of a reachable state.** After any admissible history, a restart succeeds and
changes nothing at all — the best block reloaded from the latest key, the number index and the
block store is the one that was in memory — provided the stored blocks have pairwise different,
non-empty hashes (hypothesis `HashOk`, not an axiom). -/
theorem restart_reachable (ops : List Op) (hv : ValidFrom empty ops) (hh : HashOk (blocksOf ops)) :
    restart (run empty ops) = some (run empty ops) :=
  restart_id (blkInv_run ops hv.toG) (bestInv_run ops hv.toG hh) hh

/-- **ClearWAL.** In a state reached by an admissible history, after ClearWAL nothing of the WAL
is readable: no entry at any index, last index 0, no hard state, snapshot or identity, and
`ReadAll` fails. -/
theorem clear_forgets (ops : List Op) (hv : ValidFrom empty ops) :
    (∀ j, getRaftEntry (clearWAL (run empty ops)) j = .noEntry) ∧ lastIdx (clearWAL (run empty ops)) = 0 ∧
    (clearWAL (run empty ops)).hard = none ∧ (clearWAL (run empty ops)).snap = none ∧
    (clearWAL (run empty ops)).ident = none ∧
    (∀ snap, readAll (clearWAL (run empty ops)) snap = .error .hardState) := by
  obtain ⟨⟨w1, w2⟩, _⟩ := logInv_clear (logInv_run ops hv)
  refine ⟨fun j => ?_, rfl, rfl, rfl, rfl, fun _ => rfl⟩
  unfold getRaftEntry
  by_cases h0 : j = 0
  · subst h0; rw [w2]
  · rw [w1 j (by have : lastIdx (clearWAL (run empty ops)) = 0 := rfl; omega)]

/-- **ResetWAL.** With a best block `b`, `ResetWAL(term, commit)` succeeds and leaves: last index
= `commit`, hard state `(term, 0, commit)`, a snapshot at `(commit, term)` of `b`, no identity and
no readable entry. -/
theorem reset_state (ops : List Op) (hv : ValidFrom empty ops) (term commit : Nat) (b : Block)
    (hb : (run empty ops).best = some b) :
    (resetWAL (run empty ops) (some (term, commit))).2 = .ok ∧
    lastIdx (resetWAL (run empty ops) (some (term, commit))).1 = commit ∧
    (resetWAL (run empty ops) (some (term, commit))).1.hard = some ⟨term, 0, commit⟩ ∧
    (resetWAL (run empty ops) (some (term, commit))).1.snap = some ⟨commit, term, b⟩ ∧
    (resetWAL (run empty ops) (some (term, commit))).1.ident = none ∧
    (∀ j, getRaftEntry (resetWAL (run empty ops) (some (term, commit))).1 j = .noEntry) := by
  have hbb : (clearWAL (run empty ops)).best = some b := hb
  obtain ⟨hall, _⟩ := clear_forgets ops hv
  have hr : resetWAL (run empty ops) (some (term, commit)) =
      ({ clearWAL (run empty ops) with hard := some ⟨term, 0, commit⟩, snap := some ⟨commit, term, b⟩,
                                        lastKey := some commit }, .ok) := by
    simp only [resetWAL, hbb]
  rw [hr]
  exact ⟨rfl, rfl, rfl, rfl, rfl, fun j => hall j⟩

/-- Without a best block `ResetWAL` panics *after* it cleared the WAL and wrote the hard state
(it is not atomic); a nil argument is refused without touching anything. -/
theorem reset_not_atomic (s : St) (term commit : Nat) (hb : s.best = none) :
    (resetWAL s (some (term, commit))).2 = .panic ∧
    (resetWAL s (some (term, commit))).1.hard = some ⟨term, 0, commit⟩ ∧
    lastIdx (resetWAL s (some (term, commit))).1 = 0 ∧
    resetWAL s none = (s, .nilHardState) := by
  have hbb : (clearWAL s).best = none := hb
  have hr : resetWAL s (some (term, commit)) = ({ clearWAL s with hard := some ⟨term, 0, commit⟩ }, .panic) := by
    simp only [resetWAL, hbb]
  rw [hr]
  exact ⟨rfl, rfl, rfl, rfl⟩

/-! ## The restart hand-over: HasWal → loadSnapshot → replayWAL → raft restart -/

/-- **Identity.** After any admissible history the stored identity is the last one written
(`ClearWAL`/`ResetWAL` forget it). -/
theorem identity_refines (ops : List Op) (hv : ValidFromG ops) : (run empty ops).ident = lastIdent ops :=
  ident_run ops hv

/-- **Snapshot.** After any admissible history the stored snapshot is the last one written — whatever
its index is relative to the previous one —, none after `ClearWAL`, and after `ResetWAL(term, commit)` the
snapshot of the then best block at `(commit, term)`. (Block hashes pairwise different and non-empty:
needed only because a restart reloads the best block from disk.) -/
theorem snapshot_refines (ops : List Op) (hv : ValidFromG ops) (hh : HashOk (blocksOf ops)) :
    (run empty ops).snap = lastSnap ops :=
  (sb_run ops hv hh).1

/-- **HasWal.** The restart gate answers "this is my WAL" exactly when an identity was written last
whose name and peer id are the configured ones and a hard state is stored (an empty log, last index 0,
is a WAL). -/
theorem hasWal_iff (ops : List Op) (hv : ValidFromG ops) (cfg : Config) :
    hasWal (run empty ops) cfg = .ok ↔
      ∃ id, lastIdent ops = some id ∧ id.name = cfg.name ∧ id.peer = cfg.peer ∧ (lastHard ops).isSome = true := by
  rw [hasWal_ok_iff, ident_run ops hv, hard_run ops hv]

/-- **No holes.** In the flows of a running node (`ValidFromS`: batches continue or overwrite the log,
or start right after a snapshot lying at or beyond its end; snapshots move forward) every index between
the stored snapshot and the last index holds an entry. -/
theorem no_holes (ops : List Op) (hv : ValidFromS empty ops) (j : Nat)
    (h1 : snapIdxOf (run empty ops) < j) (h2 : j ≤ lastIdx (run empty ops)) :
    ∃ it, stored ops j = some it := by
  have hc := complete_run ops hv j h1 h2
  have he := (logEq_run ops hv.toG).2 j
  cases hs : stored ops j with
  | none => rw [hs] at he; simp [he] at hc
  | some it => exact ⟨it, rfl⟩

/-- **ReadAll ∘ SaveEntry = id.** After any history of a running node, `ReadAll(stored snapshot)`
*succeeds* and returns the stored identity, the last hard state handed over, and exactly one entry per
index between the snapshot and the last index: the `k`-th is the `raftpb.Entry` rebuilt from the item
the log holds at `snapshot + 1 + k` (`Item.toOut`; for what came through `SaveEntry` that is the very
entry etcd/raft handed over: `toOut_convertFromRaft`). Hypotheses: a hard state was saved; block hashes
pairwise different and non-empty; entries after the snapshot have a term ≥ the snapshot's (raft's own
guarantee, the `ErrWalEntryTooLowTerm` guard). -/
theorem readAll_roundtrip (ops : List Op) (hv : ValidFromS empty ops) (hh : HashOk (blocksOf ops))
    (hs : HardState) (hhs : lastHard ops = some hs)
    (hterm : ∀ j it, snapIdxOf (run empty ops) < j → stored ops j = some it → snapTermOf (run empty ops) ≤ it.e.term) :
    ∃ es, readAll (run empty ops) ((run empty ops).snap.map fun sn => (sn.index, sn.term)) =
        .ok ((run empty ops).ident, hs, es) ∧
      es.length = lastIdx (run empty ops) - snapIdxOf (run empty ops) ∧
      ∀ k, k < es.length → ∃ it, stored ops (snapIdxOf (run empty ops) + 1 + k) = some it ∧ es[k]? = some it.toOut := by
  have hG := hv.toG
  have hhard : (run empty ops).hard = some hs := by rw [hard_run ops hG, hhs]
  have hlog := logEq_run ops hG
  have hcoh := validFromS_coherent hv
  have m1 : (((run empty ops).snap.map fun sn => (sn.index, sn.term)).getD (0, 0)).1 = snapIdxOf (run empty ops) := by
    unfold snapIdxOf; cases (run empty ops).snap <;> rfl
  have m2 : (((run empty ops).snap.map fun sn => (sn.index, sn.term)).getD (0, 0)).2 = snapTermOf (run empty ops) := by
    unfold snapTermOf; cases (run empty ops).snap <;> rfl
  -- every index in range reads and converts
  have each : ∀ k, k < lastIdx (run empty ops) - snapIdxOf (run empty ops) →
      ∃ it, stored ops (snapIdxOf (run empty ops) + 1 + k) = some it ∧
        getRaftEntry (run empty ops) (snapIdxOf (run empty ops) + 1 + k) = .ok it.e ∧
        snapTermOf (run empty ops) ≤ it.e.term ∧ convertWalToRaft (run empty ops) it.e = .ok it.toOut := by
    intro k hk
    obtain ⟨it, hit⟩ := no_holes ops hv (snapIdxOf (run empty ops) + 1 + k) (by omega) (by omega)
    have hg := getRaftEntry_of_logEq hlog (stored_index ops) (snapIdxOf (run empty ops) + 1 + k)
    rw [hit] at hg
    obtain ⟨op, ho, items, hi, hm⟩ := stored_mem ops _ it hit
    refine ⟨it, hit, hg, hterm _ it (by omega) hit, ?_⟩
    apply convertWalToRaft_coherent (hcoh op ho items hi it hm)
    intro b ht hb
    exact getBlock_stored hG hh (stored_block_mem ops _ it b hit ht hb)
  obtain ⟨es, hes⟩ := readFrom_ok (run empty ops) (snapTermOf (run empty ops))
    (lastIdx (run empty ops) - snapIdxOf (run empty ops)) (snapIdxOf (run empty ops) + 1) (fun k hk => by
      obtain ⟨it, _, g, t, c⟩ := each k hk
      exact ⟨it.e, it.toOut, g, t, c⟩)
  obtain ⟨hl, hk⟩ := readFrom_sound _ _ _ _ _ hes
  refine ⟨es, ?_, hl, fun k hk' => ?_⟩
  · unfold readAll
    simp only [hhard, m1, m2, hes]
  · obtain ⟨it, hit, g, _, c⟩ := each k (by omega)
    obtain ⟨e, re, g', _, c', he⟩ := hk k (by omega)
    rw [g] at g'
    cases g'
    rw [c] at c'
    cases c'
    exact ⟨it, hit, he⟩

/-- **The hand-over.** Restart clause of the property, full statement: *after any history of a node, for
every crash point, the restarted node hands the consensus library the log it acknowledged.* Proved here
under the guard "a hard state has been saved at least once" (`lastHard ops = some hs`; see
`restart_before_first_hard_state` for what happens without it), for a node configured with the stored
identity's name and peer id, a non-zero cluster id, a log that is not empty-without-snapshot, a
snapshot index ≠ 0: the restart path (`HasWal`, `loadSnapshot`, `replayWAL`) hands etcd/raft the stored
snapshot, the stored identity, the last hard state with the commit index raised to the snapshot's if it
was lower, and exactly the entries of `readAll_roundtrip`; etcd/raft accepts it iff `raftAccepts`. -/
theorem restart_hands_acknowledged_partial (ops : List Op) (hv : ValidFromS empty ops) (hh : HashOk (blocksOf ops))
    (cfg : Config) (id : Identity) (hs : HardState)
    (hid : lastIdent ops = some id) (hname : id.name = cfg.name) (hpeer : id.peer = cfg.peer) (hcl : id.clusterId ≠ 0)
    (hhs : lastHard ops = some hs)
    (hne : ¬ (lastIdx (run empty ops) = 0 ∧ (run empty ops).snap = none))
    (hs0 : ((run empty ops).snap.map (·.index)) ≠ some 0)
    (hterm : ∀ j it, snapIdxOf (run empty ops) < j → stored ops j = some it → snapTermOf (run empty ops) ≤ it.e.term) :
    ∃ es h,
      es.length = lastIdx (run empty ops) - snapIdxOf (run empty ops) ∧
      (∀ k, k < es.length → ∃ it, stored ops (snapIdxOf (run empty ops) + 1 + k) = some it ∧ es[k]? = some it.toOut) ∧
      h = ⟨(run empty ops).snap,
           if hs.commit < snapIdxOf (run empty ops) then { hs with commit := snapIdxOf (run empty ops) } else hs,
           es, id⟩ ∧
      handOver (run empty ops) cfg =
        if raftAccepts id.id (snapIdxOf (run empty ops)) h.hard es.length then .ok h else .raftPanics h := by
  obtain ⟨es, hr, hl, hk⟩ := readAll_roundtrip ops hv hh hs hhs hterm
  have hG := hv.toG
  have hident : (run empty ops).ident = some id := by rw [ident_run ops hG, hid]
  have hw : hasWal (run empty ops) cfg = .ok :=
    (hasWal_iff ops hG cfg).mpr ⟨id, hid, hname, hpeer, by simp [hhs]⟩
  refine ⟨es, _, hl, hk, rfl, ?_⟩
  unfold handOver
  rw [hw]
  simp only [hne, if_false, hr, hident, hcl, hs0]
  rfl

/-- If moreover the node id is not 0 and the stored commit index does not exceed the log (raft's own
invariant on what it asks to persist), etcd/raft accepts the hand-over. -/
theorem restart_accepted (nodeId snapIdx last : Nat) (hs : HardState) (hid : nodeId ≠ 0)
    (hc : hs.commit ≤ max last snapIdx) :
    raftAccepts nodeId snapIdx (if hs.commit < snapIdx then { hs with commit := snapIdx } else hs) (last - snapIdx) = true := by
  have key : ∀ h' : HardState, snapIdx ≤ h'.commit → h'.commit ≤ snapIdx + (last - snapIdx) →
      raftAccepts nodeId snapIdx h' (last - snapIdx) = true := by
    intro h' a b
    unfold raftAccepts
    simp [hid, a, b]
  by_cases hlt : hs.commit < snapIdx
  · simp only [hlt, if_true]
    exact key _ (Nat.le_refl _) (Nat.le_add_right _ _)
  · simp only [hlt, if_false]
    exact key _ (by omega) (by omega)

/-- **Witness for the guard** (known finding C16-first-start-crash, reproduced on the real code): a
node that crashed during its very first start — identity written, no hard state yet — is not restarted
from its WAL: `HasWal` answers "no hard state", whatever was already written of the first batch. (The
real node then takes the new-cluster branch again and `startNode` refuses to start because an identity
exists.) So the full restart clause does not hold without the guard. -/
theorem restart_before_first_hard_state (id : Identity) (ents : List RaftIn)
    (hv : OpOkG (.save ⟨0, 0, 0⟩ ents)) :
    handOver (run empty [.ident id, .save ⟨0, 0, 0⟩ ents]) ⟨id.name, id.peer⟩ = .noWal .noHardState := by
  have hops : ValidFromG [.ident id, .save ⟨0, 0, 0⟩ ents] := ⟨trivial, hv, trivial⟩
  have h1 : (run empty [.ident id, .save ⟨0, 0, 0⟩ ents]).ident = some id := by
    rw [ident_run _ hops]; rfl
  have h2 : (run empty [.ident id, .save ⟨0, 0, 0⟩ ents]).hard = none := by
    rw [hard_run _ hops]; rfl
  unfold handOver hasWal
  simp [h1, h2]

/-! ## Membership -/

/-- **Adding.** A request to add member `m` is refused by `validateChangeMembership` exactly when
its id is 0, the id belongs to a removed member, the member is invalid (empty name, address or
peer id, unparseable address), or an applied member has the same id, name, address or peer id. -/
theorem add_refused_iff (cl : Cluster) (m : Member) :
    validate cl ccAdd (some m) ≠ .ok ↔
      m.id = 0 ∨ m.id ∈ cl.removed ∨ m.isValid = false ∨
      ∃ p ∈ cl.applied, p.id = m.id ∨ p.name = m.name ∨ p.addr = m.addr ∨ p.peer = m.peer := by
  have hdup : hasDuplicatedMember cl.applied m = true ↔
      ∃ p ∈ cl.applied, p.name = m.name ∨ p.id = m.id ∨ p.addr = m.addr ∨ p.peer = m.peer := by
    simp [hasDuplicatedMember, Member.hasDupAttr, List.any_eq_true, or_assoc]
  have hget : (getMember cl.applied m.id).isSome = true → ∃ p ∈ cl.applied, p.id = m.id := by
    intro h
    cases hf : getMember cl.applied m.id with
    | none => simp [hf] at h
    | some p =>
      unfold getMember at hf
      exact ⟨p, List.mem_of_find?_eq_some hf, by simpa using List.find?_some hf⟩
  have hok : validate cl ccAdd (some m) = .ok ↔
      (m.id ≠ 0 ∧ cl.removed.contains m.id = false ∧ m.isValid = true ∧
       (getMember cl.applied m.id).isSome = false ∧ hasDuplicatedMember cl.applied m = false) := by
    unfold validate
    by_cases h0 : m.id = 0 <;> by_cases hr : cl.removed.contains m.id = true <;>
    by_cases hv : m.isValid = true <;> by_cases hg : (getMember cl.applied m.id).isSome = true <;>
    by_cases hd : hasDuplicatedMember cl.applied m = true <;> simp_all [ccAdd]
  rw [ne_eq, hok]
  constructor
  · intro h
    by_cases h0 : m.id = 0
    · exact Or.inl h0
    by_cases hr : m.id ∈ cl.removed
    · exact Or.inr (Or.inl hr)
    by_cases hv : m.isValid = true
    · by_cases hg : (getMember cl.applied m.id).isSome = true
      · obtain ⟨p, hp, hpid⟩ := hget hg
        exact Or.inr (Or.inr (Or.inr ⟨p, hp, Or.inl hpid⟩))
      · by_cases hd : hasDuplicatedMember cl.applied m = true
        · obtain ⟨p, hp, hh⟩ := hdup.mp hd
          refine Or.inr (Or.inr (Or.inr ⟨p, hp, ?_⟩))
          rcases hh with h | h | h | h
          · exact Or.inr (Or.inl h)
          · exact Or.inl h
          · exact Or.inr (Or.inr (Or.inl h))
          · exact Or.inr (Or.inr (Or.inr h))
        · exact absurd ⟨h0, by simpa using hr, hv, by simpa using hg, by simpa using hd⟩ h
    · exact Or.inr (Or.inr (Or.inl (by simpa using hv)))
  · rintro (h | h | h | ⟨p, hp, hh⟩) ⟨a1, a2, a3, a4, a5⟩
    · exact a1 h
    · have : ¬ m.id ∈ cl.removed := by simpa using a2
      exact this h
    · rw [a3] at h; cases h
    · have : hasDuplicatedMember cl.applied m = true := by
        apply hdup.mpr
        refine ⟨p, hp, ?_⟩
        rcases hh with h | h | h | h
        · exact Or.inr (Or.inl h)
        · exact Or.inl h
        · exact Or.inr (Or.inr (Or.inl h))
        · exact Or.inr (Or.inr (Or.inr h))
      rw [a5] at this; cases this

/-- The clauses of the property, one by one: a duplicated name, id, address or peer id refuses the add. -/
theorem duplicate_refused (cl : Cluster) (m p : Member) (hp : p ∈ cl.applied)
    (h : p.name = m.name ∨ p.id = m.id ∨ p.addr = m.addr ∨ p.peer = m.peer) :
    validate cl ccAdd (some m) ≠ .ok := by
  apply (add_refused_iff cl m).mpr
  refine Or.inr (Or.inr (Or.inr ⟨p, hp, ?_⟩))
  rcases h with h | h | h | h
  · exact Or.inr (Or.inl h)
  · exact Or.inl h
  · exact Or.inr (Or.inr (Or.inl h))
  · exact Or.inr (Or.inr (Or.inr h))

/-- Re-adding a removed member (same id) is refused. -/
theorem readd_removed_refused (cl : Cluster) (m : Member) (h : m.id ∈ cl.removed) :
    validate cl ccAdd (some m) ≠ .ok :=
  (add_refused_iff cl m).mpr (Or.inr (Or.inl h))

/-- **Removing.** A request to remove member `m` is refused by `validateChangeMembership` exactly
when its id is 0, it was already removed, or no applied member has this id (unknown member). -/
theorem remove_refused_iff (cl : Cluster) (m : Member) :
    validate cl ccRemove (some m) ≠ .ok ↔
      m.id = 0 ∨ m.id ∈ cl.removed ∨ ¬ ∃ p ∈ cl.applied, p.id = m.id := by
  have hget : (getMember cl.applied m.id).isNone = true ↔ ¬ ∃ p ∈ cl.applied, p.id = m.id := by
    unfold getMember
    simp [List.find?_eq_none]
  have hok : validate cl ccRemove (some m) = .ok ↔
      (m.id ≠ 0 ∧ cl.removed.contains m.id = false ∧ (getMember cl.applied m.id).isNone = false) := by
    unfold validate
    by_cases h0 : m.id = 0 <;> by_cases hr : cl.removed.contains m.id = true <;>
    cases hg : getMember cl.applied m.id <;> simp_all [ccAdd, ccRemove]
  rw [ne_eq, hok]
  constructor
  · intro h
    by_cases h0 : m.id = 0
    · exact Or.inl h0
    by_cases hr : m.id ∈ cl.removed
    · exact Or.inr (Or.inl hr)
    by_cases hg : (getMember cl.applied m.id).isNone = true
    · exact Or.inr (Or.inr (hget.mp hg))
    · exact absurd ⟨h0, by simpa using hr, Bool.eq_false_iff.mpr hg⟩ h
  · rintro (h | h | h) ⟨a1, a2, a3⟩
    · exact a1 h
    · have : ¬ m.id ∈ cl.removed := by simpa using a2
      exact this h
    · have := hget.mpr h
      rw [a3] at this; cases this

/-- Removing an unknown member is refused. -/
theorem remove_unknown_refused (cl : Cluster) (m : Member) (h : ¬ ∃ p ∈ cl.applied, p.id = m.id) :
    validate cl ccRemove (some m) ≠ .ok :=
  (remove_refused_iff cl m).mpr (Or.inr (Or.inr h))

/-- **Health classification.** The specification of "healthy" that the availability check is meant to count:
the member is this (leader) node itself, or raft replicates to it (neither probing nor sending it a
snapshot) and the index it has acknowledged (`Match`) is at most `MaxSlowNodeGap` behind the leader's last
index. Nothing else of the progress row counts — in particular not `Next`, raft's optimistic send position. -/
def HealthySpec (r : Raft) (p : Prog) : Prop :=
  r.self = p.id ∨ (p.state ≠ 0 ∧ p.state ≠ 2 ∧ r.lastIdx - p.matchIdx ≤ r.gap)

/-- `GetClusterProgress` classifies a progress row healthy exactly when the specification says so,
whatever its `Next` and activity fields are. -/
theorem health_is_spec (r : Raft) (p : Prog) : progressState r p = healthy ↔ HealthySpec r p := by
  unfold progressState HealthySpec healthy syncing slow
  by_cases hs : r.self = p.id
  · simp [hs]
  · by_cases h2 : p.state = 2
    · simp [hs, h2]
    · by_cases h0 : p.state = 0
      · simp [hs, h0]
      · by_cases hg : r.lastIdx > p.matchIdx ∧ r.lastIdx - p.matchIdx > r.gap
        · have : ¬ (r.lastIdx - p.matchIdx ≤ r.gap) := by omega
          simp [hs, h2, h0, hg.1, hg.2, this]
        · have hle : r.lastIdx - p.matchIdx ≤ r.gap := by omega
          have : ¬ (r.lastIdx > p.matchIdx ∧ r.lastIdx - p.matchIdx > r.gap) := hg
          by_cases h1 : r.lastIdx > p.matchIdx
          · have h3 : ¬ (r.lastIdx - p.matchIdx > r.gap) := fun h => hg ⟨h1, h⟩
            simp [hs, h2, h0, h1, h3, hle]
          · simp [hs, h2, h0, h1, hle]

/-- The health vector that feeds the availability check (and so `accepted_iff`) is that specification,
row by row: every reported status belongs to a progress row and is "healthy" iff the row satisfies `HealthySpec`. -/
theorem health_vector_is_spec (r : Raft) (x : Nat × Nat) (hx : x ∈ (clusterProgress r).2) :
    ∃ p ∈ r.prog, x.1 = p.id ∧ (x.2 = healthy ↔ HealthySpec r p) := by
  unfold clusterProgress at hx
  split at hx
  · simp at hx
  · split at hx
    · simp at hx
    · simp only [List.mem_map] at hx
      obtain ⟨p, hp, rfl⟩ := hx
      exact ⟨p, hp, rfl, health_is_spec r p⟩

/-- The cluster size reported by `GetClusterProgress` is the number of progress rows. -/
private theorem cp_len (r : Raft) : (clusterProgress r).1 = (clusterProgress r).2.length := by
  unfold clusterProgress
  split
  · rfl
  · split
    · rfl
    · simp

/-- **Removing a healthy node.** When the raft status is available and node `id` is healthy, the
removal is refused with "remove of a healthy node may cause the cluster to hang" exactly when the
remaining healthy nodes, `healthy − 1`, are fewer than the quorum `(N − 1)/2 + 1` of the remaining
cluster; otherwise it is allowed. (`/` is Go's integer division; the formula is the regenerated
`removeKeepsQuorum`.) -/
theorem remove_healthy_refused_iff (r : Raft) (id : Nat) (hn : r.hasNode = true) (hs : r.statusId ≠ 0)
    (hh : (clusterProgress r).2.lookup id = some healthy) :
    (enable r ccRemove id = .removeHealthy ↔
      ((healthyCount (clusterProgress r).2 : Int) - 1 <
        Int.tdiv (((clusterProgress r).1 : Int) - 1) 2 + 1)) ∧
    (enable r ccRemove id = .removeHealthy ∨ enable r ccRemove id = .ok) := by
  have hkq : Aergo.Gen.RaftQuorum.removeKeepsQuorum (((clusterProgress r).1 : Int))
      ((healthyCount (clusterProgress r).2 : Int)) = true ↔
      (healthyCount (clusterProgress r).2 : Int) - 1 ≥ Int.tdiv (((clusterProgress r).1 : Int) - 1) 2 + 1 := by
    simp [Aergo.Gen.RaftQuorum.removeKeepsQuorum, Aergo.Gen.RaftQuorum.isClusterAvilable]
  cases hk : Aergo.Gen.RaftQuorum.removeKeepsQuorum (((clusterProgress r).1 : Int))
      ((healthyCount (clusterProgress r).2 : Int)) with
  | true =>
    have he : enable r ccRemove id = .ok := by
      simp [enable, hn, hs, hh, ccAdd, ccRemove, healthy, hk]
    have := hkq.mp hk
    rw [he]
    exact ⟨⟨(fun h => by cases h), (fun h => by omega)⟩, Or.inr rfl⟩
  | false =>
    have he : enable r ccRemove id = .removeHealthy := by
      simp [enable, hn, hs, hh, ccAdd, ccRemove, healthy, hk]
    have : ¬ ((healthyCount (clusterProgress r).2 : Int) - 1 ≥ Int.tdiv (((clusterProgress r).1 : Int) - 1) 2 + 1) := by
      intro hq; have := hkq.mpr hq; rw [hk] at this; cases this
    rw [he]
    exact ⟨⟨(fun _ => by omega), (fun _ => rfl)⟩, Or.inl rfl⟩

/-- **Quorum safety.** If the removal of a healthy node is allowed, the healthy nodes that remain
are a strict majority of the nodes that remain: `2·(healthy − 1) > N − 1`. -/
theorem remove_quorum_safe (r : Raft) (id : Nat) (hn : r.hasNode = true) (hs : r.statusId ≠ 0)
    (hh : (clusterProgress r).2.lookup id = some healthy) (hok : enable r ccRemove id = .ok) :
    2 * ((healthyCount (clusterProgress r).2 : Int) - 1) > ((clusterProgress r).1 : Int) - 1 := by
  obtain ⟨h1, h2⟩ := remove_healthy_refused_iff r id hn hs hh
  have hnot : ¬ ((healthyCount (clusterProgress r).2 : Int) - 1 <
      Int.tdiv (((clusterProgress r).1 : Int) - 1) 2 + 1) := by
    intro hlt
    have := h1.mpr hlt
    rw [hok] at this
    cases this
  have hN : 1 ≤ (clusterProgress r).1 := by
    rw [cp_len]
    cases hl : (clusterProgress r).2 with
    | nil => simp [hl] at hh
    | cons a t => simp
  have hnn : (0 : Int) ≤ ((clusterProgress r).1 : Int) - 1 := by
    have : (1 : Int) ≤ ((clusterProgress r).1 : Int) := Int.ofNat_le.mpr hN
    omega
  rw [Int.tdiv_eq_ediv_of_nonneg hnn] at hnot
  omega

/-- An unhealthy (slow or syncing) node can always be removed, whatever the quorum. -/
theorem remove_unhealthy_allowed (r : Raft) (id st : Nat) (hn : r.hasNode = true) (hs : r.statusId ≠ 0)
    (hh : (clusterProgress r).2.lookup id = some st) (hst : st ≠ healthy) :
    enable r ccRemove id = .ok := by
  unfold enable
  have : (st != healthy) = true := by simpa using hst
  simp [hn, hs, hh, ccAdd, ccRemove, this]

/-- Adding is allowed by the availability check exactly when the raft status is available and
no member is reported unhealthy. -/
theorem add_enabled_iff (r : Raft) (id : Nat) :
    enable r ccAdd id = .ok ↔
      r.hasNode = true ∧ r.statusId ≠ 0 ∧ ∀ x ∈ (clusterProgress r).2, x.2 = healthy := by
  have hany : (clusterProgress r).2.any (fun x => x.2 != healthy) = false ↔
      ∀ x ∈ (clusterProgress r).2, x.2 = healthy := by
    simp [List.any_eq_false]
  cases hn : r.hasNode with
  | false => simp [enable, hn]
  | true =>
    by_cases hs : r.statusId = 0
    · simp [enable, hn, hs]
    · cases ha : (clusterProgress r).2.any (fun x => x.2 != healthy) with
      | false =>
        have he : enable r ccAdd id = .ok := by simp [enable, hn, hs, ccAdd, ha]
        rw [he]
        exact ⟨fun _ => ⟨rfl, hs, hany.mp ha⟩, fun _ => rfl⟩
      | true =>
        have he : enable r ccAdd id = .unhealthyExists := by simp [enable, hn, hs, ccAdd, ha]
        rw [he]
        refine ⟨(fun h => by cases h), fun ⟨_, _, h3⟩ => ?_⟩
        have := hany.mpr h3
        rw [ha] at this; cases this

/-- `changeAccepted` is the conjunction of the two checks (unfolding; used below). -/
private theorem accepted_checks (cl : Cluster) (r : Raft) (ty : Nat) (m : Member) :
    changeAccepted cl r ty (some m) = true ↔ validate cl ty (some m) = .ok ∧ enable r ty m.id = .ok := by
  simp [changeAccepted]

/-- **Removing a healthy node against a plain majority.** With the raft status available and node `id`
healthy, the availability check allows the removal exactly when the healthy nodes that remain are a
strict majority of the nodes that remain (`Majority k n := 2·k > n`, stated without the code's quorum formula). -/
theorem remove_healthy_ok_iff_majority (r : Raft) (id : Nat) (hn : r.hasNode = true) (hs : r.statusId ≠ 0)
    (hh : (clusterProgress r).2.lookup id = some healthy) :
    enable r ccRemove id = .ok ↔
      Majority (healthyCount (clusterProgress r).2 - 1) ((clusterProgress r).1 - 1) := by
  have hpos := healthyCount_pos hh
  have hN : 1 ≤ (clusterProgress r).1 := by
    rw [clusterProgress_len]
    cases hl : (clusterProgress r).2 with
    | nil => simp [hl] at hh
    | cons a t => simp
  have hq := removeKeepsQuorum_iff_majority _ _ hN hpos
  cases hk : Aergo.Gen.RaftQuorum.removeKeepsQuorum (((clusterProgress r).1 : Nat) : Int)
      ((healthyCount (clusterProgress r).2 : Nat) : Int) with
  | true =>
    have he : enable r ccRemove id = .ok := by
      simp [enable, hn, hs, hh, ccAdd, ccRemove, healthy, hk]
    rw [he]
    exact ⟨fun _ => hq.mp hk, fun _ => rfl⟩
  | false =>
    have he : enable r ccRemove id = .removeHealthy := by
      simp [enable, hn, hs, hh, ccAdd, ccRemove, healthy, hk]
    rw [he]
    refine ⟨fun h => (by cases h), fun h => ?_⟩
    have := hq.mpr h
    rw [hk] at this
    cases this

/-- The refusals the property demands, in the property's own words: an add that duplicates the name, id,
address or peer id of a member or re-adds a removed member; a remove of an unknown member, or of a
healthy node when the healthy nodes that remain are not a majority of the nodes that remain. -/
def PropertyRefuses (cl : Cluster) (r : Raft) (ty : Nat) (m : Member) : Prop :=
  (ty = ccAdd ∧ ((∃ p ∈ cl.applied, p.id = m.id ∨ p.name = m.name ∨ p.addr = m.addr ∨ p.peer = m.peer) ∨ m.id ∈ cl.removed)) ∨
  (ty = ccRemove ∧ ((¬ ∃ p ∈ cl.applied, p.id = m.id) ∨
    ((clusterProgress r).2.lookup m.id = some healthy ∧
      ¬ Majority (healthyCount (clusterProgress r).2 - 1) ((clusterProgress r).1 - 1))))

/-- The other reasons for which the code refuses a change (not demanded by the property): unknown
change type, id 0, no raft status, an invalid member or an unhealthy member on add, an already
removed id or a missing progress row on remove. -/
def OtherRefusal (cl : Cluster) (r : Raft) (ty : Nat) (m : Member) : Prop :=
  (ty ≠ ccAdd ∧ ty ≠ ccRemove) ∨ m.id = 0 ∨ r.hasNode = false ∨ r.statusId = 0 ∨
  (ty = ccAdd ∧ (m.isValid = false ∨ ∃ x ∈ (clusterProgress r).2, x.2 ≠ healthy)) ∨
  (ty = ccRemove ∧ (m.id ∈ cl.removed ∨ (clusterProgress r).2.lookup m.id = none))

/-- **The whole gate against the specification.** A membership change passes the gate
(`validateChangeMembership` and `isEnableChangeMembership`) exactly when none of the refusals the
property demands applies and none of the other listed reasons does. In particular (left to right)
nothing the property wants refused is ever accepted. -/
theorem accepted_iff (cl : Cluster) (r : Raft) (ty : Nat) (m : Member) :
    changeAccepted cl r ty (some m) = true ↔ ¬ PropertyRefuses cl r ty m ∧ ¬ OtherRefusal cl r ty m := by
  rw [accepted_checks]
  by_cases hadd : ty = ccAdd
  · subst hadd
    have hv := add_refused_iff cl m
    have he := add_enabled_iff r m.id
    have hne : ccAdd ≠ ccRemove := by decide
    constructor
    · rintro ⟨h1, h2⟩
      have nv : ¬ (m.id = 0 ∨ m.id ∈ cl.removed ∨ m.isValid = false ∨
          ∃ p ∈ cl.applied, p.id = m.id ∨ p.name = m.name ∨ p.addr = m.addr ∨ p.peer = m.peer) :=
        fun hx => (hv.mpr hx) h1
      obtain ⟨e1, e2, e3⟩ := he.mp h2
      refine ⟨?_, ?_⟩
      · rintro (⟨-, hp | hp⟩ | ⟨hc, -⟩)
        · exact nv (Or.inr (Or.inr (Or.inr hp)))
        · exact nv (Or.inr (Or.inl hp))
        · exact hne hc
      · rintro (⟨hc, -⟩ | h0 | hnn | hs0 | ⟨-, hiv | ⟨x, hx, hxh⟩⟩ | ⟨hc, -⟩)
        · exact hc rfl
        · exact nv (Or.inl h0)
        · rw [e1] at hnn; cases hnn
        · exact e2 hs0
        · exact nv (Or.inr (Or.inr (Or.inl hiv)))
        · exact hxh (e3 x hx)
        · exact hne hc
    · rintro ⟨np, no⟩
      constructor
      · refine Classical.byContradiction fun hbad => ?_
        rcases hv.mp hbad with h | h | h | h
        · exact no (Or.inr (Or.inl h))
        · exact np (Or.inl ⟨rfl, Or.inr h⟩)
        · exact no (Or.inr (Or.inr (Or.inr (Or.inr (Or.inl ⟨rfl, Or.inl h⟩)))))
        · exact np (Or.inl ⟨rfl, Or.inl h⟩)
      · apply he.mpr
        refine ⟨?_, ?_, ?_⟩
        · cases hh : r.hasNode with
          | true => rfl
          | false => exact absurd (Or.inr (Or.inr (Or.inl hh))) no
        · exact fun h => no (Or.inr (Or.inr (Or.inr (Or.inl h))))
        · intro x hx
          refine Classical.byContradiction fun hxh => ?_
          exact no (Or.inr (Or.inr (Or.inr (Or.inr (Or.inl ⟨rfl, Or.inr ⟨x, hx, hxh⟩⟩)))))
  · by_cases hrem : ty = ccRemove
    · subst hrem
      have hv := remove_refused_iff cl m
      have hne : ccRemove ≠ ccAdd := by decide
      constructor
      · rintro ⟨h1, h2⟩
        have nv : ¬ (m.id = 0 ∨ m.id ∈ cl.removed ∨ ¬ ∃ p ∈ cl.applied, p.id = m.id) := fun hx => (hv.mpr hx) h1
        have hn : r.hasNode = true := by
          cases hh : r.hasNode with
          | true => rfl
          | false => simp [enable, hh] at h2
        have hs : r.statusId ≠ 0 := by
          intro h0; simp [enable, hn, h0] at h2
        refine ⟨?_, ?_⟩
        · rintro (⟨hc, -⟩ | ⟨-, hu | ⟨hl, hm⟩⟩)
          · exact hne hc
          · exact nv (Or.inr (Or.inr hu))
          · exact hm ((remove_healthy_ok_iff_majority r m.id hn hs hl).mp h2)
        · rintro (⟨-, hc⟩ | h0 | hnn | hs0 | ⟨hc, -⟩ | ⟨-, hr | hl⟩)
          · exact hc rfl
          · exact nv (Or.inl h0)
          · rw [hn] at hnn; cases hnn
          · exact hs hs0
          · exact hne hc
          · exact nv (Or.inr (Or.inl hr))
          · simp [enable, hn, hs, hl, ccAdd, ccRemove] at h2
      · rintro ⟨np, no⟩
        have hn : r.hasNode = true := by
          cases hh : r.hasNode with
          | true => rfl
          | false => exact absurd (Or.inr (Or.inr (Or.inl hh))) no
        have hs : r.statusId ≠ 0 := fun h => no (Or.inr (Or.inr (Or.inr (Or.inl h))))
        constructor
        · refine Classical.byContradiction fun hbad => ?_
          rcases hv.mp hbad with h | h | h
          · exact no (Or.inr (Or.inl h))
          · exact no (Or.inr (Or.inr (Or.inr (Or.inr (Or.inr ⟨rfl, Or.inl h⟩)))))
          · exact np (Or.inr ⟨rfl, Or.inl h⟩)
        · cases hl : (clusterProgress r).2.lookup m.id with
          | none => exact absurd (Or.inr (Or.inr (Or.inr (Or.inr (Or.inr ⟨rfl, Or.inr hl⟩))))) no
          | some st =>
            by_cases hst : st = healthy
            · subst hst
              apply (remove_healthy_ok_iff_majority r m.id hn hs hl).mpr
              refine Classical.byContradiction fun hm => ?_
              exact np (Or.inr ⟨rfl, Or.inr ⟨hl, hm⟩⟩)
            · exact remove_unhealthy_allowed r m.id st hn hs hl hst
    · constructor
      · rintro ⟨h1, -⟩
        exfalso
        unfold validate at h1
        by_cases h0 : m.id = 0 <;> by_cases hr : cl.removed.contains m.id = true <;> simp_all
      · rintro ⟨-, no⟩
        exact absurd (Or.inl ⟨hadd, hrem⟩) no

/-- Nothing the property wants refused passes the gate. -/
theorem accepted_sound (cl : Cluster) (r : Raft) (ty : Nat) (m : Member)
    (h : changeAccepted cl r ty (some m) = true) : ¬ PropertyRefuses cl r ty m :=
  ((accepted_iff cl r ty m).mp h).1

/-- **The production request paths.** `Cluster.ChangeMembership` and `BlockFactory.MakeConfChangeProposal`
accept a request only if no change is pending and the member they build from the request (for an add:
the derived id `genId` with the requested name, address, peer id; for a remove: the requested id) passes
the whole gate — hence (with `accepted_sound`) never when the property wants it refused. -/
theorem changeMembership_sound (cl : Cluster) (r : Raft) (pending : Bool) (req : Req) (genId : Nat)
    (h : changeMembership cl r pending req genId = .ok ∨ makeConfChangeProposal cl r pending req genId = .ok) :
    pending = false ∧
    ((req.typ = 0 ∧ changeAccepted cl r ccAdd (some ⟨genId, req.name, req.addr, req.addrOk, req.peer⟩) = true) ∨
     (req.typ = 1 ∧ changeAccepted cl r ccRemove (some ⟨req.id, "", "", false, []⟩) = true)) := by
  have h' : changeMembership cl r pending req genId = .ok := by
    rcases h with h | h
    · exact h
    · unfold makeConfChangeProposal at h
      split at h
      · cases h
      · exact h
  cases pending with
  | true => simp [changeMembership, makeProposal] at h'
  | false =>
    refine ⟨rfl, ?_⟩
    by_cases h0 : req.typ = 0
    · left
      refine ⟨h0, ?_⟩
      rw [accepted_checks]
      by_cases hattr : (req.name.isEmpty || req.addr.isEmpty || req.peer.isEmpty) = true
      · simp [changeMembership, makeProposal, h0, hattr] at h'
      · cases hv : validate cl ccAdd (some ⟨genId, req.name, req.addr, req.addrOk, req.peer⟩) with
        | ok =>
          cases he : enable r 0 genId with
          | ok => exact ⟨rfl, he⟩
          | _ => simp [changeMembership, makeProposal, h0, hattr, hv, he] at h'
        | _ => simp [changeMembership, makeProposal, h0, hattr, hv] at h'
    · by_cases h1 : req.typ = 1
      · right
        refine ⟨h1, ?_⟩
        rw [accepted_checks]
        by_cases hid : req.id = 0
        · simp [changeMembership, makeProposal, h1, hid] at h'
        · cases hv : validate cl ccRemove (some ⟨req.id, "", "", false, []⟩) with
          | ok =>
            cases he : enable r 1 req.id with
            | ok => exact ⟨rfl, he⟩
            | _ => simp [changeMembership, makeProposal, h1, hid, hv, he] at h'
          | _ => simp [changeMembership, makeProposal, h1, hid, hv] at h'
      · simp [changeMembership, makeProposal, h0, h1] at h'

/-- **The raft-log path.** A committed conf-change entry that `validateChangeMembership` refuses — in
particular one that duplicates a member's name, id, address or peer id, re-adds a removed member,
removes an unknown or an already removed one — leaves the cluster exactly as it was. -/
theorem applied_entry_respects_refusals (cl : Cluster) (ty : Nat) (m : Member)
    (h : validate cl ty (some m) ≠ .ok) : (applyConfChange cl ty m).1 = cl ∧ (applyConfChange cl ty m).2 ≠ .ok := by
  unfold applyConfChange
  cases hv : validate cl ty (some m) <;> simp_all

/-- …and an accepted one does what it says: the member is added, or it leaves the applied members and its
id becomes a removed id (so that `readd_removed_refused` applies to it from then on). -/
theorem applied_entry_effect (cl : Cluster) (ty : Nat) (m : Member) (h : validate cl ty (some m) = .ok) :
    (ty = ccAdd → (applyConfChange cl ty m).1 = ⟨cl.applied ++ [m], cl.removed⟩) ∧
    (ty = ccRemove → m.id ∈ (applyConfChange cl ty m).1.removed ∧
      ¬ ∃ p ∈ (applyConfChange cl ty m).1.applied, p.id = m.id) := by
  unfold applyConfChange
  rw [h]
  constructor
  · intro ht; simp [ht]
  · intro ht
    have : ¬ ty = ccAdd := by rw [ht]; decide
    simp [this]

/-- **Snapshot catch-up / restart (`Cluster.Recover`).** Whether `isAllMembersEqual` lets `Recover`
skip the rebuild or not, afterwards the cluster has exactly the member ids and exactly the removed ids
the snapshot lists. -/
theorem recover_installs (cl : ClusterF) (ms rs : List Member) (cl' : ClusterF) (eq : Bool)
    (h : recover cl ms rs = some (cl', eq)) (id : Nat) :
    ((∃ m ∈ cl'.applied, m.id = id) ↔ ∃ m ∈ ms, m.id = id) ∧
    ((∃ m ∈ cl'.removed, m.id = id) ↔ ∃ m ∈ rs, m.id = id) := by
  unfold recover at h
  split at h
  · next he =>
    cases h
    simp only [isAllMembersEqual, Bool.and_eq_true] at he
    exact ⟨membersEqual_sorted_ids he.1 id, membersEqual_sorted_ids he.2 id⟩
  · split at h
    · cases h
    · next ap ha =>
      cases h
      have := addAll_eq [] ms ap ha
      simp at this
      subst this
      exact ⟨Iff.rfl, Iff.rfl⟩

/-- Hence a member the snapshot lists as removed cannot be re-added after the catch-up. -/
theorem readd_after_recover_refused (cl : ClusterF) (ms rs : List Member) (cl' : ClusterF) (eq : Bool)
    (h : recover cl ms rs = some (cl', eq)) (m : Member) (hm : ∃ x ∈ rs, x.id = m.id) :
    validate cl'.toCluster ccAdd (some m) ≠ .ok := by
  apply readd_removed_refused
  obtain ⟨x, hx, hxid⟩ := ((recover_installs cl ms rs cl' eq h m.id).2).mpr hm
  simp only [ClusterF.toCluster, List.mem_map]
  exact ⟨x, hx, hxid⟩

/-! ## Non-vacuity and witnesses (tests on sample values, not proofs of the property) -/

section Samples

def blkA : Block := ⟨[1], 10⟩
def blkB : Block := ⟨[2], 11⟩
def blkC : Block := ⟨[3], 12⟩
def itB (t i : Nat) (b : Block) : Item := ⟨⟨tBlock, t, i, b.hash⟩, some b, none⟩
def itE (t i : Nat) : Item := ⟨⟨tEmpty, t, i, []⟩, none, none⟩
def itC (t i id : Nat) : Item := ⟨⟨tConf, t, i, [9]⟩, none, some id⟩

/-- A history with an append, a shorter overwrite, a longer overwrite, a restart, a hard state. -/
def sampleOps : List Op :=
  [.best blkA, .write [itB 1 1 blkA, itB 1 2 blkB, itE 1 3, itC 1 4 5],
   .write [itE 2 2], .restart, .hard ⟨2, 1, 1⟩, .write [itB 3 2 blkC, itE 3 3, itE 3 4, itE 3 5]]

/-- test: the sample history is admissible (hypothesis of `log_refines` is satisfiable) -/
example : ValidFrom empty sampleOps := by
  refine ⟨trivial, ⟨by decide, ?_, 1, by decide, by decide, by simp [Contig, itB, itE, itC]⟩,
    ⟨by decide, ?_, 2, by decide, by decide, by simp [Contig, itE]⟩, trivial, trivial,
    ⟨by decide, ?_, 2, by decide, by decide, by simp [Contig, itB, itE]⟩, trivial⟩ <;>
  · intro it hit
    simp only [List.mem_cons, List.not_mem_nil, or_false] at hit
    rcases hit with rfl | rfl | rfl | rfl <;> simp [Item.wf, itB, itE, itC, tBlock, tEmpty, tConf]

/-- test: after the shorter overwrite `[2]` of the suffix `2..4`, indices 3 and 4 are absent and 2 is the new entry -/
example : getRaftEntry (run empty (sampleOps.take 3)) 2 = .ok ⟨tEmpty, 2, 2, []⟩ ∧
    getRaftEntry (run empty (sampleOps.take 3)) 3 = .noEntry ∧
    getRaftEntry (run empty (sampleOps.take 3)) 4 = .noEntry ∧ lastIdx (run empty (sampleOps.take 3)) = 2 := by decide

/-- test: end of the sample history; the block entry at 2 carries block C -/
example : lastIdx (run empty sampleOps) = 5 ∧ getRaftEntry (run empty sampleOps) 2 = .ok ⟨tBlock, 3, 2, [3]⟩ ∧
    getBlock (run empty sampleOps) [3] = .ok blkC ∧ (run empty sampleOps).hard = some ⟨2, 1, 1⟩ := by decide

/-- test: a hard state that differs from the previous one only in the vote is the one stored (and survives the restart) -/
example : (run empty [.save ⟨5, 0, 4⟩ [], .save ⟨5, 3, 4⟩ [], .save ⟨0, 0, 0⟩ [], .restart]).hard = some ⟨5, 3, 4⟩ ∧
    lastHard [.save ⟨5, 0, 4⟩ [], .save ⟨5, 3, 4⟩ [], .save ⟨0, 0, 0⟩ [], .restart] = some ⟨5, 3, 4⟩ := by decide

/-- test (lead 10): block B was written at index 2 and truncated by the overwrite `[empty@2]`; the
block-addressed lookup still answers, with the *empty* entry now stored at index 2. -/
example : getRaftEntryOfBlock (run empty (sampleOps.take 3)) blkB.hash = some (.ok ⟨tEmpty, 2, 2, []⟩) := by decide

/-- test: `HashOk` is satisfiable on the sample history, and the restart is the identity there -/
example : HashOk (blocksOf sampleOps) := by
  constructor
  · decide
  · decide

/-- test: index 0 is outside `ClearWAL`'s range `last … 1`: a batch starting at index 0 (never
produced by etcd/raft, excluded by `ValidBatch`) would survive ClearWAL. -/
example : getRaftEntry (clearWAL (run empty [.write [itE 1 0, itE 1 1]])) 0 ≠ .noEntry := by decide

/-- test: a gap (first index beyond last+1, excluded by `ValidBatch`) is why `first ≤ last+1` is
needed: index 3 was written, then truncated, and is ≤ last after the gap write, yet absent. -/
example : getRaftEntry (run empty [.write [itE 1 1, itE 1 2, itE 1 3], .write [itE 2 2], .write [itE 3 5]]) 3 = .noEntry ∧
    lastIdx (run empty [.write [itE 1 1, itE 1 2, itE 1 3], .write [itE 2 2], .write [itE 3 5]]) = 5 := by decide

/-- A follower history: three entries, the leader's snapshot at index 7 beyond the log, then the batch 8..9
that starts right after it (a gap relative to the last index 3), then a conflicting overwrite of 9. -/
def installOps : List Op :=
  [.ident ⟨5, 1, "node0", "peerA"⟩, .best blkA,
   .save ⟨1, 0, 3⟩ [.normal 1 1 (some blkA), .normal 1 2 none, .conf 1 3 [9] 0],
   .snap ⟨7, 2, blkB⟩, .save ⟨2, 0, 7⟩ [],
   .save ⟨2, 0, 8⟩ [.normal 2 8 (some blkC), .normal 2 9 none],
   .save ⟨3, 2, 8⟩ [.normal 3 9 none]]

/-- test: the follower history is admissible for `ValidFromS` (hypothesis of `no_holes`, `readAll_roundtrip`,
`restart_hands_acknowledged_partial` is satisfiable, gap batch included) -/
example : ValidFromS empty installOps := by
  refine ⟨trivial, trivial, ⟨⟨by decide, ?_, 1, by decide, by simp [Contig, convertFromRaft]⟩, ?_, by decide⟩,
    (show snapIdxOf _ ≤ 7 by decide), trivial, ⟨⟨by decide, ?_, 8, by decide, by simp [Contig, convertFromRaft]⟩, ?_, by decide⟩,
    ⟨⟨by decide, ?_, 9, by decide, by simp [Contig, convertFromRaft]⟩, ?_, by decide⟩, trivial⟩ <;>
  · intro it hit
    simp only [List.map, List.mem_cons, List.not_mem_nil, or_false] at hit
    rcases hit with rfl | rfl | rfl <;>
      first
      | exact convertFromRaft_coherent _
      | simp [Item.wf, convertFromRaft, tBlock, tEmpty, tConf]

/-- test: on that history the stale entries 1..3 below the snapshot are still readable, 4..7 are absent,
8 and the rewritten 9 are there; the hand-over starts after the snapshot and etcd/raft accepts it -/
example : stored installOps 2 = some (convertFromRaft (.normal 1 2 none)) ∧ stored installOps 5 = none ∧
    stored installOps 9 = some (convertFromRaft (.normal 3 9 none)) ∧ lastIdx (run empty installOps) = 9 ∧
    handOver (run empty installOps) ⟨"node0", "peerA"⟩ =
      .ok ⟨some ⟨7, 2, blkB⟩, ⟨3, 2, 8⟩, [.normal 2 8 (some blkC), .normal 3 9 none], ⟨5, 1, "node0", "peerA"⟩⟩ := by decide

/-- test: a crash between the snapshot and the hard state of the Ready that installs it (the order the
repaired server loop writes them): the restarted node hands over the snapshot with the old hard state,
commit index raised to the snapshot's, and etcd/raft accepts it. In the order before the repair (hard
state first) the hard state `commit = 7` sits on a log that ends at 3 and etcd/raft refuses. -/
example : handOver (run empty (installOps.take 4)) ⟨"node0", "peerA"⟩ =
      .ok ⟨some ⟨7, 2, blkB⟩, ⟨1, 0, 7⟩, [], ⟨5, 1, "node0", "peerA"⟩⟩ ∧
    (∃ h, handOver (run empty (installOps.take 3 ++ [.save ⟨2, 0, 7⟩ []])) ⟨"node0", "peerA"⟩ = .raftPanics h) := by
  constructor
  · decide
  · exact ⟨⟨none, ⟨2, 0, 7⟩, [.normal 1 1 (some blkA), .normal 1 2 none, .conf 1 3 [9]], ⟨5, 1, "node0", "peerA"⟩⟩, by decide⟩

/-- test: the durable states inside one `SaveEntry` that truncates (9 rewritten) and carries a hard state:
before, entries only, after — three states, two write units -/
example : (prefixStates (run empty (installOps.take 6)) (.save ⟨3, 2, 8⟩ [.normal 3 9 none])).length = 3 ∧
    (prefixStates (run empty (installOps.take 6)) (.write [itE 3 9])).length = 2 ∧
    (prefixStates (run empty (installOps.take 6)) .clear).length = 3 ∧
    (prefixStates (run empty (installOps.take 6)) (.reset (some (4, 4)))).length = 6 := by decide

/-- test: the first-start window (identity durable, no hard state): not a WAL -/
example : handOver (run empty [.ident ⟨5, 1, "node0", "peerA"⟩]) ⟨"node0", "peerA"⟩ = .noWal .noHardState := by decide

def m1 : Member := ⟨1, "a", "/ip4/10.0.0.1/tcp/1", true, [1]⟩
def m2 : Member := ⟨2, "b", "/ip4/10.0.0.2/tcp/1", true, [2]⟩
def m3 : Member := ⟨3, "c", "/ip4/10.0.0.3/tcp/1", true, [3]⟩
def cl3 : Cluster := ⟨[m1, m2, m3], [7]⟩
def raft3 (st2 st3 : Nat) : Raft := ⟨true, 1, true, 1, 500, 100, [⟨1, 1, 500, 501, true⟩, ⟨2, st2, 500, 501, true⟩, ⟨3, st3, 500, 501, true⟩]⟩

/-- test: a fresh valid member is accepted on a healthy 3-node cluster; duplicates and the removed id are not -/
example : validate cl3 ccAdd (some ⟨4, "d", "/ip4/10.0.0.4/tcp/1", true, [4]⟩) = .ok ∧
    validate cl3 ccAdd (some ⟨4, "a", "/ip4/10.0.0.4/tcp/1", true, [4]⟩) = .dup ∧
    validate cl3 ccAdd (some ⟨4, "d", "/ip4/10.0.0.4/tcp/1", true, [2]⟩) = .dup ∧
    validate cl3 ccAdd (some ⟨7, "d", "/ip4/10.0.0.4/tcp/1", true, [4]⟩) = .alreadyRemoved ∧
    validate cl3 ccRemove (some ⟨9, "", "", false, []⟩) = .noMember ∧
    validate cl3 ccRemove (some ⟨2, "", "", false, []⟩) = .ok := by decide

/-- test: a follower raft streams to (Next at the end of the log) that has acknowledged nothing for 400 entries is
not healthy, one 100 behind is (gap 100); Next plays no role -/
example : progressState (raft3 1 1) ⟨2, 1, 100, 501, true⟩ = slow ∧ progressState (raft3 1 1) ⟨2, 1, 400, 501, false⟩ = healthy ∧
    HealthySpec (raft3 1 1) ⟨2, 1, 400, 1, true⟩ ∧ ¬ HealthySpec (raft3 1 1) ⟨2, 1, 100, 501, true⟩ := by
  refine ⟨by decide, by decide, Or.inr ⟨by decide, by decide, by decide⟩, ?_⟩
  rintro (h | ⟨-, -, h⟩)
  · exact absurd h (by decide)
  · exact absurd h (by decide)

/-- test: 3 nodes all healthy: removing a healthy node leaves 2 of 2 (allowed); with node 3 slow, removing
healthy node 2 would leave 1 healthy of 2 (refused), removing slow node 3 is allowed. -/
example : enable (raft3 1 1) ccRemove 2 = .ok ∧ enable (raft3 1 0) ccRemove 2 = .removeHealthy ∧
    enable (raft3 1 0) ccRemove 3 = .ok ∧ enable (raft3 1 0) ccAdd 4 = .unhealthyExists := by decide

/-- test: the refusals of the property on the 3-node cluster: duplicate name, re-add of removed 7, remove of
unknown 9, remove of healthy 2 when 3 is slow (1 of 2 left is no majority); removing 2 with all healthy is fine -/
example : PropertyRefuses cl3 (raft3 1 1) ccAdd ⟨4, "a", "/ip4/10.0.0.4/tcp/1", true, [4]⟩ ∧
    PropertyRefuses cl3 (raft3 1 1) ccAdd ⟨7, "d", "/ip4/10.0.0.4/tcp/1", true, [4]⟩ ∧
    PropertyRefuses cl3 (raft3 1 1) ccRemove ⟨9, "", "", false, []⟩ ∧
    PropertyRefuses cl3 (raft3 1 0) ccRemove ⟨2, "", "", false, []⟩ ∧
    ¬ PropertyRefuses cl3 (raft3 1 1) ccRemove ⟨2, "", "", false, []⟩ ∧
    changeAccepted cl3 (raft3 1 1) ccRemove (some ⟨2, "", "", false, []⟩) = true := by
  refine ⟨Or.inl ⟨rfl, Or.inl ⟨m1, by simp [cl3], Or.inr (Or.inl rfl)⟩⟩, Or.inl ⟨rfl, Or.inr (by simp [cl3])⟩,
    Or.inr ⟨rfl, Or.inl (by simp [cl3, m1, m2, m3])⟩, Or.inr ⟨rfl, Or.inr ⟨by decide, by decide⟩⟩, ?_, by decide⟩
  rintro (⟨h, -⟩ | ⟨-, h | ⟨-, h⟩⟩)
  · exact absurd h (by decide)
  · exact h ⟨m2, by simp [cl3], rfl⟩
  · exact h (by decide)

/-- test: the production request path on the same cluster: remove of healthy 2 with 3 slow is refused by the
availability check, with all healthy it is accepted; a pending change refuses everything; a non-leader makes no proposal -/
example : changeMembership cl3 (raft3 1 0) false ⟨1, 2, "", "", false, []⟩ 0 = .e .removeHealthy ∧
    changeMembership cl3 (raft3 1 1) false ⟨1, 2, "", "", false, []⟩ 0 = .ok ∧
    changeMembership cl3 (raft3 1 1) true ⟨1, 2, "", "", false, []⟩ 0 = .pending ∧
    changeMembership cl3 (raft3 1 1) false ⟨0, 0, "a", "/ip4/10.0.0.4/tcp/1", true, [4]⟩ 44 = .v .dup ∧
    makeConfChangeProposal cl3 ⟨true, 1, false, 1, 500, 100, []⟩ false ⟨1, 2, "", "", false, []⟩ 0 = .notLeader := by decide

/-- test (the shape of seeded change C16-r2-3): the node knows members 1..3 and no removed member; the
snapshot lists the same members and member 4 as removed. Whatever `Recover` answers ("equal" or not),
afterwards 4 is a removed id and re-adding it is refused. -/
example (cl' : ClusterF) (eq : Bool)
    (h : recover ⟨[m1, m2, m3], []⟩ [m3, m1, m2] [⟨4, "d", "/ip4/10.0.0.4/tcp/1", true, [4]⟩] = some (cl', eq)) :
    (∃ m ∈ cl'.removed, m.id = 4) ∧
    validate cl'.toCluster ccAdd (some ⟨4, "d", "/ip4/10.0.0.4/tcp/1", true, [4]⟩) ≠ .ok :=
  ⟨((recover_installs _ _ _ cl' eq h 4).2).mpr ⟨_, List.mem_singleton.mpr rfl, rfl⟩,
   readd_after_recover_refused _ _ _ cl' eq h _ ⟨_, List.mem_singleton.mpr rfl, rfl⟩⟩

end Samples

end Aergo.Props.C16
