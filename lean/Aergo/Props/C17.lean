/-
C17 — Block sync delivers a gap-free ascending chain from a true common ancestor.

"When a node synchronises with peers it first determines a block that its own main chain shares
with the remote chain (never one the remote chain lacks, and the highest shared one whenever the
quick anchor comparison finds none), and from there hands blocks to the chain service strictly in
ascending, contiguous height order, each one a child of the previous, until the target height is
reached. Whatever the peers do (answer slowly, out of order, with errors, with too few, too many or
unlinked blocks, or not at all), the synchroniser either completes with exactly that result or
stops and reports an error; it never delivers a gap or a duplicate, never deadlocks, and a later
synchronisation can start."

The theorems are about the model `Aergo.Sync` (Model/Sync.lean), which transcribes syncer/finder.go,
hashfetcher.go, blockfetcher.go, blockprocessor.go, syncerservice.go (sequence filter, session
start/reset), chain/chainanchor.go and p2p/blkreceiver.go; the harness `c17` runs the real code and
the model on the same operation lines on every check (finder: every local/remote chain pair of at
most 40 blocks; fetcher/processor: generated response orders, delays, drops, corruptions, with the
full state compared after every step).

Vocabulary. A session of the block fetcher/processor is `run (St.init cfg anc target npeers) es`
for an event list `es` of any length: hash sets arriving from the hash fetcher, scheduler passes,
clock ticks (task timeouts), chunk replies attributed to any peer with any content, and AddBlock
replies with any content — in any order, any duplication, any loss. `delivered outs` are the
blocks handed to the chain service. `Announced es n h`: some hash set in `es` lists id `h` for
height `n`.

What is and is not carried by a theorem.
* `delivery_order` needs the hypothesis `HeightBound es`: a block that carries an announced id
  carries the height that id was announced for. Without it the pinned code does deliver out of
  order (`delivery_order_needs_height_binding`: a peer answers with the genuine ids and an altered
  height field) — known finding C17-header-not-bound-to-id: neither p2p/blkreceiver.go nor the
  syncer ever compares a block's header with its id, the connect queue is ordered by the header
  height of each chunk's first block.
* "each one a child of the previous" is checked by the syncer only inside a chunk (`chunk_linked`);
  across chunks it follows from the ids being the announced ones when ids bind headers (the same
  hypothesis one level down), and is what the chain service checks on AddBlock (C05).
* "never deadlocks" is about goroutines, channels and timers and is not a theorem. What is proved
  is progress of the state machine (`progress`): in every reachable state of a session (hash sets
  arriving as the hash fetcher sends them, at least one peer) that has not stopped, either
  everything announced so far is connected (the session is complete, or waits for the hash
  fetcher), or one of three named steps changes the state: the chain service's answer for the block
  being connected, the timeout of the running tasks, or a scheduler pass. In particular the connect
  queue never holds a stale or unreachable head, no announced height is lost, and the pending-connect
  limit never blocks the task the processor is waiting for. The end-to-end runs of the harness use
  watchdogs; see notes/C17.md for two channel-level hazards found by reading.
-/
import Aergo.Lemmas.Sync
import Aergo.Lemmas.SyncProgress
import Aergo.Lemmas.SyncGood
import Aergo.Lemmas.SyncWitness
import Aergo.Lemmas.SyncRecv
import Aergo.Lemmas.SyncWire

namespace Aergo.Props.C17
open Aergo.Sync

/-! ## The common ancestor -/

/-- **Binary search returns the highest common block.** If no probe inside the window fails and
"same" is downward closed (two chains that agree at a height agree below it), then
`Finder.binarySearch(0, hi)` returns the greatest height `≤ hi` at which the chains agree, and
`nil` exactly when they agree nowhere — for every `hi` and every fork point. -/
theorem bsearch_highest (probe : Nat → Probe) (hi : Nat)
    (hok : ∀ i, i ≤ hi → probe i = .same ∨ probe i = .diff)
    (hmono : ∀ i j, i ≤ j → j ≤ hi → probe j = .same → probe i = .same) :
    (∃ k, binarySearch probe 0 hi none = .ok (some k) ∧ k ≤ hi ∧ probe k = .same ∧
        ∀ j, k < j → j ≤ hi → probe j ≠ .same) ∨
    (binarySearch probe 0 hi none = .ok none ∧ ∀ j, j ≤ hi → probe j ≠ .same) := by
  obtain ⟨r, hr, hh⟩ := bs_general probe hi hok hmono 0 hi none (Nat.le_refl _) (by omega) (by simp)
    (by intro i h; omega) (by intro j h1 h2; omega)
  cases r with
  | none => exact Or.inr ⟨hr, hh⟩
  | some k => exact Or.inl ⟨k, hr, hh⟩

/-- The hypotheses of `bsearch_highest` are satisfiable: chains that fork after height 3 (test). -/
example : let probe : Nat → Probe := fun i => if i ≤ 3 then .same else .diff
    (∀ i, i ≤ 9 → probe i = .same ∨ probe i = .diff) ∧
    (∀ i j, i ≤ j → j ≤ 9 → probe j = .same → probe i = .same) := by
  refine ⟨?_, ?_⟩
  · intro i _; by_cases h : i ≤ 3 <;> simp [h]
  · intro i j hij _ hj
    by_cases h : j ≤ 3
    · have : i ≤ 3 := by omega
      simp [this]
    · simp [h] at hj

/-- **The ancestor is never a block the remote lacks** — whatever the peer answers (no
monotonicity, errors allowed): a height reported by the search was probed and answered "same",
i.e. the local main chain has a block there and the remote reported the same id. -/
theorem ancestor_sound (probe : Nat → Probe) (lo hi k : Nat)
    (h : binarySearch probe lo hi none = .ok (some k)) : lo ≤ k ∧ k ≤ hi ∧ probe k = .same := by
  rcases bs_sound probe lo hi none k h with h | h
  · simp at h
  · exact h

/-- The search reports an error only if a probe inside the window failed. -/
theorem search_error_has_cause (probe : Nat → Probe) (lo hi : Nat) :
    (binarySearch probe lo hi none = .remoteErr → ∃ i, lo ≤ i ∧ i ≤ hi ∧ probe i = .remoteErr) ∧
    (binarySearch probe lo hi none = .localErr → ∃ i, lo ≤ i ∧ i ≤ hi ∧ probe i = .localErr) :=
  bs_err probe lo hi none

private theorem anchorsFrom_le : ∀ fuel no a, a ∈ anchorsFrom fuel no → a ≤ no := by
  intro fuel
  induction fuel with
  | zero => intro no a h; simp [anchorsFrom] at h
  | succ n ih =>
    intro no a h
    simp only [anchorsFrom] at h
    simp at h
    rcases h with rfl | ⟨_, h⟩
    · omega
    · have := ih _ a h
      split at this <;> omega

private theorem lastAnchor_le (best : Nat) : lastAnchorOf best ≤ best := by
  unfold lastAnchorOf
  cases h : (anchors best).getLast? with
  | none => simp
  | some a =>
    simp
    exact anchorsFrom_le _ _ a (List.mem_of_getLast? h)

/-- **The whole finder never hands on a block the remote lacks**, provided the peer's light-scan
replies are honest (every height it names is one where the chains agree). Errors, timeouts and
ignored replies are all allowed. -/
theorem finder_ancestor_sound (fullOnly : Bool) (best target : Nat) (replies : List (Option Nat))
    (probe : Nat → Probe) (a : Nat)
    (hhonest : ∀ n, some n ∈ replies → probe n = .same)
    (h : finder fullOnly best target replies probe = .ancestor a) : probe a = .same := by
  have full : ∀ la, fullscan probe la = .ancestor a → probe a = .same := by
    intro la hf
    unfold fullscan at hf
    split at hf <;> simp at hf
    rename_i a' hbs
    subst hf
    exact (ancestor_sound probe 0 _ _ hbs).2.2
  unfold finder at h
  split at h
  · exact full _ h
  · split at h
    · simp at h
    · rename_i n hfind
      split at h
      · simp at h
      · simp at h; subst h
        exact hhonest n (List.mem_of_find?_eq_some hfind)
    · exact full _ h

/-- **Highest shared block whenever the quick anchor comparison finds none.** Let the local chain
have blocks exactly up to `best`, let no probe at or below `best` fail, and let agreement be
downward closed. If the light scan is skipped, or its accepted answer is "no anchor found" and the
lowest anchor indeed is not shared, then an ancestor handed on by the finder is the greatest height
at which the chains agree. -/
theorem fullscan_highest (fullOnly : Bool) (best target : Nat) (replies : List (Option Nat))
    (probe : Nat → Probe) (a : Nat)
    (hok : ∀ i, i ≤ best → probe i = .same ∨ probe i = .diff)
    (hloc : ∀ i, best < i → probe i = .localErr)
    (hmono : ∀ i j, i ≤ j → j ≤ best → probe j = .same → probe i = .same)
    (hnone : fullOnly = true ∨
      (replies.find? (lightAccept (lastAnchorOf best)) = some none ∧ probe (lastAnchorOf best) ≠ .same))
    (h : finder fullOnly best target replies probe = .ancestor a) :
    a ≤ best ∧ probe a = .same ∧ ∀ j, a < j → j ≤ best → probe j ≠ .same := by
  -- a full scan below `la`, with nothing shared from `la` upwards
  have full : ∀ la, la ≤ best + 1 → (∀ j, la ≤ j → j ≤ best → probe j ≠ .same) →
      fullscan probe la = .ancestor a →
      a ≤ best ∧ probe a = .same ∧ ∀ j, a < j → j ≤ best → probe j ≠ .same := by
    intro la hla hup hf
    unfold fullscan at hf
    split at hf <;> simp at hf
    rename_i a' hbs
    subst hf
    have hs := ancestor_sound probe 0 _ _ hbs
    have hab : a' ≤ best := by
      by_cases hh : a' ≤ best
      · exact hh
      · have := hloc a' (by omega); rw [this] at hs; simp at hs
    refine ⟨hab, hs.2.2, ?_⟩
    by_cases hla0 : la = 0
    · -- the lowest anchor is the genesis block and is not shared: nothing is shared
      intro j _ hj hsame
      exact hup j (by omega) hj hsame
    · have hpred : predU64 la = la - 1 := by simp [predU64, hla0]
      rw [hpred] at hbs
      obtain ⟨r, hr, hh⟩ := bs_general probe (la - 1) (fun i hi => hok i (by omega))
        (fun i j hij hj => hmono i j hij (by omega)) 0 (la - 1) none (Nat.le_refl _) (by omega) (by simp)
        (by intro i h; omega) (by intro j h1 h2; omega)
      rw [hbs] at hr
      simp at hr
      subst hr
      intro j hj1 hj2 hsame
      by_cases hjl : j ≤ la - 1
      · exact hh.2.2 j hj1 hjl hsame
      · exact hup j (by omega) hj2 hsame
  unfold finder at h
  split at h
  · exact full (best + 1) (Nat.le_refl _) (by intro j h1 h2; omega) h
  · rename_i hfo
    rcases hnone with hfo' | ⟨hfind, hla⟩
    · exact absurd hfo' hfo
    · rw [hfind] at h
      simp only at h
      have hle := lastAnchor_le best
      apply full (lastAnchorOf best) (by omega) ?_ h
      intro j hj1 hj2 hsame
      exact hla (hmono _ j hj1 hj2 hsame)

/-- The same with the peer's side spelled out: the finder hands the peer *all* anchors of the local
chain (`getAnchors` passes the chain service's list on unchanged, and `LastAnchor` is the lowest
of them), and an honest peer answers with the highest anchor that is on its chain
(`honestLightReply`). If that answer is "none", the ancestor handed on is the highest shared block.
(A finder that hands the peer only some of the anchors while keeping the bound from the lowest one
breaks exactly this; the harness checks the list handed over on chains long enough to have all 32
anchors.) -/
theorem fullscan_highest_honest (best target : Nat) (probe : Nat → Probe) (a : Nat)
    (hok : ∀ i, i ≤ best → probe i = .same ∨ probe i = .diff)
    (hloc : ∀ i, best < i → probe i = .localErr)
    (hmono : ∀ i j, i ≤ j → j ≤ best → probe j = .same → probe i = .same)
    (hnone : honestLightReply best (fun i => decide (probe i = .same)) = none)
    (h : finder false best target [honestLightReply best (fun i => decide (probe i = .same))] probe = .ancestor a) :
    a ≤ best ∧ probe a = .same ∧ ∀ j, a < j → j ≤ best → probe j ≠ .same := by
  apply fullscan_highest false best target _ probe a hok hloc hmono ?_ h
  right
  rw [hnone]
  refine ⟨by simp [lightAccept], ?_⟩
  -- the lowest anchor is one of the anchors, and none of them is shared
  have hne : anchors best ≠ [] := by
    unfold anchors maxAnchors
    rw [show (32 : Nat) = 31 + 1 from rfl, anchorsFrom]
    exact List.cons_ne_nil _ _
  have hmem : lastAnchorOf best ∈ anchors best := by
    unfold lastAnchorOf
    cases hl : (anchors best).getLast? with
    | none =>
      have : anchors best = [] := by simpa using hl
      exact absurd this hne
    | some x => simpa using List.mem_of_getLast? hl
  unfold honestLightReply at hnone
  have := List.find?_eq_none.mp hnone _ hmem
  simpa using this

/-! ## Hash sets -/

/-- **The hash fetcher hands on only hash sets that continue the previous one.** A reply is
pushed to the block fetcher only if it echoes the request (previous block and count), carries no
error and at least one hash; then it starts right after the last announced height, ends at or
below the target, and the fetcher finishes exactly when the target is reached. -/
theorem hash_sets_contiguous (h h' : HF) (m : HashesRsp) (st : Nat) (hs : List Nat) (fin : Bool)
    (hr : h.response m = (h', .pushed st hs fin)) :
    st = h.lastNo + 1 ∧ hs = m.hashes ∧ hs ≠ [] ∧ m.err = false ∧
    m.prevNo = h.lastNo ∧ m.prevHash = h.lastHash ∧ m.count = h.reqCount ∧
    h'.lastNo = h.lastNo + hs.length ∧ h'.lastNo ≤ h.target ∧ (fin = true ↔ h'.lastNo = h.target) := by
  unfold HF.response at hr
  split at hr
  · simp at hr
  · rename_i hne
    split at hr
    · simp at hr
    · rename_i herr
      split at hr
      · simp at hr
      · rename_i hecho
        have hecho' : (h.lastNo = m.prevNo ∧ h.lastHash = m.prevHash) ∧ h.reqCount = m.count := by
          constructor
          · exact Classical.not_not.mp (fun hc => hecho (Or.inl hc))
          · exact Classical.not_not.mp (fun hc => hecho (Or.inr hc))
        obtain ⟨⟨e1, e2⟩, e3⟩ := hecho'
        have hlen : 0 < m.hashes.length := by
          cases hm : m.hashes with
          | nil => simp [hm] at hne
          | cons a r => simp
        have hnil : m.hashes ≠ [] := by intro hc; rw [hc] at hlen; simp at hlen
        have herr' : m.err = false := by simpa using herr
        simp only at hr
        split at hr
        · simp at hr
        · rename_i htarget
          split at hr
          · rename_i hfin
            simp only [Prod.mk.injEq, HFOut.pushed.injEq] at hr
            obtain ⟨hh, hst, hhs, hfn⟩ := hr
            subst hh; subst hst; subst hhs; subst hfn
            refine ⟨by omega, rfl, hnil, herr', e1.symm, e2.symm, e3.symm, ?_, ?_, ?_⟩
            · dsimp only at *; omega
            · dsimp only at *; omega
            · dsimp only at *; simp; omega
          · rename_i hfin
            simp only [Prod.mk.injEq, HFOut.pushed.injEq, HF.request] at hr
            obtain ⟨hh, hst, hhs, hfn⟩ := hr
            subst hh; subst hst; subst hhs; subst hfn
            refine ⟨by omega, rfl, hnil, herr', e1.symm, e2.symm, e3.symm, ?_, ?_, ?_⟩
            · dsimp only at *; omega
            · dsimp only at *; omega
            · dsimp only at *; simp; omega
/-- Any other reply (empty, error, wrong echo, beyond the target) pushes nothing and leaves the
hash fetcher where it was. -/
theorem hash_reply_rejected_changes_nothing (h h' : HF) (m : HashesRsp) (o : HFOut)
    (hr : h.response m = (h', o)) (hno : ∀ st hs fin, o ≠ .pushed st hs fin) : h' = h := by
  unfold HF.response at hr
  split at hr
  · simp at hr; exact hr.1.symm
  · split at hr
    · simp at hr; exact hr.1.symm
    · split at hr
      · simp at hr; exact hr.1.symm
      · simp only at hr
        split at hr
        · simp at hr; exact hr.1.symm
        · split at hr
          · simp at hr; exact absurd hr.2.symm (hno _ _ _)
          · simp at hr; exact absurd hr.2.symm (hno _ _ _)

/-! ## Delivery order -/

/-- Id `h` is listed for height `n` by some hash set of the event list. -/
def Announced (es : List Ev) (n h : Nat) : Prop :=
  ∃ st hs i, Ev.hashSet st hs ∈ es ∧ hs[i]? = some h ∧ st + i = n

/-- Every block in every chunk reply that carries an announced id carries the height the id was
announced for (ids bind headers). Nothing is assumed about order, duplication, loss, errors,
peers, lengths, or blocks with unannounced ids. -/
def HeightBound (es : List Ev) : Prop :=
  ∀ peer err blocks, Ev.chunk peer err blocks ∈ es → ∀ b, b ∈ blocks → ∀ n, Announced es n b.hash → b.no = n

private theorem evsOK_of_heightBound (es : List Ev) (hb : HeightBound es) : EvsOK (Announced es) es := by
  intro e he
  cases e with
  | hashSet st hs => intro i h hi; exact ⟨st, hs, i, he, hi, rfl⟩
  | chunk peer err blocks => exact hb peer err blocks he
  | sched => trivial
  | tick d => trivial
  | addRsp a b c d => trivial

/-- **Delivery order.** In one session, whatever the order, duplication, loss or content of chunk
replies and AddBlock replies, whatever the peers, timeouts and scheduler passes: the `k`-th block
handed to the chain service has height `ancestor + 1 + k` and carries the id announced for that
height. (So: ascending, contiguous, no gap, no duplicate.) -/
theorem delivery_order (cfg : Cfg) (anc : Blk) (target npeers : Nat) (es : List Ev)
    (hb : HeightBound es) (k : Nat) (b : Blk)
    (h : (delivered (run (St.init cfg anc target npeers) es).2)[k]? = some b) :
    b.no = anc.no + 1 + k ∧ Announced es b.no b.hash := by
  obtain ⟨hf, hp⟩ := init_inv (Announced es) cfg anc target npeers
  have := run_delivers (Announced es) hf hp (evsOK_of_heightBound es hb) k b h
  simpa [nextNo, St.init] using this

/-- The same as a list equation: the heights handed over are exactly
`ancestor+1, ancestor+2, …` — no gap, no duplicate, no disorder. -/
theorem delivery_heights (cfg : Cfg) (anc : Blk) (target npeers : Nat) (es : List Ev)
    (hb : HeightBound es) :
    (delivered (run (St.init cfg anc target npeers) es).2).map (·.no) =
      List.range' (anc.no + 1) (delivered (run (St.init cfg anc target npeers) es).2).length := by
  apply List.ext_getElem?
  intro k
  cases hk : (delivered (run (St.init cfg anc target npeers) es).2)[k]? with
  | none =>
    have : (delivered (run (St.init cfg anc target npeers) es).2).length ≤ k := by
      simpa using hk
    rw [List.getElem?_map, hk]
    simp
    omega
  | some b =>
    have hlt : k < (delivered (run (St.init cfg anc target npeers) es).2).length := by
      by_cases hlt : k < (delivered (run (St.init cfg anc target npeers) es).2).length
      · exact hlt
      · have hnone := List.getElem?_eq_none (Nat.le_of_not_lt hlt)
        rw [hnone] at hk; simp at hk
    have := (delivery_order cfg anc target npeers es hb k b hk).1
    rw [List.getElem?_map, hk, List.getElem?_range' hlt]
    simp [this]

/-- A session that satisfies the hypotheses and delivers (test): ancestor at height 4, ids 11 and
12 announced for heights 5 and 6, fetched in one chunk, connected one after the other. -/
example :
    let es : List Ev := [.hashSet 5 [11, 12], .sched, .chunk 0 false [⟨11, 10, 5⟩, ⟨12, 11, 6⟩],
                         .addRsp 5 11 false false, .addRsp 6 12 false false]
    delivered (run (St.init ⟨2, 2, 2, 2⟩ ⟨10, 9, 4⟩ 6 1) es).2 = [⟨11, 10, 5⟩, ⟨12, 11, 6⟩] := by
  decide

/-- **Without the height binding the pinned code delivers out of order** (known finding
C17-header-not-bound-to-id). Ancestor at height 4; ids 11, 12 are announced for heights 5, 6 and
fetched as two tasks. The peer answers the *second* task with the genuine id 12 but height field
5: the chunk is queued under `firstNo = 5`, popped as "the next block", and the block announced for
height 6 is handed to the chain service first. -/
theorem delivery_order_needs_height_binding :
    ¬ ∀ (cfg : Cfg) (anc : Blk) (target npeers : Nat) (es : List Ev) (k : Nat) (b : Blk),
        (delivered (run (St.init cfg anc target npeers) es).2)[k]? = some b →
        Announced es (anc.no + 1 + k) b.hash := by
  intro h
  have := h ⟨1, 2, 2, 2⟩ ⟨10, 9, 4⟩ 6 2
    [.hashSet 5 [11, 12], .sched, .chunk 1 false [⟨12, 11, 5⟩]] 0 ⟨12, 11, 5⟩ (by decide)
  obtain ⟨st, hs, i, hmem, hi, hsum⟩ := this
  simp at hmem
  obtain ⟨rfl, rfl⟩ := hmem
  have : i = 0 := by simp at hsum; omega
  subst this
  simp at hi

/-! ## Chunks -/

/-- **An accepted chunk is linked and is exactly what was requested.** A chunk reply is turned
into a connect task only if it carries no error, is not empty, every block's parent field equals
the id of the block before it, and its ids are, in order and in number, the ids of a running fetch
task that was given to the answering peer. -/
theorem chunk_linked (s : St) (peer : Nat) (err : Bool) (blocks : List Blk) (t : Task) (rest : List Task)
    (hv : validChunk err blocks = true)
    (hm : findTask (fun t => isMatched t peer blocks) s.running = some (t, rest)) :
    err = false ∧ blocks ≠ [] ∧
    (∀ i a b, blocks[i]? = some a → blocks[i + 1]? = some b → b.prev = a.hash) ∧
    blocks.map (·.hash) = t.hashes ∧ blocks.length = t.hashes.length ∧
    t ∈ s.running ∧ t.peer.map (·.no) = some peer := by
  obtain ⟨hmem, hmatch, _⟩ := findTask_spec _ _ _ _ hm
  obtain ⟨hh, hp⟩ := isMatched_spec hmatch
  have hlinked : linked blocks = true := by
    simp [validChunk] at hv; exact hv.2
  have hl : ∀ (l : List Blk), linked l = true →
      ∀ i a b, l[i]? = some a → l[i + 1]? = some b → b.prev = a.hash := by
    intro l
    induction l with
    | nil => intro _ i a b h; simp at h
    | cons x r ih =>
      intro hlk i a b ha hb
      cases r with
      | nil => simp at hb
      | cons y r' =>
        simp [linked] at hlk
        cases i with
        | zero => simp at ha hb; subst ha; subst hb; exact hlk.1.symm
        | succ i => exact ih hlk.2 i a b (by simpa using ha) (by simpa using hb)
  refine ⟨?_, ?_, hl blocks hlinked, hh.symm, ?_, hmem, hp⟩
  · simp [validChunk] at hv; exact hv.1.1
  · intro hnil; subst hnil; simp [validChunk] at hv
  · rw [hh]; simp

/-- A reply with too few or too many blocks for a task matches no task (test of the matching
rule: ids 11, 12 requested, one / three blocks returned). -/
example : isMatched ⟨5, [11, 12], some ⟨0, 0⟩, 0, 0⟩ 0 [⟨11, 10, 5⟩] = false ∧
    isMatched ⟨5, [11, 12], some ⟨0, 0⟩, 0, 0⟩ 0 [⟨11, 10, 5⟩, ⟨12, 11, 6⟩, ⟨13, 12, 7⟩] = false ∧
    isMatched ⟨5, [11, 12], some ⟨0, 0⟩, 0, 0⟩ 0 [⟨11, 10, 5⟩, ⟨12, 11, 6⟩] = true := by decide

/-- **The P2P chunk receiver hands the syncer only the requested ids, in order, and answers at
most once** — whatever parts the peer sends (too few, too many, unexpected or oversized blocks,
bad status, empty parts, parts after the end, parts after the time limit): every `GetBlockChunksRsp`
without error that it produces carries exactly the requested ids in the requested order, and over
the whole exchange it sends at most one message to the syncer. -/
theorem receiver_delivers_requested (want : List Nat) (big : Blk → Bool) (parts : List Part) :
    (∀ blocks, RecvOut.rsp blocks ∈ (Recv.feed big ⟨want, [], .waiting⟩ parts).2 → blocks.map (·.hash) = want) ∧
    answers (Recv.feed big ⟨want, [], .waiting⟩ parts).2 ≤ 1 := by
  have h := feed_spec big parts ⟨want, [], .waiting⟩ (by simp [RInv])
  simpa using h

/-- A complete honest exchange in two parts is delivered (test). -/
example : (Recv.feed (fun _ => false) ⟨[11, 12, 13], [], .waiting⟩
    [⟨false, true, [⟨11, 10, 5⟩, ⟨12, 11, 6⟩], true⟩, ⟨false, true, [⟨13, 12, 7⟩], false⟩]).2 =
    [.nothing, .rsp [⟨11, 10, 5⟩, ⟨12, 11, 6⟩, ⟨13, 12, 7⟩]] := by decide

/-! ### The chunk receiver over whole response streams

`Recv.feed big ⟨want, [], .waiting⟩ parts` is `p2p.BlocksChunkReceiver` (created for the request
`want`) fed the partial responses `parts` in order; a part says whether it arrived after the time
limit, whether its status was OK, which blocks it carries and whether it announces more
(`HasNext`). The theorems are for every list of parts. -/

/-- **What the receiver holds is always a prefix — of the request and of what the peer sent.**
After any parts: the ids of the blocks accepted so far are the first ids of the request, in the
requested order; the blocks themselves are an initial segment of the concatenation of the blocks the
peer sent; and feeding more parts only extends what was held. -/
theorem receiver_holds_prefix (want : List Nat) (big : Blk → Bool) (parts more : List Part) :
    let r := (Recv.feed big ⟨want, [], .waiting⟩ parts).1
    r.got.map (·.hash) = want.take r.got.length ∧
    r.got <+: parts.flatMap (·.blocks) ∧
    r.got <+: (Recv.feed big ⟨want, [], .waiting⟩ (parts ++ more)).1.got := by
  intro r
  refine ⟨?_, ?_, ?_⟩
  · have hinv : ∀ (ps : List Part) (q : Recv), RInv q → RInv (Recv.feed big q ps).1 := by
      intro ps
      induction ps with
      | nil => intro q h; exact h
      | cons x xs ih => intro q h; simp only [Recv.feed]; exact ih _ (receive_inv q big x h)
    have hwant : ∀ (ps : List Part) (q : Recv), (Recv.feed big q ps).1.want = q.want := by
      intro ps
      induction ps with
      | nil => intro q; rfl
      | cons x xs ih => intro q; simp only [Recv.feed]; rw [ih, receive_want]
    have := hinv parts ⟨want, [], .waiting⟩ (by simp [RInv])
    simp only [RInv, hwant] at this
    exact this
  · obtain ⟨l, hl, h⟩ := feed_got big parts ⟨want, [], .waiting⟩
    simp only [List.nil_append] at h
    show (Recv.feed big ⟨want, [], .waiting⟩ parts).1.got <+: _
    rw [h]; exact hl
  · rw [feed_append]
    obtain ⟨l, _, h⟩ := feed_got big more (Recv.feed big ⟨want, [], .waiting⟩ parts).1
    simp only
    rw [h]
    exact List.prefix_append _ _

/-- **On success the receiver forwards exactly the requested list, and exactly what the peer
sent.** If the answer to the `k`-th part is a chunk without error, then its ids are the requested
ids in order, its blocks are precisely the blocks of parts `0 … k` concatenated, every earlier part
arrived in time with status OK and announced more, part `k` announced the end, and the receiver
tells the syncer nothing else, before or after. -/
theorem receiver_forwards_exactly (want : List Nat) (big : Blk → Bool) (parts : List Part) (k : Nat)
    (blocks : List Blk) (h : (Recv.feed big ⟨want, [], .waiting⟩ parts).2[k]? = some (.rsp blocks)) :
    blocks.map (·.hash) = want ∧ blocks = (parts.take (k + 1)).flatMap (·.blocks) ∧
    (∀ i p, i < k → parts[i]? = some p → p.hasNext = true ∧ p.timedOut = false ∧ p.statusOk = true) ∧
    (∃ p, parts[k]? = some p ∧ p.hasNext = false ∧ p.timedOut = false ∧ p.statusOk = true) ∧
    (∀ j o, j ≠ k → (Recv.feed big ⟨want, [], .waiting⟩ parts).2[j]? = some o → o = .nothing) := by
  obtain ⟨h1, _, h3, h4, h5⟩ := feed_rsp_exact big parts ⟨want, [], .waiting⟩ k blocks h
  refine ⟨?_, by simpa using h1, h3, h4, h5⟩
  exact (receiver_delivers_requested want big parts).1 blocks (List.mem_of_getElem? h)

/-- **An honest peer is answered with success** (the receiver does not lose a good answer): parts
that arrive in time with status OK, none empty, all but the last announcing more, carrying together
exactly the requested ids in order with no oversized block, produce nothing until the last part and
then the chunk consisting of all their blocks. -/
theorem receiver_honest_success (want : List Nat) (big : Blk → Bool) (parts : List Part)
    (h : HonestParts want big parts) :
    (Recv.feed big ⟨want, [], .waiting⟩ parts).2 =
      List.replicate (parts.length - 1) .nothing ++ [.rsp (parts.flatMap (·.blocks))] := by
  obtain ⟨h1, h2, h3, h4, h5⟩ := h
  have := feed_honest big parts ⟨want, [], .waiting⟩ rfl h1 h2 h3 (by simpa using h4) h5
  simpa using this

/-- The honest exchange shown above satisfies `HonestParts` (test). -/
example : HonestParts [11, 12, 13] (fun _ => false)
    [⟨false, true, [⟨11, 10, 5⟩, ⟨12, 11, 6⟩], true⟩, ⟨false, true, [⟨13, 12, 7⟩], false⟩] := by
  refine ⟨by simp, ?_, ?_, by simp, by simp⟩
  · intro p hp
    simp at hp
    rcases hp with rfl | rfl <;> simp
  · intro i p hi
    match i with
    | 0 => simp at hi; subst hi; simp
    | 1 => simp at hi; subst hi; simp
    | k + 2 => simp at hi

/-- **A part that arrives after the time limit ends the exchange silently**: if the receiver was
still waiting, nothing is ever sent to the syncer for this request — neither before (it was
waiting), nor for the late part, nor for anything that follows. (The syncer's own task timeout is
what then fails the task over: `session_stops_or_completes` needs the ticks for exactly this.) -/
theorem receiver_timeout_is_silent (want : List Nat) (big : Blk → Bool) (before after : List Part) (late : Part)
    (hw : (Recv.feed big ⟨want, [], .waiting⟩ before).1.status = .waiting) (hl : late.timedOut = true) :
    answers (Recv.feed big ⟨want, [], .waiting⟩ (before ++ late :: after)).2 = 0 := by
  rw [feed_append]
  simp only [answers_append]
  have h1 := answers_nothing _ (feed_waiting_silent big before _ hw)
  have h2 : (Recv.feed big (Recv.feed big ⟨want, [], .waiting⟩ before).1 (late :: after)).2 =
      .nothing :: (Recv.feed big { (Recv.feed big ⟨want, [], .waiting⟩ before).1 with status := .finished } after).2 := by
    simp only [Recv.feed]
    simp [Recv.receive, hw, hl]
  rw [h1, h2]
  simp only [answers]
  have h3 := answers_nothing _ (feed_not_waiting big after
    { (Recv.feed big ⟨want, [], .waiting⟩ before).1 with status := .finished } (by simp)).2
  simp only [Nat.zero_add]
  exact h3

/-- **More blocks than requested is an error, never a success and never ignored**: if the receiver
is waiting and an in-time OK part carries more blocks than remain to be received, the syncer is
sent an error (too many / unexpected / too big, whichever the add loop meets first). -/
theorem receiver_surplus_is_error (want : List Nat) (big : Blk → Bool) (before : List Part) (p : Part)
    (hw : (Recv.feed big ⟨want, [], .waiting⟩ before).1.status = .waiting)
    (ht : p.timedOut = false) (hok : p.statusOk = true)
    (hmore : want.length < (Recv.feed big ⟨want, [], .waiting⟩ before).1.got.length + p.blocks.length) :
    ∃ e, ((Recv.feed big ⟨want, [], .waiting⟩ before).1.receive big p).2 = .rspErr e := by
  have hpre := (receiver_holds_prefix want big before []).1
  have hwant : ∀ (ps : List Part) (q : Recv), (Recv.feed big q ps).1.want = q.want := by
    intro ps
    induction ps with
    | nil => intro q; rfl
    | cons x xs ih => intro q; simp only [Recv.feed]; rw [ih, receive_want]
  generalize hr : (Recv.feed big ⟨want, [], .waiting⟩ before).1 = r at *
  have hrw : r.want = want := by rw [← hr, hwant]
  have hle : r.got.length ≤ want.length := by
    have := congrArg List.length hpre
    simp at this
    omega
  have hne : p.blocks.isEmpty = false := by
    cases hb : p.blocks with
    | nil => rw [hb] at hmore; simp at hmore; omega
    | cons a l => rfl
  have hsur := recvAdd_surplus r.want big p.blocks r.got (by rw [hrw]; exact hmore) (by rw [hrw]; exact hle)
  cases hra : recvAdd r.want big r.got p.blocks with
  | mk got e =>
    cases e with
    | none => rw [hra] at hsur; exact absurd rfl hsur
    | some e => exact ⟨e, by simp [Recv.receive, hw, ht, hok, hne, hra]⟩

/-! ## Bad input -/

/-- **A chunk reply that is an error, empty or unlinked never reaches the connect queue**: it
hands nothing to the chain service and leaves the processor untouched; the running task of that
peer, if there is one, fails over to the retry queue (or the session stops because every peer is
bad); otherwise the reply is dropped without any effect. -/
theorem bad_chunk_fails_over (s : St) (peer : Nat) (err : Bool) (blocks : List Blk)
    (hv : validChunk err blocks = false) :
    (∀ s' outs, chunkRsp s peer err blocks = .ok (s', outs) →
        outs = [] ∧ ProcEq s s' ∧
        (s' = s ∨ ∃ t, t ∈ s.running ∧ t.peer.map (·.no) = some peer ∧
            { t with retry := t.retry + 1, peer := none } ∈ s'.retryQ ∧
            s'.running.length + 1 = s.running.length)) ∧
    (∀ e, chunkRsp s peer err blocks = .error e → e = .allPeerBad) := by
  unfold chunkRsp
  rw [hv]
  simp only [Bool.false_eq_true, ↓reduceIte]
  cases hfind : findTask (fun t => t.peer.map (·.no) == some peer) s.running with
  | none =>
    refine ⟨?_, by simp⟩
    intro s' outs h
    simp at h
    obtain ⟨rfl, rfl⟩ := h
    exact ⟨rfl, ProcEq.refl _, Or.inl rfl⟩
  | some x =>
    obtain ⟨t, run⟩ := x
    obtain ⟨hmem, hpm, _⟩ := findTask_spec _ _ _ _ hfind
    have hpeer : t.peer.map (·.no) = some peer := by simpa using hpm
    have hlen := findTask_length _ _ _ _ hfind
    simp only
    cases hft : failTask { s with running := run } t with
    | error e =>
      refine ⟨by simp, ?_⟩
      intro e' he'
      simp at he'
      subst he'
      rcases failTask_error_spec hft with ⟨hnone, _⟩ | h
      · rw [hnone] at hpeer; simp at hpeer
      · exact h
    | ok s1 =>
      refine ⟨?_, by simp⟩
      intro s' outs h
      simp at h
      obtain ⟨rfl, rfl⟩ := h
      obtain ⟨hr, _, _, hq⟩ := failTask_ok_spec hft
      obtain ⟨_, hpe⟩ := failTask_inv (fun _ _ => True) (s := { s with running := run })
        ⟨fun _ _ _ _ _ => trivial, fun _ _ _ _ _ => trivial, fun _ _ _ _ _ => trivial, fun _ _ _ _ _ => trivial⟩
        (fun _ _ _ => trivial) hft
      refine ⟨rfl, ProcEq.trans ⟨rfl, rfl, rfl, rfl⟩ hpe, Or.inr ⟨t, hmem, hpeer, ?_, ?_⟩⟩
      · rw [hq]; simp [mem_pushRetry]
      · rw [hr]; simpa using hlen

/-- **A well-formed chunk that no running task asked for is dropped without any effect** — wrong
peer, wrong number of blocks (too few, too many), ids other than the requested ones, a duplicate
of a reply that was already accepted, a reply to a task that has timed out. -/
theorem unmatched_chunk_dropped (s : St) (peer : Nat) (err : Bool) (blocks : List Blk)
    (hv : validChunk err blocks = true)
    (hm : findTask (fun t => isMatched t peer blocks) s.running = none) :
    chunkRsp s peer err blocks = .ok (s, []) := by
  unfold chunkRsp
  simp [hv, hm]

/-- **A bad AddBlock reply stops the session with an error**: an error from the chain service, a
nil id, a reply while no block is being connected, or a reply for another block than the one being
connected. Nothing is handed to the chain service by that step and the session is halted. -/
theorem bad_add_reply_stops (s : St) (no hash : Nat) (err nilHash : Bool) (hh : s.halted = false)
    (hbad : err = true ∨ nilHash = true ∨ s.curBlock = none ∨
      ∃ cb, s.curBlock = some cb ∧ (cb.no ≠ no ∨ cb.hash ≠ hash)) :
    ∃ e, step s (.addRsp no hash err nilHash) = ({ s with halted := true }, [.stop (some e)]) := by
  have herr : ∃ e, addRsp s no hash err nilHash = .error e := by
    unfold addRsp
    by_cases h1 : err = true
    · exact ⟨.rspErr, by simp [h1]⟩
    · by_cases h2 : nilHash = true
      · exact ⟨.invalidAdd, by simp [h1, h2]⟩
      · cases hcb : s.curBlock with
        | none => exact ⟨.panic, by simp [h1, h2]⟩
        | some cb =>
          rcases hbad with h | h | h | ⟨cb', hcb', hne⟩
          · exact absurd h h1
          · exact absurd h h2
          · rw [hcb] at h; simp at h
          · rw [hcb] at hcb'; simp at hcb'; subst hcb'
            exact ⟨.invalidAdd, by simp [h1, h2, hne]⟩
  obtain ⟨e, he⟩ := herr
  exact ⟨e, by simp [step, hh, he]⟩

/-- After the run loop has returned on an error nothing is processed any more. -/
theorem halted_absorbs (s : St) (e : Ev) (h : s.halted = true) : step s e = (s, []) := by
  simp [step, h]

/-- Scheduler passes and timeouts never hand anything to the chain service and never touch the
connect queue. -/
theorem sched_and_tick_deliver_nothing (s : St) (e : Ev) (he : e = .sched ∨ ∃ d, e = .tick d)
    (hf : FInv (fun _ _ => True) s) :
    delivered (step s e).2 = [] ∧ ProcEq s (step s e).1 := by
  unfold step
  split
  · exact ⟨rfl, ProcEq.refl _⟩
  · rcases he with rfl | ⟨d, rfl⟩
    · simp only
      cases hs : schedule s with
      | error e => exact ⟨rfl, rfl, rfl, rfl, rfl⟩
      | ok x =>
        obtain ⟨s', outs⟩ := x
        obtain ⟨_, h2, h3⟩ := scheduleLoop_inv _ _ _ _ _ hf hs
        exact ⟨h3, h2⟩
    · simp only
      cases ht : tick s d with
      | error e => exact ⟨rfl, rfl, rfl, rfl, rfl⟩
      | ok s1 =>
        obtain ⟨_, h2⟩ := tick_inv _ hf ht
        exact ⟨rfl, h2⟩

/-! ## Progress -/

/-- **Progress of the state machine.** Take any session: any configuration with positive chunk
size, task limit and pending-connect limit, at least one peer, and any event list in which hash
sets arrive as the hash fetcher sends them (`HashSetsFrom`: non-empty, each starting right after
the last announced height — `hash_sets_contiguous`) and ids bind heights (`HeightBound`); chunk
replies and AddBlock replies are arbitrary. In the state reached, unless the session has stopped
with an error, one of the following holds:

* everything announced so far has been handed to the chain service and acknowledged, and nothing
  is queued anywhere (then the session is complete if the target has been announced, and otherwise
  waits for the next hash set);
* a block is being connected, and the chain service's (honest) answer changes the state;
* fetch tasks are running, and their timeout changes the state;
* nothing is running and no block is being connected, and a scheduler pass changes the state
  (it starts a task: there is a free peer, a candidate task, and the pending-connect limit does not
  apply).

So no reachable state is stuck: in particular the head of the connect queue is never a chunk that
can no longer be connected, and the range the processor is waiting for is always in some queue. -/
theorem progress (cfg : Cfg) (anc : Blk) (target npeers : Nat) (es : List Ev)
    (hb : HeightBound es) (hhs : HashSetsFrom (anc.no + 1) es)
    (hsz : 0 < cfg.maxFetchSize) (htk : 0 < cfg.maxFetchTasks) (hpc : 0 < cfg.maxPendingConn)
    (hnp : 0 < npeers) :
    let s := (run (St.init cfg anc target npeers) es).1
    s.halted = true ∨
    (s.curBlock = none ∧ nextNo s = annEnd (anc.no + 1) es ∧ s.running = [] ∧ s.retryQ = [] ∧
      s.pending = [] ∧ s.hfq = [] ∧ s.connQ = []) ∨
    (∃ cb, s.curBlock = some cb ∧ (step s (.addRsp cb.no cb.hash false false)).1 ≠ s) ∨
    (s.running ≠ [] ∧ (step s (.tick (s.cfg.timeout + 1))).1 ≠ s) ∨
    (s.curBlock = none ∧ s.running = [] ∧ (step s .sched).1 ≠ s) := by
  intro s
  obtain ⟨hf0, hp0⟩ := init_inv (Announced es) cfg anc target npeers
  obtain ⟨hl0, hq0⟩ := init_lcore cfg anc target npeers hnp
  rcases run_lcore (Announced es) es _ _ _ hf0 hp0 hl0 hq0 (by simpa [St.init] using hsz)
      (evsOK_of_heightBound es hb) hhs with hh | ⟨B', hl, hq, hp, hcfg⟩
  · exact Or.inl hh
  · by_cases hh : s.halted = true
    · exact Or.inl hh
    · right
      have hcfg' : s.cfg = cfg := by rw [hcfg]; rfl
      exact progress_core (Announced es) hp hl hq (by simpa using hh) (by rw [hcfg']; exact hsz)
        (by rw [hcfg']; exact htk) (by rw [hcfg']; exact hpc)

/-- The hypotheses of `progress` hold for the delivering session shown above (test). -/
example : HashSetsFrom 5 [.hashSet 5 [11, 12], .sched, .chunk 0 false [⟨11, 10, 5⟩, ⟨12, 11, 6⟩],
    .addRsp 5 11 false false, .addRsp 6 12 false false] := by
  simp [HashSetsFrom]

/-- A session without peers is stuck for ever (test; this is why `progress` asks for a peer): the
hash set is never even taken from the channel. `BlockFetcher.init` with no running peer. -/
example :
    let s := (run (St.init ⟨2, 2, 2, 2⟩ ⟨10, 9, 4⟩ 6 0) [.hashSet 5 [11, 12]]).1
    (step s .sched).1 = s ∧ (step s (.tick 9)).1 = s ∧ s.curBlock = none ∧ s.hfq ≠ [] := by
  decide

/-! ## Termination

Vocabulary. An *environment* is an infinite stream `evs : Nat → Ev` of events (hash sets, scheduler
passes, ticks, chunk replies, AddBlock replies — any content, any order). `stAt s0 evs n` and
`outsAt s0 evs n` are the state of the session and everything it has sent after the first `n`
events (`run s0 (pre evs n)`). The measure `phi` (Lemmas/SyncTerm.lean) weighs what is still to do:
6k+1 for a waiting hash set of k heights, 4k+2 for a pending task, 3k+1 (+ the peer) for a running
task, 3k+2 for a task in the retry queue, `2·(MaxPeerFailCount − failCnt)` for every peer that is
not bad, 2 per fetched block not yet handed over, 1 for the block being connected, 1 for the session
being alive. Every step that changes anything except the ages of running tasks lowers it
(`step_dich`); only the arrival of a hash set raises it, by exactly `gain`.
-/

/-- Id `h` is listed for height `n` by some hash set of the stream. -/
def AnnouncedS (evs : Nat → Ev) (n h : Nat) : Prop :=
  ∃ i st hs k, evs i = Ev.hashSet st hs ∧ hs[k]? = some h ∧ st + k = n

/-- The standing assumptions on the environment of a session, exactly those of `progress` for every
prefix, plus: the ancestor is below the target and the hash fetcher never announces beyond the
target (`hash_sets_contiguous`: `lastNo ≤ target`). Nothing is assumed about chunk replies (except
that ids bind heights) or AddBlock replies. -/
structure Session (cfg : Cfg) (anc : Blk) (target npeers : Nat) (evs : Nat → Ev) : Prop where
  heightBound : ∀ i peer err blocks, evs i = Ev.chunk peer err blocks →
    ∀ b, b ∈ blocks → ∀ n, AnnouncedS evs n b.hash → b.no = n
  hashSets : ∀ n, HashSetsFrom (anc.no + 1) (pre evs n)
  upTo : ∀ n, annEnd (anc.no + 1) (pre evs n) ≤ target + 1
  below : anc.no < target
  fetchSize : 0 < cfg.maxFetchSize
  fetchTasks : 0 < cfg.maxFetchTasks
  pendingConn : 0 < cfg.maxPendingConn
  peers : 0 < npeers

private theorem envOK_of_session {cfg : Cfg} {anc : Blk} {target npeers : Nat} {evs : Nat → Ev}
    (h : Session cfg anc target npeers evs) : EnvOK (AnnouncedS evs) cfg anc target npeers evs := by
  refine ⟨?_, h.hashSets, h.upTo, h.fetchSize, h.fetchTasks, h.pendingConn, h.peers⟩
  intro i
  cases he : evs i with
  | hashSet st hs => intro k x hk; exact ⟨i, st, hs, k, he, hk, rfl⟩
  | chunk peer err blocks => exact h.heightBound i peer err blocks he
  | sched => trivial
  | tick d => trivial
  | addRsp a b c d => trivial

private theorem heightBound_pre {cfg : Cfg} {anc : Blk} {target npeers : Nat} {evs : Nat → Ev}
    (h : Session cfg anc target npeers evs) (n : Nat) : HeightBound (pre evs n) := by
  intro peer err blocks hmem b hb k hann
  obtain ⟨i, _, hi⟩ := mem_pre hmem
  obtain ⟨st, hs, j, hm, hj, hk⟩ := hann
  obtain ⟨i', _, hi'⟩ := mem_pre hm
  exact h.heightBound i peer err blocks hi b hb k ⟨i', st, hs, j, hi', hj, hk⟩

/-- The session has completed with exactly the result the property asks for: the success notice
has been sent, and the blocks handed to the chain service are those of heights
`ancestor+1 … target`, in this order, each carrying an id announced for its height. -/
def CompletedExactly (cfg : Cfg) (anc : Blk) (target npeers : Nat) (evs : Nat → Ev) (n : Nat) : Prop :=
  Out.stop none ∈ outsAt (St.init cfg anc target npeers) evs n ∧
  (delivered (outsAt (St.init cfg anc target npeers) evs n)).map (·.no) = List.range' (anc.no + 1) (target - anc.no) ∧
  ∀ b, b ∈ delivered (outsAt (St.init cfg anc target npeers) evs n) → Announced (pre evs n) b.no b.hash

private theorem completed_of_final {cfg : Cfg} {anc : Blk} {target npeers : Nat} {evs : Nat → Ev}
    (h : Session cfg anc target npeers evs) (n : Nat)
    (hcb : (stAt (St.init cfg anc target npeers) evs n).curBlock = none)
    (hprev : (stAt (St.init cfg anc target npeers) evs n).prev.no = target) :
    CompletedExactly cfg anc target npeers evs n := by
  have hb := heightBound_pre h n
  obtain ⟨hf, hp⟩ := init_inv (Announced (pre evs n)) cfg anc target npeers
  have hlen := run_nextNo (Announced (pre evs n)) hf hp (evsOK_of_heightBound _ hb)
  have hlen' : (delivered (outsAt (St.init cfg anc target npeers) evs n)).length = target - anc.no := by
    have h1 : nextNo (run (St.init cfg anc target npeers) (pre evs n)).1 = target + 1 := by
      show nextNo (stAt (St.init cfg anc target npeers) evs n) = target + 1
      simp only [nextNo, hcb, hprev]
    have h0 : nextNo (St.init cfg anc target npeers) = anc.no + 1 := rfl
    have := h.below
    show (delivered (run (St.init cfg anc target npeers) (pre evs n)).2).length = target - anc.no
    omega
  refine ⟨?_, ?_, ?_⟩
  · rcases run_stop_none (pre evs n) (St.init cfg anc target npeers) with h1 | h1
    · have : (stAt (St.init cfg anc target npeers) evs n).prev = anc := h1
      rw [this] at hprev
      have := h.below
      omega
    · exact h1 hprev
  · have := delivery_heights cfg anc target npeers (pre evs n) hb
    simp only [outsAt]
    simp only [outsAt] at hlen'
    rw [this, hlen']
  · intro b hmem
    obtain ⟨k, hk⟩ := List.getElem?_of_mem hmem
    exact (delivery_order cfg anc target npeers (pre evs n) hb k b hk).2

/-- **Progress, measured.** `progress` names a step that *changes* the state; for the tick and the
chain service's answer that alone says little (a tick always changes ages). Here the same three steps
are shown to *cost a unit of the measure* `phi`, i.e. to do real work: in every reachable state of a
session (hypotheses of `progress`) that has not stopped, either everything announced so far is
connected and nothing is queued; or a block is being connected and ANY AddBlock reply costs a unit
(it connects the block or stops the session); or tasks are running and a tick beyond the timeout
costs a unit (a task fails over, or the session stops with `ErrAllPeerBad`); or a scheduler pass
costs a unit (it starts a task). -/
theorem progress_costs (cfg : Cfg) (anc : Blk) (target npeers : Nat) (es : List Ev)
    (hb : HeightBound es) (hhs : HashSetsFrom (anc.no + 1) es)
    (hsz : 0 < cfg.maxFetchSize) (htk : 0 < cfg.maxFetchTasks) (hpc : 0 < cfg.maxPendingConn)
    (hnp : 0 < npeers) :
    let s := (run (St.init cfg anc target npeers) es).1
    s.halted = true ∨
    (s.curBlock = none ∧ nextNo s = annEnd (anc.no + 1) es ∧ s.running = [] ∧ s.retryQ = [] ∧
      s.pending = [] ∧ s.hfq = [] ∧ s.connQ = []) ∨
    (s.curBlock ≠ none ∧ ∀ no hash err nilHash, phi (step s (.addRsp no hash err nilHash)).1 + 1 ≤ phi s) ∨
    (s.running ≠ [] ∧ phi (step s (.tick (s.cfg.timeout + 1))).1 + 1 ≤ phi s) ∨
    (s.curBlock = none ∧ s.running = [] ∧ phi (step s .sched).1 + 1 ≤ phi s) := by
  intro s
  have hq : QInv s := run_qinv es _ (init_qinv cfg anc target npeers)
  by_cases hh : s.halted = true
  · exact Or.inl hh
  · have hh' : s.halted = false := by simpa using hh
    rcases progress cfg anc target npeers es hb hhs hsz htk hpc hnp with h | h | ⟨cb, hcb, _⟩ | ⟨hrun, _⟩ | ⟨hcb, hrun, hne⟩
    · exact Or.inl h
    · exact Or.inr (Or.inl h)
    · refine Or.inr (Or.inr (Or.inl ⟨by rw [hcb]; simp, ?_⟩))
      intro no hash err nilHash
      exact addRsp_eff no hash err nilHash hq hh'
    · refine Or.inr (Or.inr (Or.inr (Or.inl ⟨hrun, ?_⟩)))
      cases hr : s.running with
      | nil => exact absurd hr hrun
      | cons t r => exact tick_overdue (t := t) hq hh' (by rw [hr]; simp) (by omega)
    · refine Or.inr (Or.inr (Or.inr (Or.inr ⟨hcb, hrun, ?_⟩)))
      obtain ⟨_, hd⟩ := step_dich .sched hq hh'
      rcases hd with hd | ⟨hd, _⟩
      · simpa [gain] using hd
      · exact absurd hd hne

/-- **Success is reported only with the whole range delivered** — for every event list, fair or
not, whatever peers and chain service answer: if the session has sent the success notice, the blocks
of heights `ancestor+1 … target` have all been handed to the chain service before, in this order,
each carrying an id announced for its height. -/
theorem success_only_with_whole_range (cfg : Cfg) (anc : Blk) (target npeers : Nat) (es : List Ev)
    (hb : HeightBound es)
    (h : Out.stop none ∈ (run (St.init cfg anc target npeers) es).2) :
    target - anc.no ≤ (delivered (run (St.init cfg anc target npeers) es).2).length ∧
    ∀ k, k < target - anc.no → ∃ b, (delivered (run (St.init cfg anc target npeers) es).2)[k]? = some b ∧
      b.no = anc.no + 1 + k ∧ Announced es b.no b.hash := by
  have hlen : target - anc.no ≤ (delivered (run (St.init cfg anc target npeers) es).2).length := by
    rcases run_stop_none_delivered es (St.init cfg anc target npeers) h with ⟨b, hb', _⟩ | ⟨b, hmem, hbt⟩
    · simp [St.init] at hb'
    · obtain ⟨k, hk⟩ := List.getElem?_of_mem hmem
      have h1 := (delivery_order cfg anc target npeers es hb k b hk).1
      have h2 : k < (delivered (run (St.init cfg anc target npeers) es).2).length :=
        (List.getElem?_eq_some_iff.mp hk).1
      have h3 : b.no = target := hbt
      omega
  refine ⟨hlen, ?_⟩
  intro k hk
  have hk' : k < (delivered (run (St.init cfg anc target npeers) es).2).length := by omega
  refine ⟨_, List.getElem?_eq_getElem hk', ?_⟩
  exact delivery_order cfg anc target npeers es hb k _ (List.getElem?_eq_getElem hk')

/-- **Every step costs measure or changes nothing but ages.** For every state whatever (with the
bookkeeping invariant `QInv`, which holds in every state of every session: `session_steps_bounded`)
and every event: the step either lowers `phi` by at least one (counting the weight a hash set
brings), or it is a tick in which no task timed out (only ages change), the arrival of a hash set
(only the waiting list grows), or a no-op. -/
theorem step_costs_or_idles (s : St) (e : Ev) (hq : QInv s) (hh : s.halted = false) :
    phi (step s e).1 + 1 ≤ phi s + gain e ∨ ((step s e).1 = quietStep s e ∧ delivered (step s e).2 = []) :=
  (step_dich e hq hh).2

/-- **Explicit bound on the work of a session, whatever the peers do.** In every run of every
session — any events, no assumption at all — the number of events that change more than the ages of
running tasks or the tail of the waiting hash sets is at most
`1 + 6·npeers + Σ (6·|hs| + 1)` over the hash sets that arrived: one unit for stopping, two units
for each of the `MaxPeerFailCount = 3` failures a peer is allowed (one failed task and its retry),
and per announced height one unit each for: being cut into a task, being given to a peer, being
fetched, being handed to the chain service, being acknowledged. -/
theorem session_steps_bounded (cfg : Cfg) (anc : Blk) (target npeers : Nat) (es : List Ev) :
    effCount (St.init cfg anc target npeers) es ≤ 1 + 6 * npeers + hsGain es := by
  have := effCount_le es _ (init_qinv cfg anc target npeers)
  rw [phi_init] at this
  omega

private theorem hsGain_le : ∀ (es : List Ev) (E : Nat), HashSetsFrom E es → hsGain es + 7 * E ≤ 7 * annEnd E es := by
  intro es
  induction es with
  | nil => intro E _; simp [hsGain, annEnd]
  | cons e es ih =>
    intro E h
    cases e with
    | hashSet st hs =>
      simp only [HashSetsFrom] at h
      have := ih _ h.2.2
      have hpos : 0 < hs.length := by
        cases hs with
        | nil => exact absurd rfl h.2.1
        | cons a r => simp
      simp only [hsGain, gain, annEnd, evLen]
      omega
    | sched => simp only [HashSetsFrom] at h; have := ih _ h; simp only [hsGain, gain, annEnd, evLen, Nat.add_zero]; omega
    | tick d => simp only [HashSetsFrom] at h; have := ih _ h; simp only [hsGain, gain, annEnd, evLen, Nat.add_zero]; omega
    | chunk a b c => simp only [HashSetsFrom] at h; have := ih _ h; simp only [hsGain, gain, annEnd, evLen, Nat.add_zero]; omega
    | addRsp a b c d => simp only [HashSetsFrom] at h; have := ih _ h; simp only [hsGain, gain, annEnd, evLen, Nat.add_zero]; omega

/-- The same bound in terms of the session's parameters only: at most
`1 + 6·npeers + 7·(target − ancestor)` effective events, ever. -/
theorem session_steps_bounded_by_target (cfg : Cfg) (anc : Blk) (target npeers : Nat) (evs : Nat → Ev)
    (h : Session cfg anc target npeers evs) (n : Nat) :
    effCount (St.init cfg anc target npeers) (pre evs n) ≤ 1 + 6 * npeers + 7 * (target - anc.no) := by
  have h1 := session_steps_bounded cfg anc target npeers (pre evs n)
  have h2 := hsGain_le _ _ (h.hashSets n)
  have h3 := h.upTo n
  omega

/-- **Arbitrary peers: every fair session stops or completes.** Let the environment satisfy the
standing assumptions and be fair: the chain service eventually answers (with anything) while a
block is being connected; time advances (positive ticks keep coming — the fetcher's 100 ms
ticker); the scheduler keeps being run (it runs after every event of the loop); the hash fetcher
eventually announces up to the target (otherwise its own timer stops the session, outside this
state machine). Chunk replies are arbitrary: late, duplicated, lost, erroneous, empty, unlinked,
attributed to any peer. Then after finitely many events the session has either stopped and sent
the error notice, or completed with exactly the result the property asks for. (How many events
that can take is bounded by `session_steps_bounded_by_target`, counting the effective ones.) -/
theorem session_stops_or_completes (cfg : Cfg) (anc : Blk) (target npeers : Nat) (evs : Nat → Ev)
    (h : Session cfg anc target npeers evs)
    (hf : Fair (St.init cfg anc target npeers) (anc.no + 1) target evs) :
    ∃ n, ((stAt (St.init cfg anc target npeers) evs n).halted = true ∧
            ∃ e, Out.stop (some e) ∈ outsAt (St.init cfg anc target npeers) evs n) ∨
         CompletedExactly cfg anc target npeers evs n := by
  obtain ⟨n, hfin⟩ := eventually_final (envOK_of_session h) hf
  refine ⟨n, ?_⟩
  rcases hfin with hh | ⟨hcb, hprev⟩
  · left
    exact ⟨hh, run_halts _ _ (init_qinv cfg anc target npeers) rfl hh⟩
  · right
    exact completed_of_final h n hcb hprev

/-- **Honest continuation: the session completes.** If in addition the chain service answers every
block it is handed with exactly that block's acknowledgement (it accepts linked blocks), and *one*
peer `g` is good — no task given to `g` is ever found overdue by the timeout check, and no chunk
reply attributed to `g` is malformed — then, whatever the other peers do, the session never stops
with an error (in particular `ErrAllPeerBad` never fires) and after finitely many events it has
completed with exactly `ancestor+1 … target` delivered. -/
theorem session_terminates (cfg : Cfg) (anc : Blk) (target npeers : Nat) (evs : Nat → Ev)
    (h : Session cfg anc target npeers evs)
    (hf : Fair (St.init cfg anc target npeers) (anc.no + 1) target evs)
    (g : Nat) (hg : g < npeers)
    (hgood : ∀ i, EvGood g (stAt (St.init cfg anc target npeers) evs i) (evs i)) :
    (∀ n, (stAt (St.init cfg anc target npeers) evs n).halted = false) ∧
    ∃ n, CompletedExactly cfg anc target npeers evs n := by
  have hnever := good_never_halts (envOK_of_session h) g hg hgood
  refine ⟨fun n => (hnever n).1, ?_⟩
  obtain ⟨n, hfin⟩ := eventually_final (envOK_of_session h) hf
  rcases hfin with hh | ⟨hcb, hprev⟩
  · rw [(hnever n).1] at hh; cases hh
  · exact ⟨n, completed_of_final h n hcb hprev⟩

/-- The honest session of the examples above, continued for ever by scheduler passes and ticks. -/
private def honestEvs : Nat → Ev :=
  tailStream [.hashSet 5 [11, 12], .sched, .chunk 0 false [⟨11, 10, 5⟩, ⟨12, 11, 6⟩],
    .addRsp 5 11 false false, .addRsp 6 12 false false]

private theorem honestEvs_ge (k : Nat) : honestEvs (k + 5) = .sched ∨ honestEvs (k + 5) = .tick 1 :=
  tailStream_ge _ _ (by simp)

private theorem honest_fix (k : Nat) :
    stAt (St.init ⟨2, 2, 2, 2⟩ ⟨10, 9, 4⟩ 6 1) honestEvs (5 + k) =
      (run (St.init ⟨2, 2, 2, 2⟩ ⟨10, 9, 4⟩ 6 1) [.hashSet 5 [11, 12], .sched, .chunk 0 false [⟨11, 10, 5⟩, ⟨12, 11, 6⟩],
        .addRsp 5 11 false false, .addRsp 6 12 false false]).1 :=
  (tailStream_fix _ _ (by decide) (by decide) k).1

/-- The hypotheses of `session_stops_or_completes` and `session_terminates` are satisfiable
(test): the delivering session shown above, with one peer (the good one), continued for ever by
scheduler passes and ticks. -/
example : Session ⟨2, 2, 2, 2⟩ ⟨10, 9, 4⟩ 6 1 honestEvs ∧
    Fair (St.init ⟨2, 2, 2, 2⟩ ⟨10, 9, 4⟩ 6 1) 5 6 honestEvs ∧
    ∀ i, EvGood 0 (stAt (St.init ⟨2, 2, 2, 2⟩ ⟨10, 9, 4⟩ 6 1) honestEvs i) (honestEvs i) := by
  have hhs : ∀ i st hs, honestEvs i = .hashSet st hs → st = 5 ∧ hs = [11, 12] := by
    intro i st hs h
    match i with
    | 0 => simp [honestEvs, tailStream] at h; exact ⟨h.1.symm, h.2.symm⟩
    | 1 => simp [honestEvs, tailStream] at h
    | 2 => simp [honestEvs, tailStream] at h
    | 3 => simp [honestEvs, tailStream] at h
    | 4 => simp [honestEvs, tailStream] at h
    | k + 5 => rcases honestEvs_ge k with h' | h' <;> rw [h'] at h <;> cases h
  refine ⟨⟨?_, ?_, ?_, by decide, by decide, by decide, by decide, by decide⟩, ⟨?_, ?_, ?_, ?_⟩, ?_⟩
  · intro i peer err blocks h b hb n hann
    obtain ⟨i', st, hs, k, he, hk, hn⟩ := hann
    obtain ⟨rfl, rfl⟩ := hhs i' st hs he
    have hblocks : blocks = [⟨11, 10, 5⟩, ⟨12, 11, 6⟩] := by
      match i with
      | 0 => simp [honestEvs, tailStream] at h
      | 1 => simp [honestEvs, tailStream] at h
      | 2 => simp [honestEvs, tailStream] at h; exact h.2.2.symm
      | 3 => simp [honestEvs, tailStream] at h
      | 4 => simp [honestEvs, tailStream] at h
      | k + 5 => rcases honestEvs_ge k with h' | h' <;> rw [h'] at h <;> cases h
    subst hblocks
    match k with
    | 0 =>
      simp at hk; simp at hb
      rcases hb with rfl | rfl
      · omega
      · simp at hk
    | 1 =>
      simp at hk; simp at hb
      rcases hb with rfl | rfl
      · simp at hk
      · omega
    | k + 2 => simp at hk
  · exact tailStream_hashSets _ 5 (by simp [HashSetsFrom])
  · intro n; exact (tailStream_annEnd _ 5).1 n
  · intro i hcb
    by_cases hi : i ≤ 4
    · exact ⟨4, hi, 6, 12, false, false, by simp [honestEvs, tailStream]⟩
    · exfalso
      apply hcb
      rw [show i = 5 + (i - 5) by omega, honest_fix]
      decide
  · exact tailStream_tick _
  · exact tailStream_sched _
  · exact ⟨5, by decide⟩
  · intro i
    match i with
    | 0 => simp [honestEvs, tailStream, EvGood]
    | 1 => simp [honestEvs, tailStream, EvGood]
    | 2 => simp [honestEvs, tailStream, EvGood]; decide
    | 3 =>
      have : honestEvs 3 = .addRsp 5 11 false false := by simp [honestEvs, tailStream]
      rw [this]
      exact ⟨⟨11, 10, 5⟩, by decide, rfl, rfl, rfl, rfl⟩
    | 4 =>
      have : honestEvs 4 = .addRsp 6 12 false false := by simp [honestEvs, tailStream]
      rw [this]
      exact ⟨⟨12, 11, 6⟩, by decide, rfl, rfl, rfl, rfl⟩
    | k + 5 =>
      rcases honestEvs_ge k with h' | h'
      · rw [h']; trivial
      · rw [h', show k + 5 = 5 + k by omega, honest_fix]
        intro t ht
        have hr : (run (St.init ⟨2, 2, 2, 2⟩ ⟨10, 9, 4⟩ 6 1) [.hashSet 5 [11, 12], .sched, .chunk 0 false [⟨11, 10, 5⟩, ⟨12, 11, 6⟩],
            .addRsp 5 11 false false, .addRsp 6 12 false false]).1.running = [] := by decide
        rw [hr] at ht
        cases ht

/-- **Exception: a session whose block fetcher starts without a single RUNNING peer never ends**
(`BlockFetcher.init` takes the peers once; `schedule` never enters its loop and never reads the
hash-set channel). Model witness: no peer, the hash set for heights 5 and 6 arrives, then scheduler
passes and ticks alternate for ever. Every standing assumption except `0 < npeers` holds and the
environment is fair, and yet at no time has the session stopped or sent anything: no measure
decreases. (Real code: the hash fetcher then blocks on the unbuffered channel with its timer
unserviced and the service keeps `isRunning`; see notes/C17.md.) -/
theorem no_peers_never_ends :
    let evs := tailStream [.hashSet 5 [11, 12]]
    let s0 := St.init ⟨2, 2, 2, 2⟩ ⟨10, 9, 4⟩ 6 0
    (∀ n, HashSetsFrom 5 (pre evs n)) ∧ (∀ n, annEnd 5 (pre evs n) ≤ 7) ∧
    (∀ i peer err blocks, evs i ≠ .chunk peer err blocks) ∧
    Fair s0 5 6 evs ∧
    ∀ n, (stAt s0 evs n).halted = false ∧ outsAt s0 evs n = [] ∧ ¬ Final 6 (stAt s0 evs n) := by
  intro evs s0
  have hfix := tailStream_fix s0 [.hashSet 5 [11, 12]] (by decide) (by decide)
  have hall : ∀ n, (stAt s0 evs n).halted = false ∧ outsAt s0 evs n = [] ∧ (stAt s0 evs n).prev.no = 4 := by
    intro n
    match n with
    | 0 => exact ⟨rfl, rfl, rfl⟩
    | k + 1 =>
      have := hfix k
      rw [show [Ev.hashSet 5 [11, 12]].length + k = k + 1 by simp; omega] at this
      rw [this.1, this.2]
      decide
  refine ⟨tailStream_hashSets _ 5 (by simp [HashSetsFrom]), fun n => (tailStream_annEnd _ 5).1 n, ?_, ⟨?_, tailStream_tick _, tailStream_sched _, ⟨1, by decide⟩⟩, ?_⟩
  · intro i peer err blocks h
    match i with
    | 0 => simp [evs, tailStream] at h
    | k + 1 =>
      rcases tailStream_ge [.hashSet 5 [11, 12]] (k + 1) (by simp) with h' | h' <;> cases (h'.symm.trans h)
  · intro i hcb
    exfalso
    apply hcb
    match i with
    | 0 => rfl
    | k + 1 =>
      have := hfix k
      rw [show [Ev.hashSet 5 [11, 12]].length + k = k + 1 by simp; omega] at this
      rw [this.1]
      decide
  · intro n
    obtain ⟨h1, h2, h3⟩ := hall n
    refine ⟨h1, h2, ?_⟩
    intro hF
    rcases hF with hF | ⟨_, hF⟩
    · rw [h1] at hF; cases hF
    · omega

/-! ## Sessions -/

/-- **A message with another session's sequence is dropped** — for every kind of message whose
struct carries the sequence. -/
theorem stale_dropped (cur seq : Nat) (k : MsgKind) (hk : k.carriesSeq = true) (hne : seq ≠ cur) :
    verifySeq cur k seq = false ∧ ∀ running, accepted cur running k seq = false := by
  have : verifySeq cur k seq = false := by
    simp [verifySeq, hk]; omega
  exact ⟨this, by intro r; simp [accepted, this]⟩

/-- The kinds that carry a sequence are the replies of chain service and peers, the finder's
result, and the internal stop/close notices; `AddBlockRsp` carries none and is let through
(`message.AddBlockRsp` has no `Seq` field; a stale one is then judged by `AddBlockResponse`
against the block being connected and stops the session if it does not match). -/
theorem seq_carrying_kinds (k : MsgKind) :
    k.carriesSeq = true ↔ k = .anchorsRsp ∨ k = .ancestorRsp ∨ k = .finderResult ∨ k = .hashesRsp ∨
      k = .hashByNoRsp ∨ k = .blockChunksRsp ∨ k = .syncStop ∨ k = .closeFetcher := by
  cases k <;> simp [MsgKind.carriesSeq]

/-- A stale stop request (or stale finder failure) changes nothing. -/
theorem stale_stop_changes_nothing (v : Svc) (seq : Nat) (hne : seq ≠ v.seq) :
    v.stop seq = v ∧ v.finderFail seq = v := by
  have h1 := (stale_dropped v.seq seq .syncStop rfl hne).2 v.running
  have h2 := (stale_dropped v.seq seq .finderResult rfl hne).2 v.running
  simp [Svc.stop, Svc.finderFail, h1, h2]

/-- While no session runs, every reply/notice kind is dropped before it reaches a handler. -/
theorem idle_drops_replies (cur seq : Nat) (k : MsgKind) (hk : k.garbageWhenIdle = true) :
    accepted cur false k seq = false := by
  simp [accepted, hk]

/-- **After a stop the service is in its initial state up to the sequence number, and a later
synchronisation can start**: a stop carrying the running session's sequence (success or error)
resets the session; the next start request with a target above the local best block is taken and
gets the next sequence number. -/
theorem session_restart (v : Svc) (target best : Nat) (hrun : v.running = true) (ht : best < target) :
    v.stop v.seq = { Svc.init with seq := v.seq } ∧
    (v.stop v.seq).syncStart target best = ⟨v.seq + 1, true, target⟩ := by
  have hacc : accepted v.seq true .syncStop v.seq = true := by
    simp [accepted, verifySeq, MsgKind.carriesSeq]
  have h1 : v.stop v.seq = { Svc.init with seq := v.seq } := by
    simp [Svc.stop, hrun, hacc, Svc.reset, Svc.init]
  refine ⟨h1, ?_⟩
  rw [h1]
  simp [Svc.syncStart, Svc.init]
  omega

/-- While a session runs a start request is ignored (test of the hypothesis: such states exist). -/
example : (Svc.init.syncStart 9 3).running = true ∧ ((Svc.init.syncStart 9 3).syncStart 12 3) = Svc.init.syncStart 9 3 := by
  decide

/-! ### Stop requests in any state

`Sys σ` (Model/Sync.lean) keeps the whole session — `isRunning`, `ctx`, finder, hash fetcher, block
fetcher and processor with all their queues — as a value of an arbitrary type `σ`, and the session's
own reaction to accepted messages as an arbitrary function `handle`. The theorems below hold for
every `σ`, `start`, `handle`: whatever state the session is in and whatever it does. -/

/-- A message of session `q` or of an earlier one, of a kind that carries its session's sequence. -/
def oldMsg {π : Type} (q : Nat) (m : Msg π) : Bool := m.kind.carriesSeq && decide (m.seq ≤ q)

private theorem sys_inv {σ π : Type} (start : Nat → π → Option σ) (handle : σ → MsgKind → π → Verdict σ)
    (q : Nat) (v : Sys σ) (m : Msg π) (h : q ≤ v.seq ∧ (v.seq = q → v.sess = none)) :
    q ≤ (Sys.recv start handle v m).seq ∧ ((Sys.recv start handle v m).seq = q → (Sys.recv start handle v m).sess = none) := by
  unfold Sys.recv
  split
  · exact h
  · split
    · split
      · exact h
      · split
        · exact h
        · exact ⟨by simp only; omega, by simp only; omega⟩
    · exact ⟨h.1, fun _ => rfl⟩
    · split
      · exact h
      · rename_i s hs
        have hne : v.seq ≠ q := by intro hq; rw [h.2 hq] at hs; cases hs
        split
        · exact ⟨h.1, fun hq => absurd hq hne⟩
        · exact ⟨h.1, fun _ => rfl⟩

private theorem sys_old_dropped {σ π : Type} (start : Nat → π → Option σ) (handle : σ → MsgKind → π → Verdict σ)
    (q : Nat) (v : Sys σ) (m : Msg π) (h : q ≤ v.seq ∧ (v.seq = q → v.sess = none)) (hold : oldMsg q m = true) :
    Sys.recv start handle v m = v := by
  simp only [oldMsg, Bool.and_eq_true, decide_eq_true_eq] at hold
  obtain ⟨hk, hle⟩ := hold
  by_cases hlt : m.seq = v.seq
  · have hq : v.seq = q := by omega
    have hnone := h.2 hq
    unfold Sys.recv
    split
    · rfl
    · rename_i hacc
      rw [hnone] at hacc
      -- accepted while idle although the kind carries a sequence: only GetAnchorsRsp, which no handler takes
      have hka : m.kind = .anchorsRsp := by
        revert hacc hk
        cases m.kind <;> simp [accepted, MsgKind.garbageWhenIdle, MsgKind.carriesSeq]
      rw [hka, hnone]
  · have : verifySeq v.seq m.kind m.seq = false := by
      simp [verifySeq, hk]; omega
    unfold Sys.recv
    simp [accepted, this]

/-- **A stop request resets the service in every state.** Whatever the session holds (finder
waiting for a reply, hashes outstanding, tasks running, blocks queued or being connected), a
`SyncStop` carrying the running session's sequence leaves exactly the initial state of the service,
up to the sequence number. -/
theorem stop_resets_any_state {σ π : Type} (start : Nat → π → Option σ) (handle : σ → MsgKind → π → Verdict σ)
    (v : Sys σ) (s : σ) (hs : v.sess = some s) (b : π) :
    Sys.recv start handle v ⟨.syncStop, v.seq, b⟩ = { (Sys.init : Sys σ) with seq := v.seq } := by
  unfold Sys.recv
  simp [accepted, verifySeq, MsgKind.carriesSeq, MsgKind.garbageWhenIdle, hs, Sys.init]

/-- **A later synchronisation can start, and the stopped session cannot disturb it** — for a stop
request at any reachable state, as one statement over all interleavings. Let the service have
processed any list of messages `hist` and be running; stop it (a `SyncStop` of its sequence `q`).
Then (1) the state is the initial one up to the sequence number; (2) the next start request whose
target is ahead is taken and gets sequence `q+1`; (3) for *every* list `ms` of later messages — the
new session's traffic interleaved in any way with any number of messages still in flight from
session `q` or earlier ones (replies of chain service and peers, finder results, stop and close
notices: every kind that carries a sequence) — the service ends in the same state as if the old
messages had never arrived. (`AddBlockRsp` carries no sequence and is not covered:
`seq_carrying_kinds`.) -/
theorem session_restart_any_state {σ π : Type} (start : Nat → π → Option σ) (handle : σ → MsgKind → π → Verdict σ)
    (hist : List (Msg π)) (b : π)
    (hrun : (Sys.feed start handle Sys.init hist).sess.isSome = true) :
    let v := Sys.feed start handle Sys.init hist
    let v' := Sys.recv start handle v ⟨.syncStop, v.seq, b⟩
    v' = { (Sys.init : Sys σ) with seq := v.seq } ∧
    (∀ body s' anySeq, start (v.seq + 1) body = some s' →
        Sys.recv start handle v' ⟨.syncStart, anySeq, body⟩ = ⟨v.seq + 1, some s'⟩) ∧
    (∀ ms, Sys.feed start handle v' ms = Sys.feed start handle v' (ms.filter fun m => !oldMsg v.seq m)) := by
  intro v v'
  obtain ⟨s, hs⟩ := Option.isSome_iff_exists.mp hrun
  have h1 : v' = { (Sys.init : Sys σ) with seq := v.seq } := stop_resets_any_state start handle v s hs b
  refine ⟨h1, ?_, ?_⟩
  · intro body s' anySeq hst
    rw [h1]
    unfold Sys.recv
    simp [accepted, verifySeq, MsgKind.carriesSeq, MsgKind.garbageWhenIdle, Sys.init, hst]
  · have hinv : v.seq ≤ v'.seq ∧ (v'.seq = v.seq → v'.sess = none) := by
      rw [h1]; exact ⟨Nat.le_refl _, fun _ => rfl⟩
    generalize v' = w at hinv
    intro ms
    induction ms generalizing w with
    | nil => rfl
    | cons m ms ih =>
      by_cases hold : oldMsg v.seq m = true
      · simp only [Sys.feed, List.filter, hold, Bool.not_true]
        rw [sys_old_dropped start handle v.seq w m hinv hold]
        exact ih w hinv
      · have hold' : oldMsg v.seq m = false := by simpa using hold
        simp only [Sys.feed, List.filter, hold', Bool.not_false]
        exact ih _ (sys_inv start handle v.seq w m hinv)

/-- The hypotheses are satisfiable, and the statement bites (test): a session with target 9 is
started and stopped; a stale stop, a stale chunk reply and a stale finder failure of session 2 are
interleaved with the start of session 3 (target 12) and its own failing finder result. -/
example :
    Sys.feed sysStart sysHandle Sys.init [⟨.syncStart, 0, .start 9 3⟩] = ⟨2, some 9⟩ ∧
    Sys.feed sysStart sysHandle ⟨2, none⟩
      [⟨.syncStop, 2, .none⟩, ⟨.syncStart, 0, .start 12 3⟩, ⟨.blockChunksRsp, 2, .none⟩, ⟨.finderResult, 2, .fail⟩,
       ⟨.syncStop, 1, .none⟩] = ⟨3, some 12⟩ ∧
    Sys.feed sysStart sysHandle ⟨2, none⟩
      [⟨.syncStart, 0, .start 12 3⟩, ⟨.finderResult, 3, .fail⟩] = ⟨3, none⟩ := by
  decide

/-- The same with the block fetcher/processor state as the session (test): a stop request in the
middle of a fetch — a task running, nothing connected yet — resets the service, and the late chunk
reply of the stopped session changes nothing afterwards. -/
example :
    let handle : St → MsgKind → Ev → Verdict St := fun s k e =>
      match k with
      | .blockChunksRsp => .carryOn (step s e).1
      | .addBlockRsp => .carryOn (step s e).1
      | _ => .carryOn s
    let start : Nat → Ev → Option St := fun _ _ => some (run (St.init ⟨2, 2, 2, 2⟩ ⟨10, 9, 4⟩ 6 1) [.hashSet 5 [11, 12], .sched]).1
    let v := Sys.feed start handle Sys.init [⟨.syncStart, 0, .sched⟩]
    (∃ s, v.sess = some s ∧ s.running ≠ []) ∧
    Sys.feed start handle v [⟨.syncStop, 2, .sched⟩, ⟨.blockChunksRsp, 2, .chunk 0 false [⟨11, 10, 5⟩, ⟨12, 11, 6⟩]⟩] = ⟨2, none⟩ := by
  intro handle start v
  refine ⟨⟨_, rfl, by decide⟩, ?_⟩
  show Sys.feed start handle (Sys.feed start handle Sys.init [⟨.syncStart, 0, .sched⟩]) _ = _
  decide

/-! ## Round 3: block ids, the exchanges below the finder, parent links across chunks

What the finder is told is produced by code below the syncer: the serving node's `findAncestor` and
handler, and the requesting node's `AncestorReceiver` / `BlockHashByNoReceiver`. These are now part of the
model (`findAncestor`, `serveAncestor`, `ancRecv`, `hbnRecv`, `probeOf`, `lightExchange`, `probeX`) and of the
theorems, and the finder is modelled with the block ids it hands on (`finderId`). -/

/-- **The serving node names only a listed id that is on its MAIN chain, and the first such.** The answer
`(h, n)` of `findAncestor` is one of the ids it was handed, the node stores that block at height `n`, it is
its main-chain block at `n`, and no id listed before it is on its main chain — blocks it stores on a side
branch are skipped. -/
theorem find_ancestor_first_on_main (store main : Nat → Option Nat) (hs : List Nat) (h n : Nat)
    (hf : findAncestor store main hs = some (h, n)) :
    h ∈ hs ∧ store h = some n ∧ main n = some h ∧
    ∃ pre post, hs = pre ++ h :: post ∧ ∀ x, x ∈ pre → ∀ m, store x = some m → main m ≠ some x := by
  obtain ⟨pre, post, e, h1, h2, h3⟩ := findAncestor_some store main hs h n hf
  exact ⟨by rw [e]; simp, h1, h2, pre, post, e, h3⟩

/-- It answers "none" exactly when no listed id is on its main chain. -/
theorem find_ancestor_none_iff (store main : Nat → Option Nat) (hs : List Nat) :
    findAncestor store main hs = none ↔ ∀ x, x ∈ hs → ∀ m, store x = some m → main m ≠ some x :=
  ⟨findAncestor_none store main hs, findAncestor_eq_none store main hs⟩

/-- A side-branch copy is skipped (test): id 7 is stored at height 3 but the main chain has id 9 there;
id 5 is the main-chain block at height 2. -/
example : findAncestor (fun h => if h = 7 then some 3 else if h = 5 then some 2 else none)
    (fun n => if n = 3 then some 9 else if n = 2 then some 5 else none) [7, 5] = some (5, 2) := by decide

/-- What the two chains must satisfy for the exchange theorems: ids are not the nil hash; the serving node
stores its main-chain blocks at their heights; an id determines the height of its block (the same id is the
same block on both nodes); the serving node's main chain is at least as long as the local one; agreement of
the two main chains is downward closed. -/
structure Chains (best : Nat) (lm : Nat → Nat) (store main : Nat → Option Nat) : Prop where
  ids_pos : ∀ n, lm n ≠ 0
  stored : ∀ n h, main n = some h → store h = some n
  bind : ∀ a n, a ≤ best → store (lm a) = some n → n = a
  remote_long : ∀ i, i ≤ best → (main i).isSome = true
  mono : ∀ i j, i ≤ j → j ≤ best → main j = some (lm j) → main i = some (lm i)

private theorem probeX_same_iff {best : Nat} {lm : Nat → Nat} {store main : Nat → Option Nat}
    (hc : Chains best lm store main) (i : Nat) (hi : i ≤ best) :
    probeX best lm main i = .same ↔ main i = some (lm i) := by
  unfold probeX localOf probeOf hbnRecv
  simp only [hi, if_true]
  cases hm : main i with
  | none => have := hc.remote_long i hi; rw [hm] at this; simp at this
  | some h' =>
    simp
    by_cases h0 : h' = 0
    · simp [h0]
      intro h; exact hc.ids_pos i h.symm
    · simp [h0]

private theorem probeX_ok {best : Nat} {lm : Nat → Nat} {store main : Nat → Option Nat}
    (hc : Chains best lm store main) (i : Nat) (hi : i ≤ best) :
    probeX best lm main i = .same ∨ probeX best lm main i = .diff := by
  unfold probeX localOf probeOf hbnRecv
  simp only [hi, if_true]
  cases hm : main i with
  | none => have := hc.remote_long i hi; rw [hm] at this; simp at this
  | some h' =>
    simp
    by_cases h0 : h' = 0
    · simp [h0]
    · simp [h0]
      by_cases he : h' = lm i
      · simp [he]
      · simp [he]

private theorem probeX_above {best : Nat} {lm : Nat → Nat} {main : Nat → Option Nat} (i : Nat) (hi : best < i) :
    probeX best lm main i = .localErr := by
  unfold probeX localOf probeOf
  have : ¬ i ≤ best := by omega
  simp [this]

/-- **An answered ancestor exchange tells the finder the truth, in ids.** When the serving node's chain
service answers and the receiver is in time: a named block `(h, n)` is the id of the LOCAL main chain at an
anchor height `n`, it is on the serving node's MAIN chain there, and no higher anchor is shared; and
"none" is answered only when no anchor at all is shared. (The side-branch blocks the serving node stores
play no role: `find_ancestor_first_on_main`.) -/
theorem light_exchange_truthful (best : Nat) (lm : Nat → Nat) (store main : Nat → Option Nat)
    (hc : Chains best lm store main) :
    (∀ h n, lightExchange true best lm store main = some (some (h, n)) →
        n ∈ anchors best ∧ h = lm n ∧ main n = some h ∧ ∀ a, a ∈ anchors best → n < a → main a ≠ some (lm a)) ∧
    (lightExchange true best lm store main = some none → ∀ a, a ∈ anchors best → main a ≠ some (lm a)) := by
  unfold lightExchange serveAncestor ancRecv
  constructor
  · intro h n hx
    cases hf : findAncestor store main ((anchors best).map lm) with
    | none => simp [hf] at hx
    | some p =>
      obtain ⟨h', n'⟩ := p
      simp [hf] at hx
      obtain ⟨rfl, rfl⟩ := hx
      obtain ⟨pre, post, e, hst, hmain, hpre⟩ := findAncestor_some store main _ h' n' hf
      obtain ⟨l1, l2, eanc, e1, e2⟩ := List.map_eq_append_iff.mp e
      cases l2 with
      | nil => simp at e2
      | cons a0 l2' =>
        simp at e2
        obtain ⟨ea0, _⟩ := e2
        have ha0mem : a0 ∈ anchors best := by rw [eanc]; simp
        have ha0 : n' = a0 := hc.bind a0 n' (anchors_le best a0 ha0mem) (by rw [ea0]; exact hst)
        subst ha0
        refine ⟨ha0mem, ea0.symm, hmain, ?_⟩
        intro a ha hlt hshared
        have hpw := anchors_pairwise best
        rw [eanc, List.pairwise_append] at hpw
        obtain ⟨_, hp2, _⟩ := hpw
        rw [List.pairwise_cons] at hp2
        have hal1 : a ∈ l1 := by
          rw [eanc] at ha
          simp at ha
          rcases ha with ha | ha | ha
          · exact ha
          · omega
          · have := hp2.1 a ha; omega
        have hpm : lm a ∈ pre := by rw [← e1]; exact List.mem_map_of_mem hal1
        exact hpre (lm a) hpm a (hc.stored a (lm a) hshared) hshared
  · intro hx a ha hshared
    cases hf : findAncestor store main ((anchors best).map lm) with
    | some p => obtain ⟨h', n'⟩ := p; simp [hf] at hx
    | none =>
      exact findAncestor_none store main _ hf (lm a) (List.mem_map_of_mem ha) a (hc.stored a (lm a) hshared) hshared

/-- An anchor IS shared (test): chains that agree up to height 515; the answered exchange names the highest shared
anchor 504 with the local id there. -/
example :
    lightExchange true 520 (fun n => n + 1)
      (fun h => if 1 ≤ h ∧ h ≤ 516 then some (h - 1) else if 2517 ≤ h then some (h - 2001) else none)
      (fun n => if n ≤ 515 then some (n + 1) else some (n + 2001)) = some (some (505, 504)) := by decide

/-- What makes a list of light-scan replies *truthful* for the finder: every block it names is, at the named
height, the block of the local main chain and of the remote main chain; and "none" is said only when the
lowest anchor is not shared. -/
def TruthfulReplies (best : Nat) (localMain remoteMain : Nat → Option Nat) (replies : List (Option (Nat × Nat)))
    (probe : Nat → Probe) : Prop :=
  (∀ h n, some (h, n) ∈ replies → localMain n = some h ∧ remoteMain n = some h) ∧
  (none ∈ replies → probe (lastAnchorOf best) ≠ .same)

private theorem fullscan_sound (probe : Nat → Probe) (la a : Nat) (h : fullscan probe la = .ancestor a) :
    probe a = .same := by
  unfold fullscan at h
  split at h <;> simp at h
  rename_i a' hbs
  subst h
  exact (ancestor_sound probe 0 _ _ hbs).2.2

/-- **The block handed on is a block of the node's OWN main chain that the remote main chain has — in ids**
(`_partial`: every light-scan reply the finder gets is truthful). The full scan hands on the local id at a
height the peer confirmed; the light scan hands on the peer's `BlockInfo` unchanged, so there the statement
rests on the reply. Probes: "same" only where both main chains carry the same id. -/
theorem finder_id_own_main_chain_partial (fullOnly : Bool) (best target : Nat) (localMain remoteMain : Nat → Option Nat)
    (replies : List (Option (Nat × Nat))) (probe : Nat → Probe) (h a : Nat)
    (hprobe : ∀ i, probe i = .same → ∃ x, localMain i = some x ∧ remoteMain i = some x)
    (htruth : TruthfulReplies best localMain remoteMain replies probe)
    (hf : finderId fullOnly best target localMain replies probe = .ancestor h a) :
    localMain a = some h ∧ remoteMain a = some h := by
  have full : ∀ la, (match fullscan probe la with
      | .ancestor a => (match localMain a with | some h => FinderOutId.ancestor h a | none => .localErr)
      | .noAncestor => .noAncestor | .alreadyDone => .alreadyDone | .timeout => .timeout
      | .localErr => .localErr | .remoteErr => .remoteErr) = .ancestor h a →
      localMain a = some h ∧ remoteMain a = some h := by
    intro la hx
    split at hx <;> try simp at hx
    rename_i a' hfs
    split at hx <;> simp at hx
    rename_i h' hl
    obtain ⟨rfl, rfl⟩ := hx
    obtain ⟨x, h1, h2⟩ := hprobe _ (fullscan_sound probe la _ hfs)
    rw [hl] at h1; simp at h1; subst h1
    exact ⟨hl, h2⟩
  unfold finderId at hf
  simp only at hf
  split at hf
  · exact full _ hf
  · split at hf
    · simp at hf
    · rename_i h' n' hfind
      split at hf
      · simp at hf
      · simp at hf; obtain ⟨rfl, rfl⟩ := hf
        exact htruth.1 _ _ (List.mem_of_find?_eq_some hfind)
    · exact full _ hf

/-- **Without truthful replies the id is NOT checked** (honest negative; the model's witness of what the
audit read in `getAncestor`/`handleFinderResult`): local chain with ids `n + 1000`, best block 100; the
peer names id 7 at height 50 (≥ LastAnchor = 0); the finder hands on `(7, 50)` although its own main chain
has id 1050 there. Only a lying sync peer can do this (`light_exchange_truthful`). -/
theorem finder_id_hands_on_unchecked_id :
    ¬ ∀ (best target : Nat) (localMain : Nat → Option Nat) (replies : List (Option (Nat × Nat)))
        (probe : Nat → Probe) (h a : Nat),
        finderId false best target localMain replies probe = .ancestor h a → localMain a = some h := by
  intro hall
  have := hall 100 200 (fun n => some (n + 1000)) [some (7, 50)] (fun _ => .diff) 7 50 (by decide)
  simp at this

private theorem finderId_height (fullOnly : Bool) (best target : Nat) (localMain : Nat → Option Nat)
    (replies : List (Option (Nat × Nat))) (probe : Nat → Probe) (h a : Nat)
    (hf : finderId fullOnly best target localMain replies probe = .ancestor h a) :
    finder fullOnly best target (replies.map (·.map Prod.snd)) probe = .ancestor a := by
  have full : ∀ la, (match fullscan probe la with
      | .ancestor a => (match localMain a with | some h => FinderOutId.ancestor h a | none => .localErr)
      | .noAncestor => .noAncestor | .alreadyDone => .alreadyDone | .timeout => .timeout
      | .localErr => .localErr | .remoteErr => .remoteErr) = .ancestor h a → fullscan probe la = .ancestor a := by
    intro la hx
    split at hx <;> try simp at hx
    rename_i a' hfs
    split at hx <;> simp at hx
    obtain ⟨_, rfl⟩ := hx
    exact hfs
  have hacc : ∀ la (r : Option (Nat × Nat)), lightAccept la (r.map Prod.snd) = lightAcceptId la r := by
    intro la r
    cases r with
    | none => rfl
    | some p => obtain ⟨x, y⟩ := p; rfl
  unfold finderId at hf
  unfold finder
  simp only at hf
  split at hf
  · rename_i hfo; simp [hfo]; exact full _ hf
  · rename_i hfo
    simp only [hfo, if_false, Bool.false_eq_true]
    rw [List.find?_map]
    have : (lightAccept (lastAnchorOf best) ∘ fun x : Option (Nat × Nat) => Option.map Prod.snd x) =
        lightAcceptId (lastAnchorOf best) := by
      funext r; exact hacc _ r
    rw [this]
    split at hf
    · simp at hf
    · rename_i h' n' hfind
      rw [hfind]
      split at hf
      · simp at hf
      · rename_i ht
        simp at hf; obtain ⟨rfl, rfl⟩ := hf
        simp [ht]
    · rename_i hfind
      rw [hfind]
      simp
      exact full _ hf

/-- **Highest shared block, stated over the real exchanges.** The full clause: *whenever the finder is told
"no anchor shared" on its anchor list and goes on to probe single heights, the block it hands on is the
highest block the two main chains share* — `answered` says whether the serving node's chain service
replied to its own P2P module in time. -/
def HighestOverExchange (answered : Bool) : Prop :=
  ∀ (best target : Nat) (lm : Nat → Nat) (store main : Nat → Option Nat) (h a : Nat),
    Chains best lm store main →
    lightExchange answered best lm store main = some none →
    finderId false best target (localOf best lm) [none] (probeX best lm main) = .ancestor h a →
    a ≤ best ∧ h = lm a ∧ main a = some (lm a) ∧ ∀ j, a < j → j ≤ best → main j ≠ some (lm j)

/-- `_partial`: **the clause holds when the exchange is answered** (every light-scan reply the finder gets is
then truthful, `light_exchange_truthful`): ids of the own main chain, on the remote MAIN chain, and the
highest such height. Side-branch copies on the serving node, the receivers, `hasSameHash` and the whole
finder are inside the statement. -/
theorem ancestor_highest_over_exchange_partial : HighestOverExchange true := by
  intro best target lm store main h a hc hx hf
  have hnone := (light_exchange_truthful best lm store main hc).2 hx
  have hla : probeX best lm main (lastAnchorOf best) ≠ .same := by
    intro hs
    have hmem := lastAnchor_mem best
    exact hnone _ hmem ((probeX_same_iff hc _ (anchors_le best _ hmem)).mp hs)
  have hh := finderId_height false best target _ _ _ h a hf
  have hmono : ∀ i j, i ≤ j → j ≤ best → probeX best lm main j = .same → probeX best lm main i = .same := by
    intro i j hij hj hs
    exact (probeX_same_iff hc i (by omega)).mpr (hc.mono i j hij hj ((probeX_same_iff hc j hj).mp hs))
  obtain ⟨h1, h2, h3⟩ := fullscan_highest false best target _ (probeX best lm main) a
    (fun i hi => probeX_ok hc i hi) (fun i hi => probeX_above i hi) hmono
    (Or.inr ⟨by simp [lightAccept], hla⟩) hh
  refine ⟨h1, ?_, (probeX_same_iff hc a h1).mp h2, ?_⟩
  · -- the id handed on is the local one
    unfold finderId at hf
    simp [lightAcceptId] at hf
    split at hf <;> try simp at hf
    rename_i a' hfs
    split at hf <;> simp at hf
    rename_i h' hl
    obtain ⟨rfl, rfl⟩ := hf
    unfold localOf at hl
    simp [h1] at hl
    exact hl.symm
  · intro j hj1 hj2 hs
    exact h3 j hj1 hj2 ((probeX_same_iff hc j hj2).mpr hs)

/-- The hypotheses of `ancestor_highest_over_exchange_partial` are satisfiable and its conclusion is about a real
run of the model (test): chains of 521 and more blocks that agree up to height 10 only — below the lowest anchor
24. The answered exchange says "none" (no anchor shared), the finder probes 11, 5, 8, 9, 10 and hands on
`(id 11, height 10)`, the highest shared block. -/
example :
    let lm : Nat → Nat := fun n => n + 1
    let main : Nat → Option Nat := fun n => if n ≤ 10 then some (n + 1) else some (n + 2001)
    let store : Nat → Option Nat := fun h =>
      if 1 ≤ h ∧ h ≤ 11 then some (h - 1) else if 2012 ≤ h then some (h - 2001) else none
    Chains 520 lm store main ∧
    lightExchange true 520 lm store main = some none ∧
    finderId false 520 531 (localOf 520 lm) [none] (probeX 520 lm main) = .ancestor 11 10 := by
  intro lm main store
  have hc : Chains 520 lm store main := by
    constructor
    · intro n; simp [lm]
    · intro n h hm
      simp only [main] at hm
      split at hm
      · simp at hm; subst hm; simp [store]; omega
      · simp at hm; subst hm
        have h1 : ¬ (n + 2001 ≤ 11) := by omega
        have h2 : 2012 ≤ n + 2001 := by omega
        simp [store, h1, h2]
    · intro a n ha hs
      simp only [store, lm] at hs
      have h1 : 1 ≤ a + 1 ∧ a + 1 ≤ 11 ∨ ¬ (1 ≤ a + 1 ∧ a + 1 ≤ 11) := Classical.em _
      rcases h1 with h1 | h1
      · simp [h1] at hs; omega
      · have h2 : ¬ 2012 ≤ a + 1 := by omega
        simp [h2] at hs
        omega
    · intro i _; simp only [main]; split <;> rfl
    · intro i j hij hj hm
      simp only [main, lm] at hm ⊢
      by_cases h5 : j ≤ 10
      · have : i ≤ 10 := by omega
        simp [this]
      · simp [h5] at hm
  refine ⟨hc, by decide, ?_⟩
  have hla : lastAnchorOf 520 = 24 := by decide
  have hs : ∀ i, i ≤ 10 → probeX 520 lm main i = .same := by
    intro i hi
    have h1 : i ≤ 520 := by omega
    simp [probeX, localOf, probeOf, hbnRecv, h1, hi, main, lm]
  have hd : probeX 520 lm main 11 = .diff := by
    simp [probeX, localOf, probeOf, hbnRecv, main, lm]
  have hbs : binarySearch (probeX 520 lm main) 0 23 none = .ok (some 10) := by
    rw [binarySearch]; simp [hd]
    rw [binarySearch]; simp [hs 5 (by omega)]
    rw [binarySearch]; simp [hs 8 (by omega)]
    rw [binarySearch]; simp [hs 9 (by omega)]
    rw [binarySearch]; simp [hs 10 (by omega)]
    rw [binarySearch]; simp
  simp [finderId, lightAcceptId, hla, fullscan, predU64, hbs, localOf, lm]

/-- **The full clause is FALSE on the pinned code when the exchange fails** (known finding
C17-ancestor-failure-read-as-none): `AncestorReceiver` turns every status but OK — here ABORTED, the
serving node's chain service did not answer in time — into the same `Ancestor: nil` as a genuine "none".
Witness: chains of 521 and more blocks that agree up to height 515 (so the anchors 504, 488, … ARE shared);
LastAnchor = 24; the finder is told "none", scans 0..23 and hands on height 23, not 515. -/
theorem ancestor_not_highest_after_failed_exchange : ¬ HighestOverExchange false := by
  intro hall
  let lm : Nat → Nat := fun n => n + 1
  let main : Nat → Option Nat := fun n => if n ≤ 515 then some (n + 1) else some (n + 2001)
  let store : Nat → Option Nat := fun h =>
    if 1 ≤ h ∧ h ≤ 516 then some (h - 1) else if 2517 ≤ h then some (h - 2001) else none
  have hc : Chains 520 lm store main := by
    constructor
    · intro n; simp [lm]
    · intro n h hm
      simp only [main] at hm
      split at hm
      · simp at hm; subst hm; simp [store]; omega
      · simp at hm; subst hm
        have h1 : ¬ (n + 2001 ≤ 516) := by omega
        have h2 : 2517 ≤ n + 2001 := by omega
        simp [store, h1, h2]
    · intro a n ha hs
      simp only [store, lm] at hs
      have h1 : 1 ≤ a + 1 ∧ a + 1 ≤ 516 ∨ ¬ (1 ≤ a + 1 ∧ a + 1 ≤ 516) := Classical.em _
      rcases h1 with h1 | h1
      · simp [h1] at hs; omega
      · have h2 : ¬ 2517 ≤ a + 1 := by omega
        simp [h2] at hs
        omega
    · intro i _; simp only [main]; split <;> rfl
    · intro i j hij hj hm
      simp only [main, lm] at hm ⊢
      by_cases h5 : j ≤ 515
      · have : i ≤ 515 := by omega
        simp [this]
      · simp [h5] at hm
  have hla : lastAnchorOf 520 = 24 := by decide
  have hx : lightExchange false 520 lm store main = some none := by
    simp [lightExchange, serveAncestor, ancRecv]
  have hp : ∀ i, i ≤ 23 → probeX 520 lm main i = .same := by
    intro i hi
    have h1 : i ≤ 520 := by omega
    have h2 : i ≤ 515 := by omega
    simp [probeX, localOf, probeOf, hbnRecv, h1, h2, main, lm]
  have hf : finderId false 520 531 (localOf 520 lm) [none] (probeX 520 lm main) = .ancestor 24 23 := by
    have hbs : binarySearch (probeX 520 lm main) 0 23 none = .ok (some 23) := by
      rw [binarySearch]; simp [hp 11 (by omega)]
      rw [binarySearch]; simp [hp 17 (by omega)]
      rw [binarySearch]; simp [hp 20 (by omega)]
      rw [binarySearch]; simp [hp 22 (by omega)]
      rw [binarySearch]; simp [hp 23 (by omega)]
      rw [binarySearch]; simp
    simp [finderId, lightAcceptId, hla, fullscan, predU64, hbs, localOf, lm]
  have := (hall 520 531 lm store main 24 23 hc hx hf).2.2.2 515 (by omega) (by omega)
  simp [main, lm] at this

/-- **A failed hash-by-no exchange is never taken for agreement, nor for disagreement.** Whatever the status
and hash of the reply: the finder sees "same" only for an OK reply in time carrying the local id; a reply with
any other status, or none in time, is an error of the search (not "different", which would send the binary
search downwards and make it return a shared but not the highest block). -/
theorem failed_probe_is_an_error (localHash : Option Nat) (timedOut : Bool) (st : WStatus) (h : Nat) :
    (probeOf localHash (hbnRecv timedOut st h) = .same → timedOut = false ∧ st = .ok ∧ localHash = some h) ∧
    (localHash.isSome → (timedOut = true ∨ st ≠ .ok) → probeOf localHash (hbnRecv timedOut st h) = .remoteErr) := by
  constructor
  · intro hs
    unfold probeOf hbnRecv at hs
    cases localHash with
    | none => simp at hs
    | some lh =>
      cases timedOut with
      | true => simp at hs
      | false =>
        cases st with
        | ok =>
          simp at hs
          by_cases h0 : h = 0
          · simp [h0] at hs
          · simp [h0] at hs
            by_cases he : h = lh
            · simp [he]
            · simp [he] at hs
        | notFound => simp at hs
        | failed => simp at hs
  · intro hl hbad
    cases localHash with
    | none => simp at hl
    | some lh =>
      unfold probeOf hbnRecv
      rcases hbad with rfl | hst
      · simp
      · cases timedOut with
        | true => simp
        | false =>
          cases st with
          | ok => exact absurd rfl hst
          | notFound => simp
          | failed => simp

/-- **The hash receiver forwards at most what was asked for, once.** Over every list of partial responses:
a `GetHashesRsp` without error carries at most the requested number of hashes, its `Count` is their number
(the hash fetcher compares it with its request), and at most one message reaches the syncer. -/
theorem hash_receiver_forwards_at_most_requested (reqCnt : Nat) (parts : List HPart) :
    (∀ hs c, HRecvOut.rsp hs c ∈ (HRecv.feed ⟨reqCnt, [], .waiting⟩ parts).2 → hs.length ≤ reqCnt ∧ c = hs.length) ∧
    hanswers (HRecv.feed ⟨reqCnt, [], .waiting⟩ parts).2 ≤ 1 := by
  have := hfeed_spec parts ⟨reqCnt, [], .waiting⟩ (by simp [HInv])
  simpa using this

/-- Two parts, then a surplus part (test). -/
example : (HRecv.feed ⟨3, [], .waiting⟩ [⟨false, true, [(11, true), (12, true)], true⟩, ⟨false, true, [(13, true)], false⟩,
    ⟨false, true, [(14, true)], false⟩]).2 = [.nothing, .rsp [11, 12, 13] 3, .nothing] := by decide

/-! ### Parent links across chunks -/

/-- A block of a chunk reply that carries the id announced for height `n` carries, as its parent field, the id
announced for `n - 1` — the ancestor's id when `n` is the first height. (Holds when ids bind headers AND the
announced ids form a chain from the ancestor on.) -/
def ParentBound (es : List Ev) (anc : Blk) : Prop :=
  ∀ peer err blocks, Ev.chunk peer err blocks ∈ es → ∀ b, b ∈ blocks → ∀ n, Announced es n b.hash →
    (n = anc.no + 1 → b.prev = anc.hash) ∧
    (∀ h', anc.no + 1 < n → Announced es (n - 1) h' → b.prev = h')

/-- **Each block handed over is a child of the previous one** (`_partial` under `HeightBound` and
`ParentBound`): the first one a child of the ancestor, every later one a child of the block handed over
just before it — across chunk boundaries, for every event list. The processor itself compares parents only
inside a chunk (`chunk_linked`); the link across chunks comes from the announcement being a chain. -/
theorem delivery_linked (cfg : Cfg) (anc : Blk) (target npeers : Nat) (es : List Ev)
    (hb : HeightBound es) (hpb : ParentBound es anc) (k : Nat) (b : Blk)
    (h : (delivered (run (St.init cfg anc target npeers) es).2)[k]? = some b) :
    (k = 0 → b.prev = anc.hash) ∧
    (∀ a, 0 < k → (delivered (run (St.init cfg anc target npeers) es).2)[k - 1]? = some a → b.prev = a.hash) := by
  obtain ⟨hno, hann⟩ := delivery_order cfg anc target npeers es hb k b h
  -- the delivered block is a block of some chunk reply
  have hsrc := run_src (fun b => ∃ peer err blocks, Ev.chunk peer err blocks ∈ es ∧ b ∈ blocks)
    (init_src _ cfg anc target npeers) (fun p e bl hm b hb => ⟨p, e, bl, hm, hb⟩) b (List.mem_of_getElem? h)
  obtain ⟨peer, err, blocks, hm, hbm⟩ := hsrc
  obtain ⟨h1, h2⟩ := hpb peer err blocks hm b hbm b.no hann
  constructor
  · intro hk; subst hk; exact h1 (by omega)
  · intro a hk ha
    obtain ⟨hano, haann⟩ := delivery_order cfg anc target npeers es hb (k - 1) a ha
    apply h2 a.hash (by omega)
    have : b.no - 1 = a.no := by omega
    rw [this]; exact haann

/-- The hypotheses are satisfiable and the conclusion is about real deliveries (test): two tasks of one hash
each, answered in two chunks; the second block's parent is the first block's id. -/
example :
    let es : List Ev := [.hashSet 5 [11, 12], .sched, .chunk 0 false [⟨11, 10, 5⟩], .chunk 1 false [⟨12, 11, 6⟩],
                         .addRsp 5 11 false false]
    delivered (run (St.init ⟨1, 2, 2, 2⟩ ⟨10, 9, 4⟩ 6 2) es).2 = [⟨11, 10, 5⟩, ⟨12, 11, 6⟩] := by
  decide

/-- `HeightBound` and `ParentBound` are satisfiable together on that session (test). -/
example :
    let es : List Ev := [.hashSet 5 [11, 12], .sched, .chunk 0 false [⟨11, 10, 5⟩], .chunk 1 false [⟨12, 11, 6⟩],
                         .addRsp 5 11 false false]
    HeightBound es ∧ ParentBound es ⟨10, 9, 4⟩ := by
  intro es
  have ann : ∀ n h, Announced es n h → (n = 5 ∧ h = 11) ∨ (n = 6 ∧ h = 12) := by
    intro n h ⟨st, hs, i, hmem, hi, hsum⟩
    simp [es] at hmem
    obtain ⟨rfl, rfl⟩ := hmem
    match i, hi with
    | 0, hi => simp at hi; subst hi; left; omega
    | 1, hi => simp at hi; subst hi; right; omega
    | i + 2, hi => simp at hi
  constructor
  · intro peer err blocks hm b hbm n hann
    simp [es] at hm
    rcases hm with ⟨_, _, rfl⟩ | ⟨_, _, rfl⟩
    · simp at hbm; subst hbm
      rcases ann n _ hann with ⟨rfl, _⟩ | ⟨_, h⟩
      · rfl
      · simp at h
    · simp at hbm; subst hbm
      rcases ann n _ hann with ⟨_, h⟩ | ⟨rfl, _⟩
      · simp at h
      · rfl
  · intro peer err blocks hm b hbm n hann
    simp [es] at hm
    rcases hm with ⟨_, _, rfl⟩ | ⟨_, _, rfl⟩
    · simp at hbm; subst hbm
      rcases ann n _ hann with ⟨rfl, _⟩ | ⟨_, h⟩
      · exact ⟨fun _ => rfl, fun h' hlt _ => by simp at hlt⟩
      · simp at h
    · simp at hbm; subst hbm
      rcases ann n _ hann with ⟨_, h⟩ | ⟨rfl, _⟩
      · simp at h
      · refine ⟨fun h => by simp at h, fun h' _ ha => ?_⟩
        rcases ann _ _ ha with ⟨_, rfl⟩ | ⟨h6, _⟩
        · rfl
        · simp at h6

/-- **Without the chained announcement the pinned code hands over a block that is not a child of the previous
one — with genuine blocks only** (known finding C17-unlinked-announcement-delivered). Ancestor id 10 at height
4; the sync peer announces ids 11, 12 for heights 5, 6, where 12 is a genuine height-6 block of ANOTHER branch
(parent 77); one hash per task. Heights are the announced ones (`HeightBound` holds), both chunks are valid,
`popFromConnQueue` compares heights only: 12/77/6 is handed over right after 11/10/5. -/
theorem delivery_linked_needs_chained_announcement :
    ¬ ∀ (cfg : Cfg) (anc : Blk) (target npeers : Nat) (es : List Ev), HeightBound es →
        ∀ k a b, (delivered (run (St.init cfg anc target npeers) es).2)[k]? = some a →
          (delivered (run (St.init cfg anc target npeers) es).2)[k + 1]? = some b → b.prev = a.hash := by
  intro hall
  let es : List Ev := [.hashSet 5 [11, 12], .sched, .chunk 0 false [⟨11, 10, 5⟩], .chunk 1 false [⟨12, 77, 6⟩],
                       .addRsp 5 11 false false]
  have hb : HeightBound es := by
    intro peer err blocks hm b hbm n hann
    obtain ⟨st, hs, i, hmem, hi, hsum⟩ := hann
    simp [es] at hmem
    obtain ⟨rfl, rfl⟩ := hmem
    simp [es] at hm
    rcases hm with ⟨_, _, rfl⟩ | ⟨_, _, rfl⟩
    · simp at hbm; subst hbm
      match i, hi with
      | 0, _ => simp at hsum; omega
      | 1, hi => simp at hi
      | i + 2, hi => simp at hi
    · simp at hbm; subst hbm
      match i, hi with
      | 0, hi => simp at hi
      | 1, _ => simp at hsum; omega
      | i + 2, hi => simp at hi
  have := hall ⟨1, 2, 2, 2⟩ ⟨10, 9, 4⟩ 6 2 es hb 0 ⟨11, 10, 5⟩ ⟨12, 77, 6⟩ (by decide) (by decide)
  simp at this

/-- **Nothing beyond the target is handed over**, for every event list, when no hash set announces a height
above the target (the hash fetcher never does: `hash_sets_contiguous`, `h'.lastNo ≤ h.target`). Together with
`success_only_with_whole_range`: a successful session handed over exactly `ancestor+1 .. target`. -/
theorem delivery_within_target (cfg : Cfg) (anc : Blk) (target npeers : Nat) (es : List Ev)
    (hb : HeightBound es) (hann : ∀ n h, Announced es n h → n ≤ target) (k : Nat) (b : Blk)
    (h : (delivered (run (St.init cfg anc target npeers) es).2)[k]? = some b) : b.no ≤ target :=
  hann _ _ (delivery_order cfg anc target npeers es hb k b h).2

end Aergo.Props.C17
