/-
C18 — P2P boundary: bounded framing, same-chain peers only, content-addressed blocks.

"A message written by one node is read back identically by another, and reading from an arbitrary
byte stream never allocates more than the configured maximum payload, never panics and fails cleanly
on truncated or oversized frames. A handshake succeeds only with a peer that presents the same
genesis block, a compatible chain identifier and the peer identity of the connection. A block
obtained from the network is stored and referenced only under the digest of its own header, so
content that does not hash to the announced identifier is discarded without affecting what the node
will later accept."

Quantifier: all messages (all sub-protocol ids, payload sizes 0..limit+1), all byte streams
(truncation at every offset, random bytes), all handshake status messages differing from the local
one in any single field, all received blocks whose announced identifier, header or body was altered.

Clauses and where they are carried:

1. framing (`Model/Frame.lean` over the *regenerated* header layout `Gen/Frame.lean`):
   `frame_roundtrip`, `stream_roundtrip`, `read_bounded`, `read_oversized_refused`, `read_never_panics`,
   `read_total`, `read_truncated`, `write_refuses`, `write_never_panics`, `header_layout_ok`.
   All for every `max`, every message, every byte list: no size bound anywhere.
2. handshake (`Model/Handshake.lean`): the status check of every protocol version the node speaks —
   `handshake_iff` (2.0.0), `handshake_iff_v033`, `handshake_iff_v032`, `handshake_iff_v030` (0.3.1) —
   `handshake_same_chain`, one theorem per single deviating field
   (`handshake_rejects_genesis / _peer_id / _chain_id / _height_era / _best_hash / _bad_sender / _bad_agent`),
   and the handshake as the peer sees it (version negotiation `findBest_spec`/`findBest_none`, the
   wrappers `wire_inbound_ok`): the clause holds for a node that speaks only 2.0.0 and 0.3.3
   (`wire_inbound_same_chain_partial`, `wire_outbound_same_chain_partial`, `versioned_same_chain_partial`)
   and is REFUTED for the pinned version list (`wire_same_chain_fails`: 0.3.1 compares no genesis hash,
   0.3.1/0.3.2 compare the chain id with the genesis-era identifier; known finding
   `C18-legacy-handshake-0.3.x`).
3. content-addressed blocks (`Model/BlockId.lean`, `Model/Notice.lean`): the pinned code does NOT satisfy
   the first half of this clause.
   `id_is_digest` (full statement, in a comment below) is refuted by a concrete witness
   (`id_is_digest_fails`, `receiver_forwards_altered_copy`); what holds is proved as
   `id_is_digest_partial` (under exactly the guard "the carried Hash field is empty or genuine"),
   `receiver_delivers_requested_ids` (the receiver compares *carried* identifiers with the request, for
   every response sequence) and `receiver_blind_to_content` (it cannot tell an altered block from the
   genuine one). The second half ("... without affecting what the node will later accept") at the sync
   manager, for every history of arrivals: `genuine_refused_only_if_known`, `altered_copies_never_veto`,
   `notice_refused_only_if_asked`, `untouched_harmless` (+ `bp_forward_iff`, `nb_request_iff`,
   `forward_only_within_size`); at the chain service (`bad_copy_harmless`, the errored-blocks cache) it is
   not carried by a theorem here: correspondence run `c18chain` with the Chain model of C05.
-/
import Aergo.Lemmas.Frame
import Aergo.Model.Handshake
import Aergo.Lemmas.BlockId
import Aergo.Lemmas.Notice

namespace Aergo.Props.C18

/-! ## 1. Framing -/
section Framing
open Aergo.Frame Aergo.Gen.Frame

/-- the frame of a message: header then payload — what a successful `WriteMsg` emits -/
def frame (m : Msg) : Bytes := header m ++ m.payload

/-- a message `WriteMsg` accepts under limit `max`: fields in the range of their Go types, `Length()`
equal to the payload length, payload not larger than the limit -/
def Sendable (max : Nat) (m : Msg) : Prop := m.WF ∧ m.len = m.payload.length ∧ m.len ≤ max

/-- encoding width of a slot -/
def width : Enc → Nat
  | .u32be => 4
  | .u64be => 8
  | .bytes16 => 16

/-- the slots start at `pos`, follow each other without gap or overlap, each as wide as its encoding -/
def tiles : Nat → List Slot → Option Nat
  | pos, [] => some pos
  | pos, s :: ss => if s.lo = pos ∧ s.hi = pos + width s.enc then tiles s.hi ss else none

/-- **Tie T** (finite check over the tables regenerated from `marshalHeader` / `parseHeader` on this
run): the writes tile the header exactly — no gap through which bytes of the previous message could
leak from the reused buffer, no overlap — and the reader reads the same slots the writer writes. -/
theorem header_layout_ok :
    tiles 0 marshalLayout = some headerLength ∧ parseLayout = marshalLayout := by decide

/-- `WriteMsg` on a sendable message emits its frame, whatever the reused header buffer held before. -/
theorem write_ok (max : Nat) (buf : Bytes) (m : Msg) (hs : Sendable max m) (hbuf : buf.length = headerLength) :
    writeMsg max buf m = .ok (frame m) := by
  obtain ⟨⟨h1, h2, h3, hid, ho⟩, hlen, hmax⟩ := hs
  have hmod : m.payload.length % 2 ^ 32 = m.len := by rw [← hlen]; exact Nat.mod_eq_of_lt h2
  simp only [writeMsg, hmod, ne_eq, not_true_eq_false, if_false]
  rw [if_neg (by omega), marshalHeader_eq buf m hbuf hid ho]
  simp [hlen, frame, header]

/-- non-vacuity (test on sample values): a sendable message with a non-empty payload -/
example : Sendable 4 ⟨0x11, 2, 3, List.replicate 16 7, List.replicate 16 9, [1, 2]⟩ := by
  simp [Sendable, Msg.WF]

/-- A frame is the 48-byte header followed by the payload. -/
theorem frame_length (m : Msg) (hwf : m.WF) : (frame m).length = headerLength + m.payload.length := by
  simp [frame, header_length m hwf, headerLength]

/-- Reading a frame (followed by anything) returns the message, leaves exactly the bytes after it, and allocates exactly the payload length. -/
theorem frame_roundtrip_read (max : Nat) (m : Msg) (rest : Bytes) (hs : Sendable max m) :
    readMsg max (frame m ++ rest) = ⟨.ok m rest, m.len⟩ := by
  obtain ⟨hwf, hlen, hmax⟩ := hs
  have hl := header_length m hwf
  have htake : (frame m ++ rest).take headerLength = header m := by
    simp [frame, headerLength, List.append_assoc, hl]
  have hdrop : (frame m ++ rest).drop headerLength = m.payload ++ rest := by
    simp [frame, headerLength, List.append_assoc, hl]
  have hlen' : ¬ (frame m ++ rest).length < headerLength := by
    simp [frame, hl, headerLength]
  simp only [readMsg, hlen', if_false, htake, parseHeader_header m hwf, hdrop]
  rw [if_neg (by simpa using hmax)]
  have hm : m = ⟨m.sub, m.payload.length, m.ts, m.id, m.orig, m.payload⟩ := by
    cases m; simp_all
  simp only [hlen]
  rw [if_neg (by simp), List.take_left, List.drop_left, ← hm]


/-- **Round trip**: what one node writes (whatever its header buffer held before), another node with
the same limit reads back identically, followed by whatever else is on the stream, allocating
exactly the payload length. -/
theorem frame_roundtrip (max : Nat) (buf : Bytes) (m : Msg) (rest : Bytes) (hs : Sendable max m)
    (hbuf : buf.length = headerLength) :
    ∃ bytes, writeMsg max buf m = .ok bytes ∧ readMsg max (bytes ++ rest) = ⟨.ok m rest, m.len⟩ :=
  ⟨frame m, write_ok max buf m hs hbuf, frame_roundtrip_read max m rest hs⟩

/-- test on sample values: a concrete frame, read back with a trailing byte -/
example : readMsg 4 (frame ⟨0x11, 2, 3, List.replicate 16 7, List.replicate 16 9, [1, 2]⟩ ++ [0xff])
    = ⟨.ok ⟨0x11, 2, 3, List.replicate 16 7, List.replicate 16 9, [1, 2]⟩ [0xff], 2⟩ := by decide

/-- A connection carrying any sequence of sendable messages back to back is read as exactly that sequence, then the reader's clean end-of-stream; the largest allocation is the largest payload. -/
theorem stream_roundtrip (max : Nat) (ms : List Msg) (h : ∀ m ∈ ms, Sendable max m) (fuel : Nat)
    (hf : ms.length < fuel) :
    readAll max fuel (ms.flatMap frame) = (ms, .err .eof, ms.foldr (fun m a => Nat.max m.len a) 0) := by
  induction ms generalizing fuel with
  | nil =>
    obtain ⟨f, rfl⟩ : ∃ f, fuel = f + 1 := ⟨fuel - 1, by simp at hf; omega⟩
    simp [readAll, readMsg, headerLength]
  | cons m ms ih =>
    obtain ⟨f, rfl⟩ : ∃ f, fuel = f + 1 := ⟨fuel - 1, by simp at hf; omega⟩
    have hm := h m (by simp)
    have ih' := ih (fun x hx => h x (by simp [hx])) f (by simp at hf; omega)
    simp only [List.flatMap_cons, readAll, frame_roundtrip_read max m _ hm, ih', List.foldr_cons]


/-- **Bounded allocation**: for every byte stream, `ReadMsg` never allocates a payload buffer larger than the configured maximum. -/
theorem read_bounded (max : Nat) (bs : Bytes) : (readMsg max bs).alloc ≤ max := by
  rw [readMsg_cases]
  simp only
  split
  · simp
  · split
    · simp
    · split <;> (simp; omega)

/-- **Oversized frames**: a header declaring more than the maximum is refused with `tooBig` before anything is allocated (and without touching the rest of the stream). -/
theorem read_oversized_refused (max : Nat) (bs : Bytes) (d : Nat) (hlen : headerLength ≤ bs.length)
    (hd : declared bs = some d) (hgt : d > max) : readMsg max bs = ⟨.err .tooBig, 0⟩ := by
  simp only [declared, headerLength, parseHeader_eq, Option.map_some, Option.some.injEq] at hd
  rw [readMsg_cases]
  simp only [headerLength] at hlen
  simp only [hd]
  rw [if_neg (by omega), if_pos hgt]

/-- `ReadMsg` never panics, whatever the bytes (the only panic site, `MustParseBytes`, always gets 16 bytes under the generated layout). -/
theorem read_never_panics (max : Nat) (bs : Bytes) : (readMsg max bs).res ≠ .panic := by
  rw [readMsg_cases]
  simp only
  split
  · simp
  · split
    · simp
    · split <;> simp

/-- **Totality and soundness of the decoder**: every byte stream is either decoded — and then the stream *is* the frame of the returned, sendable message followed by the remainder, so decoding inverts encoding — or is rejected by one of three clean errors, each characterised exactly. -/
theorem read_total (max : Nat) (bs : Bytes) :
    (∃ m rest, readMsg max bs = ⟨.ok m rest, m.len⟩ ∧ Sendable max m ∧ bs = frame m ++ rest)
    ∨ readMsg max bs = ⟨.err .eof, 0⟩ ∧ bs.length < headerLength
    ∨ (∃ d, readMsg max bs = ⟨.err .tooBig, 0⟩ ∧ declared bs = some d ∧ d > max)
    ∨ (∃ d, readMsg max bs = ⟨.err .short, d⟩ ∧ declared bs = some d ∧ d ≤ max ∧ bs.length < headerLength + d) := by
  rw [readMsg_cases]
  simp only [declared, headerLength, parseHeader_eq, Option.map_some]
  by_cases h1 : bs.length < 48
  · right; left; simp [h1]
  · rw [if_neg h1]
    by_cases h2 : fromBE ((slice (bs.take 48) 4 8).take 4) > max
    · right; right; left; exact ⟨_, by rw [if_pos h2], rfl, h2⟩
    · rw [if_neg h2]
      by_cases h3 : (bs.drop 48).length < fromBE ((slice (bs.take 48) 4 8).take 4)
      · right; right; right
        refine ⟨_, by rw [if_pos h3], rfl, by omega, ?_⟩
        simp at h3; omega
      · left
        rw [if_neg h3]
        have hl : (bs.take 48).length = 48 := by simp; omega
        have h3' : fromBE ((slice (bs.take 48) 4 8).take 4) ≤ (bs.drop 48).length := by omega
        refine ⟨_, _, rfl, ⟨parsed_wf _ _ hl, ?_, by simpa using h2⟩, ?_⟩
        · simp only [List.length_take]; omega
        · simp only [frame, header_of_parsed _ _ hl]
          rw [List.append_assoc, List.take_append_drop, List.take_append_drop]


/-- **Truncation at every offset**: every proper prefix of a valid frame is a clean error — `eof` (the reader's own io.EOF) when the cut is inside the header, `short` when it is inside the payload; in the latter case the payload buffer (≤ max) had been allocated. -/
theorem read_truncated (max : Nat) (m : Msg) (k : Nat) (hs : Sendable max m) (hk : k < (frame m).length) :
    readMsg max ((frame m).take k) =
      if k < headerLength then ⟨.err .eof, 0⟩ else ⟨.err .short, m.len⟩ := by
  obtain ⟨hwf, hlen, hmax⟩ := hs
  have hl := header_length m hwf
  have hfl := frame_length m hwf
  have hH : headerLength = 48 := rfl
  by_cases h1 : k < headerLength
  · rw [if_pos h1]
    simp only [readMsg]
    rw [if_pos (by simp; omega)]
  · rw [if_neg h1]
    have htake : ((frame m).take k).take headerLength = header m := by
      rw [List.take_take, Nat.min_eq_left (by omega)]
      simp [frame, hl, hH]
    simp only [readMsg]
    rw [if_neg (by simp; omega), htake, parseHeader_header m hwf]
    simp only
    rw [if_neg (by omega), if_pos (by simp; omega)]

/-- `WriteMsg` refuses a message whose declared length exceeds the maximum or differs from the payload's length (for payloads ≥ 4 GiB whose length wraps to `Length()` the refusal is the late `wrong write`, see `Model/Frame.lean`). -/
theorem write_refuses (max : Nat) (buf : Bytes) (m : Msg) (hwf : m.WF) (hbuf : buf.length = headerLength)
    (h : m.len > max ∨ m.len ≠ m.payload.length) : ∃ e, writeMsg max buf m = .err e := by
  obtain ⟨_, _, _, hid, ho⟩ := hwf
  simp only [writeMsg]
  split
  · exact ⟨_, rfl⟩
  · split
    · exact ⟨_, rfl⟩
    · rw [marshalHeader_eq buf m hbuf hid ho]
      simp only
      split
      · exact ⟨_, rfl⟩
      · rename_i h1 h2 h3
        omega

/-- `WriteMsg` never panics on a well-typed message. -/
theorem write_never_panics (max : Nat) (buf : Bytes) (m : Msg) (hwf : m.WF) (hbuf : buf.length = headerLength) :
    writeMsg max buf m ≠ .panic := by
  obtain ⟨_, _, _, hid, ho⟩ := hwf
  simp only [writeMsg]
  split
  · simp
  · split
    · simp
    · rw [marshalHeader_eq buf m hbuf hid ho]
      simp only
      split <;> simp


/-- test on sample values: the boundary. Declared length `max` with the payload present is read,
`max + 1` is refused without allocation, a header cut at byte 47 is `eof`, a payload cut short is `short`. -/
example : (readMsg 2 (header ⟨1, 2, 0, List.replicate 16 0, List.replicate 16 0, []⟩ ++ [5, 6])).alloc = 2
    ∧ readMsg 2 (header ⟨1, 3, 0, List.replicate 16 0, List.replicate 16 0, []⟩ ++ [5, 6, 7]) = ⟨.err .tooBig, 0⟩
    ∧ readMsg 2 ((header ⟨1, 2, 0, List.replicate 16 0, List.replicate 16 0, []⟩).take 47) = ⟨.err .eof, 0⟩
    ∧ readMsg 2 (header ⟨1, 2, 0, List.replicate 16 0, List.replicate 16 0, []⟩ ++ [5]) = ⟨.err .short, 2⟩ := by
  decide

end Framing

/-! ## 2. Handshake -/
section Handshake
open Aergo.Handshake

/-- What `checkRemoteStatus` (V200) decides: the chain id parses and equals the local chain id *at the remote's best height*; best block hash is 32 bytes; a sender is present with a usable address; the sender's peer id is the connection's; the genesis hash is the local one; an agent carries valid certificates from listed producers. -/
def Accept200 (l : Local) (st : Status) : Prop :=
  ∃ rc s, parseChainID st.chainID = some rc ∧ l.chainAt st.bestHeight = rc ∧ st.bestHash.length = 32 ∧
    st.sender = some s ∧ s.addrOK = true ∧ s.peerID = l.peerID ∧ st.genesis = l.genesis ∧
    (decodeRole s.role = roleAgent → checkAgent s st.certs = true)

/-- What `checkRemoteStatus` (V033) decides (no best-hash and no role check). -/
def Accept033 (l : Local) (st : Status) : Prop :=
  ∃ rc s, parseChainID st.chainID = some rc ∧ l.chainAt st.bestHeight = rc ∧
    st.sender = some s ∧ s.addrOK = true ∧ s.peerID = l.peerID ∧ st.genesis = l.genesis

/-- **Handshake strictness (V200)**: success ⇔ every clause of `Accept200`. -/
theorem handshake_iff (l : Local) (st : Status) : checkV200 l st = .ok () ↔ Accept200 l st := by
  constructor
  · intro h
    unfold checkV200 at h
    split at h
    · simp at h
    · rename_i rc hp
      split at h
      · simp at h
      · rename_i h1
        split at h
        · simp at h
        · rename_i h2
          split at h
          · simp at h
          · rename_i s hs
            split at h
            · simp at h
            · rename_i h3
              split at h
              · simp at h
              · rename_i h4
                split at h
                · simp at h
                · rename_i h5
                  split at h
                  · simp at h
                  · rename_i h6
                    refine ⟨rc, s, hp, by simpa using h1, by simpa using h2, hs, by simpa using h3,
                      by simpa using h4, (by simpa using h5 : l.genesis = st.genesis).symm, ?_⟩
                    intro hr
                    simpa [hr] using h6
  · rintro ⟨rc, s, hp, h1, h2, hs, h3, h4, h5, h6⟩
    unfold checkV200
    simp only [hp, hs, h1, h2, h3, h4, h5]
    by_cases hr : decodeRole s.role = roleAgent
    · simp [hr, h6 hr]
    · simp [hr]

/-- **Handshake strictness (V033)**. -/
theorem handshake_iff_v033 (l : Local) (st : Status) : checkV033 l st = .ok () ↔ Accept033 l st := by
  constructor
  · intro h
    unfold checkV033 at h
    split at h
    · simp at h
    · rename_i rc hp
      split at h
      · simp at h
      · rename_i h1
        split at h
        · simp at h
        · rename_i s hs
          split at h
          · simp at h
          · rename_i h3
            split at h
            · simp at h
            · rename_i h4
              split at h
              · simp at h
              · rename_i h5
                exact ⟨rc, s, hp, by simpa using h1, hs, by simpa using h3,
                  by simpa using h4, (by simpa using h5 : l.genesis = st.genesis).symm⟩
  · rintro ⟨rc, s, hp, h1, hs, h3, h4, h5⟩
    unfold checkV033
    simp [hp, hs, h1, h3, h4, h5]


/-- **Same chain only**: a successful handshake (either version) implies the three things the property
names — same genesis, the chain id the local node has at that height, the connection's peer id. -/
theorem handshake_same_chain (l : Local) (st : Status)
    (h : checkV200 l st = .ok () ∨ checkV033 l st = .ok ()) :
    st.genesis = l.genesis ∧ parseChainID st.chainID = some (l.chainAt st.bestHeight) ∧
      ∃ s, st.sender = some s ∧ s.peerID = l.peerID := by
  rcases h with h | h
  · obtain ⟨rc, s, hp, h1, _, hs, _, h4, h5, _⟩ := (handshake_iff l st).mp h
    exact ⟨h5, by rw [hp, h1], s, hs, h4⟩
  · obtain ⟨rc, s, hp, h1, hs, _, h4, h5⟩ := (handshake_iff_v033 l st).mp h
    exact ⟨h5, by rw [hp, h1], s, hs, h4⟩

/-- single deviating field — genesis: replacing the genesis hash of an accepted status by anything else is rejected -/
theorem handshake_rejects_genesis (l : Local) (st : Status) (g : Bytes)
    (hok : checkV200 l st = .ok () ∨ checkV033 l st = .ok ()) (hg : g ≠ st.genesis) :
    checkV200 l { st with genesis := g } ≠ .ok () ∧ checkV033 l { st with genesis := g } ≠ .ok () := by
  have h0 := (handshake_same_chain l st hok).1
  constructor
  · intro h
    have := (handshake_same_chain l _ (Or.inl h)).1
    exact hg (by simpa [h0] using this)
  · intro h
    have := (handshake_same_chain l _ (Or.inr h)).1
    exact hg (by simpa [h0] using this)

/-- single deviating field — peer id: a sender whose peer id is not the connection's is rejected -/
theorem handshake_rejects_peer_id (l : Local) (st : Status) (s : Sender) (hs : st.sender = some s)
    (hp : s.peerID ≠ l.peerID) : checkV200 l st ≠ .ok () ∧ checkV033 l st ≠ .ok () := by
  constructor
  · intro h
    obtain ⟨_, _, s', hs', h4⟩ := handshake_same_chain l st (Or.inl h)
    rw [hs] at hs'; cases hs'; exact hp h4
  · intro h
    obtain ⟨_, _, s', hs', h4⟩ := handshake_same_chain l st (Or.inr h)
    rw [hs] at hs'; cases hs'; exact hp h4

/-- single deviating field — chain identifier: a chain id that does not decode to the local one at that
height (different version, public/main flag, magic or consensus, or malformed) is rejected -/
theorem handshake_rejects_chain_id (l : Local) (st : Status)
    (hc : parseChainID st.chainID ≠ some (l.chainAt st.bestHeight)) :
    checkV200 l st ≠ .ok () ∧ checkV033 l st ≠ .ok () :=
  ⟨fun h => hc (handshake_same_chain l st (Or.inl h)).2.1, fun h => hc (handshake_same_chain l st (Or.inr h)).2.1⟩

/-- single deviating field — best height: the same status at a height where the local chain id is a
different one (across a hard fork) is rejected -/
theorem handshake_rejects_height_era (l : Local) (st : Status) (h' : Nat)
    (hok : checkV200 l st = .ok () ∨ checkV033 l st = .ok ())
    (he : l.chainAt h' ≠ l.chainAt st.bestHeight) :
    checkV200 l { st with bestHeight := h' } ≠ .ok () ∧ checkV033 l { st with bestHeight := h' } ≠ .ok () := by
  have h0 := (handshake_same_chain l st hok).2.1
  apply handshake_rejects_chain_id
  simp only [h0, ne_eq, Option.some.injEq]
  exact fun h => he h.symm

/-- single deviating field — best block hash (V200 only; V033 ignores it, by design of that version) -/
theorem handshake_rejects_best_hash (l : Local) (st : Status) (hl : st.bestHash.length ≠ 32) :
    checkV200 l st ≠ .ok () := by
  intro h
  obtain ⟨_, _, _, _, h2, _⟩ := (handshake_iff l st).mp h
  exact hl h2

/-- single deviating field — sender absent or with an unusable address -/
theorem handshake_rejects_bad_sender (l : Local) (st : Status)
    (hs : st.sender = none ∨ ∃ s, st.sender = some s ∧ s.addrOK = false) :
    checkV200 l st ≠ .ok () ∧ checkV033 l st ≠ .ok () := by
  constructor
  · intro h
    obtain ⟨_, s, _, _, _, hs', h3, _⟩ := (handshake_iff l st).mp h
    rcases hs with hs | ⟨s2, hs, hb⟩
    · rw [hs] at hs'; cases hs'
    · rw [hs] at hs'; cases hs'; rw [h3] at hb; cases hb
  · intro h
    obtain ⟨_, s, _, _, hs', h3, _⟩ := (handshake_iff_v033 l st).mp h
    rcases hs with hs | ⟨s2, hs, hb⟩
    · rw [hs] at hs'; cases hs'
    · rw [hs] at hs'; cases hs'; rw [h3] at hb; cases hb

/-- single deviating field — role: an agent without producers, or with a certificate that is invalid,
issued to someone else, or issued by an unlisted producer, is rejected (V200) -/
theorem handshake_rejects_bad_agent (l : Local) (st : Status) (s : Sender) (hs : st.sender = some s)
    (hr : decodeRole s.role = roleAgent) (hc : checkAgent s st.certs = false) : checkV200 l st ≠ .ok () := by
  intro h
  obtain ⟨_, s', _, _, _, hs', _, _, _, h6⟩ := (handshake_iff l st).mp h
  rw [hs] at hs'; cases hs'
  rw [h6 hr] at hc; cases hc

/-- sample local view: chain id `version 1, public, not main, "ab/cd"` at every height -/
def exLocal : Local := ⟨fun _ => ⟨1, true, false, [97, 98], [99, 100]⟩, [1, 2, 3], [9, 9]⟩

/-- sample status message equal to the local view -/
def exStatus : Status :=
  ⟨[1, 0, 0, 0, 1, 0, 97, 98, 47, 99, 100], 7, List.replicate 32 5, some ⟨true, [1, 2, 3], 1, []⟩, [9, 9], []⟩

/-- test on sample values (non-vacuity of all the implications above): a local view, a status message
equal to it — chain id `version 1, public, not main, "ab/cd"` — accepted by both versions; the same
message with bool byte `0x02` instead of `0x01` is *also* accepted (`ChainID.Read` decodes "≠ 0");
with one genesis byte changed it is rejected. -/
example :
    checkV200 exLocal exStatus = .ok () ∧ checkV033 exLocal exStatus = .ok ()
      ∧ checkV200 exLocal { exStatus with chainID := [1, 0, 0, 0, 2, 0, 97, 98, 47, 99, 100] } = .ok ()
      ∧ checkV200 exLocal { exStatus with genesis := [9, 8] } = .error .genesis
      ∧ checkV200 exLocal { exStatus with chainID := [2, 0, 0, 0, 1, 0, 97, 98, 47, 99, 100] } = .error .diffChain
      ∧ checkV200 exLocal { exStatus with chainID := [1, 0, 0, 0, 1, 0, 97, 98, 99, 100] } = .error .wrongStatus := by
  refine ⟨?_, ?_, ?_, ?_, ?_, ?_⟩ <;> rfl

/-! ### The handshake as the peer sees it: every protocol version the node speaks, version negotiation,
the wrappers

FULL statement of the second clause (not provable on the pinned tree: refuted below, reproduced on the
real `InboundWireHandshaker`/`OutboundWireHandshaker` by the harness, known-finding class
`C18-legacy-handshake-0.3.x`):

```
wire_same_chain : (wireInbound w magicOK offered m).2 = true ∨ (wireOutbound w magicOK answered m).2 = true
    → SameChain w.l m.st
```
It holds for a node whose version list / handshaker factory only has 2.0.0 and 0.3.3
(`wire_inbound_same_chain_partial`, `wire_outbound_same_chain_partial`); protocol 0.3.1 compares no genesis
hash and 0.3.1/0.3.2 compare the chain id with the genesis-era identifier instead of the one the node has
at the peer's height. -/

/-- the three things the property names -/
def SameChain (l : Local) (st : Status) : Prop :=
  st.genesis = l.genesis ∧ parseChainID st.chainID = some (l.chainAt st.bestHeight) ∧
    ∃ s, st.sender = some s ∧ s.peerID = l.peerID

/-- What `checkRemoteStatus` of protocol 0.3.1 decides: the chain id decodes to the *fixed* identifier,
a sender with a usable address and the connection's peer id. Nothing about the genesis block. -/
def Accept030 (fixed : ChainID) (l : Local) (st : Status) : Prop :=
  ∃ s, parseChainID st.chainID = some fixed ∧ st.sender = some s ∧ s.addrOK = true ∧ s.peerID = l.peerID

/-- **Handshake strictness (0.3.1)**. -/
theorem handshake_iff_v030 (fixed : ChainID) (l : Local) (st : Status) :
    checkV030 fixed l st = .ok () ↔ Accept030 fixed l st := by
  constructor
  · intro h
    unfold checkV030 at h
    split at h
    · simp at h
    · rename_i rc hp
      split at h
      · simp at h
      · rename_i h1
        split at h
        · simp at h
        · rename_i s hs
          split at h
          · simp at h
          · rename_i h3
            split at h
            · simp at h
            · rename_i h4
              have h1' : fixed = rc := by simpa using h1
              exact ⟨s, by rw [hp, h1'], hs, by simpa using h3, by simpa using h4⟩
  · rintro ⟨s, hp, hs, h3, h4⟩
    unfold checkV030
    simp [hp, hs, h3, h4]

/-- **Handshake strictness (0.3.2)**: 0.3.1 plus the genesis hash. -/
theorem handshake_iff_v032 (fixed : ChainID) (l : Local) (st : Status) :
    checkV032 fixed l st = .ok () ↔ Accept030 fixed l st ∧ st.genesis = l.genesis := by
  unfold checkV032
  constructor
  · intro h
    split at h
    · simp at h
    · rename_i u h0
      split at h
      · simp at h
      · rename_i hg
        have : checkV030 fixed l st = .ok () := by cases u; exact h0
        exact ⟨(handshake_iff_v030 fixed l st).mp this, (by simpa using hg : l.genesis = st.genesis).symm⟩
  · rintro ⟨h0, hg⟩
    rw [(handshake_iff_v030 fixed l st).mpr h0]
    simp [hg]

/-- `accepted` is "the check returned nil" -/
theorem accepted_iff (r : Except Reject Unit) : accepted r = true ↔ r = .ok () := by
  cases r <;> simp [accepted]

/-- **What each versioned handshaker guarantees** (`receiveRemoteStatus` + `checkRemoteStatus`, which is
all `DoForInbound`/`DoForOutbound` act on): a status message was received and — for 2.0.0 and 0.3.3
unconditionally, for 0.3.2 under the guard that the node's chain id at the peer's height still is the
genesis-era one — the peer is on the same chain. Nothing of the kind for 0.3.1. -/
theorem versioned_same_chain_partial (w : WireLocal) (v : Ver) (m : PeerMsg) (h : versioned w v m = true)
    (hv : v = .v200 ∨ v = .v033 ∨ (v = .v032 ∧ w.l.chainAt m.st.bestHeight = w.fixed)) :
    m.isStatus = true ∧ SameChain w.l m.st := by
  unfold versioned at h
  split at h
  · simp at h
  · rename_i hst
    refine ⟨by simpa using hst, ?_⟩
    rcases hv with rfl | rfl | ⟨rfl, hera⟩
    · exact handshake_same_chain w.l m.st (Or.inl ((accepted_iff _).mp h))
    · simp only [Bool.and_eq_true] at h
      exact handshake_same_chain w.l m.st (Or.inr ((accepted_iff _).mp h.2))
    · simp only [Bool.and_eq_true] at h
      obtain ⟨⟨s, hp, hs, _, h4⟩, hg⟩ := (handshake_iff_v032 w.fixed w.l m.st).mp ((accepted_iff _).mp h.2)
      exact ⟨hg, by rw [hp, hera], s, hs, h4⟩

/-- `FindBestP2PVersion` picks the most preferred entry of the node's list that the peer offers. -/
theorem findBest_spec (acc offered : List Nat) (c : Nat) (h : findBest acc offered = some c) :
    c ∈ offered ∧ ∃ pre post, acc = pre ++ c :: post ∧ ∀ a ∈ pre, a ∉ offered := by
  unfold findBest at h
  obtain ⟨hc, pre, post, hsplit, hpre⟩ := List.find?_eq_some_iff_append.mp h
  refine ⟨by simpa using hc, pre, post, hsplit, ?_⟩
  intro a ha
  simpa using hpre a ha

/-- no common version ⇔ nothing is negotiated -/
theorem findBest_none (acc offered : List Nat) : findBest acc offered = none ↔ ∀ a ∈ acc, a ∉ offered := by
  simp [findBest]

/-- **The inbound handshake succeeds only ...**: a usable version list with the right magic, a version
that is in the node's list *and* offered by the peer, a handshaker for it, and that handshaker's verdict on
a status message the peer really sent. -/
theorem wire_inbound_ok (w : WireLocal) (magicOK : Bool) (offered : List Nat) (m : PeerMsg) (c : Nat)
    (h : wireInbound w magicOK offered m = (c, true)) :
    magicOK = true ∧ 0 < offered.length ∧ offered.length ≤ maxVersionCnt ∧ c ∈ w.accepted ∧ c ∈ offered ∧
      ∃ v, verOfCode c = some v ∧ v ∈ w.made ∧ versioned w v m = true := by
  unfold wireInbound at h
  split at h
  · simp at h
  · rename_i hpre
    simp only [Bool.or_eq_true, decide_eq_true_eq, Bool.not_eq_eq_eq_not, Bool.not_true, not_or] at hpre
    obtain ⟨⟨hl0, hl1⟩, hmg⟩ := hpre
    split at h
    · simp at h
    · rename_i c' hfb
      obtain ⟨hoff, pre, post, hsplit, _⟩ := findBest_spec _ _ _ hfb
      split at h
      · simp at h
      · rename_i v hv
        split at h
        · rename_i hm
          simp only [Prod.mk.injEq] at h
          obtain ⟨rfl, hver⟩ := h
          refine ⟨by simpa using hmg, by omega, by omega, ?_, hoff, v, hv, by simpa using hm, hver⟩
          rw [hsplit]; simp
        · simp at h

/-- **Same chain only, inbound** — for a node that lists only the current protocol versions. -/
theorem wire_inbound_same_chain_partial (w : WireLocal) (magicOK : Bool) (offered : List Nat) (m : PeerMsg) (c : Nat)
    (hcur : ∀ a ∈ w.accepted, a = Ver.v200.code ∨ a = Ver.v033.code)
    (h : wireInbound w magicOK offered m = (c, true)) : SameChain w.l m.st := by
  obtain ⟨_, _, _, hacc, _, v, hv, _, hver⟩ := wire_inbound_ok w magicOK offered m c h
  have hv' : v = .v200 ∨ v = .v033 := by
    rcases hcur c hacc with rfl | rfl
    · left; simpa [verOfCode, Ver.code] using hv.symm
    · right; simpa [verOfCode, Ver.code] using hv.symm
  exact (versioned_same_chain_partial w v m hver (by rcases hv' with h | h <;> simp [h])).2

/-- **Same chain only, outbound** — the version is whatever the remote answers (it is not compared with
what the node offered), so the guard is on the handshaker factory. -/
theorem wire_outbound_same_chain_partial (w : WireLocal) (magicOK : Bool) (answered : Nat) (m : PeerMsg)
    (hcur : ∀ v ∈ w.made, v = .v200 ∨ v = .v033)
    (h : (wireOutbound w magicOK answered m).2 = true) : SameChain w.l m.st := by
  unfold wireOutbound at h
  split at h
  · simp at h
  · split at h
    · simp at h
    · rename_i v hv
      split at h
      · rename_i hm
        have hv' := hcur v (by simpa using hm)
        exact (versioned_same_chain_partial w v m h (by rcases hv' with h | h <;> simp [h])).2
      · simp at h

/-- the outbound side does not look at the node's version list at all -/
theorem wire_outbound_ignores_offer (w : WireLocal) (acc' : List Nat) (magicOK : Bool) (answered : Nat) (m : PeerMsg) :
    wireOutbound { w with accepted := acc' } magicOK answered m = wireOutbound w magicOK answered m := by
  unfold wireOutbound versioned
  rfl

/-- the production node: `AcceptedInboundVersions = {2.0.0, 0.3.3, 0.3.2, 0.3.1}`, a handshaker for each;
genesis-era chain id version 0, version 2 from height 100 on -/
def exWire : WireLocal :=
  ⟨[Ver.v200.code, Ver.v033.code, Ver.v032.code, Ver.v031.code], [.v200, .v033, .v032, .v031],
   ⟨0, true, false, [97, 98], [99, 100]⟩,
   ⟨fun h => ⟨if h < 100 then 0 else 2, true, false, [97, 98], [99, 100]⟩, [1, 2, 3], [9, 9]⟩⟩

/-- a peer on another chain: other genesis hash, genesis-era chain id at height 500 -/
def exForeign : PeerMsg :=
  ⟨true, true, ⟨[0, 0, 0, 0, 1, 0, 97, 98, 47, 99, 100], 500, List.replicate 32 5, some ⟨true, [1, 2, 3], 1, []⟩, [7, 7], []⟩⟩

/-- **Negation with a concrete witness** of the full statement: a peer that offers only 0.3.1 completes the
inbound handshake with another genesis hash and a chain id that is not the node's at that height; the
same peer is refused at 0.3.3 and 2.0.0; with the right genesis hash it still passes 0.3.2 at the wrong
era; and the outbound side accepts 0.3.1 when the remote answers it. -/
theorem wire_same_chain_fails :
    ¬ (∀ (w : WireLocal) (magicOK : Bool) (offered : List Nat) (m : PeerMsg),
        (wireInbound w magicOK offered m).2 = true → SameChain w.l m.st) := by
  intro h
  have := (h exWire true [Ver.v031.code] exForeign (by decide)).1
  revert this
  decide

/-- test on sample values: the same foreign peer, version by version -/
example :
    wireInbound exWire true [Ver.v031.code] exForeign = (Ver.v031.code, true)
      ∧ wireInbound exWire true [Ver.v033.code, Ver.v031.code] exForeign = (Ver.v033.code, false)
      ∧ wireInbound exWire true [Ver.v200.code] exForeign = (Ver.v200.code, false)
      ∧ wireInbound exWire true [Ver.v032.code] exForeign = (Ver.v032.code, false)
      ∧ wireInbound exWire true [Ver.v032.code] { exForeign with st := { exForeign.st with genesis := [9, 9] } } = (Ver.v032.code, true)
      ∧ wireOutbound { exWire with accepted := [Ver.v200.code] } true Ver.v031.code exForeign = (Ver.v031.code, true)
      ∧ wireInbound exWire true [0x300, 5] exForeign = (0, false)
      ∧ wireInbound exWire false [Ver.v031.code] exForeign = (0, false) := by
  refine ⟨?_, ?_, ?_, ?_, ?_, ?_, ?_, ?_⟩ <;> decide

/-- non-vacuity of the partial theorems: a node with only the current versions accepts a same-chain peer -/
example :
    wireInbound { exWire with accepted := [Ver.v200.code, Ver.v033.code], made := [.v200, .v033] } true [Ver.v031.code, Ver.v033.code]
        ⟨true, true, ⟨[2, 0, 0, 0, 1, 0, 97, 98, 47, 99, 100], 500, List.replicate 32 5, some ⟨true, [1, 2, 3], 1, []⟩, [9, 9], []⟩⟩
      = (Ver.v033.code, true) := by decide

end Handshake

/-! ## 3. Content-addressed blocks

FULL statement (not provable: refuted below on the model, reproduced on the real code by the harness,
known-finding class `C18-id-not-recomputed`):

```
id_is_digest : ∀ H maxBlock requested resps bs,
    .deliver bs ∈ run maxBlock (Recv.init requested) resps →
    bs.map (fun b => H b.header) = requested        -- every block handed on hashes to the requested id
bad_copy_harmless : processing an altered copy (identifier, header or body changed) does not change
    the node's verdict on the genuine block later    -- needs the chain service (errBlocks): C05 harness
```
-/
section BlockId
open Aergo.BlockId

/-- `BlockHash()` trusts the carried field: whenever it is non-empty it *is* the identifier. -/
theorem blockHash_carried (H : Bytes → Bytes) (b : Block) (h : b.hash ≠ []) : blockHash H b = b.hash := by
  simp [blockHash, List.isEmpty_iff, h]

/-- `id_is_digest`, the part that holds: under the guard that the carried field is empty or genuine,
the identifier is the digest of the block's own header. -/
theorem id_is_digest_partial (H : Bytes → Bytes) (b : Block) (h : b.hash = [] ∨ b.hash = H b.header) :
    blockHash H b = H b.header := by
  rcases h with h | h
  · simp [blockHash, h]
  · by_cases he : b.hash = []
    · simp [blockHash, he]
    · rw [blockHash_carried H b he, h]

/-- non-vacuity (test on sample values): both arms of the guard -/
example : blockHash (fun h => h ++ [1]) ⟨[], [7], 0⟩ = [7, 1] ∧ blockHash (fun h => h ++ [1]) ⟨[7, 1], [7], 0⟩ = [7, 1] := by
  decide

/-- **Negation with a concrete witness**: outside that guard the identifier is not the digest of the
header — a block carrying a foreign `Hash` is known under that foreign value. -/
theorem id_is_digest_fails : ¬ ∀ (H : Bytes → Bytes) (b : Block), blockHash H b = H b.header := by
  intro h
  have := h (fun x => x ++ [1]) ⟨[9], [7], 0⟩
  revert this
  decide

/-- **What the receiver does check**: in every session (any request, any sequence of responses),
whatever is delivered to the syncer carries exactly the requested identifiers, in order, and no
block over the size limit. -/
theorem receiver_delivers_requested_ids (maxBlock : Nat) (r : Recv) (xs : List Resp) (bs : List Block)
    (hinv : GotOK maxBlock r.requested r.got) (h : Out.deliver bs ∈ run maxBlock r xs) :
    bs.map (·.hash) = r.requested ∧ ∀ b ∈ bs, b.size ≤ maxBlock := by
  induction xs generalizing r with
  | nil => simp [run] at h
  | cons x xs ih =>
    simp only [run, List.mem_cons] at h
    rcases h with h | h
    · exact step_deliver maxBlock r x bs hinv h.symm
    · have := ih (step maxBlock r x).1 (step_inv maxBlock r x hinv) h
      rwa [step_requested] at this

/-- the same from a fresh receiver -/
theorem receiver_delivers_requested_ids_init (maxBlock : Nat) (requested : List Bytes) (xs : List Resp)
    (bs : List Block) (h : Out.deliver bs ∈ run maxBlock (Recv.init requested) xs) :
    bs.map (·.hash) = requested ∧ ∀ b ∈ bs, b.size ≤ maxBlock :=
  receiver_delivers_requested_ids maxBlock (Recv.init requested) xs bs (gotOK_init maxBlock requested) h

/-- The receiver cannot tell an altered block from the genuine one as long as the carried `Hash`
field and the size are kept: its whole output is the same, with the altered blocks in place. -/
theorem receiver_blind_to_content (f : Block → Block) (hf : KeepsId f) (maxBlock : Nat) (r : Recv)
    (xs : List Resp) :
    run maxBlock (mapRecv f r) (xs.map (mapResp f)) = (run maxBlock r xs).map (mapOut f) := by
  induction xs generalizing r with
  | nil => simp [run]
  | cons x xs ih =>
    simp only [List.map_cons, run, step_map f hf, ih]


/-- **Negation with a concrete witness** of `id_is_digest` at the receiver: one block requested, the
answer is a copy whose header was altered but which still carries the requested identifier; the
receiver delivers it although its header does not hash to the request. -/
theorem receiver_forwards_altered_copy :
    ¬ ∀ (H : Bytes → Bytes) (maxBlock : Nat) (requested : List Bytes) (xs : List Resp) (bs : List Block),
        Out.deliver bs ∈ run maxBlock (Recv.init requested) xs → bs.map (fun b => H b.header) = requested := by
  intro h
  have := h (fun x => x) 100 [[1]] [⟨true, true, [⟨[1], [2], 10⟩], false⟩] [⟨[1], [2], 10⟩] (by decide)
  revert this
  decide

end BlockId

/-! ## 3b. Blocks that arrive as notices (sync manager)

`HandleBlockProducedNotice` / `HandleNewBlockNotice` / `HandleGetBlockResponse` behind their handlers.
The table of seen identifiers is keyed by the *announced* identifier. Clause "content that does not hash
to the announced identifier is discarded without affecting what the node will later accept", at this
entry point and for every history of arrivals:

* `genuine_refused_only_if_known`, `altered_copies_never_veto`: whatever arrived before — any number of
  copies with other content under the same identifier, from anybody — the producer's notice is passed to
  the chain service unless the very same content was passed before or the block was already asked for
  (a NewBlockNotice named it: the de-duplication the code intends).
* `notice_refused_only_if_asked`: a NewBlockNotice leads to a request unless an earlier NewBlockNotice
  named the identifier.
* `untouched_harmless`: arrivals refused before the table (malformed identifier, sender not entitled,
  oversized, unsolicited responses) leave no trace at all: the session without them behaves identically.

Fixed findings `C18-seen-cache-poisoned-by-altered-notice` (27f3484f, 3a7d8024): before, any copy that
passed the sender check — the sender only has to put its own key into the copy's header — vetoed the
genuine notice and every later NewBlockNotice. Not claimed: that what is forwarded hashes to its
identifier (it does not: `C18-id-not-recomputed`, the model has no header at all here). -/
section Notice
open Aergo.Notice

/-- a BlockProducedNotice that passes every check in front of the table, with content token `c` -/
abbrev goodBP (id c : Bytes) : Arr := .bp id true true true true c

/-- a NewBlockNotice that reaches the sync manager -/
abbrev goodNB (id : Bytes) (chainHas : Bool) : Arr := .nb id true false chainHas

/-- **When is the producer's notice passed on?** Exactly when the table does not hold a placeholder or
the very same content under that identifier. -/
theorem bp_forward_iff (s : Seen) (id c : Bytes) :
    (step s (goodBP id c)).2 = .forward id ↔
      s.lookup id ≠ some .placeholder ∧ s.lookup id ≠ some (.digest c) := by
  have hg := get_fst s id
  unfold step
  simp only [Bool.and_self, Bool.not_true, Bool.false_eq_true, if_false]
  generalize s.get id = r at hg
  obtain ⟨o, s1⟩ := r
  simp only at hg
  subst hg
  cases hl : s.lookup id with
  | none => simp
  | some v =>
    cases v with
    | placeholder => simp
    | digest c' =>
      by_cases hc : c' = c
      · subst hc; simp
      · simp [hc]

/-- **When does a NewBlockNotice lead to a request?** Exactly when the chain lacks the block and the
table holds no placeholder for it (a content digest does not count). -/
theorem nb_request_iff (s : Seen) (id : Bytes) (chainHas : Bool) :
    (step s (goodNB id chainHas)).2 = .request id ↔ chainHas = false ∧ s.lookup id ≠ some .placeholder := by
  unfold step
  simp only [Bool.not_false, Bool.and_self, Bool.not_true, Bool.false_eq_true, if_false]
  cases hl : s.lookup id with
  | none => cases chainHas <;> simp
  | some v =>
    cases v with
    | placeholder => simp
    | digest c => cases chainHas <;> simp

/-- **Clause 3 at the sync manager, every history**: after any session from an empty table, the
producer's notice is refused only if the session contained a NewBlockNotice naming the identifier or a
BlockProducedNotice with the very same content. -/
theorem genuine_refused_only_if_known (cap : Nat) (h : List Arr) (id c : Bytes)
    (hr : (step (run ⟨cap, []⟩ h).1 (goodBP id c)).2 ≠ .forward id) :
    (∃ ch, goodNB id ch ∈ h) ∨ goodBP id c ∈ h := by
  have : ¬ ((run ⟨cap, []⟩ h).1.lookup id ≠ some .placeholder ∧ (run ⟨cap, []⟩ h).1.lookup id ≠ some (.digest c)) :=
    fun hh => hr ((bp_forward_iff _ id c).mpr hh)
  have hcase : (run ⟨cap, []⟩ h).1.lookup id = some .placeholder ∨ (run ⟨cap, []⟩ h).1.lookup id = some (.digest c) := by
    by_cases h1 : (run ⟨cap, []⟩ h).1.lookup id = some .placeholder
    · exact Or.inl h1
    · by_cases h2 : (run ⟨cap, []⟩ h).1.lookup id = some (.digest c)
      · exact Or.inr h2
      · exact absurd ⟨h1, h2⟩ this
  rcases hcase with hl | hl
  · rcases run_mem _ h _ (lookup_mem _ id _ hl) with hm | ⟨a, ha, hp⟩
    · simp at hm
    · obtain ⟨ch, rfl⟩ := hp
      exact Or.inl ⟨ch, ha⟩
  · rcases run_mem _ h _ (lookup_mem _ id _ hl) with hm | ⟨a, ha, hp⟩
    · simp at hm
    · simp only [Puts] at hp
      subst hp
      exact Or.inr ha

/-- **Altered copies never veto the genuine block**: if nobody announced the block by a NewBlockNotice and
the genuine content was not passed on before, the producer's notice goes to the chain service — whatever
else the session contained (copies with other content under the same identifier included). -/
theorem altered_copies_never_veto (cap : Nat) (h : List Arr) (id c : Bytes)
    (hnb : ∀ ch, goodNB id ch ∉ h) (hc : goodBP id c ∉ h) :
    (step (run ⟨cap, []⟩ h).1 (goodBP id c)).2 = .forward id := by
  by_cases hf : (step (run ⟨cap, []⟩ h).1 (goodBP id c)).2 = .forward id
  · exact hf
  · rcases genuine_refused_only_if_known cap h id c hf with ⟨ch, hm⟩ | hm
    · exact absurd hm (hnb ch)
    · exact absurd hm hc

/-- **A NewBlockNotice is ignored only if the block was already asked for**: after any session, a notice
for a block the chain lacks produces a request unless an earlier NewBlockNotice named it. -/
theorem notice_refused_only_if_asked (cap : Nat) (h : List Arr) (id : Bytes)
    (hr : (step (run ⟨cap, []⟩ h).1 (goodNB id false)).2 ≠ .request id) : ∃ ch, goodNB id ch ∈ h := by
  have hl : (run ⟨cap, []⟩ h).1.lookup id = some .placeholder := by
    by_cases h1 : (run ⟨cap, []⟩ h).1.lookup id = some .placeholder
    · exact h1
    · exact absurd ((nb_request_iff _ id false).mpr ⟨rfl, h1⟩) hr
  rcases run_mem _ h _ (lookup_mem _ id _ hl) with hm | ⟨a, ha, hp⟩
  · simp at hm
  · obtain ⟨ch, rfl⟩ := hp
    exact ⟨ch, ha⟩

/-- does the arrival get as far as the table? -/
def touches : Arr → Bool
  | .bp _ present lenOK senderOK sizeOK _ => present && lenOK && senderOK && sizeOK
  | .nb _ lenOK peerSeen _ => lenOK && !peerSeen
  | .gbr _ _ => false

/-- an arrival refused in front of the table leaves the table as it was -/
theorem step_untouched (s : Seen) (a : Arr) (h : touches a = false) : (step s a).1 = s := by
  unfold step
  cases a with
  | bp id p l sd sz c =>
    simp only [touches] at h
    cases p <;> cases l <;> cases sd <;> cases sz <;> simp_all
  | nb id l ps ch =>
    simp only [touches] at h
    cases l <;> cases ps <;> simp_all
  | gbr ok bs =>
    simp only
    split
    · rfl
    · split
      · split <;> rfl
      · rfl

/-- **Refused arrivals are harmless** (malformed identifier, sender not entitled to send the block,
oversized copy, unsolicited response): the table after the session, and what happens to every other
arrival, are the same as in the session without them. -/
theorem untouched_harmless (s : Seen) (h : List Arr) :
    (run s h).1 = (run s (h.filter touches)).1 ∧
      ((h.zip (run s h).2).filter (fun p => touches p.1)).map (·.2) = (run s (h.filter touches)).2 := by
  induction h generalizing s with
  | nil => simp [run]
  | cons a as ih =>
    by_cases ht : touches a = true
    · simp only [run, List.filter_cons, ht, if_true, List.zip_cons_cons, List.map_cons]
      exact ⟨(ih _).1, by rw [(ih _).2]⟩
    · have hf : touches a = false := by simpa using ht
      simp only [run, List.filter_cons, hf, List.zip_cons_cons, step_untouched s a hf]
      simpa using ih s

/-- nothing larger than a block may be is passed to the chain service -/
theorem forward_only_within_size (s : Seen) (a : Arr) (id : Bytes) (h : (step s a).2 = .forward id) :
    (∃ c, a = goodBP id c) ∨ (a = .gbr true [(id, true)]) := by
  unfold step at h
  cases a with
  | bp id' p l sd sz c =>
    simp only at h
    split at h
    · simp at h
    · rename_i h1
      split at h
      · simp at h
      · rename_i h2
        have hp : p = true ∧ l = true ∧ sd = true ∧ sz = true := by
          cases p <;> cases l <;> cases sd <;> cases sz <;> simp_all
        obtain ⟨rfl, rfl, rfl, rfl⟩ := hp
        split at h
        · split at h
          · simp at h
          · simp at h; subst h; exact Or.inl ⟨c, rfl⟩
        · simp at h; subst h; exact Or.inl ⟨c, rfl⟩
  | nb id' l ps ch =>
    simp only at h
    split at h
    · simp at h
    · split at h
      · simp at h
      · split at h <;> simp at h
      · split at h <;> simp at h
  | gbr ok bs =>
    simp only at h
    split at h
    · simp at h
    · rename_i hok
      split at h
      · rename_i id' szok
        split at h
        · rename_i hz
          simp at h; subst h
          have : ok = true := by simpa using hok
          subst this; subst hz
          exact Or.inr rfl
        · simp at h
      · simp at h

/-- regression of the fixed findings (test on sample values, table of 300 entries as in production): an
altered copy first — the producer's notice still goes through, and so does a later NewBlockNotice; the
same content twice is a duplicate; an oversized copy and a copy from a sender that is not entitled leave no
trace; a bare NewBlockNotice still makes the producer's notice a duplicate (intended de-duplication). -/
example :
    (run ⟨300, []⟩ [goodBP [1] [7], goodBP [1] [8], goodNB [1] false, goodBP [1] [8]]).2
        = [.forward [1], .forward [1], .request [1], .nothing]
      ∧ (run ⟨300, []⟩ [.bp [1] true true true false [7], .bp [1] true true false true [7], goodBP [1] [8]]).2
        = [.nothing, .nothing, .forward [1]]
      ∧ (run ⟨300, []⟩ [goodNB [1] false, goodBP [1] [8], goodNB [1] false]).2 = [.request [1], .nothing, .nothing]
      ∧ (run ⟨1, []⟩ [goodNB [1] false, goodNB [2] false, goodNB [1] false]).2 = [.request [1], .request [2], .request [1]] := by
  refine ⟨?_, ?_, ?_, ?_⟩ <;> decide

end Notice

end Aergo.Props.C18
