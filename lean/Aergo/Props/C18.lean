/-
C18 — P2P boundary: bounded framing, same-chain peers only, content-addressed blocks.

"A message written by one node is read back identically by another, and reading from an arbitrary
byte stream never allocates more than the configured maximum payload, never panics and fails cleanly
on truncated or oversized frames. A handshake succeeds only with a peer that presents the same
genesis block, a compatible chain identifier and the peer identity of the connection. A block
obtained from the network is stored and referenced only under the digest of its own header, so
content that does not hash to the announced identifier is discarded without affecting what the node
will later accept."

Quantifier: all messages (all sub-protocol ids, payload sizes 0..limit+1), all byte streams
(truncation at every offset, random bytes), all handshake status messages differing from the local
one in any single field, all received blocks whose announced identifier, header or body was altered.

Clauses and where they are carried:

1. framing (`Model/Frame.lean` over the *regenerated* header layout `Gen/Frame.lean`):
   `frame_roundtrip`, `stream_roundtrip`, `read_bounded`, `read_oversized_refused`, `read_never_panics`,
   `read_total`, `read_truncated`, `write_refuses`, `write_never_panics`, `header_layout_ok`.
   All for every `max`, every message, every byte list: no size bound anywhere.
2. handshake (`Model/Handshake.lean`): `handshake_iff` (V200), `handshake_iff_v033`,
   `handshake_same_chain`, and one theorem per single deviating field
   (`handshake_rejects_genesis / _peer_id / _chain_id / _height_era / _best_hash / _no_sender`).
3. content-addressed blocks (`Model/BlockId.lean`): the pinned code does NOT satisfy this clause.
   `id_is_digest` (full statement, in a comment below) is refuted by a concrete witness
   (`id_is_digest_fails`, `receiver_forwards_altered_copy`); what holds is proved as
   `id_is_digest_partial` (under exactly the guard "the carried Hash field is empty or genuine"),
   `receiver_delivers_requested_ids` (the receiver compares *carried* identifiers with the request, for
   every response sequence) and `receiver_blind_to_content` (it cannot tell an altered block from the
   genuine one). `bad_copy_harmless` (an altered copy does not change the verdict on the genuine
   block later) needs the chain service and is not carried by a theorem here: see C05 / `chainsvc`.
-/
import Aergo.Lemmas.Frame
import Aergo.Model.Handshake
import Aergo.Lemmas.BlockId

namespace Aergo.Props.C18

/-! ## 1. Framing -/
section Framing
open Aergo.Frame Aergo.Gen.Frame

/-- the frame of a message: header then payload — what a successful `WriteMsg` emits -/
def frame (m : Msg) : Bytes := header m ++ m.payload

/-- a message `WriteMsg` accepts under limit `max`: fields in the range of their Go types, `Length()`
equal to the payload length, payload not larger than the limit -/
def Sendable (max : Nat) (m : Msg) : Prop := m.WF ∧ m.len = m.payload.length ∧ m.len ≤ max

/-- encoding width of a slot -/
def width : Enc → Nat
  | .u32be => 4
  | .u64be => 8
  | .bytes16 => 16

/-- the slots start at `pos`, follow each other without gap or overlap, each as wide as its encoding -/
def tiles : Nat → List Slot → Option Nat
  | pos, [] => some pos
  | pos, s :: ss => if s.lo = pos ∧ s.hi = pos + width s.enc then tiles s.hi ss else none

/-- **Tie T** (finite check over the tables regenerated from `marshalHeader` / `parseHeader` on this
run): the writes tile the header exactly — no gap through which bytes of the previous message could
leak from the reused buffer, no overlap — and the reader reads the same slots the writer writes. -/
theorem header_layout_ok :
    tiles 0 marshalLayout = some headerLength ∧ parseLayout = marshalLayout := by decide

/-- `WriteMsg` on a sendable message emits its frame, whatever the reused header buffer held before. -/
theorem write_ok (max : Nat) (buf : Bytes) (m : Msg) (hs : Sendable max m) (hbuf : buf.length = headerLength) :
    writeMsg max buf m = .ok (frame m) := by
  obtain ⟨⟨h1, h2, h3, hid, ho⟩, hlen, hmax⟩ := hs
  have hmod : m.payload.length % 2 ^ 32 = m.len := by rw [← hlen]; exact Nat.mod_eq_of_lt h2
  simp only [writeMsg, hmod, ne_eq, not_true_eq_false, if_false]
  rw [if_neg (by omega), marshalHeader_eq buf m hbuf hid ho]
  simp [hlen, frame, header]

/-- non-vacuity (test on sample values): a sendable message with a non-empty payload -/
example : Sendable 4 ⟨0x11, 2, 3, List.replicate 16 7, List.replicate 16 9, [1, 2]⟩ := by
  simp [Sendable, Msg.WF]

/-- A frame is the 48-byte header followed by the payload. -/
theorem frame_length (m : Msg) (hwf : m.WF) : (frame m).length = headerLength + m.payload.length := by
  simp [frame, header_length m hwf, headerLength]

/-- Reading a frame (followed by anything) returns the message, leaves exactly the bytes after it, and allocates exactly the payload length. -/
theorem frame_roundtrip_read (max : Nat) (m : Msg) (rest : Bytes) (hs : Sendable max m) :
    readMsg max (frame m ++ rest) = ⟨.ok m rest, m.len⟩ := by
  obtain ⟨hwf, hlen, hmax⟩ := hs
  have hl := header_length m hwf
  have htake : (frame m ++ rest).take headerLength = header m := by
    simp [frame, headerLength, List.append_assoc, hl]
  have hdrop : (frame m ++ rest).drop headerLength = m.payload ++ rest := by
    simp [frame, headerLength, List.append_assoc, hl]
  have hlen' : ¬ (frame m ++ rest).length < headerLength := by
    simp [frame, hl, headerLength]
  simp only [readMsg, hlen', if_false, htake, parseHeader_header m hwf, hdrop]
  rw [if_neg (by simpa using hmax)]
  have hm : m = ⟨m.sub, m.payload.length, m.ts, m.id, m.orig, m.payload⟩ := by
    cases m; simp_all
  simp only [hlen]
  rw [if_neg (by simp), List.take_left, List.drop_left, ← hm]


/-- **Round trip**: what one node writes (whatever its header buffer held before), another node with
the same limit reads back identically, followed by whatever else is on the stream, allocating
exactly the payload length. -/
theorem frame_roundtrip (max : Nat) (buf : Bytes) (m : Msg) (rest : Bytes) (hs : Sendable max m)
    (hbuf : buf.length = headerLength) :
    ∃ bytes, writeMsg max buf m = .ok bytes ∧ readMsg max (bytes ++ rest) = ⟨.ok m rest, m.len⟩ :=
  ⟨frame m, write_ok max buf m hs hbuf, frame_roundtrip_read max m rest hs⟩

/-- test on sample values: a concrete frame, read back with a trailing byte -/
example : readMsg 4 (frame ⟨0x11, 2, 3, List.replicate 16 7, List.replicate 16 9, [1, 2]⟩ ++ [0xff])
    = ⟨.ok ⟨0x11, 2, 3, List.replicate 16 7, List.replicate 16 9, [1, 2]⟩ [0xff], 2⟩ := by decide

/-- A connection carrying any sequence of sendable messages back to back is read as exactly that sequence, then the reader's clean end-of-stream; the largest allocation is the largest payload. -/
theorem stream_roundtrip (max : Nat) (ms : List Msg) (h : ∀ m ∈ ms, Sendable max m) (fuel : Nat)
    (hf : ms.length < fuel) :
    readAll max fuel (ms.flatMap frame) = (ms, .err .eof, ms.foldr (fun m a => Nat.max m.len a) 0) := by
  induction ms generalizing fuel with
  | nil =>
    obtain ⟨f, rfl⟩ : ∃ f, fuel = f + 1 := ⟨fuel - 1, by simp at hf; omega⟩
    simp [readAll, readMsg, headerLength]
  | cons m ms ih =>
    obtain ⟨f, rfl⟩ : ∃ f, fuel = f + 1 := ⟨fuel - 1, by simp at hf; omega⟩
    have hm := h m (by simp)
    have ih' := ih (fun x hx => h x (by simp [hx])) f (by simp at hf; omega)
    simp only [List.flatMap_cons, readAll, frame_roundtrip_read max m _ hm, ih', List.foldr_cons]


/-- **Bounded allocation**: for every byte stream, `ReadMsg` never allocates a payload buffer larger than the configured maximum. -/
theorem read_bounded (max : Nat) (bs : Bytes) : (readMsg max bs).alloc ≤ max := by
  rw [readMsg_cases]
  simp only
  split
  · simp
  · split
    · simp
    · split <;> (simp; omega)

/-- **Oversized frames**: a header declaring more than the maximum is refused with `tooBig` before anything is allocated (and without touching the rest of the stream). -/
theorem read_oversized_refused (max : Nat) (bs : Bytes) (d : Nat) (hlen : headerLength ≤ bs.length)
    (hd : declared bs = some d) (hgt : d > max) : readMsg max bs = ⟨.err .tooBig, 0⟩ := by
  simp only [declared, headerLength, parseHeader_eq, Option.map_some, Option.some.injEq] at hd
  rw [readMsg_cases]
  simp only [headerLength] at hlen
  simp only [hd]
  rw [if_neg (by omega), if_pos hgt]

/-- `ReadMsg` never panics, whatever the bytes (the only panic site, `MustParseBytes`, always gets 16 bytes under the generated layout). -/
theorem read_never_panics (max : Nat) (bs : Bytes) : (readMsg max bs).res ≠ .panic := by
  rw [readMsg_cases]
  simp only
  split
  · simp
  · split
    · simp
    · split <;> simp

/-- **Totality and soundness of the decoder**: every byte stream is either decoded — and then the stream *is* the frame of the returned, sendable message followed by the remainder, so decoding inverts encoding — or is rejected by one of three clean errors, each characterised exactly. -/
theorem read_total (max : Nat) (bs : Bytes) :
    (∃ m rest, readMsg max bs = ⟨.ok m rest, m.len⟩ ∧ Sendable max m ∧ bs = frame m ++ rest)
    ∨ readMsg max bs = ⟨.err .eof, 0⟩ ∧ bs.length < headerLength
    ∨ (∃ d, readMsg max bs = ⟨.err .tooBig, 0⟩ ∧ declared bs = some d ∧ d > max)
    ∨ (∃ d, readMsg max bs = ⟨.err .short, d⟩ ∧ declared bs = some d ∧ d ≤ max ∧ bs.length < headerLength + d) := by
  rw [readMsg_cases]
  simp only [declared, headerLength, parseHeader_eq, Option.map_some]
  by_cases h1 : bs.length < 48
  · right; left; simp [h1]
  · rw [if_neg h1]
    by_cases h2 : fromBE ((slice (bs.take 48) 4 8).take 4) > max
    · right; right; left; exact ⟨_, by rw [if_pos h2], rfl, h2⟩
    · rw [if_neg h2]
      by_cases h3 : (bs.drop 48).length < fromBE ((slice (bs.take 48) 4 8).take 4)
      · right; right; right
        refine ⟨_, by rw [if_pos h3], rfl, by omega, ?_⟩
        simp at h3; omega
      · left
        rw [if_neg h3]
        have hl : (bs.take 48).length = 48 := by simp; omega
        have h3' : fromBE ((slice (bs.take 48) 4 8).take 4) ≤ (bs.drop 48).length := by omega
        refine ⟨_, _, rfl, ⟨parsed_wf _ _ hl, ?_, by simpa using h2⟩, ?_⟩
        · simp only [List.length_take]; omega
        · simp only [frame, header_of_parsed _ _ hl]
          rw [List.append_assoc, List.take_append_drop, List.take_append_drop]


/-- **Truncation at every offset**: every proper prefix of a valid frame is a clean error — `eof` (the reader's own io.EOF) when the cut is inside the header, `short` when it is inside the payload; in the latter case the payload buffer (≤ max) had been allocated. -/
theorem read_truncated (max : Nat) (m : Msg) (k : Nat) (hs : Sendable max m) (hk : k < (frame m).length) :
    readMsg max ((frame m).take k) =
      if k < headerLength then ⟨.err .eof, 0⟩ else ⟨.err .short, m.len⟩ := by
  obtain ⟨hwf, hlen, hmax⟩ := hs
  have hl := header_length m hwf
  have hfl := frame_length m hwf
  have hH : headerLength = 48 := rfl
  by_cases h1 : k < headerLength
  · rw [if_pos h1]
    simp only [readMsg]
    rw [if_pos (by simp; omega)]
  · rw [if_neg h1]
    have htake : ((frame m).take k).take headerLength = header m := by
      rw [List.take_take, Nat.min_eq_left (by omega)]
      simp [frame, hl, hH]
    simp only [readMsg]
    rw [if_neg (by simp; omega), htake, parseHeader_header m hwf]
    simp only
    rw [if_neg (by omega), if_pos (by simp; omega)]

/-- `WriteMsg` refuses a message whose declared length exceeds the maximum or differs from the payload's length (for payloads ≥ 4 GiB whose length wraps to `Length()` the refusal is the late `wrong write`, see `Model/Frame.lean`). -/
theorem write_refuses (max : Nat) (buf : Bytes) (m : Msg) (hwf : m.WF) (hbuf : buf.length = headerLength)
    (h : m.len > max ∨ m.len ≠ m.payload.length) : ∃ e, writeMsg max buf m = .err e := by
  obtain ⟨_, _, _, hid, ho⟩ := hwf
  simp only [writeMsg]
  split
  · exact ⟨_, rfl⟩
  · split
    · exact ⟨_, rfl⟩
    · rw [marshalHeader_eq buf m hbuf hid ho]
      simp only
      split
      · exact ⟨_, rfl⟩
      · rename_i h1 h2 h3
        omega

/-- `WriteMsg` never panics on a well-typed message. -/
theorem write_never_panics (max : Nat) (buf : Bytes) (m : Msg) (hwf : m.WF) (hbuf : buf.length = headerLength) :
    writeMsg max buf m ≠ .panic := by
  obtain ⟨_, _, _, hid, ho⟩ := hwf
  simp only [writeMsg]
  split
  · simp
  · split
    · simp
    · rw [marshalHeader_eq buf m hbuf hid ho]
      simp only
      split <;> simp


/-- test on sample values: the boundary. Declared length `max` with the payload present is read,
`max + 1` is refused without allocation, a header cut at byte 47 is `eof`, a payload cut short is `short`. -/
example : (readMsg 2 (header ⟨1, 2, 0, List.replicate 16 0, List.replicate 16 0, []⟩ ++ [5, 6])).alloc = 2
    ∧ readMsg 2 (header ⟨1, 3, 0, List.replicate 16 0, List.replicate 16 0, []⟩ ++ [5, 6, 7]) = ⟨.err .tooBig, 0⟩
    ∧ readMsg 2 ((header ⟨1, 2, 0, List.replicate 16 0, List.replicate 16 0, []⟩).take 47) = ⟨.err .eof, 0⟩
    ∧ readMsg 2 (header ⟨1, 2, 0, List.replicate 16 0, List.replicate 16 0, []⟩ ++ [5]) = ⟨.err .short, 2⟩ := by
  decide

end Framing

/-! ## 2. Handshake -/
section Handshake
open Aergo.Handshake

/-- What `checkRemoteStatus` (V200) decides: the chain id parses and equals the local chain id *at the remote's best height*; best block hash is 32 bytes; a sender is present with a usable address; the sender's peer id is the connection's; the genesis hash is the local one; an agent carries valid certificates from listed producers. -/
def Accept200 (l : Local) (st : Status) : Prop :=
  ∃ rc s, parseChainID st.chainID = some rc ∧ l.chainAt st.bestHeight = rc ∧ st.bestHash.length = 32 ∧
    st.sender = some s ∧ s.addrOK = true ∧ s.peerID = l.peerID ∧ st.genesis = l.genesis ∧
    (decodeRole s.role = roleAgent → checkAgent s st.certs = true)

/-- What `checkRemoteStatus` (V033) decides (no best-hash and no role check). -/
def Accept033 (l : Local) (st : Status) : Prop :=
  ∃ rc s, parseChainID st.chainID = some rc ∧ l.chainAt st.bestHeight = rc ∧
    st.sender = some s ∧ s.addrOK = true ∧ s.peerID = l.peerID ∧ st.genesis = l.genesis

/-- **Handshake strictness (V200)**: success ⇔ every clause of `Accept200`. -/
theorem handshake_iff (l : Local) (st : Status) : checkV200 l st = .ok () ↔ Accept200 l st := by
  constructor
  · intro h
    unfold checkV200 at h
    split at h
    · simp at h
    · rename_i rc hp
      split at h
      · simp at h
      · rename_i h1
        split at h
        · simp at h
        · rename_i h2
          split at h
          · simp at h
          · rename_i s hs
            split at h
            · simp at h
            · rename_i h3
              split at h
              · simp at h
              · rename_i h4
                split at h
                · simp at h
                · rename_i h5
                  split at h
                  · simp at h
                  · rename_i h6
                    refine ⟨rc, s, hp, by simpa using h1, by simpa using h2, hs, by simpa using h3,
                      by simpa using h4, (by simpa using h5 : l.genesis = st.genesis).symm, ?_⟩
                    intro hr
                    simpa [hr] using h6
  · rintro ⟨rc, s, hp, h1, h2, hs, h3, h4, h5, h6⟩
    unfold checkV200
    simp only [hp, hs, h1, h2, h3, h4, h5]
    by_cases hr : decodeRole s.role = roleAgent
    · simp [hr, h6 hr]
    · simp [hr]

/-- **Handshake strictness (V033)**. -/
theorem handshake_iff_v033 (l : Local) (st : Status) : checkV033 l st = .ok () ↔ Accept033 l st := by
  constructor
  · intro h
    unfold checkV033 at h
    split at h
    · simp at h
    · rename_i rc hp
      split at h
      · simp at h
      · rename_i h1
        split at h
        · simp at h
        · rename_i s hs
          split at h
          · simp at h
          · rename_i h3
            split at h
            · simp at h
            · rename_i h4
              split at h
              · simp at h
              · rename_i h5
                exact ⟨rc, s, hp, by simpa using h1, hs, by simpa using h3,
                  by simpa using h4, (by simpa using h5 : l.genesis = st.genesis).symm⟩
  · rintro ⟨rc, s, hp, h1, hs, h3, h4, h5⟩
    unfold checkV033
    simp [hp, hs, h1, h3, h4, h5]


/-- **Same chain only**: a successful handshake (either version) implies the three things the property
names — same genesis, the chain id the local node has at that height, the connection's peer id. -/
theorem handshake_same_chain (l : Local) (st : Status)
    (h : checkV200 l st = .ok () ∨ checkV033 l st = .ok ()) :
    st.genesis = l.genesis ∧ parseChainID st.chainID = some (l.chainAt st.bestHeight) ∧
      ∃ s, st.sender = some s ∧ s.peerID = l.peerID := by
  rcases h with h | h
  · obtain ⟨rc, s, hp, h1, _, hs, _, h4, h5, _⟩ := (handshake_iff l st).mp h
    exact ⟨h5, by rw [hp, h1], s, hs, h4⟩
  · obtain ⟨rc, s, hp, h1, hs, _, h4, h5⟩ := (handshake_iff_v033 l st).mp h
    exact ⟨h5, by rw [hp, h1], s, hs, h4⟩

/-- single deviating field — genesis: replacing the genesis hash of an accepted status by anything else is rejected -/
theorem handshake_rejects_genesis (l : Local) (st : Status) (g : Bytes)
    (hok : checkV200 l st = .ok () ∨ checkV033 l st = .ok ()) (hg : g ≠ st.genesis) :
    checkV200 l { st with genesis := g } ≠ .ok () ∧ checkV033 l { st with genesis := g } ≠ .ok () := by
  have h0 := (handshake_same_chain l st hok).1
  constructor
  · intro h
    have := (handshake_same_chain l _ (Or.inl h)).1
    exact hg (by simpa [h0] using this)
  · intro h
    have := (handshake_same_chain l _ (Or.inr h)).1
    exact hg (by simpa [h0] using this)

/-- single deviating field — peer id: a sender whose peer id is not the connection's is rejected -/
theorem handshake_rejects_peer_id (l : Local) (st : Status) (s : Sender) (hs : st.sender = some s)
    (hp : s.peerID ≠ l.peerID) : checkV200 l st ≠ .ok () ∧ checkV033 l st ≠ .ok () := by
  constructor
  · intro h
    obtain ⟨_, _, s', hs', h4⟩ := handshake_same_chain l st (Or.inl h)
    rw [hs] at hs'; cases hs'; exact hp h4
  · intro h
    obtain ⟨_, _, s', hs', h4⟩ := handshake_same_chain l st (Or.inr h)
    rw [hs] at hs'; cases hs'; exact hp h4

/-- single deviating field — chain identifier: a chain id that does not decode to the local one at that
height (different version, public/main flag, magic or consensus, or malformed) is rejected -/
theorem handshake_rejects_chain_id (l : Local) (st : Status)
    (hc : parseChainID st.chainID ≠ some (l.chainAt st.bestHeight)) :
    checkV200 l st ≠ .ok () ∧ checkV033 l st ≠ .ok () :=
  ⟨fun h => hc (handshake_same_chain l st (Or.inl h)).2.1, fun h => hc (handshake_same_chain l st (Or.inr h)).2.1⟩

/-- single deviating field — best height: the same status at a height where the local chain id is a
different one (across a hard fork) is rejected -/
theorem handshake_rejects_height_era (l : Local) (st : Status) (h' : Nat)
    (hok : checkV200 l st = .ok () ∨ checkV033 l st = .ok ())
    (he : l.chainAt h' ≠ l.chainAt st.bestHeight) :
    checkV200 l { st with bestHeight := h' } ≠ .ok () ∧ checkV033 l { st with bestHeight := h' } ≠ .ok () := by
  have h0 := (handshake_same_chain l st hok).2.1
  apply handshake_rejects_chain_id
  simp only [h0, ne_eq, Option.some.injEq]
  exact fun h => he h.symm

/-- single deviating field — best block hash (V200 only; V033 ignores it, by design of that version) -/
theorem handshake_rejects_best_hash (l : Local) (st : Status) (hl : st.bestHash.length ≠ 32) :
    checkV200 l st ≠ .ok () := by
  intro h
  obtain ⟨_, _, _, _, h2, _⟩ := (handshake_iff l st).mp h
  exact hl h2

/-- single deviating field — sender absent or with an unusable address -/
theorem handshake_rejects_bad_sender (l : Local) (st : Status)
    (hs : st.sender = none ∨ ∃ s, st.sender = some s ∧ s.addrOK = false) :
    checkV200 l st ≠ .ok () ∧ checkV033 l st ≠ .ok () := by
  constructor
  · intro h
    obtain ⟨_, s, _, _, _, hs', h3, _⟩ := (handshake_iff l st).mp h
    rcases hs with hs | ⟨s2, hs, hb⟩
    · rw [hs] at hs'; cases hs'
    · rw [hs] at hs'; cases hs'; rw [h3] at hb; cases hb
  · intro h
    obtain ⟨_, s, _, _, hs', h3, _⟩ := (handshake_iff_v033 l st).mp h
    rcases hs with hs | ⟨s2, hs, hb⟩
    · rw [hs] at hs'; cases hs'
    · rw [hs] at hs'; cases hs'; rw [h3] at hb; cases hb

/-- single deviating field — role: an agent without producers, or with a certificate that is invalid,
issued to someone else, or issued by an unlisted producer, is rejected (V200) -/
theorem handshake_rejects_bad_agent (l : Local) (st : Status) (s : Sender) (hs : st.sender = some s)
    (hr : decodeRole s.role = roleAgent) (hc : checkAgent s st.certs = false) : checkV200 l st ≠ .ok () := by
  intro h
  obtain ⟨_, s', _, _, _, hs', _, _, _, h6⟩ := (handshake_iff l st).mp h
  rw [hs] at hs'; cases hs'
  rw [h6 hr] at hc; cases hc

/-- sample local view: chain id `version 1, public, not main, "ab/cd"` at every height -/
def exLocal : Local := ⟨fun _ => ⟨1, true, false, [97, 98], [99, 100]⟩, [1, 2, 3], [9, 9]⟩

/-- sample status message equal to the local view -/
def exStatus : Status :=
  ⟨[1, 0, 0, 0, 1, 0, 97, 98, 47, 99, 100], 7, List.replicate 32 5, some ⟨true, [1, 2, 3], 1, []⟩, [9, 9], []⟩

/-- test on sample values (non-vacuity of all the implications above): a local view, a status message
equal to it — chain id `version 1, public, not main, "ab/cd"` — accepted by both versions; the same
message with bool byte `0x02` instead of `0x01` is *also* accepted (`ChainID.Read` decodes "≠ 0");
with one genesis byte changed it is rejected. -/
example :
    checkV200 exLocal exStatus = .ok () ∧ checkV033 exLocal exStatus = .ok ()
      ∧ checkV200 exLocal { exStatus with chainID := [1, 0, 0, 0, 2, 0, 97, 98, 47, 99, 100] } = .ok ()
      ∧ checkV200 exLocal { exStatus with genesis := [9, 8] } = .error .genesis
      ∧ checkV200 exLocal { exStatus with chainID := [2, 0, 0, 0, 1, 0, 97, 98, 47, 99, 100] } = .error .diffChain
      ∧ checkV200 exLocal { exStatus with chainID := [1, 0, 0, 0, 1, 0, 97, 98, 99, 100] } = .error .wrongStatus := by
  refine ⟨?_, ?_, ?_, ?_, ?_, ?_⟩ <;> rfl

end Handshake

/-! ## 3. Content-addressed blocks

FULL statement (not provable: refuted below on the model, reproduced on the real code by the harness,
known-finding class `C18-id-not-recomputed`):

```
id_is_digest : ∀ H maxBlock requested resps bs,
    .deliver bs ∈ run maxBlock (Recv.init requested) resps →
    bs.map (fun b => H b.header) = requested        -- every block handed on hashes to the requested id
bad_copy_harmless : processing an altered copy (identifier, header or body changed) does not change
    the node's verdict on the genuine block later    -- needs the chain service (errBlocks): C05 harness
```
-/
section BlockId
open Aergo.BlockId

/-- `BlockHash()` trusts the carried field: whenever it is non-empty it *is* the identifier. -/
theorem blockHash_carried (H : Bytes → Bytes) (b : Block) (h : b.hash ≠ []) : blockHash H b = b.hash := by
  simp [blockHash, List.isEmpty_iff, h]

/-- `id_is_digest`, the part that holds: under the guard that the carried field is empty or genuine,
the identifier is the digest of the block's own header. -/
theorem id_is_digest_partial (H : Bytes → Bytes) (b : Block) (h : b.hash = [] ∨ b.hash = H b.header) :
    blockHash H b = H b.header := by
  rcases h with h | h
  · simp [blockHash, h]
  · by_cases he : b.hash = []
    · simp [blockHash, he]
    · rw [blockHash_carried H b he, h]

/-- non-vacuity (test on sample values): both arms of the guard -/
example : blockHash (fun h => h ++ [1]) ⟨[], [7], 0⟩ = [7, 1] ∧ blockHash (fun h => h ++ [1]) ⟨[7, 1], [7], 0⟩ = [7, 1] := by
  decide

/-- **Negation with a concrete witness**: outside that guard the identifier is not the digest of the
header — a block carrying a foreign `Hash` is known under that foreign value. -/
theorem id_is_digest_fails : ¬ ∀ (H : Bytes → Bytes) (b : Block), blockHash H b = H b.header := by
  intro h
  have := h (fun x => x ++ [1]) ⟨[9], [7], 0⟩
  revert this
  decide

/-- **What the receiver does check**: in every session (any request, any sequence of responses),
whatever is delivered to the syncer carries exactly the requested identifiers, in order, and no
block over the size limit. -/
theorem receiver_delivers_requested_ids (maxBlock : Nat) (r : Recv) (xs : List Resp) (bs : List Block)
    (hinv : GotOK maxBlock r.requested r.got) (h : Out.deliver bs ∈ run maxBlock r xs) :
    bs.map (·.hash) = r.requested ∧ ∀ b ∈ bs, b.size ≤ maxBlock := by
  induction xs generalizing r with
  | nil => simp [run] at h
  | cons x xs ih =>
    simp only [run, List.mem_cons] at h
    rcases h with h | h
    · exact step_deliver maxBlock r x bs hinv h.symm
    · have := ih (step maxBlock r x).1 (step_inv maxBlock r x hinv) h
      rwa [step_requested] at this

/-- the same from a fresh receiver -/
theorem receiver_delivers_requested_ids_init (maxBlock : Nat) (requested : List Bytes) (xs : List Resp)
    (bs : List Block) (h : Out.deliver bs ∈ run maxBlock (Recv.init requested) xs) :
    bs.map (·.hash) = requested ∧ ∀ b ∈ bs, b.size ≤ maxBlock :=
  receiver_delivers_requested_ids maxBlock (Recv.init requested) xs bs (gotOK_init maxBlock requested) h

/-- The receiver cannot tell an altered block from the genuine one as long as the carried `Hash`
field and the size are kept: its whole output is the same, with the altered blocks in place. -/
theorem receiver_blind_to_content (f : Block → Block) (hf : KeepsId f) (maxBlock : Nat) (r : Recv)
    (xs : List Resp) :
    run maxBlock (mapRecv f r) (xs.map (mapResp f)) = (run maxBlock r xs).map (mapOut f) := by
  induction xs generalizing r with
  | nil => simp [run]
  | cons x xs ih =>
    simp only [List.map_cons, run, step_map f hf, ih]


/-- **Negation with a concrete witness** of `id_is_digest` at the receiver: one block requested, the
answer is a copy whose header was altered but which still carries the requested identifier; the
receiver delivers it although its header does not hash to the request. -/
theorem receiver_forwards_altered_copy :
    ¬ ∀ (H : Bytes → Bytes) (maxBlock : Nat) (requested : List Bytes) (xs : List Resp) (bs : List Block),
        Out.deliver bs ∈ run maxBlock (Recv.init requested) xs → bs.map (fun b => H b.header) = requested := by
  intro h
  have := h (fun x => x) 100 [[1]] [⟨true, true, [⟨[1], [2], 10⟩], false⟩] [⟨[1], [2], 10⟩] (by decide)
  revert this
  decide

end BlockId

end Aergo.Props.C18
