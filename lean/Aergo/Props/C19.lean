/-
C19 — Canonical, binding encodings of blocks, transactions, receipts and chain id.

"The identifier of a block or transaction commits to every consensus-relevant field: changing any
single header field, or any transaction field including the signature, changes the identifier, and
the signed digest covers every field except the signature itself. The transaction root and receipts
root in a header commit to the exact ordered list of transactions and of receipts with every
consensus-relevant receipt field of the block's format version (status, contract address,
transaction hash, fees, gas, fee-delegation flag, events, and the return value of executions that
did not fail); receipts, chain identifiers and genesis data read back from storage equal what was
written for every hardfork version; and the hardfork version assigned to a height is monotone in the
height and stable across restarts."

Part 1 (this section): digest inputs. `Aergo.Gen.Enc` is regenerated from types/blockchain.go and
account/key/sign.go on every run: the ordered (field, encoding) lists of `writeBlockHeader`,
`writeBlockHeaderOmitSign`, `Tx.CalculateTxHash`, `CalculateHashWithoutSign`, and the exported-field
inventories of `BlockHeader` and `TxBody`. `Enc.encode spec r` is the byte string handed to SHA-256.
SHA-256 is a parameter `H`; binding statements are in reduction form: an unchanged identifier after a
single-field change *is* an explicit collision of `H` (never an axiom that none exists). Collision
conclusions always name the two inputs or bound them to finite lists computed from the operands
(`Collision H x y` with given `x y`, `CollisionIn H A B`, `Merkle.CollOn h A B`) — an unrestricted
`∃ x y, x ≠ y ∧ H x = H y` holds for every fixed-output-length `H` by counting and would make the
statements vacuous.

NOTE (not claimed): the digests concatenate variable-length fields without length prefixes, so the
encoding is *not* injective on whole records (bytes can be moved between adjacent raw fields, e.g.
`Account`/`Recipient`). The property speaks of single-field changes, which is what is proved.
-/
import Aergo.Lemmas.Enc
import Aergo.Lemmas.Merkle
import Aergo.Lemmas.Receipt
import Aergo.Lemmas.ChainId
import Aergo.Lemmas.Hardfork
import Aergo.Lemmas.Startup
import Aergo.Gen.Inv
import Aergo.Model.Inventory

namespace Aergo.Props.C19
open Aergo.Enc Aergo.Gen.Enc

/-! ### Fixed-width little-endian writer -/

/-- `binary.Write(_, LittleEndian, x)` of a `w`-byte integer writes exactly `w` bytes. -/
theorem le_length (w n : Nat) : (le w n).length = w := by
  induction w generalizing n with
  | zero => rfl
  | succ w ih => simp [le, ih]

/-- Equal `w`-byte little-endian encodings ⇒ equal values modulo `2^(8w)`. -/
theorem le_injective (w a b : Nat) (h : le w a = le w b) : a % 2 ^ (8 * w) = b % 2 ^ (8 * w) := by
  induction w generalizing a b with
  | zero => simp [Nat.mod_one]
  | succ w ih =>
    simp only [le, List.cons.injEq] at h
    obtain ⟨h0, ht⟩ := h
    have h0' : a % 256 = b % 256 := by
      have := congrArg UInt8.toNat h0
      simpa [UInt8.toNat_ofNat'] using this
    have ht' := ih _ _ ht
    have e : 2 ^ (8 * (w + 1)) = 256 * 2 ^ (8 * w) := by
      rw [Nat.mul_add, Nat.pow_add]; omega
    rw [e, Nat.mod_mul, Nat.mod_mul, h0', ht']

/-- … hence equal values for in-range integers (every `uint64`/`int64`/`int32` bit pattern). -/
theorem le_inj_of_lt (w a b : Nat) (ha : a < 2 ^ (8 * w)) (hb : b < 2 ^ (8 * w))
    (h : le w a = le w b) : a = b := by
  have := le_injective w a b h
  rwa [Nat.mod_eq_of_lt ha, Nat.mod_eq_of_lt hb] at this

-- test (sample values): 2^64-1 and 0 differ on 8 bytes, 2^64 and 0 do not (the guard is needed)
example : le 8 (2 ^ 64 - 1) ≠ le 8 0 := by decide
example : le 8 (2 ^ 64) = le 8 0 := by decide

/-! ### Generic per-field injectivity of a digest input -/

/-- **field_injective.** Two records that agree on every field but `f`, a digest spec in which `f`
occurs exactly once, equal digest inputs ⇒ the encoded field `f` is equal. (By induction on the spec;
any number, order and kinds of fields.) -/
theorem field_injective (spec : List (String × Kind)) (f : String) (k : Kind) (r r' : Rec)
    (hmem : (f, k) ∈ spec) (hcount : (names spec).count f = 1) (hagree : AgreeExcept f r r')
    (heq : encode spec r = encode spec r') : encField r (f, k) = encField r' (f, k) := by
  induction spec with
  | nil => cases hmem
  | cons fk rest ih =>
    rw [encode_cons, encode_cons] at heq
    by_cases hf : fk.1 = f
    · have hnot : f ∉ names rest := by
        intro hin
        simp only [names, List.map_cons, hf, List.count_cons_self] at hcount
        have : 0 < List.count f (List.map (·.1) rest) := List.count_pos_iff.mpr hin
        omega
      rw [encode_agree hagree rest hnot] at heq
      have hfk := List.append_cancel_right heq
      rcases List.mem_cons.mp hmem with h | h
      · rw [h]; exact hfk
      · exact absurd (List.mem_map_of_mem (f := (·.1)) h) hnot
    · rw [encField_agree hagree fk hf] at heq
      have hrest := List.append_cancel_left heq
      rcases List.mem_cons.mp hmem with h | h
      · exact absurd (by rw [← h]) hf
      · apply ih h _ hrest
        simp only [names, List.map_cons] at hcount
        rwa [List.count_cons_of_ne (by simpa using hf)] at hcount

/-- Bytes-typed field: equal digest inputs ⇒ equal field value. -/
theorem field_injective_raw (spec : List (String × Kind)) (f : String) (r r' : Rec)
    (hmem : (f, Kind.raw) ∈ spec) (hcount : (names spec).count f = 1) (hagree : AgreeExcept f r r')
    (heq : encode spec r = encode spec r') : r.raw f = r'.raw f :=
  field_injective spec f .raw r r' hmem hcount hagree heq

/-- Fixed-width field with in-range values: equal digest inputs ⇒ equal value. -/
theorem field_injective_num (spec : List (String × Kind)) (f : String) (k : Kind) (r r' : Rec)
    (hk : k ≠ .raw) (hmem : (f, k) ∈ spec) (hcount : (names spec).count f = 1)
    (hagree : AgreeExcept f r r') (hr : r.num f < 2 ^ (8 * width k)) (hr' : r'.num f < 2 ^ (8 * width k))
    (heq : encode spec r = encode spec r') : r.num f = r'.num f := by
  have h := field_injective spec f k r r' hmem hcount hagree heq
  apply le_inj_of_lt (width k) _ _ hr hr'
  cases k <;> first | exact absurd rfl hk | exact h

/-- **id_binds_field** (reduction form). If a single field `f` is changed (encoded value differs,
all other fields equal) then either the identifier `H (encode spec ·)` changes, or the two digest
inputs are an explicit collision of `H`. -/
theorem id_binds_field (H : Bytes → Bytes) (spec : List (String × Kind)) (f : String) (k : Kind)
    (r r' : Rec) (hmem : (f, k) ∈ spec) (hcount : (names spec).count f = 1)
    (hagree : AgreeExcept f r r') (hne : encField r (f, k) ≠ encField r' (f, k)) :
    H (encode spec r) ≠ H (encode spec r') ∨ Collision H (encode spec r) (encode spec r') := by
  by_cases h : H (encode spec r) = H (encode spec r')
  · exact .inr ⟨fun heq => hne (field_injective spec f k r r' hmem hcount hagree heq), h⟩
  · exact .inl h

/-- Readable corollary: with a collision-free `H` the identifier changes. -/
theorem id_binds_field_of_injective (H : Bytes → Bytes) (hH : Function.Injective H)
    (spec : List (String × Kind)) (f : String) (k : Kind) (r r' : Rec) (hmem : (f, k) ∈ spec)
    (hcount : (names spec).count f = 1) (hagree : AgreeExcept f r r')
    (hne : encField r (f, k) ≠ encField r' (f, k)) : H (encode spec r) ≠ H (encode spec r') := by
  rcases id_binds_field H spec f k r r' hmem hcount hagree hne with h | ⟨hx, hy⟩
  · exact h
  · exact absurd (hH hy) hx

/-- A field the digest does not read cannot influence it (used for: the signing digest ignores `Sign`). -/
theorem digest_ignores_unlisted (spec : List (String × Kind)) (f : String) (r r' : Rec)
    (hn : f ∉ names spec) (hagree : AgreeExcept f r r') : encode spec r = encode spec r' :=
  encode_agree hagree spec hn

/-! ### The generated lists (finite tables, `decide`; re-checked against the source on every run) -/

/-- Block id: every exported `BlockHeader` field is hashed, nothing else is, each exactly once. -/
theorem hash_covers_all_block :
    (∀ f ∈ fieldsOfBlockHeader, covers blockHashSpec f = true) ∧
    (∀ f ∈ names blockHashSpec, f ∈ fieldsOfBlockHeader) ∧ (names blockHashSpec).Nodup := by decide

/-- Tx id: every exported `TxBody` field, including `Sign`, is hashed, each exactly once. -/
theorem hash_covers_all_tx :
    (∀ f ∈ fieldsOfTxBody, covers txHashSpec f = true) ∧
    (∀ f ∈ names txHashSpec, f ∈ fieldsOfTxBody) ∧ (names txHashSpec).Nodup := by decide

/-- Header signing digest reads exactly the fields of the header hash input other than `Sign`, each with
the same encoding (stated order-independently: a reordering of either writer keeps this true). -/
theorem sign_omits_only_block :
    (blockSignSpec.all (fun fk => blockHashSpec.contains fk && fk.1 != "Sign") &&
     (blockHashSpec.filter (fun fk => fk.1 != "Sign")).all (blockSignSpec.contains ·)) = true ∧
    covers blockHashSpec "Sign" = true ∧ covers blockSignSpec "Sign" = false ∧
    (∀ f ∈ fieldsOfBlockHeader, f ≠ "Sign" → covers blockSignSpec f = true) := by decide

/-- Tx signing digest reads exactly the fields of the tx hash input other than `Sign`, same encodings. -/
theorem sign_omits_only_tx :
    (txSignSpec.all (fun fk => txHashSpec.contains fk && fk.1 != "Sign") &&
     (txHashSpec.filter (fun fk => fk.1 != "Sign")).all (txSignSpec.contains ·)) = true ∧
    covers txHashSpec "Sign" = true ∧ covers txSignSpec "Sign" = false ∧
    (∀ f ∈ fieldsOfTxBody, f ≠ "Sign" → covers txSignSpec f = true) := by decide

/-- Every field occurs exactly once in each of the four digest inputs. -/
theorem names_nodup :
    (∀ fk ∈ blockHashSpec, (names blockHashSpec).count fk.1 = 1) ∧
    (∀ fk ∈ blockSignSpec, (names blockSignSpec).count fk.1 = 1) ∧
    (∀ fk ∈ txHashSpec, (names txHashSpec).count fk.1 = 1) ∧
    (∀ fk ∈ txSignSpec, (names txSignSpec).count fk.1 = 1) := by decide

/-! ### Instances: the four digests of the pinned source -/

section instances
variable (H : Bytes → Bytes)

/-- Block identifier `H(writeBlockHeader h)`: changing any single header field (incl. `Sign`)
changes the id or exhibits a collision of `H`. -/
theorem block_id_binds (fk : String × Kind) (hfk : fk ∈ blockHashSpec) (r r' : Rec)
    (hagree : AgreeExcept fk.1 r r') (hne : encField r fk ≠ encField r' fk) :
    H (encode blockHashSpec r) ≠ H (encode blockHashSpec r') ∨
      Collision H (encode blockHashSpec r) (encode blockHashSpec r') :=
  id_binds_field H blockHashSpec fk.1 fk.2 r r' hfk (names_nodup.1 fk hfk) hagree hne

/-- Header signing digest: changing any single field other than `Sign` changes the signed message
(`bytesForDigest` is the raw preimage handed to the signature primitive; no hash parameter needed). -/
theorem block_sign_binds (fk : String × Kind) (hfk : fk ∈ blockSignSpec) (r r' : Rec)
    (hagree : AgreeExcept fk.1 r r') (hne : encField r fk ≠ encField r' fk) :
    encode blockSignSpec r ≠ encode blockSignSpec r' :=
  fun heq => hne (field_injective blockSignSpec fk.1 fk.2 r r' hfk (names_nodup.2.1 fk hfk) hagree heq)

/-- … and it does not depend on `Sign`. -/
theorem block_sign_ignores_sign (r r' : Rec) (hagree : AgreeExcept "Sign" r r') :
    encode blockSignSpec r = encode blockSignSpec r' :=
  digest_ignores_unlisted blockSignSpec "Sign" r r' (by decide) hagree

/-- Transaction identifier `H(CalculateTxHash input)`: any single body field incl. `Sign`. -/
theorem tx_id_binds (fk : String × Kind) (hfk : fk ∈ txHashSpec) (r r' : Rec)
    (hagree : AgreeExcept fk.1 r r') (hne : encField r fk ≠ encField r' fk) :
    H (encode txHashSpec r) ≠ H (encode txHashSpec r') ∨
      Collision H (encode txHashSpec r) (encode txHashSpec r') :=
  id_binds_field H txHashSpec fk.1 fk.2 r r' hfk (names_nodup.2.2.1 fk hfk) hagree hne

/-- Transaction signing digest `H(CalculateHashWithoutSign input)`: any single field other than `Sign`. -/
theorem tx_sign_binds (fk : String × Kind) (hfk : fk ∈ txSignSpec) (r r' : Rec)
    (hagree : AgreeExcept fk.1 r r') (hne : encField r fk ≠ encField r' fk) :
    H (encode txSignSpec r) ≠ H (encode txSignSpec r') ∨
      Collision H (encode txSignSpec r) (encode txSignSpec r') :=
  id_binds_field H txSignSpec fk.1 fk.2 r r' hfk (names_nodup.2.2.2 fk hfk) hagree hne

/-- … and it does not depend on `Sign`. -/
theorem tx_sign_ignores_sign (r r' : Rec) (hagree : AgreeExcept "Sign" r r') :
    encode txSignSpec r = encode txSignSpec r' :=
  digest_ignores_unlisted txSignSpec "Sign" r r' (by decide) hagree

end instances

/-! Non-vacuity (tests on sample values): a concrete header, a single-field change of each kind, and
an injective `H` (the identity) for the readable corollary. -/
section examples
private def r0 : Rec :=
  { raw := fun f => if f = "ChainID" then [1, 2, 3] else if f = "Sign" then [9, 9] else [7]
    num := fun f => if f = "BlockNo" then 77 else 5 }

example : AgreeExcept "BlockNo" r0 (r0.setNum "BlockNo" 78) := agree_setNum _ _ _
example : encField r0 ("BlockNo", .u64le) ≠ encField (r0.setNum "BlockNo" 78) ("BlockNo", .u64le) := by decide
example : encode blockHashSpec r0 ≠ encode blockHashSpec (r0.setNum "BlockNo" 78) := by decide
example : encode blockHashSpec r0 ≠ encode blockHashSpec (r0.setRaw "Sign" [9]) := by decide
example : encode blockSignSpec r0 = encode blockSignSpec (r0.setRaw "Sign" [9]) := by decide
example : encode txHashSpec r0 ≠ encode txHashSpec (r0.setRaw "Sign" [9]) := by decide
example : Function.Injective (fun b : Bytes => b) := fun _ _ h => h
end examples

/-! ## Part 2 — Merkle roots (internal/merkle/merkle.go)

`Merkle.root` is the nil-aware, padded transcription of `CalculateMerkleRoot` (correspondence: harness
`merkle` ops incl. nil entries); `Merkle.rootB` is the same function on entries whose hash is never nil.
The header's `TxsRootHash` is `root` over `tx.GetHash()`, `ReceiptsRootHash` is `root` over
`sha256(MarshalMerkleBinary{,V2}(receipt))` plus, when present, the hash of the block bloom filter. -/
section merkle
open Aergo.Merkle
variable {α : Type}

/-- On entries without nil hashes the transcription of the Go array algorithm (power-of-two padding
with nil, "copy left child" rule) is the plain pair-up-and-duplicate-odd-last recursion. -/
theorem root_eq_rootB (h : α → α → α) (zero : α) (xs : List α) :
    root h zero (xs.map some) = rootB h zero xs := by
  match xs with
  | [] => rfl
  | x :: xs' =>
    obtain ⟨m, hm, hge, hlt⟩ := leafCount_spec (x :: xs').length (by simp)
    have hpre : leaves ((x :: xs').map some) = pre (x :: xs') (leafCount (x :: xs').length - (x :: xs').length) := by
      simp [leaves, pre]
    obtain ⟨k', hk'⟩ := reduce_pre h (x :: xs').length (x :: xs')
      (leafCount (x :: xs').length - (x :: xs').length) m (by omega) (by omega)
    show ((reduce h ((x :: xs').map some).length (leaves ((x :: xs').map some))).head?).join = _
    rw [hpre, List.length_map, hk']
    simp only [rootB]
    have hne := reduceB_ne_nil h (x :: xs').length (x :: xs') (by simp)
    match hr : reduceB h (x :: xs').length (x :: xs'), hne with
    | r :: rs, _ => simp [pre]

/-- **merkle_same_len.** Two entry lists of the same length with the same root are the same list, or
an explicit collision of the branch function is exhibited **among the child pairs actually hashed while
computing the two roots** (`hashed h xs`, `hashed h ys`: finite lists computed from the inputs — not an
unrestricted `∃`, which any fixed-output-length hash satisfies by counting). Any length, any `h`. -/
theorem merkle_same_len (h : α → α → α) (zero : α) (xs ys : List α) (hl : xs.length = ys.length)
    (he : root h zero (xs.map some) = root h zero (ys.map some)) :
    xs = ys ∨ CollOn h (hashed h xs) (hashed h ys) := by
  rw [root_eq_rootB, root_eq_rootB] at he
  exact rootB_same_len h zero xs ys hl he

/-- FULL statement `merkle_exact_list : root xs = root ys → xs = ys ∨ collision` is FALSE on the pinned
code (see `merkle_odd_duplication`). Proved part, for byte strings and `h l r = H (l ‖ r)`: under the
guard `|xs| = |ys|` — which the block header does not record — equal roots give equal lists or two
*different* strings, one among those hashed for `xs` and one among those hashed for `ys`, with the same
digest. Leaves are 32-byte hashes; `H` has 32-byte output (true of SHA-256; used to split `l ‖ r`, i.e.
domain separation by length is proved, not assumed). -/
theorem merkle_exact_list_partial (H : Bytes → Bytes) (hH : ∀ x, (H x).length = 32) (zero : Bytes)
    (xs ys : List Bytes) (hl : xs.length = ys.length) (hx : ∀ x ∈ xs, x.length = 32)
    (hy : ∀ y ∈ ys, y.length = 32)
    (he : root (fun l r => H (l ++ r)) zero (xs.map some) = root (fun l r => H (l ++ r)) zero (ys.map some)) :
    xs = ys ∨ CollisionIn H (hashedBytes H xs) (hashedBytes H ys) := by
  rcases merkle_same_len (fun l r => H (l ++ r)) zero xs ys hl he with h1 | ⟨p, hp, q, hq, hne, heq⟩
  · exact .inl h1
  · have hP : ∀ a b : Bytes, a.length = 32 → b.length = 32 → (H (a ++ b)).length = 32 := fun _ _ _ _ => hH _
    have hp32 := hashedB_all (fun l r => H (l ++ r)) (fun b => b.length = 32) hP xs.length xs hx p hp
    have hq32 := hashedB_all (fun l r => H (l ++ r)) (fun b => b.length = 32) hP ys.length ys hy q hq
    refine .inr ⟨p.1 ++ p.2, List.mem_map.mpr ⟨p, hp, rfl⟩, q.1 ++ q.2, List.mem_map.mpr ⟨q, hq, rfl⟩, ?_, heq⟩
    intro happ
    have := List.append_inj happ (by rw [hp32.1, hq32.1])
    exact hne (Prod.ext this.1 this.2)

/-- **The genuine weakness (DESIGN §5 lead 6, replayed on the real code by the harness): an odd level
duplicates its last node, so a list of odd length ≥ 3 and the same list with its last entry repeated
have the same root** — for every branch function, so no property of SHA-256 is involved. -/
theorem merkle_odd_duplication (h : α → α → α) (zero : α) (xs : List α) (a : α)
    (hev : xs.length % 2 = 0) (h2 : 2 ≤ xs.length) :
    rootB h zero (xs ++ [a]) = rootB h zero (xs ++ [a, a]) := by
  have e1 : levelB h (xs ++ [a]) = levelB h (xs ++ [a, a]) := by
    rw [levelB_append_even h xs _ hev, levelB_append_even h xs _ hev]; rfl
  have l1 : (xs ++ [a]).length = xs.length + 1 := by simp
  have l2 : (xs ++ [a, a]).length = xs.length + 2 := by simp
  have hb : (levelB h (xs ++ [a, a])).length ≤ 2 ^ xs.length := by
    rw [levelB_length, l2]
    have := @Nat.lt_two_pow_self xs.length
    omega
  match hxs : xs ++ [a], hys : xs ++ [a, a] with
  | [], _ => simp at hxs
  | _, [] => simp at hys
  | p :: ps, q :: qs =>
    simp only [rootB]
    rw [← hxs, ← hys, l1, l2]
    have s1 : reduceB h (xs.length + 1) (xs ++ [a]) = reduceB h xs.length (levelB h (xs ++ [a])) := by
      simp only [reduceB, l1]; rw [if_neg (by omega)]
    have s2 : reduceB h (xs.length + 2) (xs ++ [a, a]) = reduceB h (xs.length + 1) (levelB h (xs ++ [a, a])) := by
      simp only [reduceB, l2]; rw [if_neg (by omega)]
    rw [s1, s2, e1, reduceB_fuel h xs.length (xs.length + 1) _ hb (by omega)]

/-- Hence the FULL statement is false for every node type and branch function: witness `[a,a,a]` vs `[a,a,a,a]`. -/
theorem merkle_exact_list_false (h : α → α → α) (zero a : α) :
    ¬ (∀ xs ys : List α, rootB h zero xs = rootB h zero ys → xs = ys) := by
  intro hall
  have := hall ([a, a] ++ [a]) ([a, a] ++ [a, a]) (merkle_odd_duplication h zero [a, a] a (by simp) (by simp))
  simp at this

-- tests on sample values, in the free term algebra (an `h` without any collision at all)
private inductive T | leaf (n : Nat) | node (l r : T)
  deriving DecidableEq
open T in
example : rootB node (leaf 0) [leaf 1, leaf 2, leaf 3] = rootB node (leaf 0) [leaf 1, leaf 2, leaf 3, leaf 3] := by decide
open T in
example : root node (leaf 0) [some (leaf 1), some (leaf 2), some (leaf 3)] =
    some (node (node (leaf 1) (leaf 2)) (node (leaf 3) (leaf 3))) := by decide
open T in -- no leaf/branch domain separation either: a one-entry list whose entry is a branch value
example : rootB node (leaf 0) [node (leaf 1) (leaf 2)] = rootB node (leaf 0) [leaf 1, leaf 2] := by decide
open T in -- nil first entry ⇒ nil root whatever follows (entries with nil GetHash are outside `merkle_same_len`)
example : root node (leaf 0) [none, some (leaf 2)] = none ∧ root node (leaf 0) [none, some (leaf 3)] = none := by decide
-- the collision disjunct is not vacuous: in the free algebra it is false, so equal roots force equal lists
open T in
example : ¬ CollOn node (hashed node [leaf 1, leaf 2, leaf 3]) (hashed node [leaf 1, leaf 2, leaf 4]) := by
  unfold CollOn; decide
-- hypotheses of merkle_exact_list_partial are satisfiable (H = a 32-byte-output function)
example : ∀ x : Bytes, ((x ++ List.replicate 32 0).take 32).length = 32 := by intro x; simp
end merkle

/-! ## Part 3 — receipts (types/receipt.go)

`Receipt.marshalStore / unmarshalStore`, `marshalMerkle`, `marshalAll / unmarshalAll` are byte-level
transcriptions of the Go codecs for both formats (`v2 = false`: before the V2 fork height; `v2 = true`:
from it on), tied byte for byte to the real functions by the harness (`rst`, `rus`, `rmk`, `rsm`, `rsu`
operations, incl. truncated and misaligned inputs on which the Go decoders panic). -/
section receipts
open Aergo.Receipt Aergo.Merkle
set_option maxRecDepth 20000   -- the `decide` tests below evaluate the codecs on ~100-byte strings

/-- **Storage round trip of one receipt**, both formats, with and without events / bloom: decoding what
was encoded (followed by any further bytes) yields the receipt (`Receipt.stored`: gas and the
fee-delegation flag only in the V2 format; an event's TxHash copy is not stored) and exactly the further
bytes. `Receipt.wf` is decidable and explicit: 33-byte addresses, 32-byte tx hash, supported status,
bloom absent or 256 bytes, lengths and integers in range, an event address that differs from the
receipt's does not start with byte 0, and **CumulativeFeeUsed empty**. -/
theorem receipt_store_roundtrip (v2 : Bool) (r : Receipt) (b rest : Bytes) (hw : r.wf = true)
    (hm : marshalStore v2 r = some b) : unmarshalStore v2 (b ++ rest) = some (r.stored v2, rest) :=
  unmarshalStore_marshalStore v2 r b rest hw hm

/-- Encoding succeeds on every well-formed receipt (so the round trip is not vacuous). -/
theorem receipt_store_total (v2 : Bool) (r : Receipt) (hw : r.wf = true) : (marshalStore v2 r).isSome = true := by
  simp only [Receipt.wf, Bool.and_eq_true] at hw
  have hs := hw.1.1.1.1.1.1.1.1.2
  unfold marshalStore marshalBody
  match h : statusCode r.status, hs with
  | some c, _ => simp

/-- **receipts_roundtrip**: `Receipts.UnmarshalBinary (Receipts.MarshalBinary rs) = rs` for every list of
well-formed receipts, with or without the block bloom filter, in both formats. -/
theorem receipts_roundtrip (v2 : Bool) (bloom : Option Bytes) (rs : List Receipt) (b : Bytes)
    (hb : ∀ x, bloom = some x → x.length = 256) (hn : rs.length < 2 ^ 32)
    (hw : ∀ r ∈ rs, r.wf = true) (hm : marshalAll v2 bloom rs = some b) :
    unmarshalAll v2 b = some (bloom, rs.map (Receipt.stored v2)) :=
  unmarshalAll_marshalAll v2 bloom rs b hb hn hw hm

private def rOk : Receipt :=
  { addr := List.replicate 33 2, status := "SUCCESS", ret := [123, 125], txHash := List.replicate 32 7,
    fee := [1, 0], cum := [], gas := 5000, feeDeleg := true, bloom := [],
    events := [{ addr := List.replicate 33 2, name := [97], args := [91, 93], idx := 0, txHash := List.replicate 32 7 },
               { addr := List.replicate 33 12, name := [98], args := [], idx := 1, txHash := List.replicate 32 7 }] }

-- tests on a sample value: the hypotheses are satisfiable, and the round trip computes
example : rOk.wf = true := by decide
example : (marshalStore true rOk).bind (unmarshalStore true) = some (rOk.stored true, []) := by decide
example : (marshalStore false rOk).bind (unmarshalStore false) = some (rOk.stored false, []) := by decide
example : (marshalAll true none [rOk, rOk]).bind (unmarshalAll true) = some (none, [rOk.stored true, rOk.stored true]) := by decide

/-- Why `wf` demands an empty CumulativeFeeUsed (DESIGN §5 lead 6): `unmarshalBody{,V2}` advances by its
length a second time (`pos += l` after the bloom flag), so a receipt with a non-empty value is not read
back (the event count is read one byte too far). Nothing in the
pinned tree assigns the field, so every receipt the node builds is well-formed. Test on a sample value. -/
example : (marshalStore true { rOk with cum := [9] }).bind (unmarshalStore true) ≠ some ({ rOk with cum := [9] }.stored true, []) := by decide

/-- Likewise an event of *another* contract whose address starts with byte 0 is stored in 33 bytes but
decoded as "same address as the receipt" (marker byte 0). Real addresses start with 0x02/0x03/0x0C/0x80. -/
example : (marshalStore true { rOk with events := [{ addr := 0 :: List.replicate 32 5, name := [], args := [], idx := 0, txHash := [] }] }).bind
    (unmarshalStore true) ≠ some ({ rOk with events := [{ addr := 0 :: List.replicate 32 5, name := [], args := [], idx := 0, txHash := [] }] }.stored true, []) := by decide

/-- **receipt_digest_inj.** The bytes hashed into the receipts-root leaf (`MarshalMerkleBinary` before
the V2 fork, `MarshalMerkleBinaryV2` after) determine every consensus-relevant field of that format:
contract address, status, tx hash, fee, cumulative fee, bloom, every event (address, name, arguments,
index, tx hash) in order, the return value unless the status is ERROR, and in the V2 format gas and the
fee-delegation flag (`Receipt.view`). Equal bytes ⇒ equal views. (`wfM`: fixed-length fields have their
fixed length, lengths < 2³²; no condition on CumulativeFeeUsed.) -/
theorem receipt_digest_inj (v2 : Bool) (r r' : Receipt) (b : Bytes) (hw : r.wfM = true) (hw' : r'.wfM = true)
    (hm : marshalMerkle v2 r = some b) (hm' : marshalMerkle v2 r' = some b) : r.view v2 = r'.view v2 := by
  have h1 := parseMerkle_marshalMerkle v2 r b [] hw hm
  have h2 := parseMerkle_marshalMerkle v2 r' b [] hw' hm'
  rw [h1] at h2
  simpa using h2

example : rOk.wfM = true := by decide
-- what the leaf does NOT commit to, by format (tests on sample values): the return value of a failed
-- execution, and gas / fee delegation before the V2 fork
example : marshalMerkle true { rOk with status := "ERROR", ret := [1] } = marshalMerkle true { rOk with status := "ERROR", ret := [2] } := by decide
example : marshalMerkle false { rOk with gas := 1, feeDeleg := false } = marshalMerkle false rOk := by decide
example : marshalMerkle true { rOk with gas := 1 } ≠ marshalMerkle true rOk := by decide

/-- **The receipts root commits to the ordered list of receipts** (for lists of equal length — see
`merkle_odd_duplication` for why the guard is needed): if two receipt lists of the same length, each
followed by the same number of further 32-byte leaves (the block bloom filter's hash, when present),
have equal `Receipts.MerkleRoot`, then the receipts are pairwise equal on every consensus-relevant
field of the format, or an explicit SHA-256 collision is exhibited between the strings hashed for the
one side (the receipts' Merkle bytes `mb r` and the tree's 64-byte branch inputs) and those hashed for
the other. `mb r` are the Merkle bytes of `r`. -/
theorem receipts_root_binds (H : Bytes → Bytes) (hH : ∀ x, (H x).length = 32) (zero : Bytes) (v2 : Bool)
    (mb : Receipt → Bytes) (rs rs' : List Receipt) (tl tl' : List Bytes)
    (hmb : ∀ r ∈ rs ++ rs', marshalMerkle v2 r = some (mb r)) (hwf : ∀ r ∈ rs ++ rs', r.wfM = true)
    (hl : rs.length = rs'.length) (htl : tl.length = tl'.length)
    (ht : ∀ x ∈ tl ++ tl', x.length = 32)
    (he : root (fun l r => H (l ++ r)) zero ((rs.map (fun r => H (mb r)) ++ tl).map some) =
          root (fun l r => H (l ++ r)) zero ((rs'.map (fun r => H (mb r)) ++ tl').map some)) :
    (rs.map (Receipt.view v2) = rs'.map (Receipt.view v2) ∧ tl = tl') ∨
      CollisionIn H (rs.map mb ++ hashedBytes H (rs.map (fun r => H (mb r)) ++ tl))
                    (rs'.map mb ++ hashedBytes H (rs'.map (fun r => H (mb r)) ++ tl')) := by
  have hlen32 : ∀ (l : List Receipt) (t : List Bytes), (∀ x ∈ t, x.length = 32) →
      ∀ x ∈ l.map (fun r => H (mb r)) ++ t, x.length = 32 := by
    intro l t htt x hx
    rcases List.mem_append.mp hx with h | h
    · obtain ⟨r, _, rfl⟩ := List.mem_map.mp h; exact hH _
    · exact htt x h
  rcases merkle_exact_list_partial H hH zero _ _ (by simp [hl, htl])
      (hlen32 rs tl (fun x hx => ht x (List.mem_append_left _ hx)))
      (hlen32 rs' tl' (fun x hx => ht x (List.mem_append_right _ hx))) he with h1 | h1
  · have h2 := List.append_inj h1 (by simp [hl])
    have h3 : (rs.map mb).map H = (rs'.map mb).map H := by
      rw [List.map_map, List.map_map]; exact h2.1
    rcases map_hash_inj H _ _ h3 with h4 | ⟨x, hx, y, hy, hxy, hh⟩
    · left
      refine ⟨?_, h2.2⟩
      clear he h1 h2 h3
      induction rs generalizing rs' with
      | nil => cases rs' with
        | nil => rfl
        | cons _ _ => simp at hl
      | cons r rs ih => cases rs' with
        | nil => simp at hl
        | cons r' rs' =>
          simp only [List.map_cons, List.cons.injEq] at h4 ⊢
          refine ⟨?_, ih rs' (fun x hx => hmb x ?_) (fun x hx => hwf x ?_) (by simpa using hl) h4.2⟩
          · have e1 := hmb r (by simp)
            have e2 := hmb r' (by simp)
            rw [← h4.1] at e2
            exact receipt_digest_inj v2 r r' (mb r) (hwf r (by simp)) (hwf r' (by simp)) e1 e2
          · rcases List.mem_append.mp hx with h | h <;> simp [h]
          · rcases List.mem_append.mp hx with h | h <;> simp [h]
    · exact .inr ⟨x, List.mem_append_left _ hx, y, List.mem_append_left _ hy, hxy, hh⟩
  · exact .inr (h1.mono (fun x m => List.mem_append_right _ m) (fun y m => List.mem_append_right _ m))

/-- **The transaction root commits to the ordered list of transaction identifiers' inputs** (equal
length): equal `CalculateTxsRootHash` ⇒ the tx-hash inputs (`encode txHashSpec`, i.e. every body field
incl. the signature, `tx_id_binds`) are pairwise equal, or an explicit SHA-256 collision is exhibited
between the strings hashed for the one list (tx-hash inputs and branch inputs) and for the other.
(Assumes each `tx.Hash` is the hash of its body — `Tx.Validate` checks that on the execution path.) -/
theorem txs_root_binds (H : Bytes → Bytes) (hH : ∀ x, (H x).length = 32) (zero : Bytes) (txs txs' : List Rec)
    (hl : txs.length = txs'.length)
    (he : root (fun l r => H (l ++ r)) zero ((txs.map (fun t => H (encode txHashSpec t))).map some) =
          root (fun l r => H (l ++ r)) zero ((txs'.map (fun t => H (encode txHashSpec t))).map some)) :
    txs.map (encode txHashSpec) = txs'.map (encode txHashSpec) ∨
      CollisionIn H (txs.map (encode txHashSpec) ++ hashedBytes H (txs.map (fun t => H (encode txHashSpec t))))
                    (txs'.map (encode txHashSpec) ++ hashedBytes H (txs'.map (fun t => H (encode txHashSpec t)))) := by
  rcases merkle_exact_list_partial H hH zero _ _ (by simp [hl])
      (fun x hx => by obtain ⟨t, _, rfl⟩ := List.mem_map.mp hx; exact hH _)
      (fun x hx => by obtain ⟨t, _, rfl⟩ := List.mem_map.mp hx; exact hH _) he with h1 | h1
  · have h3 : (txs.map (encode txHashSpec)).map H = (txs'.map (encode txHashSpec)).map H := by
      rw [List.map_map, List.map_map]; exact h1
    rcases map_hash_inj H _ _ h3 with h4 | ⟨x, hx, y, hy, hxy, hh⟩
    · exact .inl h4
    · exact .inr ⟨x, List.mem_append_left _ hx, y, List.mem_append_left _ hy, hxy, hh⟩
  · exact .inr (h1.mono (fun x m => List.mem_append_right _ m) (fun y m => List.mem_append_right _ m))

end receipts

/-! ## Part 4 — chain identifier codec (types/genesis.go, types/blockchain.go `MakeChainId`) -/
section chainid
open Aergo.ChainId

/-- **chainid_roundtrip.** `Read (Bytes c) = c` for every chain id whose version is an int32 and whose
magic and consensus strings contain no "/" (the separator `Bytes` inserts and `Read` splits on). -/
theorem chainid_roundtrip (c : ChainID) (hw : c.wf = true) : read (bytes c) = some c :=
  read_bytes c hw

/-- Without the "/" guard `Read` may *reject* what `Bytes` wrote (three or more parts), but it never
returns a different identifier: for every chain id, reading its bytes back fails or yields exactly it.
(chain/chaindb.go `GetGenesisInfo` keeps the gob-stored copy of the id when `Read` fails.) -/
theorem chainid_read_exact_or_error (c c' : ChainID) (h1 : -2147483648 ≤ c.version) (h2 : c.version < 2147483648)
    (h : read (bytes c) = some c') : c' = c :=
  read_bytes_exact c c' h1 h2 h

/-- The encoding is binding: different (well-formed) chain ids have different bytes. -/
theorem chainid_bytes_injective (c c' : ChainID) (hw : c.wf = true) (hw' : c'.wf = true)
    (h : bytes c = bytes c') : c = c' := by
  have h1 := read_bytes c hw
  rw [h, read_bytes c' hw'] at h1
  exact (Option.some.inj h1).symm

-- tests on sample values: a well-formed id; an id with "/" in the magic is rejected on read-back
example : ({ version := -3, publicNet := true, mainNet := false, magic := [97, 46, 98], consensus := [100] } : ChainID).wf = true := by decide
example : read (bytes { version := 1, publicNet := true, mainNet := false, magic := [97, 47, 98], consensus := [100] }) = none := by decide

/-- `MakeChainId cid v` on an id of at least 4 bytes is the id with its 4-byte version prefix replaced
(whichever branch the code takes); on a shorter one `cid[:4]` panics. -/
theorem makeChainId_spec (cid : Bytes) (v : Int) :
    (4 ≤ cid.length → makeChainId cid v = some (le 4 (u32OfI32 v) ++ cid.drop 4)) ∧
    (cid.length < 4 → makeChainId cid v = none) :=
  ⟨makeChainId_eq cid v, makeChainId_panics cid v⟩

/-- The result carries the requested version and is `ChainIdEqualWithoutVersion` to the original. -/
theorem makeChainId_laws (cid out : Bytes) (v : Int) (h1 : -2147483648 ≤ v) (h2 : v < 2147483648)
    (h : makeChainId cid v = some out) :
    decodeVersion out = v ∧ eqWithoutVersion out cid = true ∧ out.length = cid.length := by
  refine ⟨decodeVersion_make cid out v h1 h2 h, eq_make cid out v h, ?_⟩
  by_cases hl : cid.length < 4
  · rw [makeChainId_panics cid v hl] at h; cases h
  · rw [makeChainId_eq cid v (by omega)] at h
    simp only [Option.some.injEq] at h
    subst h
    simp [Aergo.Receipt.le_length' 4]; omega

/-- On encoded chain ids `MakeChainId` is "set the version field": the new bytes read back as the same
id with version `v` (this is how a block's chain id follows the hardfork version of its height). -/
theorem makeChainId_bytes (c : ChainID) (v : Int) (hw : c.wf = true) (h1 : -2147483648 ≤ v) (h2 : v < 2147483648) :
    (makeChainId (bytes c) v).bind read = some { c with version := v } := by
  rw [make_bytes]
  simp only [Option.bind_some]
  apply read_bytes
  simp only [ChainID.wf, Bool.and_eq_true, decide_eq_true_eq] at hw ⊢
  exact ⟨⟨⟨h1, h2⟩, hw.1.2⟩, hw.2⟩

/-- `ChainIdEqualWithoutVersion` on two encoded ids holds exactly when they agree on every field but
the version. -/
theorem chainIdEqualWithoutVersion_iff (c c' : ChainID) (hw : c.wf = true) (hw' : c'.wf = true) :
    eqWithoutVersion (bytes c) (bytes c') = true ↔ c' = { c with version := c'.version } :=
  eq_bytes_iff c c' hw hw'

end chainid

/-! ## Part 5 — hardfork version of a height (config/hardfork_gen.go, config/hardfork.go)

`Hardfork.version`, `validate`, `checkCompatibility`, `fixDbConfig` are hand transcriptions (the Go
functions iterate struct fields by reflection) for a configuration with any number of fork heights,
tied to the real functions by the harness (`ver`, `compat`, `fix` operations; every height next to a
fork height; all 256 configurations over heights 0..3 exhaustively). -/
section hardfork
open Aergo.Hardfork

/-- **version_monotone.** For every configuration — sorted or not, any number of fields — the version
assigned to a height never decreases as the height grows. -/
theorem version_monotone (c : Config) (h h' : Nat) (hle : h ≤ h') : version c h ≤ version c h' :=
  verFrom_mono h h' 0 c hle

/-- The version is 0 (no fork reached) or between 2 and the number of fields + 1. -/
theorem version_range (c : Config) (h : Nat) : version c h = 0 ∨ (2 ≤ version c h ∧ version c h ≤ c.length + 1) := by
  have := verFrom_range h 0 c
  unfold version; omega

/-- **version_stable.** If `CheckCompatibility(dbCfg, best)` lets the node start with configuration
`c`, then every height up to the best block has, under `c`, the version it had under the configuration
recorded in the database: versions of existing blocks are stable across restarts. -/
theorem version_stable (c : Config) (d : DbConfig) (best : Nat) (hok : checkCompatibility c d best = .ok)
    (h : Nat) (hh : h ≤ best) : version c h = version (dbAsConfig d c.length) h := by
  unfold checkCompatibility at hok
  split at hok
  · cases hok
  · split at hok
    · cases hok
    · rename_i hm
      have := stable_aux d best h 0 c hh hm
      simpa [version, dbAsConfig, List.range_eq_range'] using this

-- tests on sample values (mainnet-like heights): accepted restart, refused restart, the version table
example : checkCompatibility [10, 20, 30, 40] { entries := [(2, 10), (3, 20), (4, 35), (5, 50)], badKeys := 0 } 25 = .ok := by decide
example : checkCompatibility [10, 20, 30, 40] { entries := [(2, 10), (3, 22), (4, 30), (5, 40)], badKeys := 0 } 25 = .fork 3 := by decide
example : [0, 9, 10, 19, 20, 39, 40, 1000].map (version [10, 20, 30, 40]) = [0, 0, 2, 2, 3, 4, 5, 5] := by decide
end hardfork

/-! ## Part 6 — nothing forgotten: field inventories of the records without a straight-line digest writer

`Aergo.Gen.Inv` is regenerated from the source on every run (tools/goext `inventory`): the exported fields of
`types.Receipt`, `types.Event`, `types.ChainID`, `types.Genesis`, `config.HardforkConfig`, and for every codec method the
fields of its receiver the body mentions. `Aergo.Inventory` holds the *intended* exceptions. A field added to one of the
structs and forgotten in a writer (the failure this property is about) makes one of these theorems false; the harness
(c19 `inventories`) finds the concrete pair of records by reflection over the same structs. -/
section inventory
open Aergo.Gen.Inv Aergo.Inventory

/-- **Receipt, format 2**: every exported field of `types.Receipt` is written by `marshalBodyV2` (the body shared by the Merkle
bytes and the storage bytes) or is one of the fields filled in when a receipt is served. -/
theorem receipt_fields_committed_v2 : ∀ f ∈ fieldsOfReceipt, f ∈ mentions_Receipt_marshalBodyV2 ∨ f ∈ receiptDerived := by decide

/-- **Receipt, format 1**: the same with gas and the fee-delegation flag, which exist from format 2 on. -/
theorem receipt_fields_committed_v1 :
    ∀ f ∈ fieldsOfReceipt, f ∈ mentions_Receipt_marshalBody ∨ f ∈ receiptDerived ∨ f ∈ receiptV2Only := by decide

/-- Writers and readers of the receipt body touch the same fields (the event list is read by `unmarshalStoreBinary{,V2}`),
and the Merkle / storage writers add nothing but the events to the body. -/
theorem receipt_codec_symmetric :
    (∀ f ∈ mentions_Receipt_marshalBodyV2, f ∈ mentions_Receipt_unmarshalBodyV2 ∨ f ∈ mentions_Receipt_unmarshalStoreBinaryV2) ∧
    (∀ f ∈ mentions_Receipt_marshalBody, f ∈ mentions_Receipt_unmarshalBody ∨ f ∈ mentions_Receipt_unmarshalStoreBinary) ∧
    (∀ f ∈ mentions_Receipt_unmarshalBodyV2, f ∈ mentions_Receipt_marshalBodyV2) ∧
    (∀ f ∈ mentions_Receipt_unmarshalBody, f ∈ mentions_Receipt_marshalBody) ∧
    (∀ f ∈ mentions_Receipt_MarshalMerkleBinaryV2 ++ mentions_Receipt_MarshalMerkleBinary ++
           mentions_Receipt_marshalStoreBinaryV2 ++ mentions_Receipt_marshalStoreBinary, f ∈ mentions_Receipt_marshalBody) := by decide

/-- The byte-level model (`Aergo.Receipt.Receipt`, hence `Receipt.view` in `receipt_digest_inj` / `receipts_root_binds`)
has exactly the fields the real body writer touches. -/
theorem receipt_model_covers :
    (∀ f ∈ mentions_Receipt_marshalBodyV2, f ∈ receiptModelled) ∧ (∀ f ∈ receiptModelled, f ∈ mentions_Receipt_marshalBodyV2) := by decide

/-- **Event**: every exported field of `types.Event` is in the Merkle bytes (`marshalCommonBinary`) or is filled in when the
event is served; the storage bytes leave out, besides those, only the transaction hash, which `SetMemoryInfo` restores
from the receipt; the reader assigns what the writer wrote; the model has exactly the committed fields. -/
theorem event_fields_committed :
    (∀ f ∈ fieldsOfEvent, f ∈ mentions_Event_marshalCommonBinary ∨ f ∈ eventDerived) ∧
    (∀ f ∈ fieldsOfEvent, f ∈ mentions_Event_marshalStoreBinary ∨ f ∈ eventDerived ∨ f ∈ eventNotStored) ∧
    (∀ f ∈ eventNotStored ++ eventDerived, f ∈ mentions_Event_SetMemoryInfo) ∧
    (∀ f ∈ mentions_Event_marshalStoreBinary, f ∈ mentions_Event_unmarshalStoreBinary) ∧
    (∀ f ∈ mentions_Event_marshalCommonBinary, f ∈ eventModelled) ∧ (∀ f ∈ eventModelled, f ∈ mentions_Event_marshalCommonBinary) ∧
    mentions_Event_MarshalMerkleBinary = [] := by decide

/-- **ChainID**: every exported field is written by `Bytes`, read by `Read`, compared by `Equals`, and is a field of the model. -/
theorem chainid_fields_encoded :
    ∀ f ∈ fieldsOfChainID, f ∈ mentions_ChainID_Bytes ∧ f ∈ mentions_ChainID_Read ∧ f ∈ mentions_ChainID_Equals ∧ f ∈ chainIdModelled := by decide

/-- **Genesis**: `Genesis.Bytes` (gob of the whole struct) singles out no field but `Balance`, which it drops on purpose. -/
theorem genesis_bytes_drops_only_balance :
    (∀ f ∈ mentions_Genesis_Bytes, f ∈ genesisNotStored) ∧ (∀ f ∈ genesisNotStored, f ∈ fieldsOfGenesis) := by decide

/-- **HardforkConfig**: field `i` is version `i+2` (the assumption under `Hardfork.version`, `firstMismatch`, `recFrom`). -/
theorem hardfork_fields_are_versions : fieldsOfHardforkConfig = versionNames fieldsOfHardforkConfig.length := by decide

/-- **CheckCompatibility** (generated Go code, one test per field): the tests are, in field order, one per configured version
with the stored key of the same name, each with the truth table of `(isFork(c.Vk,h) || isFork(db[Vk],h)) && c.Vk != db[Vk]`,
and `checkOlderNode` gets the highest configured version — what `Hardfork.firstMismatch` / `checkCompatibility` transcribe. -/
theorem compat_checks_spec :
    compatChecks.map (fun c => (c.1, c.2.1, c.2.2.1)) = fieldsOfHardforkConfig.map (fun f => (f, f, f)) ∧
    (∀ c ∈ compatChecks, c.2.2.2 = compatTable) ∧
    compatOlderMax = fieldsOfHardforkConfig.length + 1 := by decide

end inventory

/-! ## Part 7 — start-up on an existing chain database: `checkHardfork` (chain/chainservice.go), `ChainDB.Hardfork`,
`FixDbConfig`, `WriteHardfork`; carried identifiers

The clause "the hardfork version assigned to a height is stable across restarts", stated for the whole start-up path
and over whole histories of a data directory:

    a start that the node accepts gives every height up to the best block the version it had under the
    configuration the chain was run with so far                                            (FULL STATEMENT)

`old` is that earlier configuration (a release may know fewer versions than the next one: `old.length ≤ c.length`),
`recordOf old` the record it left (`WriteHardfork`). On the pinned code the full statement is FALSE
(`restart_keeps_versions_false`, known finding C19-hardfork-new-fork-height-at-or-below-best-accepted): a key the record
lacks is filled with the node's own height before the comparison, and an unreadable record skips the comparison. It is
proved under the guard "the stored record has every key the node configures" (`_partial`), lifted to all histories
(`all_restarts_keep_versions_partial`), and proved in full for the repaired variant of the same definition
(`restart_repaired_keeps_versions`, `all_restarts_keep_versions_repaired`). Tie: harness c19chain runs the real
`checkHardfork` (shim on a live node and real stop / `NewChainService`) on generated records; `chkhf` operations. -/
section startup
open Aergo.Hardfork Aergo.Startup

/-- `fixFromWith id` is the `FixDbConfig` transcription the `fix` operations correspond (`Hardfork.fixFrom`). -/
theorem fix_is_model (d : List (Nat × Nat)) (i : Nat) (c : Config) : fixFromWith id d i c = fixFrom d i c := by
  induction c generalizing d i with
  | nil => rfl
  | cons x rest ih => simp only [fixFromWith, fixFrom, id]; exact ih _ _

/-- **restart_keeps_versions_partial.** Pinned code, guard: the stored record has every key the node configures
(the record was written by a release that knows the same versions). -/
theorem restart_keeps_versions_partial (c old : Config) (best h : Nat) (hkeys : old.length = c.length)
    (hs : checkHardfork c (.record (recordOf old)) best = .started) (hh : h ≤ best) : version c h = version old h := by
  have := started_versions id false c old best h (by omega) hs hh
  rwa [List.drop_eq_nil_of_le (by omega), List.map_nil, List.append_nil] at this

-- non-vacuity: an accepted restart with a changed (future) height
example : checkHardfork [1, 2, 3, 9] (.record (recordOf [1, 2, 3, 7])) 6 = .started := by decide
example : checkHardfork [1, 2, 3, 5] (.record (recordOf [1, 2, 3, 7])) 6 = .refused (.fork 5) := by decide

/-- **The full statement is false on the pinned code** (known finding): the record of a release that knew V2..V4,
a new release scheduling V5 at height 5 with the best block at 6 — accepted, and blocks 5 and 6 change from version 4 to 5. -/
theorem restart_keeps_versions_false :
    ¬ ∀ (c old : Config) (best h : Nat), old.length ≤ c.length → checkHardfork c (.record (recordOf old)) best = .started →
        h ≤ best → version c h = version old h := by
  intro hall
  have := hall [1, 2, 3, 5] [1, 2, 3] 6 5 (by decide) (by decide) (by decide)
  revert this; decide

/-- An unreadable record is taken for "no record": every configuration is accepted, whatever the chain holds. -/
theorem restart_unreadable_record_unchecked (c : Config) (best : Nat) : checkHardfork c .unparsable best = .started := rfl

/-- **restart_repaired_keeps_versions.** The full statement holds for the repaired start-up (a missing key = "never activated",
`never` above every block number; unreadable record = refusal): for every earlier configuration with at most as many versions. -/
theorem restart_repaired_keeps_versions (never : Nat) (c old : Config) (best h : Nat) (hlen : old.length ≤ c.length)
    (hn : best < never) (hs : checkHardforkRepaired never c (.record (recordOf old)) best = .started) (hh : h ≤ best) :
    version c h = version old h := by
  have := started_versions (fun _ => never) true c old best h hlen hs hh
  rw [this]
  unfold version
  apply verFrom_append_gt
  intro x hx
  obtain ⟨_, _, rfl⟩ := List.mem_map.mp hx
  omega

example : checkHardforkRepaired (2^64 - 1) [1, 2, 3, 5] (.record (recordOf [1, 2, 3])) 6 = .refused (.fork 5) := by decide
example : checkHardforkRepaired (2^64 - 1) [1, 2, 3, 7] (.record (recordOf [1, 2, 3])) 6 = .started := by decide
example : checkHardforkRepaired (2^64 - 1) [1, 2, 3, 7] .unparsable 6 = .unreadable := by decide

/-- **all_restarts_keep_versions_partial.** Any number of starts of one data directory by releases that know the same
versions (accepted or refused, any configurations): the version of a height that was at or below the best block at every one
of these starts is, under the configuration of the last accepted start, what it was under the first. -/
theorem all_restarts_keep_versions_partial (old : Config) (starts : List (Config × Nat))
    (hsame : Chain (· = ·) old.length starts) (h : Nat) (hh : ∀ s ∈ starts, h ≤ s.2) :
    version (lastAccepted checkHardfork old starts) h = version old h :=
  lastAccepted_stable checkHardfork (· = ·) (fun _ _ _ h1 h2 => h1.trans h2)
    (fun c old best hl hs h hb => restart_keeps_versions_partial c old best h hl hs hb) old starts hsame h hh

/-- **all_restarts_keep_versions_repaired.** The same for the repaired start-up, over releases that only ever add versions. -/
theorem all_restarts_keep_versions_repaired (never : Nat) (old : Config) (starts : List (Config × Nat))
    (hup : Chain (· ≤ ·) old.length starts) (h : Nat) (hh : ∀ s ∈ starts, h ≤ s.2) (hn : ∀ s ∈ starts, s.2 < never) :
    version (lastAccepted (fun c s best => if best < never then checkHardforkRepaired never c s best else .unreadable) old starts) h = version old h :=
  lastAccepted_stable _ (· ≤ ·) (fun _ _ _ h1 h2 => Nat.le_trans h1 h2)
    (fun c old best hl hs h hb => by
      by_cases hb' : best < never
      · rw [if_pos hb'] at hs; exact restart_repaired_keeps_versions never c old best h hl hb' hs hb
      · rw [if_neg hb'] at hs; cases hs) old starts hup h hh

-- a history: same release, a refused and two accepted starts
example : lastAccepted checkHardfork [1, 2, 3, 9] [([1, 2, 3, 8], 5), ([1, 2, 4, 8], 6), ([1, 2, 3, 10], 7)] = [1, 2, 3, 10] := by decide

/-- The receipt format of a block is one function of the configuration and the block number; it agrees with the block's
version (`IsV2Fork(no)` ⇔ `Version(no) ≥ 2`) on every valid configuration. -/
theorem receipt_format_is_version (c : Config) (no : Nat) (hv : validate c = true) :
    (receiptFormat c no = 2 ↔ 2 ≤ version c no) ∧ (receiptFormat c no = 1 ∨ receiptFormat c no = 2) := by
  cases c with
  | nil => simp [receiptFormat, version, verFrom]
  | cons v2 rest =>
    have hr := verFrom_range no 1 rest
    have hvr : validFrom v2 rest = true := by
      simp only [validate, validFrom, Bool.and_eq_true] at hv
      exact hv.2
    have hmono : verFrom no 1 rest ≠ 0 → v2 ≤ no := validFrom_le_of_ver no 1 rest v2 hvr
    have hver : version (v2 :: rest) no =
        if verFrom no 1 rest ≠ 0 then verFrom no 1 rest else if v2 ≤ no then 2 else 0 := rfl
    by_cases h2 : v2 ≤ no
    · have hf : receiptFormat (v2 :: rest) no = 2 := by simp [receiptFormat, isFork, h2]
      rw [hf, hver]
      refine ⟨⟨fun _ => ?_, fun _ => rfl⟩, .inr rfl⟩
      split
      · omega
      · simp [h2]
    · have hz : verFrom no 1 rest = 0 := by
        by_cases hz : verFrom no 1 rest = 0
        · exact hz
        · exact absurd (hmono hz) h2
      have hf : receiptFormat (v2 :: rest) no = 1 := by simp [receiptFormat, isFork, h2]
      rw [hf, hver, hz]
      simp [h2]

end startup

/-! ## Part 8 — carried identifiers (`Block.Hash`, `Tx.Hash`)

The binding theorems of Part 1 are about the *computed* digests. A `types.Block` / `types.Tx` also carries a `Hash` field:
`Block.BlockHash()` returns it when non-empty (and memoises the digest otherwise), `CalculateTxsRootHash` hashes the
carried `Tx.Hash`. For transactions `transaction.Validate` (types/transaction.go) rejects a carried hash that is not the
digest; for blocks nothing does (known finding C18-id-not-recomputed), so the block statements carry the guard
"carried = [] or carried = digest", which the node's own block factory must establish (harness c19chain checks it on the
real factory: a block whose identifier was memoised before `SetConfirms` / `Sign` violates it). -/
section carried
open Aergo.Startup Aergo.Merkle

theorem block_id_fresh (d : Bytes) : blockHash [] d = d := rfl

theorem block_id_carried (c d : Bytes) (hc : c ≠ []) : blockHash c d = c := by
  unfold blockHash
  cases c with
  | nil => exact absurd rfl hc
  | cons _ _ => rfl

/-- Under the guard the identifier a block carries is the digest of its header… -/
theorem block_id_is_digest (c d : Bytes) (hc : c = [] ∨ c = d) : blockHash c d = d := by
  rcases hc with rfl | rfl
  · rfl
  · unfold blockHash; split <;> rfl

/-- …so it commits to every header field (`block_id_binds` for the identifier as `BlockHash()` returns it). -/
theorem carried_block_id_binds (H : Bytes → Bytes) (fk : String × Kind) (hfk : fk ∈ blockHashSpec) (r r' : Rec)
    (hagree : AgreeExcept fk.1 r r') (hne : encField r fk ≠ encField r' fk)
    (c c' : Bytes) (hc : c = [] ∨ c = H (encode blockHashSpec r)) (hc' : c' = [] ∨ c' = H (encode blockHashSpec r')) :
    blockHash c (H (encode blockHashSpec r)) ≠ blockHash c' (H (encode blockHashSpec r')) ∨
      Collision H (encode blockHashSpec r) (encode blockHashSpec r') := by
  rw [block_id_is_digest _ _ hc, block_id_is_digest _ _ hc']
  exact block_id_binds H fk hfk r r' hagree hne

/-- Without the guard nothing is bound: any non-empty carried value is the identifier, whatever the header (C18-id-not-recomputed). -/
theorem carried_block_id_unbound (c d d' : Bytes) (hc : c ≠ []) : blockHash c d = blockHash c d' := by
  rw [block_id_carried c d hc, block_id_carried c d' hc]

/-- Memoising the identifier before the header is complete freezes the digest of the incomplete header: after the header
changed (digest `d1`) the block still answers `d0`. -/
theorem block_id_stale_after_memo (d0 d1 : Bytes) (h0 : d0 ≠ []) : blockHash (blockHash [] d0) d1 = d0 := by
  rw [block_id_fresh, block_id_carried d0 d1 h0]

theorem tx_hash_ok_iff (c d : Bytes) : txHashOk c d = true ↔ c = d := by
  unfold txHashOk; exact beq_iff_eq

/-- **txs_root_binds_carried.** The transaction root is computed over the *carried* hashes; for transactions that passed
`Validate` (carried hash = digest of the body, `txHashOk`) it commits to the bodies as `txs_root_binds` states. -/
theorem txs_root_binds_carried (H : Bytes → Bytes) (hH : ∀ x, (H x).length = 32) (zero : Bytes) (txs txs' : List (Rec × Bytes))
    (hv : ∀ t ∈ txs ++ txs', txHashOk t.2 (H (encode txHashSpec t.1)) = true)
    (hl : txs.length = txs'.length)
    (he : root (fun l r => H (l ++ r)) zero ((txs.map (·.2)).map some) = root (fun l r => H (l ++ r)) zero ((txs'.map (·.2)).map some)) :
    (txs.map (·.1)).map (encode txHashSpec) = (txs'.map (·.1)).map (encode txHashSpec) ∨
      CollisionIn H ((txs.map (·.1)).map (encode txHashSpec) ++ hashedBytes H ((txs.map (·.1)).map (fun t => H (encode txHashSpec t))))
                    ((txs'.map (·.1)).map (encode txHashSpec) ++ hashedBytes H ((txs'.map (·.1)).map (fun t => H (encode txHashSpec t)))) := by
  have hc : ∀ (l : List (Rec × Bytes)), (∀ t ∈ l, txHashOk t.2 (H (encode txHashSpec t.1)) = true) →
      l.map (·.2) = (l.map (·.1)).map (fun t => H (encode txHashSpec t)) := by
    intro l hl'
    induction l with
    | nil => rfl
    | cons t rest ih =>
      simp only [List.map_cons, List.cons.injEq]
      exact ⟨(tx_hash_ok_iff _ _).mp (hl' t List.mem_cons_self), ih (fun u hu => hl' u (List.mem_cons_of_mem _ hu))⟩
  rw [hc txs (fun t ht => hv t (List.mem_append_left _ ht)), hc txs' (fun t ht => hv t (List.mem_append_right _ ht))] at he
  exact txs_root_binds H hH zero (txs.map (·.1)) (txs'.map (·.1)) (by simpa using hl) he

/-- Without `Validate` the root says nothing about the bodies: two lists with different bodies and the same carried hashes. -/
theorem txs_root_unbound_without_validate (h : Bytes → Bytes → Bytes) (zero c : Bytes) (b b' : Rec) :
    root h zero (([(b, c)].map (·.2)).map some) = root h zero (([(b', c)].map (·.2)).map some) := rfl

end carried

end Aergo.Props.C19
