/-
C20 — Contract queries and view functions cannot change state.

"Running contract code in a read-only context (a client query, a fee-delegation check, or a function
declared as a view, including everything it calls) never modifies contract storage, balances, deployed
code, events, SQL data or governance state: every host operation that could do so refuses with an error
in such a context. Read-only execution therefore leaves the state root unchanged."
Quantifier: all contract programs and call chains — every host-API entry point exposed to contract code
that performs a mutation, on every path through it.

What is proved here, and about what.  The LuaJIT VM cannot be built in this environment; the statement is
about the *host API*: contract code can touch chain state only through the `//export`ed Go callbacks of
package `contract`.  `Aergo.Gen.HostApi.program` is their control-flow skeleton (`Model.HostApi.Stmt`),
regenerated from vm_callback.go, vm.go, vm_state.go on every run by `tools/goext hostapi`; calls and field
writes are classified by the reviewed tables of `tools/goext/hostapi_tables.go` (anything unclassified that
touches a state-bearing package, receiver type or field is a `mut` sink named `unknown:…`).

* `dominated_sound` (any program, proved once, by induction on executions — no bound on path length, loop
  counts, call depth or re-entrant callback sequences): if the checker accepts a program, then no execution
  of an exported callback with `isQuery` or `nestedView > 0` set emits a `mut` sink, and none with `isQuery`
  set emits a `mutQ` sink.
* `all_callbacks_ok`: the checker accepts the regenerated program — *this* is the obligation that breaks
  when a guard is removed, moved below a mutation, put into one branch only, or a new mutating call appears.
* `readonly_no_mutation`, `query_entry_no_mutation`, `readonly_session_no_mutation`: the two combined, for
  single invocations, for the Go-level entry points `Query`/`CheckFeeDelegation`, and for arbitrary
  sequences of invocations (= arbitrary contract programs, seen from the host API).
* generated-fact theorems: who writes the read-only flags, who builds query contexts, which callbacks are
  reachable only through the C glue, what the C modules guard, that the state API is classified completely.

* round 3: `readonly_refuses_or_unaffected` ("refuses with an error": a read-only flag never changes what a
  callback does except by making it return an error — up to the reviewed exemptions `refuse_exemptions`),
  `readonly_root_unchanged` / `readonly_session_root_unchanged` ("state root unchanged", over an arbitrary
  interpretation of the events in which only `mut`/`mutQ` events can change the root),
  `view_function_runs_with_positive_depth` + `newExecutor_sets_isView` + `view_bracket_comes_first` +
  `is_view_writers` ("a function declared as a view runs with nestedView > 0"), `flag_tests_on_own_context` (whose
  flags the guards read), `c_view_guard_effective` (condition and action of the C guards),
  `sql_handles` / `iface_impls_within_class` (statesql.go is part of the analysed files).

Not carried by a theorem (see `notes/C20.md`): fidelity of the extractor and of the sink/read-only tables
(both exercised on every run by the corpus of synthetic callbacks, `corpus_verdicts`; the `ro` entries of the
state API and the read-only SQL connection are driven on the real code by harness/c20); LuaJIT, SQLite and the C
glue themselves (the view bracket for calls inside one Lua state is in the patched LuaJIT).
-/
import Aergo.Lemmas.HostApi
import Aergo.Lemmas.HostApiDeep
import Aergo.Gen.HostApi

namespace Aergo.Props.C20
open Aergo.HostApi

/-! ## The checker is sound (all programs, all executions) -/

/-- One mode: if `DominatedIn m p`, every execution of an entry point of mode `m` under flags allowed by
`m` emits no sink that `m` forbids. -/
theorem dominatedIn_sound (p : Program) (m : Mode) (h : DominatedIn m p = true) {q v : Bool}
    (hm : m.flagsOK q v) (f : Nat) (fn : Fn) (hf : p.fn? f = some fn) (he : fn.isEntry m = true)
    (ρ : Env) (hρ : fn.okEnv ρ) (tr : List Sink) (o : Out) (hx : Exec p q v ρ fn.body tr o) :
    ∀ e ∈ tr, forbidden m e.kind = false := by
  simp only [DominatedIn, Bool.and_eq_true] at h
  obtain ⟨hS, hE⟩ := h
  have hin : (safeSet m p).contains f = true := by
    have := (List.all_eq_true.mp hE) f (List.mem_range.mpr (fn?_lt hf))
    simpa [hf, he] using this
  have hmem : f ∈ safeSet m p := by simpa using hin
  have hb : ∃ σ', chk m (safeSet m p) fn.assume fn.body (some []) = some σ' := by
    have := (List.all_eq_true.mp hS) f hmem
    simp only [checkFn, hf] at this
    exact Option.isSome_iff_exists.mp this
  obtain ⟨σ', hb⟩ := hb
  exact (chk_sound hm hS hE hx fn.assume [] σ' hρ (Facts.holds_nil ρ) hb).1

/-- **Soundness of `Dominated`.**  For every program the checker accepts: an exported callback invoked in a
read-only context (`q` = `ctx.isQuery`, `v` = `ctx.nestedView > 0`, at least one set), along any path, with
any outcomes of opaque conditions, any loop counts, any nested in-package calls and any re-entrant callback
invocations, emits no `mut` sink; with `isQuery` set it emits no `mutQ` sink either. -/
theorem dominated_sound (p : Program) (h : Dominated p = true) (q v : Bool) (hro : (q || v) = true)
    (f : Nat) (fn : Fn) (hf : p.fn? f = some fn) (hexp : fn.exported = true)
    (ρ : Env) (hρ : fn.okEnv ρ) (tr : List Sink) (o : Out) (hx : Exec p q v ρ fn.body tr o) :
    ∀ e ∈ tr, e.kind ≠ .mut ∧ (q = true → e.kind ≠ .mutQ) := by
  simp only [Dominated, Bool.and_eq_true] at h
  have he : ∀ m, fn.isEntry m = true := by intro m; simp [Fn.isEntry, hexp]
  intro e hmem
  cases q with
  | true =>
    have := dominatedIn_sound p .Q h.1 (q := true) (v := v) rfl f fn hf (he _) ρ hρ tr o hx e hmem
    cases hk : e.kind <;> simp [hk, forbidden] at this ⊢
  | false =>
    have hv : v = true := by simpa using hro
    subst hv
    have := dominatedIn_sound p .V h.2 (q := false) (v := true) rfl f fn hf (he _) ρ hρ tr o hx e hmem
    cases hk : e.kind <;> simp [hk, forbidden] at this ⊢

/-- Non-vacuity of `dominated_sound` (test on sample values): a setter with the guard is accepted and has a
read-only execution (the one that returns at the guard) … -/
example : Dominated Sample.guardedSetter = true ∧
    Exec Sample.guardedSetter true false (fun _ => false) Sample.guardedBody [] .returned :=
  ⟨by decide, .seqX (.iteT ⟨true, false, rfl, rfl, rfl⟩ .ret) (by decide)⟩

/-- … and the same setter without the guard is rejected, and does have a read-only execution that mutates
(test on sample values; the checker is neither constantly `true` nor constantly `false`). -/
example : Dominated Sample.unguardedSetter = false ∧
    Exec Sample.unguardedSetter true false (fun _ => false) (.sink ⟨.mut, 0⟩) [⟨.mut, 0⟩] .normal :=
  ⟨by decide, .sink⟩

/-! ## The regenerated program passes -/

/-- **Every exported callback of the current tree is dominated** (and so are `Query` /
`CheckFeeDelegation` in query mode).  Finite table, decided by evaluation of the checker on
`Gen.HostApi.program`; re-checked on every run against the regenerated file. -/
theorem all_callbacks_ok : Dominated Gen.HostApi.program = true := by decide +kernel

/-- The extraction left nothing unclassified and met no control flow outside its subset (`goto`, labels,
`continue` inside `switch`): such sites are emitted as `mut` sinks *and* listed here. -/
theorem extraction_complete :
    Gen.HostApi.unknownSinks = [] ∧ Gen.HostApi.unsupported = [] := ⟨rfl, rfl⟩

/-- **C20 for one invocation.**  In the current tree, a host callback running in a read-only context never
performs a state-mutating operation, on any path; under `isQuery` it never opens a writable SQL transaction
either.  Hypothesis `hρ`: the atom valuation satisfies the assumptions listed in `assumptions_listed`. -/
theorem readonly_no_mutation (q v : Bool) (hro : (q || v) = true)
    (f : Nat) (fn : Fn) (hf : Gen.HostApi.program.fn? f = some fn) (hexp : fn.exported = true)
    (ρ : Env) (hρ : fn.okEnv ρ) (tr : List Sink) (o : Out)
    (hx : Exec Gen.HostApi.program q v ρ fn.body tr o) :
    ∀ e ∈ tr, e.kind ≠ .mut ∧ (q = true → e.kind ≠ .mutQ) :=
  dominated_sound _ all_callbacks_ok q v hro f fn hf hexp ρ hρ tr o hx

/-- The Go-level read-only entry points (`Query`, `CheckFeeDelegation`: they build their context with
`isQuery = true`, see `query_contexts`) emit no `mut`/`mutQ` sink themselves — including what
`closeQuerySql` / `rollbackToSavepoint` do afterwards. -/
theorem query_entry_no_mutation (v : Bool)
    (f : Nat) (fn : Fn) (hf : Gen.HostApi.program.fn? f = some fn) (hq : fn.queryEntry = true)
    (ρ : Env) (hρ : fn.okEnv ρ) (tr : List Sink) (o : Out)
    (hx : Exec Gen.HostApi.program true v ρ fn.body tr o) :
    ∀ e ∈ tr, e.kind ≠ .mut ∧ e.kind ≠ .mutQ := by
  have h := all_callbacks_ok
  simp only [Dominated, Bool.and_eq_true] at h
  intro e hmem
  have := dominatedIn_sound _ .Q h.1 (q := true) (v := v) rfl f fn hf (by simp [Fn.isEntry, hq]) ρ hρ tr o hx e hmem
  cases hk : e.kind <;> simp [hk, forbidden] at this ⊢

/-- One invocation of an exported callback inside a read-only session. -/
structure Invocation (q v : Bool) where
  f : Nat
  fn : Fn
  hf : Gen.HostApi.program.fn? f = some fn
  hexp : fn.exported = true
  ρ : Env
  hρ : fn.okEnv ρ
  tr : List Sink
  o : Out
  hx : Exec Gen.HostApi.program q v ρ fn.body tr o

/-- **C20 for all contract programs.**  Seen from the host API a contract program (with everything it calls)
is a sequence of callback invocations — nested ones are part of the `reenter` steps inside `Exec`.  While
the context is read-only, the concatenated event trace of any such sequence contains no mutation. -/
theorem readonly_session_no_mutation (q v : Bool) (hro : (q || v) = true) (calls : List (Invocation q v)) :
    ∀ e ∈ calls.flatMap (·.tr), e.kind ≠ .mut ∧ (q = true → e.kind ≠ .mutQ) := by
  intro e he
  obtain ⟨c, _, hc⟩ := List.mem_flatMap.mp he
  exact readonly_no_mutation q v hro c.f c.fn c.hf c.hexp c.ρ c.hρ c.tr c.o c.hx e hc

/-- Non-vacuity of `readonly_no_mutation` (test): the generated program has an exported `luaSetDB`
(its verdict `guarded` is part of `callback_verdicts`). -/
example : (Gen.HostApi.program.fns.find? (·.name == "luaSetDB")).map (·.exported) = some true := by
  decide +kernel

/-! ## Guards conjoined with another condition, and the assumptions they need -/

/-- The only guard that is conjoined with another condition is `luaSendAmount`'s (`… && amount > 0`). -/
theorem guard_when_sites :
    Gen.HostApi.guardWhen = [("luaSendAmount", "(query || view) && «amountBig.Cmp(zeroBig) > 0»")] := rfl

/-- The assumptions `readonly_no_mutation` makes about condition atoms, all of them: in `luaSendAmount`,
`amountBig.Cmp(zeroBig) > 0 ∨ amountBig.Cmp(zeroBig) == 0`, i.e. the amount is not negative.
(`transformAmount` guarantees it from fork version 5 on; for fork version 4 see the flag in notes/C20.md.) -/
theorem assumptions_listed :
    (Gen.HostApi.program.fns.filter (fun fn => !fn.assume.isEmpty)).map
        (fun fn => (fn.name, fn.assume.map (·.map fun l => (fn.atoms[l.1]?.getD "?", l.2)))) =
      [("luaSendAmount", [[("amountBig.Cmp(zeroBig) > 0", true), ("amountBig.Cmp(zeroBig) == 0", true)]])] := by
  decide +kernel

/-- Without that assumption the checker does *not* accept `luaSendAmount`: after the guard
`(isQuery ∨ nestedView > 0) ∧ amount > 0` has been passed, `state.SendBalance` is still reachable with a
negative amount.  (Kept as a theorem so that the evidence shows the assumption is load-bearing.) -/
theorem sendAmount_needs_nonneg_amount :
    Dominated { Gen.HostApi.program with
      fns := Gen.HostApi.program.fns.map fun fn => { fn with assume := [] } } = false := by
  decide +kernel

/-! ## Who writes the read-only flags -/

/-- `nestedView` is written only by `luaViewStart` (++), `luaViewEnd` (--) and by `executor.call`, which
increments it for a view function and decrements it in the `defer` that follows immediately. -/
theorem view_writers :
    Gen.HostApi.viewWrites =
      [("luaViewStart", "inc"), ("luaViewEnd", "dec"), ("executor.call", "inc"), ("executor.call", "dec")] ∧
    Gen.HostApi.program.sitesOf (fun k => k == .viewInc || k == .viewDec) =
      [("luaViewStart", "nestedView++"), ("luaViewEnd", "nestedView--"),
       ("executor.call", "nestedView++"), ("executor.call", "nestedView--")] := by
  refine ⟨rfl, by decide +kernel⟩

/-- Brackets: a sequence of `+1`/`-1` whose running sums never go below zero (the nested view calls made
*inside* a view function, each `++` matched by its later `--`) keeps a counter that starts at `d ≥ 1`
at `≥ 1`: the context stays read-only until the outermost `luaViewEnd`. -/
theorem view_depth_stays_positive (d : Int) (hd : 1 ≤ d) (w : List Int)
    (hbal : ∀ k, 0 ≤ (w.take k).sum) : ∀ k, 1 ≤ d + (w.take k).sum := by
  intro k; have := hbal k; omega

/-- Example for `view_depth_stays_positive`: view → (nested view → return) → … -/
example : ∀ k, 0 ≤ (([1, -1, 1, 1, -1, -1] : List Int).take k).sum := by
  intro k
  match k with
  | 0 | 1 | 2 | 3 | 4 | 5 => decide
  | k + 6 => simp [List.take_of_length_le]

/-- `isQuery` is never assigned after construction; the only literal that sets it is in
`NewVmContextQuery` (`isQuery: true`), and `Query` and `CheckFeeDelegation` build their contexts with it.
(`NewVmContext` copies its `query` parameter; it is not reachable from the analysed entry points.) -/
theorem query_contexts :
    Gen.HostApi.queryWrites = [] ∧
    Gen.HostApi.queryCtxLits = [("NewVmContextQuery", "true")] ∧
    Gen.HostApi.ctxBuilders = [("NewVmContextQuery", "CheckFeeDelegation"), ("NewVmContextQuery", "Query")] :=
  ⟨rfl, rfl, rfl⟩

/-- Client queries and client fee-delegation checks (chain/chainservice.go) run on a block state created for
the occasion (`state.NewBlockState`), which is dropped afterwards; the fee-delegation check inside
transaction execution (chain/chainhandle.go) runs on the block state being built — there the guards are
the only protection. -/
theorem query_call_sites :
    Gen.HostApi.queryCalls =
      [("chain/chainservice.go", "ChainWorker.Receive", "contract.Query", "state.NewBlockState"),
       ("chain/chainservice.go", "ChainWorker.Receive", "contract.CheckFeeDelegation", "state.NewBlockState"),
       ("chain/chainhandle.go", "executeTx", "contract.CheckFeeDelegation", "parameter")] := rfl

/-- In query mode the SQL handle comes from `beginReadOnly`: the branches that test `isQuery` alone are
exactly these (the `mutQ` sinks `beginTx` / `savepoint` sit in their non-query arms, which is what
`all_callbacks_ok` checks in mode Q). -/
theorem query_only_branches :
    Gen.HostApi.queryOnly =
      [("luaGetDbHandle", "query"), ("luaGetDbHandle", "!query"),
       ("LuaGetDbHandleSnap", "!query"), ("setRandomSeed", "query")] ∧
    Gen.HostApi.viewOnly = [] ∧
    Gen.HostApi.program.sitesOf (· == .mutQ) =
      [("luaGetDbHandle", "beginTx"), ("luaGetDbHandle", "sqlTx.savepoint")] := by
  refine ⟨rfl, rfl, by decide +kernel⟩

/-! ## Restoring operations -/

/-- The `restore`-class sinks of the program: recovery-point reverts, event truncation, SQL rollback.  They
are not required to be guarded (`luaClearRecovery`, `luaDropEvent` have no guard); see
`restore_without_mutation_is_identity` and `internal_callbacks` for why that is harmless. -/
theorem restore_sites :
    Gen.HostApi.program.sitesOf (· == .restore) =
      [("luaDropEvent", "field events"), ("luaDropEvent", "field eventCount"),
       ("writableSqlTx.rollback", "sql.Tx.Rollback"),
       ("writableSqlTx.rollbackToSavepoint", "sql.Tx.Exec \"rollback to savepoint…\""),
       ("writableSqlTx.rollbackToSubSavepoint", "sql.Tx.Exec \"rollback to savepoint…\""),
       ("executor.rollbackToSavepoint", "sqlTx.rollbackToSavepoint"),
       ("clearRecoveryPoint", "recoveryPoint.revertState")] := by
  decide +kernel

/-- Abstract recovery points: in a region that performs no mutation and restores only recovery points it
recorded itself, the state never changes — all recorded states equal the state at entry. -/
theorem restore_without_mutation_is_identity {S : Type} (σ : S) (ops : List (Snap.Op S))
    (hno : ∀ op ∈ ops, op.isMutate = false) (st : Snap.St S)
    (hrun : Snap.run ⟨σ, []⟩ ops = some st) : st.cur = σ := by
  suffices h : ∀ (ops : List (Snap.Op S)) (s0 : Snap.St S), s0.cur = σ → (∀ x ∈ s0.stack, x = σ) →
      (∀ op ∈ ops, op.isMutate = false) → ∀ st, Snap.run s0 ops = some st → st.cur = σ from
    h ops ⟨σ, []⟩ rfl (by intro x hx; cases hx) hno st hrun
  intro ops
  induction ops with
  | nil => intro s0 hc _ _ st hr; simp [Snap.run] at hr; subst hr; exact hc
  | cons op rest ih =>
    intro s0 hc hs hno st hr
    have hop := hno op (List.mem_cons_self)
    have hrest : ∀ o ∈ rest, o.isMutate = false := fun o ho => hno o (List.mem_cons_of_mem _ ho)
    cases op with
    | mutate f => simp [Snap.Op.isMutate] at hop
    | snap =>
      simp only [Snap.run, Snap.step, Option.bind_some] at hr
      refine ih ⟨s0.cur, s0.cur :: s0.stack⟩ hc ?_ hrest st hr
      intro x hx
      rcases List.mem_cons.mp hx with rfl | hx
      · exact hc
      · exact hs x hx
    | restore k =>
      simp only [Snap.run, Snap.step] at hr
      cases hk : s0.stack[k]? with
      | none => simp [hk] at hr
      | some s =>
        simp only [hk, Option.bind_some] at hr
        have hmem : s ∈ s0.stack := List.mem_of_getElem? hk
        refine ih ⟨s, s0.stack.drop k⟩ (hs s hmem) ?_ hrest st hr
        intro x hx
        exact hs x (List.mem_of_mem_drop hx)

/-- Non-vacuity: a region that snapshots twice and reverts to the outer snapshot satisfies the hypotheses … -/
example : Snap.run (S := Nat) ⟨7, []⟩ [.snap, .snap, .restore 1, .snap, .restore 0] = some ⟨7, [7, 7]⟩ := by rfl

/-- … and the hypothesis "only its own recovery points" matters: with a recovery point recorded *before* the
region (state 3) a restore does change the state. -/
example : (Snap.run (S := Nat) ⟨7, [3]⟩ [.snap, .restore 1]).map (·.cur) = some 3 := by rfl

/-- The callbacks that restore or that move the view counter cannot be called by contract code directly:
no C function registered as a Lua function *is* one of them, and their only C callers are the `pcall`
wrappers (`pcall`, `xpcall`, `contract.pcall`) resp. the view bracket hooks.  In a read-only context
`luaSetRecoveryPoint` returns 0 (guard, `all_callbacks_ok`), and the wrappers call `luaClearRecovery`
only with the sequence number it returned. -/
theorem internal_callbacks :
    Gen.HostApi.cInternalCallers =
      [("luaClearRecovery", "modulePcall"), ("luaClearRecovery", "pcall"), ("luaClearRecovery", "xpcall"),
       ("luaDropEvent", "modulePcall"), ("luaDropEvent", "pcall"), ("luaDropEvent", "xpcall"),
       ("luaSetRecoveryPoint", "modulePcall"), ("luaSetRecoveryPoint", "pcall"), ("luaSetRecoveryPoint", "xpcall"),
       ("luaViewEnd", "vm_internal_view_end"), ("luaViewStart", "vm_internal_view_start")] ∧
    Gen.HostApi.cInternalRoutes =
      [("contract_lib.pcall", "luaClearRecovery"), ("contract_lib.pcall", "luaDropEvent"),
       ("contract_lib.pcall", "luaSetRecoveryPoint"),
       ("_basefuncs.pcall", "luaClearRecovery"), ("_basefuncs.pcall", "luaDropEvent"),
       ("_basefuncs.pcall", "luaSetRecoveryPoint"),
       ("_basefuncs.xpcall", "luaClearRecovery"), ("_basefuncs.xpcall", "luaDropEvent"),
       ("_basefuncs.xpcall", "luaSetRecoveryPoint")] ∧
    Gen.HostApi.cFnPtrWiring =
      [("lj_internal_view_start", "vm_internal_view_start"), ("lj_internal_view_end", "vm_internal_view_end")] :=
  ⟨rfl, rfl, rfl⟩

/-! ## The C modules -/

/-- SQL execution from C: the registered Lua functions that reach `sqlite3_step`, with the guard calls that
precede it in their own body.  `db.exec` and `pstmt:exec` refuse inside a view function (`luaCheckView`);
`rs:next` only steps statements created by `db.query` / `pstmt:query`, which insist on a read-only
statement (`c_sql_readonly_checks`).  In *query* mode the protection is the read-only handle
(`query_only_branches`), not these guards. -/
theorem c_sql_execution_guarded :
    (Gen.HostApi.cLuaFns.filter (·.sqlStep)).map (fun f => (f.table, f.luaName, f.cfunc, f.guardsBeforeStep)) =
      [("rs_methods", "next", "db_rs_next", []),
       ("pstmt_methods", "exec", "db_pstmt_exec", ["luaCheckView"]),
       ("db_lib", "exec", "db_exec", ["luaCheckView"])] := by
  decide +kernel


/-! ## Round 3 — whose flags the guards read -/

/-- Every test of `isQuery` / `nestedView` in the analysed functions reads the function's *own* context
(`contexts[<parameter>]`, a `*vmContext` parameter or receiver, the `ctx` of the executor the function is a method
of or built itself from its own context): there is no test on another object (such a test is an opaque
condition in the IR, so `all_callbacks_ok` does not rest on it), and no function hands anything but its own
context to an in-package function that takes a `*vmContext`, or puts it into an `executor` literal. -/
theorem flag_tests_on_own_context : Gen.HostApi.flagForeign = [] ∧ Gen.HostApi.ctxArgs = [] := ⟨rfl, rfl⟩

/-! ## Round 3 — a function declared as a view runs with `nestedView > 0` -/

/-- `executor.isView` is assigned only while an executor is built (`newExecutor`): from the `View` bit of the
function's ABI entry (constructor and ordinary call) and `true` for the fee-delegation check. -/
theorem is_view_writers :
    Gen.HostApi.isViewWrites = [("newExecutor", "f.View"), ("newExecutor", "true"), ("newExecutor", "f.View")] ∧
    Gen.HostApi.program.sitesOf (· == .viewSet) =
      [("newExecutor", "isView := f.View"), ("newExecutor", "isView := true"), ("newExecutor", "isView := f.View")] := by
  refine ⟨rfl, by decide +kernel⟩

/-- Body of a function of the regenerated program, by name (`skip` if there is none: the theorems below are then
false, not vacuous). -/
def bodyOf (name : String) : Stmt :=
  match Gen.HostApi.program.fns.find? (·.name == name) with
  | some fn => fn.body
  | none => .skip

/-- Whenever `newExecutor` runs through to its final `return ce` (all earlier returns are the error exits, which
leave `ce.err` / `ce.preErr` set so that `executor.call` runs no function), it has assigned `ce.isView` on the way. -/
theorem newExecutor_sets_isView :
    ∃ init, (bodyOf "newExecutor").dropFinalRet = some init ∧
      ∀ (q v : Bool) (ρ : Env) (tr : List Sink), Exec Gen.HostApi.program q v ρ init tr .normal →
        ∃ e ∈ tr, e.kind = .viewSet := by
  have h : ((bodyOf "newExecutor").dropFinalRet.map (·.emitsOnNormal .viewSet)) = some true := by decide +kernel
  obtain ⟨init, hi, he⟩ := Option.map_eq_some_iff.mp h
  exact ⟨init, hi, fun q v ρ tr hx => emitsOnNormal_sound hx rfl he⟩

/-- In `executor.call`, with `ce.isView` set, nothing is emitted before `ctx.nestedView++` — in particular
`vm_loadcall` / `vm_pcall` (the places where contract code runs and calls back) come after it — and the matching
`nestedView--` is deferred (shape checked by `isBracket`). -/
theorem view_bracket_comes_first :
    ∃ a, (Gen.HostApi.program.fns.find? (·.name == "executor.call")).bind (·.atomIdx? "executor.isView") = some a ∧
      ∀ (q v : Bool) (ρ : Env), ρ a = true → ∀ (tr : List Sink) (o : Out),
        Exec Gen.HostApi.program q v ρ (bodyOf "executor.call") tr o →
          tr = [] ∨ ∃ e rest, tr = e :: rest ∧ e.kind = .viewInc := by
  refine ⟨1, by decide +kernel, ?_⟩
  intro q v ρ ha tr o hx
  exact bracketFirst_sound ha hx (by decide +kernel)

/-- **View depth.**  `nestedView` as maintained by the bracket (`+1` on entering a function declared as a view,
`-1` when that function returns or is unwound) equals the number of view functions on the call stack, for every
prefix of every well-bracketed run … -/
theorem view_depth_counts_open_views (evs : List ViewDepth.Ev) (s : ViewDepth.St)
    (h : ViewDepth.run ⟨0, []⟩ evs = some s) : s.counter = ViewDepth.openViews s.stack :=
  ViewDepth.run_inv evs ⟨0, []⟩ s h rfl

/-- … hence the guards' test `nestedView > 0` holds exactly while some function on the stack is a view: everything
a view function calls — directly, through `contract.call`, `pcall`, nested views that return — runs read-only. -/
theorem view_function_runs_with_positive_depth (evs : List ViewDepth.Ev) (s : ViewDepth.St)
    (h : ViewDepth.run ⟨0, []⟩ evs = some s) : 0 < s.counter ↔ true ∈ s.stack := by
  rw [view_depth_counts_open_views evs s h]
  exact ViewDepth.openViews_pos

/-- Example (test on sample values): view → plain call → nested view returns → still inside the outer view. -/
example : ViewDepth.run ⟨0, []⟩ [.enter true, .enter false, .enter true, .leave] = some ⟨1, [false, true]⟩ := by decide

/-- `luaCheckView`, the callback the C guards call, returns the own context's `nestedView`. -/
theorem check_view_returns_depth : Gen.HostApi.checkViewRet = ["nestedView"] := rfl

/-! ## Round 3 — "refuses with an error" -/

/-- Every function of the regenerated program is either on the exemption list or *flag-transparent or refusing*:
each branch on a read-only flag is a refusal (the arm that only a set flag can select returns an error). -/
theorem refuse_ok : Gen.HostApi.program.refuseOK = true := by decide +kernel

/-- The exemptions, all of them (functions whose behaviour depends on a flag without an error return), and the
shape of every flag-dependent branch of the program. -/
theorem refuse_exemptions :
    Gen.HostApi.refuseExempt.map (·.1) = ["luaSetRecoveryPoint", "luaGetDbHandle", "LuaGetDbHandleSnap", "setRandomSeed"] ∧
    (Gen.HostApi.program.fns.filter (·.body.startsExempt)).map (·.name) =
      ["luaSetRecoveryPoint", "luaGetDbHandle", "LuaGetDbHandleSnap", "setRandomSeed"] ∧
    Gen.HostApi.flagBranches =
      [("luaSetDB", "query || view", "then=refuse else=skip"),
       ("luaDelDB", "query || view", "then=refuse else=skip"),
       ("luaCallContract", "query || view", "then=refuse else=skip"),
       ("luaSendAmount", "(query || view) && «amountBig.Cmp(zeroBig) > 0»", "then=refuse else=skip"),
       ("luaSetRecoveryPoint", "query || view", "then=ret else=skip"),
       ("luaGetDbHandle", "query", "then=code else=code"),
       ("luaGetDbHandle", "!query", "then=code else=skip"),
       ("luaDeployContract", "query || view", "then=refuse else=skip"),
       ("luaEvent", "query || view", "then=refuse else=skip"),
       ("luaGovernance", "query || view", "then=refuse else=skip"),
       ("LuaGetDbHandleSnap", "!query", "then=refuse else=skip"),
       ("setRandomSeed", "query", "then=skip else=skip")] := by
  refine ⟨rfl, by decide +kernel, rfl⟩

/-- **"Every host operation that could change state refuses with an error."**  For every function of the current
tree and every execution under any flags (any path, nested calls, re-entrant callbacks): either an error is
returned somewhere (`refuse` event), or a function of the exemption list ran (`exempt` event), or the very same
run — same events, same outcome — is possible with both read-only flags clear.  Together with
`readonly_no_mutation`: a callback invoked in a read-only context with arguments for which it would mutate in a
writable context cannot run to that mutation, so it returns an error (or is exempt). -/
theorem readonly_refuses_or_unaffected (q v : Bool)
    (f : Nat) (fn : Fn) (hf : Gen.HostApi.program.fn? f = some fn)
    (ρ : Env) (tr : List Sink) (o : Out) (hx : Exec Gen.HostApi.program q v ρ fn.body tr o) :
    (∃ e ∈ tr, e.kind = .refuse ∨ e.kind = .exempt) ∨ Exec Gen.HostApi.program false false ρ fn.body tr o := by
  have hok := (List.all_eq_true.mp refuse_ok) fn (fn?_mem hf)
  simp only [Bool.or_eq_true] at hok
  rcases hok with hex | htr
  · obtain ⟨e, he, hk⟩ := startsExempt_emits hx hex
    exact .inl ⟨e, he, .inr hk⟩
  · exact transp_sound refuse_ok hx htr

/-- Non-vacuity (test on sample values): the guarded sample setter refuses in a query … -/
example : Sample.refusingSetter.refuseOK = true ∧
    Exec Sample.refusingSetter true false (fun _ => false) Sample.refusingBody [⟨.refuse, 1⟩] .returned :=
  ⟨by decide, .seqX (.iteT ⟨true, false, rfl, rfl, rfl⟩ (.seqN .sink .ret)) (by decide)⟩

/-- … and a setter whose guard swallows the call silently is rejected. -/
example : Sample.swallowingSetter.refuseOK = false := by decide

/-- **The error value reaches contract code as a Lua error.**  Every C wrapper that calls one of the refusing
callbacks tests the returned value (`r != NULL`, `r.r1 != NULL`, for deploy `r.r0 < 0`) and the guarded statement
raises a Lua error (`luaL_throwerror`); every refusing callback has such a wrapper. -/
theorem c_wrappers_raise_on_error :
    Gen.HostApi.cErrChecks.all (fun r =>
      r.2.2.2 == "raise" && ["r != NULL", "r.r1 != NULL", "r.r0 < 0", "(r = call) != NULL"].contains r.2.2.1) = true ∧
    Gen.HostApi.refusingCallbacks.all (fun n => Gen.HostApi.cErrChecks.any (·.1 == n)) = true ∧
    Gen.HostApi.refusingCallbacks =
      ["luaSetDB", "luaDelDB", "luaCallContract", "luaSendAmount", "luaDeployContract", "luaEvent", "luaGovernance",
       "LuaGetDbHandleSnap"] := by
  refine ⟨by decide +kernel, by decide +kernel, rfl⟩

/-! ## Round 3 — "the state root is unchanged" -/

/-- An interpretation of the sink events over an arbitrary state type: each event is an operation of the abstract
recovery-point machine (`mutate f`, `snap`, `restore k`); `root` is what an observer of the chain state sees.
The one requirement: only `mut` and `mutQ` events may change the root (that is what the classification tables
claim: every other class is a read, a marker, a cache, or bookkeeping). -/
structure Interp (S R : Type) where
  root : S → R
  op : Sink → Snap.Op S
  benign : ∀ e : Sink, e.kind ≠ .mut → e.kind ≠ .mutQ → (op e).preserves root

/-- **Read-only execution leaves the state root unchanged.**  Under any such interpretation, the state reached by
the events of a read-only invocation of an exported callback has the root it started with — provided restores
address recovery points taken inside the invocation (`Snap.run` from an empty stack is defined) and, for a view
function running inside a transaction (`q = false`), opening the writable SQL transaction / savepoint (`mutQ`)
does not by itself change data (SQL execution in that mode is stopped by the C guard, `c_view_guard_effective`). -/
theorem readonly_root_unchanged {S R : Type} (I : Interp S R) (q v : Bool) (hro : (q || v) = true)
    (hQ : q = false → ∀ e : Sink, e.kind = .mutQ → (I.op e).preserves I.root)
    (f : Nat) (fn : Fn) (hf : Gen.HostApi.program.fn? f = some fn) (hexp : fn.exported = true)
    (ρ : Env) (hρ : fn.okEnv ρ) (tr : List Sink) (o : Out)
    (hx : Exec Gen.HostApi.program q v ρ fn.body tr o)
    (σ : S) (st : Snap.St S) (hrun : Snap.run ⟨σ, []⟩ (tr.map I.op) = some st) :
    I.root st.cur = I.root σ := by
  have hno := readonly_no_mutation q v hro f fn hf hexp ρ hρ tr o hx
  refine (Snap.run_preserves I.root σ (tr.map I.op) ⟨σ, []⟩ rfl (by intro x hx; cases hx) ?_ st hrun).1
  intro op hop
  obtain ⟨e, he, rfl⟩ := List.mem_map.mp hop
  obtain ⟨h1, h2⟩ := hno e he
  by_cases hk : e.kind = .mutQ
  · cases q with
    | true => exact absurd hk (h2 rfl)
    | false => exact hQ rfl e hk
  · exact I.benign e h1 hk

/-- The same for a whole read-only session (any sequence of callback invocations = any contract program). -/
theorem readonly_session_root_unchanged {S R : Type} (I : Interp S R) (q v : Bool) (hro : (q || v) = true)
    (hQ : q = false → ∀ e : Sink, e.kind = .mutQ → (I.op e).preserves I.root)
    (calls : List (Invocation q v))
    (σ : S) (st : Snap.St S) (hrun : Snap.run ⟨σ, []⟩ ((calls.flatMap (·.tr)).map I.op) = some st) :
    I.root st.cur = I.root σ := by
  have hno := readonly_session_no_mutation q v hro calls
  refine (Snap.run_preserves I.root σ _ ⟨σ, []⟩ rfl (by intro x hx; cases hx) ?_ st hrun).1
  intro op hop
  obtain ⟨e, he, rfl⟩ := List.mem_map.mp hop
  obtain ⟨h1, h2⟩ := hno e he
  by_cases hk : e.kind = .mutQ
  · cases q with
    | true => exact absurd hk (h2 rfl)
    | false => exact hQ rfl e hk
  · exact I.benign e h1 hk

/-- Non-vacuity (test on sample values): an interpretation over `Nat × Nat` (root = first component) in which
`mut` events do change the root, `txctl` events snapshot and `restore` events go back one snapshot. -/
def Sample.interp : Interp (Nat × Nat) Nat where
  root := (·.1)
  op := fun e => match e.kind with
    | .mut => .mutate fun s => (s.1 + 1, s.2)
    | .mutQ => .mutate fun s => (s.1 + 1, s.2)
    | .txctl => .snap
    | .restore => .restore 0
    | _ => .mutate fun s => (s.1, s.2 + 1)
  benign := by
    intro e h1 h2
    cases hk : e.kind <;> simp_all [Snap.Op.preserves]

example : (Snap.run (S := Nat × Nat) ⟨(5, 0), []⟩
    ([⟨.txctl, 0⟩, ⟨.cache, 1⟩, ⟨.restore, 2⟩, ⟨.refuse, 3⟩].map Sample.interp.op)).map (·.cur) = some (5, 1) := by
  decide

/-! ## Round 3 — the C guards: condition and action -/

/-- **The C guards are effective.**  Every registered Lua function that executes SQL (other than `rs:next`, which
only steps statements created by `db.query` / `pstmt:query`) has, before its first SQL execution, a guard
`if (luaCheckView(…) ⋈ k) <raise a Lua error>` whose comparison holds for *every* positive view depth: with
`nestedView = n > 0` the function does not get as far as the SQL execution.  (A guard weakened in place —
`> 1`, a conjunction, an action that does not raise — makes `viewGuarded` false.) -/
theorem c_view_guard_effective :
    ∀ f ∈ Gen.HostApi.cLuaFns, f.sqlStep = true → (f.table, f.luaName) ≠ ("rs_methods", "next") →
      ∀ n : Int, 0 < n → f.reachesStep n = false := by
  have h : (Gen.HostApi.cLuaFns.filter fun f => f.sqlStep && !(f.table == "rs_methods" && f.luaName == "next")).all
      (·.viewGuarded) = true := by decide +kernel
  intro f hf hs hne n hn
  refine CLuaFn.viewGuarded_sound ((List.all_eq_true.mp h) f (List.mem_filter.mpr ⟨hf, ?_⟩)) n hn
  simp only [Bool.and_eq_true, hs, true_and, Bool.not_eq_true', Bool.and_eq_false_iff, beq_eq_false_iff_ne, ne_eq]
  by_cases ht : f.table = "rs_methods"
  · right
    intro hl
    exact hne (by rw [ht, hl])
  · left; exact ht

/-- Test on sample values: a guard weakened to `> 1` lets depth 1 through; one that does not raise stops nothing. -/
example : (CLuaFn.mk "db_module.c" "db_lib" "exec" "db_exec" [] true ["luaCheckView"]
    [⟨"luaCheckView", .gt 1, true, ""⟩]).reachesStep 1 = true := by decide
example : (CLuaFn.mk "db_module.c" "db_lib" "exec" "db_exec" [] true ["luaCheckView"]
    [⟨"luaCheckView", .gt 0, false, ""⟩]).reachesStep 1 = true := by decide
example : (CLuaFn.mk "db_module.c" "db_lib" "exec" "db_exec" [] true ["luaCheckView"]
    [⟨"luaCheckView", .gt 0, true, ""⟩]).reachesStep 1 = false := by decide

/-! ## Round 3 — the keyword gate of `db.query` -/

/-- **`db.query`'s only gate admits no writer.**  The keyword rules regenerated from `sqlcheck_is_readonly_sql` /
`sqlcheck_is_permitted_pragma` let no write-capable leading keyword of SQLite's grammar through — in particular not
`WITH` (`WITH … INSERT/UPDATE/DELETE`) — and no pragma that sets anything.  (That the *lexer* in front of the rules
finds the keyword SQLite's tokenizer finds is tested against SQLite itself on every run: harness/c20 sqlcheckdrive.) -/
theorem sql_readonly_gate_admits_no_writer :
    (∀ w ∈ SqlGate.writeCapable, w ≠ "PRAGMA" → SqlGate.classifiesReadonly Gen.HostApi.sqlReadonlyFirst w = false) ∧
    SqlGate.classifiesReadonly Gen.HostApi.sqlReadonlyFirst "PRAGMA" = false ∧
    (∀ w ∈ SqlGate.settablePragmas, ∀ r ∈ Gen.HostApi.sqlReadonlyPragmas, SqlGate.admits r w = false) ∧
    "WITH" ∈ SqlGate.writeCapable := by
  have h1 : SqlGate.firstOK Gen.HostApi.sqlReadonlyFirst = true := by decide +kernel
  have h2 : SqlGate.pragmasOK Gen.HostApi.sqlReadonlyPragmas = true := by decide +kernel
  simp only [SqlGate.firstOK, Bool.and_eq_true, List.all_eq_true, Bool.not_eq_true'] at h1
  simp only [SqlGate.pragmasOK, List.all_eq_true, Bool.not_eq_true'] at h2
  refine ⟨?_, h1.2, h2, by decide⟩
  intro w hw hne
  exact h1.1.1 w (List.mem_filter.mpr ⟨hw, by simpa using hne⟩)

/-- Test on sample values: the rule of the seeded change (`WITH` classified read-only) is rejected; the current
shape (`SELECT` prefix + pragma table) is accepted. -/
example : SqlGate.firstOK [("SELECT", "prefix"), ("WITH", "exact"), ("PRAGMA", "pragma")] = false := by decide +kernel
example : SqlGate.firstOK [("SELECT", "prefix"), ("PRAGMA", "pragma")] = true := by decide +kernel
example : SqlGate.pragmasOK [("TABLE_INFO", "prefix"), ("USER_VERSION", "exact")] = false := by decide +kernel

/-- The registered Lua functions that compile SQL (`sqlite3_prepare*`) and what stands in front of it: `db.exec`
refuses in a view (`luaCheckView`, `c_view_guard_effective`), `db.query` has only the keyword gate above, and
`db.prepare` compiles statements that are executed by `pstmt:exec` (view guard) or `pstmt:query`
(`sqlite3_stmt_readonly`, `c_sql_execution_guarded`). -/
theorem c_prepare_gates :
    Gen.HostApi.cPrepareGates =
      [("db_lib.exec", "luaCheckView,sqlcheck_is_permitted_sql"), ("db_lib.query", "sqlcheck_is_readonly_sql"),
       ("db_lib.prepare", "sqlcheck_is_permitted_sql")] := rfl

/-! ## Round 3 — a read-only context is identified by its own slot

Every guard reads `contexts[service]`, `service` being the slot number stored in the Lua state.  The slots below
`MaxVmService` (`BlockFactory`, `ChainService`) hold the context of the transaction being executed: `Call` / `Create`
store it there without looking.  A query gets its slot from `allocContextSlot`; that a query's code is checked against
the query's own context (`isQuery = true`) rests on that scan never producing a reserved slot, never handing out a slot
that is held (the `contexts[index] == nil` test under `querySync`; driven on the real code by harness/c20 slotdrive),
and on nobody else writing those slots. -/

/-- **The slot scan stays off the reserved slots.**  `Gen.HostApi.slotStep` is the index update of `allocContextSlot`
translated from the current source.  For every pool size above the reserved slots and every index the scan can be at
(`lastQueryIndex` starts at `ChainService`), the next index is a query slot: in `[MaxVmService, maxContext)`. -/
theorem slot_step_in_range (maxContext index : Int) (hm : Gen.HostApi.MaxVmService < maxContext)
    (hi : Gen.HostApi.ChainService ≤ index ∧ index < maxContext) :
    Gen.HostApi.MaxVmService ≤ Gen.HostApi.slotStep maxContext index ∧
      Gen.HostApi.slotStep maxContext index < maxContext := by
  simp only [Gen.HostApi.slotStep, Gen.HostApi.MaxVmService, Gen.HostApi.ChainService] at *
  repeat' split
  all_goals omega

/-- … and it is the cyclic successor on the query slots (so the scan visits every query slot before it comes back to
where it started: a free slot is found if there is one). -/
theorem slot_step_cycles (maxContext index : Int) (_hm : Gen.HostApi.MaxVmService < maxContext)
    (_hi : Gen.HostApi.ChainService ≤ index ∧ index < maxContext) :
    Gen.HostApi.slotStep maxContext index =
      if index + 1 = maxContext then Gen.HostApi.MaxVmService else index + 1 := by
  simp only [Gen.HostApi.slotStep, Gen.HostApi.MaxVmService, Gen.HostApi.ChainService] at *
  repeat' split
  all_goals omega

/-- The indices the scan can ever be at: `lastQueryIndex`'s initial value, then any number of steps. -/
def slotIter (maxContext : Int) : Nat → Int
  | 0 => Gen.HostApi.slotInit
  | n + 1 => Gen.HostApi.slotStep maxContext (slotIter maxContext n)

/-- **All histories.**  Whatever number of steps the scans have made since the node started, the index is a valid
position, and after the first step it is a query slot — never `BlockFactory` or `ChainService`. -/
theorem slot_scan_never_reserved (maxContext : Int) (hm : Gen.HostApi.MaxVmService < maxContext) :
    ∀ n, (Gen.HostApi.ChainService ≤ slotIter maxContext n ∧ slotIter maxContext n < maxContext) ∧
      (0 < n → Gen.HostApi.MaxVmService ≤ slotIter maxContext n) := by
  intro n
  induction n with
  | zero =>
    refine ⟨?_, fun h => absurd h (by decide)⟩
    simp only [slotIter, Gen.HostApi.slotInit, Gen.HostApi.ChainService, Gen.HostApi.MaxVmService] at *
    omega
  | succ k ih =>
    have h := slot_step_in_range maxContext (slotIter maxContext k) hm ih.1
    have hc : Gen.HostApi.ChainService ≤ Gen.HostApi.MaxVmService := by decide
    exact ⟨⟨Int.le_trans hc h.1, h.2⟩, fun _ => h.1⟩

/-- Test on sample values: with 5 slots the scan goes 1 → 2 → 3 → 4 → 2 … -/
example : (List.range 6).map (slotIter 5) = [1, 2, 3, 4, 2, 3] := by decide

/-- Who writes the slots.  `contexts[…]` is assigned by `Call` / `Create` (slot `ctx.service` of a context built by
`NewVmContext`, whose `service` is the execution mode = a VM service slot), by `allocContextSlot` (slot `index` of the
scan, stored into the query context's `service`) and cleared by `freeContextSlot`; `lastQueryIndex` is written only by
the scan; `allocContextSlot` / `freeContextSlot` are called by `Query` and `CheckFeeDelegation` only.  So the reserved
slots are written by the non-query entry points only, and a query context's `service` is a value of the scan. -/
theorem context_slot_writers :
    Gen.HostApi.slotStepTranslated = true ∧
    Gen.HostApi.ctxSlotWrites =
      [("Call", "ctx.service", "ctx"), ("Create", "ctx.service", "ctx"),
       ("InitContext", "*", "make([]*vmContext, maxContext)"),
       ("allocContextSlot", "index", "ctx"), ("freeContextSlot", "ctx.service", "nil")] ∧
    Gen.HostApi.ctxServiceWrites = [("NewVmContext", "C.int(executionMode)"), ("allocContextSlot", "C.int(index)")] ∧
    Gen.HostApi.lastQueryIndexWrites = [("allocContextSlot", "index")] ∧
    Gen.HostApi.slotCallers =
      [("allocContextSlot", "CheckFeeDelegation"), ("allocContextSlot", "Query"),
       ("freeContextSlot", "CheckFeeDelegation"), ("freeContextSlot", "Query")] := ⟨rfl, rfl, rfl, rfl, rfl⟩

/-! ## Round 3 — statesql.go is analysed -/

/-- The only `sql.Open` reachable from the analysed entry points is `readOnlyConn`'s, through the query driver, with
`&_query_only=true` in its DSN (a `sql.Open` without that literal is a `mutQ` sink: `all_callbacks_ok` in mode Q);
the SQL texts the analysed functions execute through database/sql are savepoint / transaction control and the
litetree snapshot selection. -/
theorem sql_handles :
    Gen.HostApi.sqlOpens = [("readOnlyConn", "queryDriver", "dataSrc(dbName) + \"&_query_only=true\"", "query_only")] ∧
    Gen.HostApi.sqlExecs =
      [("writableSqlTx.begin", "begin", "txctl"),
       ("writableSqlTx.release", "release savepoint", "txctl"),
       ("writableSqlTx.rollbackToSavepoint", "rollback to savepoint", "restore"),
       ("writableSqlTx.rollbackToSubSavepoint", "rollback to savepoint", "restore"),
       ("writableSqlTx.savepoint", "savepoint", "txctl"),
       ("writableSqlTx.subRelease", "release savepoint", "txctl"),
       ("writableSqlTx.subSavepoint", "savepoint", "txctl"),
       ("litetree.snapshotView", "pragma branch=", "txctl")] := ⟨rfl, rfl⟩

/-- The methods of the `sqlTx` interface are classified by the tables (the extractor cannot resolve the dynamic
type); every implementation (`writableSqlTx`, `readOnlySqlTx`, the shared `sqlTxCommon`) stays within the class of
its interface method: nothing reachable from it (6 call levels) ranks higher.  In particular
`sqlTxCommon.getHandle` is a pure read and everything `readOnlySqlTx` does is at most connection control. -/
theorem iface_impls_within_class :
    Gen.HostApi.ifaceImpls.all (fun r =>
      match rankOfClass r.2.1, Gen.HostApi.program.index? r.2.2 with
      | some k, some i => decide (maxRankN Gen.HostApi.program 6 i ≤ k)
      | _, _ => false) = true ∧
    (Gen.HostApi.ifaceImpls.filter fun r => r.2.2.startsWith "readOnlySqlTx").all (fun r =>
      match Gen.HostApi.program.index? r.2.2 with
      | some i => decide (maxRankN Gen.HostApi.program 6 i ≤ 2)
      | none => false) = true ∧
    12 ≤ Gen.HostApi.ifaceImpls.length := by
  refine ⟨by decide +kernel, by decide +kernel, by decide +kernel⟩

/-! ## Inventories -/

/-- The verdict of every exported callback: `guarded` = a mutating sink is reachable syntactically but not
in a read-only context, `pure` = none reachable at all.  (Which callbacks mutate is thereby pinned; a callback
that starts to mutate, or stops, changes this table.) -/
theorem callback_verdicts :
    Gen.HostApi.program.verdicts.filter (·.2 != .pure) =
      [("luaSetDB", .guarded), ("luaDelDB", .guarded), ("luaCallContract", .guarded),
       ("luaSendAmount", .guarded), ("luaGetDbHandle", .guarded), ("luaDeployContract", .guarded),
       ("luaEvent", .guarded), ("luaGovernance", .guarded)] := by
  decide +kernel

/-- Every exported method of `state.AccountState`, `state.BlockState`, `statedb.ContractState`,
`statedb.StateDB`, `statedb.ChainStateDB` has a class in the reviewed tables, and no mutating one has a name
that the extractor treats as harmless on receivers it cannot type. -/
theorem state_api_classified : Gen.HostApi.stateApiUnclassified = [] := rfl

/-- `//export`ed functions of package `contract` outside the analysed files: the go-sqlite3 trampolines, the
debugger hooks (build tag `Debug`) and `PermittedCmd`; none receives a VM context. -/
theorem other_exports_reviewed :
    Gen.HostApi.otherExports =
      [("callback.go", "callbackTrampoline"), ("callback.go", "stepTrampoline"), ("callback.go", "doneTrampoline"),
       ("callback.go", "compareTrampoline"), ("callback.go", "commitHookTrampoline"),
       ("callback.go", "rollbackHookTrampoline"), ("callback.go", "updateHookTrampoline"),
       ("callback.go", "authorizerTrampoline"),
       ("hook_dbg.go", "PrintBreakPoints"), ("hook_dbg.go", "ResetBreakPoints"), ("hook_dbg.go", "ResetWatchPoints"),
       ("hook_dbg.go", "CGetContractID"), ("hook_dbg.go", "CGetSrc"), ("hook_dbg.go", "CSetBreakPoint"),
       ("hook_dbg.go", "CDelBreakPoint"), ("hook_dbg.go", "CHasBreakPoint"), ("hook_dbg.go", "CSetWatchPoint"),
       ("hook_dbg.go", "CDelWatchPoint"), ("hook_dbg.go", "CGetWatchPoint"), ("hook_dbg.go", "CLenWatchPoints"),
       ("hook_dbg.go", "GetDebuggerCode"),
       ("keyword.go", "PermittedCmd")] := rfl

/-- Extractor self-test: on the synthetic callbacks of corpus/C20 (guard missing, guard after the sink, guard
in one branch only, sink in a helper, in a loop, in a `defer`, new unknown mutator, wrong flag polarity, …)
extractor + checker give exactly the annotated verdicts. -/
theorem corpus_verdicts :
    Gen.HostApi.corpus.verdicts = Gen.HostApi.corpusExpect ∧ 30 ≤ Gen.HostApi.corpusExpect.length := by
  refine ⟨by decide +kernel, by decide +kernel⟩

end Aergo.Props.C20
