import Aergo.Props.C01
#print axioms Aergo.Props.C01.sendBalance_conserves
#print axioms Aergo.Props.C01.subBalance_exact
#print axioms Aergo.Props.C01.validate_covers_fee
#print axioms Aergo.Props.C01.executeTx_conserves_partial
#print axioms Aergo.Props.C01.setOwner_owner_is_sender_conserves
#print axioms Aergo.Props.C01.name_owner_is_name_contract_conserves
#print axioms Aergo.Props.C01.fee_check_after_vm_commit_mints
#print axioms Aergo.Props.C01.receipt_fee
#print axioms Aergo.Props.C01.votingReward_conserves
#print axioms Aergo.Props.C01.coinbaseReward_exact
#print axioms Aergo.Props.C01.block_conserves_partial
#print axioms Aergo.Props.C01.validated_block_conserves_partial
#print axioms Aergo.Props.C01.branch_conserves_partial
