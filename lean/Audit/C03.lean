import Aergo.Props.C03
#print axioms Aergo.Props.C03.base_fee_is_the_source
#print axioms Aergo.Props.C03.executeTx_trichotomy
#print axioms Aergo.Props.C03.outcomes_exclusive
#print axioms Aergo.Props.C03.failed_only_fee_and_nonce_partial
#print axioms Aergo.Props.C03.failed_tx_leaves_residue
#print axioms Aergo.Props.C03.rejected_leaves_no_trace
#print axioms Aergo.Props.C03.rollback_exact
#print axioms Aergo.Props.C03.transfer_applies_exactly
#print axioms Aergo.Props.C03.refused_block_noop
#print axioms Aergo.Props.C03.refused_iff_some_tx_rejected
#print axioms Aergo.Props.C03.producer_validator_agree
