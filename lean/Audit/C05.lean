import Aergo.Props.C05
#print axioms Aergo.Props.C05.inv_init
#print axioms Aergo.Props.C05.inv_addBlock
#print axioms Aergo.Props.C05.inv_addOwn
#print axioms Aergo.Props.C05.inv_setLib
#print axioms Aergo.Props.C05.inv_arrive
#print axioms Aergo.Props.C05.inv_history
#print axioms Aergo.Props.C05.inv_of_checked_run
#print axioms Aergo.Props.C05.path_to_genesis
#print axioms Aergo.Props.C05.tx_found
#print axioms Aergo.Props.C05.tx_confirmed_sound
#print axioms Aergo.Props.C05.abandoned_not_confirmed
#print axioms Aergo.Props.C05.receipts_exist
#print axioms Aergo.Props.C05.receipts_query_sound
#print axioms Aergo.Props.C05.receipts_queries_complete
#print axioms Aergo.Props.C05.latest_key_persisted
#print axioms Aergo.Props.C05.root_is_best
#print axioms Aergo.Props.C05.forged_id_breaks_index
