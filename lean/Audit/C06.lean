import Aergo.Props.C06
#print axioms Aergo.Props.C06.connect_crash_recover
#print axioms Aergo.Props.C06.connect_best_allowed
#print axioms Aergo.Props.C06.connect_replay_converges
#print axioms Aergo.Props.C06.feed_stored
#print axioms Aergo.Props.C06.side_crash_recover
#print axioms Aergo.Props.C06.reorg_full
#print axioms Aergo.Props.C06.restart_mid
#print axioms Aergo.Props.C06.swap_prefix_mid
#print axioms Aergo.Props.C06.reorg_crash_recover
#print axioms Aergo.Props.C06.reorg_best_allowed
#print axioms Aergo.Props.C06.reorg_replay_converges_partial
#print axioms Aergo.Props.C06.reorg_eq
#print axioms Aergo.Props.C06.feed_reorg
#print axioms Aergo.Props.C06.arrival_crash_recover
#print axioms Aergo.Props.C06.crash_during_recovery
