import Aergo.Props.C07
#print axioms Aergo.Props.C07.reorg_exact
#print axioms Aergo.Props.C07.main_chain_executed
#print axioms Aergo.Props.C07.reoffered
#print axioms Aergo.Props.C07.never_displaced_by_shorter
#print axioms Aergo.Props.C07.never_displaced_by_shorter_own
#print axioms Aergo.Props.C07.never_displaced_below_lib
#print axioms Aergo.Props.C07.never_displaced_by_invalid
#print axioms Aergo.Props.C07.invalid_branch_not_adopted
#print axioms Aergo.Props.C07.switches_to_longer_valid_branch
#print axioms Aergo.Props.C07.no_better_branch_partial
#print axioms Aergo.Props.C07.arrival_triggers_switch
#print axioms Aergo.Props.C07.arrival_keeps_when_not_longer
#print axioms Aergo.Props.C07.fork_choice_over_histories
#print axioms Aergo.Props.C07.valid_prefix_not_adopted
