import Aergo.Props.C08
#print axioms Aergo.Props.C08.needReorg_iff
