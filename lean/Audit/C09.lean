import Aergo.Props.C09
#print axioms Aergo.Props.C09.owner_unique
#print axioms Aergo.Props.C09.slots_partition
#print axioms Aergo.Props.C09.slot_of_instant_unique
#print axioms Aergo.Props.C09.slot_constant
#print axioms Aergo.Props.C09.owner_in_range
#print axioms Aergo.Props.C09.rotation
#print axioms Aergo.Props.C09.round_covers_all
#print axioms Aergo.Props.C09.isFuture_iff
#print axioms Aergo.Props.C09.nextIndex_mono
#print axioms Aergo.Props.C09.index_nonmember
#print axioms Aergo.Props.C09.index_member
#print axioms Aergo.Props.C09.index_injective
#print axioms Aergo.Props.C09.blockValid_sound
#print axioms Aergo.Props.C09.blockValid_complete
#print axioms Aergo.Props.C09.no_two_producers
#print axioms Aergo.Props.C09.nextIndex_nonneg
