import Aergo.Props.C10
#print axioms Aergo.Props.C10.update_refines_map
#print axioms Aergo.Props.C10.read_your_writes
#print axioms Aergo.Props.C10.reachable_canonical
#print axioms Aergo.Props.C10.history_independent
#print axioms Aergo.Props.C10.root_depends_only_on_content
#print axioms Aergo.Props.C10.delete_absent_noop
#print axioms Aergo.Props.C10.update_idempotent
#print axioms Aergo.Props.C10.content_determines_tree
#print axioms Aergo.Props.C10.addShortcut_is_sorted_insert
#print axioms Aergo.Props.C10.batch_store_roundtrip
#print axioms Aergo.Props.C10.get_from_store
#print axioms Aergo.Props.C10.store_monotone
#print axioms Aergo.Props.C10.old_roots_live
#print axioms Aergo.Props.C10.history_roots_stay_readable
