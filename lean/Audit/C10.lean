import Aergo.Props.C10
#print axioms Aergo.Props.C10.get_empty
