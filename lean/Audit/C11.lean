import Aergo.Props.C11
#print axioms Aergo.Props.C11.complete_incl
#print axioms Aergo.Props.C11.complete_excl
#print axioms Aergo.Props.C11.sound_incl
#print axioms Aergo.Props.C11.no_second_value
#print axioms Aergo.Props.C11.sound_excl_leaf
#print axioms Aergo.Props.C11.sound_excl_default_partial
#print axioms Aergo.Props.C11.excl_forgeable
#print axioms Aergo.Props.C11.excl_forgeable_present
#print axioms Aergo.Props.C11.compressed_equiv
