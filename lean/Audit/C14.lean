import Aergo.Props.C14
#print axioms Aergo.Props.C14.assert_sites_known
#print axioms Aergo.Props.C14.scanned_functions_known
#print axioms Aergo.Props.C14.allSites_complete
#print axioms Aergo.Props.C14.every_trap_anchored
#print axioms Aergo.Props.C14.pinned_are_sites
#print axioms Aergo.Props.C14.admit_panics_only_at_unguarded
#print axioms Aergo.Props.C14.admit_reaches_only_admission_sites
#print axioms Aergo.Props.C14.execute_panics_only_at_unguarded
#print axioms Aergo.Props.C14.validate_total
#print axioms Aergo.Props.C14.execute_total_partial
#print axioms Aergo.Props.C14.execute_total_repaired
#print axioms Aergo.Props.C14.validate_total_repaired
#print axioms Aergo.Props.C14.execute_total_violated
