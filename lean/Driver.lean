import Aergo.Model.Slot
import Aergo.Model.Enc

/-! Line-protocol driver for the executable model: `aergo-model <layer> < ops > out`.
One output line per input line. Core-only (no Mathlib) so that it links. -/

open Aergo

def parseInt? (s : String) : Option Int := s.toInt?

def slotStep (line : String) : String :=
  match (line.splitOn " ").filter (· ≠ "") with
  | ["slot", iv, ns, n] =>
    match parseInt? iv, parseInt? ns, parseInt? n with
    | some iv, some ns, some n =>
      let s := Slot.fromUnixNs iv ns
      s!"{s.timeMs} {s.prevIndex} {s.nextIndex} {Slot.owner iv ns n}"
    | _, _, _ => "bad-op"
  | ["future", iv, ns, now] =>
    match parseInt? iv, parseInt? ns, parseInt? now with
    | some iv, some ns, some now => toString (Slot.isFuture iv (Slot.fromUnixNs iv ns) now)
    | _, _, _ => "bad-op"
  | "valid" :: iv :: ts :: bpid :: ids =>
    match parseInt? iv, parseInt? ts with
    | some iv, some ts => toString (Slot.isBlockValid iv ids bpid ts)
    | _, _ => "bad-op"
  | ["hdrmut", f] =>
    -- mutating header field f: does the block id change? does the producer signature still verify?
    -- (an altered signature, or a digest that reads the field, stops verifying)
    let idChanges := Enc.covers Gen.Enc.blockHashSpec f
    let sigOk := !(Enc.covers Gen.Enc.blockSignSpec f || f == "Sign")
    s!"{idChanges} {sigOk}"
  | _ => "bad-op"

partial def loop (h : IO.FS.Stream) (out : IO.FS.Stream) (f : String → String) : IO Unit := do
  let line ← h.getLine
  if line.isEmpty then return ()
  out.putStrLn (f (line.trimAsciiEnd.toString))
  loop h out f

def main (args : List String) : IO UInt32 := do
  let stdin ← IO.getStdin
  let stdout ← IO.getStdout
  match args with
  | ["c09"] => loop stdin stdout slotStep; return 0
  | _ => IO.eprintln "usage: aergo-model <layer>"; return 2
