import Aergo.Model.LedgerDrv

/-! Model driver for C01 (ledger conservation): `model-c01 < ops > out`. The session interpreter is
`Aergo.Ledger.Drv.step` (shared with C03): `world`, `acct`, `begin`, `tx`, `reward`, `vblock`, `end`. -/
open Aergo.DriverLib Aergo.Ledger.Drv

def main : IO UInt32 := run ({} : Sess) step
