import Aergo.Model.DriverLib
import Aergo.Model.Determ

/-! Model driver for C02: `model-c02 < ops > out`.

    votesort <hexcand>:<amount> ...   the tally of one issue, in some order  ⇒ the vote list `buildVoteList` builds
    vnew                              a fresh voting-power rank
    vadd <hexid> <amount>             vpr.add (prepare)                        ⇒ ok
    vsub <hexid> <amount>             vpr.sub (prepare)                        ⇒ ok
    vapply                            vpr.apply                                ⇒ total, powers, buckets, pending
    gather <tok> ...                  per candidate ok | err | xtmo (each optionally with ^ or !) | tmo | vmtmo | - ⇒ picked indexes, validator verdict
    reward <hdr> <local> <fee>        header coinbase, the validating node's own coinbase ("-" = none), fees of the block ⇒ credits
-/
open Aergo Aergo.DriverLib Aergo.Determ

def natOfHex (s : String) : Option Nat := (unhex s).map (fun b => beNat (b.map (·.toNat)))

def hexOfBytes (b : Bytes) : String := hex (b.map UInt8.ofNat)

def hexPad (n width : Nat) : String :=
  let rec digits (fuel n : Nat) (acc : List Char) : List Char :=
    match fuel with
    | 0 => acc
    | fuel + 1 => if n = 0 then acc else digits fuel (n / 16) (hexChar (n % 16) :: acc)
  let ds := digits 80 n []
  String.ofList (List.replicate (width - ds.length) '0' ++ ds)

def parseEntry (w : String) : Option Entry :=
  match w.splitOn ":" with
  | [c, a] => do
    let cb ← unhex c
    let n ← a.toNat?
    pure ⟨cb.map (·.toNat), n⟩
  | _ => none

def showEntry (e : Entry) : String := s!"{hexOfBytes e.cand}:{e.amt}"

structure Sess where
  v : Vpr := Vpr.empty
  /-- `v.changes` (a Go map: here an association list in insertion order) -/
  changes : List (Nat × Int) := []

def chAdd : List (Nat × Int) → Nat → Int → List (Nat × Int)
  | [], k, d => [(k, d)]
  | (k', v) :: r, k, d => if k' = k then (k, v + d) :: r else (k', v) :: chAdd r k d

def showKL (l : KL) : String := "[" ++ ",".intercalate (l.map fun e => s!"{hexPad e.1 64}:{e.2}") ++ "]"

def showVpr (s : Sess) : String :=
  let bs := (List.range nBuckets).filterMap fun i =>
    let b := s.v.buckets.getD i []
    if b.isEmpty then none else some s!"{i}={showKL b}"
  s!"total={s.v.total} powers={showKL s.v.powers} buckets=\{{" ".intercalate bs}} pending={s.changes.length}"

/-- A token: what the block factory's checks said, whether the context had ended when the execution started, and
the class of the executor's answer (`ok`, `err`, `xtmo` = `VmTimeoutError` from inside the VM after the call
started); suffix `^` = the block-generation context expired (deadline) or was cancelled (shutdown) after
`checkBGTimeout` let this candidate pass and *before* it executed, suffix `!` = *while* it executed. -/
def parseTok (w : String) : Option (Option (Pre × Bool × Out) × Bool) :=
  let core (c : String) : Option Out := match c with
    | "ok" => some .ok | "err" => some .fail | "xtmo" => some .timeout | _ => none
  match w with
  | "tmo" => some (some (.tmo, false, .fail), false)
  | "vmtmo" => some (some (.vmtmo, false, .fail), false)
  | "-" => some (none, false)
  | _ =>
    if w.endsWith "^" then (core (String.ofList w.toList.dropLast)).map (fun o => (some (.go, true, o), true))
    else if w.endsWith "!" then (core (String.ofList w.toList.dropLast)).map (fun o => (some (.go, false, o), true))
    else (core w).map (fun o => (some (.go, false, o), false))

/-- `checkBGTimeout` runs in front of every candidate: once the context is done no further candidate is
executed (deadline: the loop stops; cancellation: every remaining candidate is refused with `ErrQuit`). A
candidate the harness never saw executing (`-`) is treated the same way. -/
def mkCands : Bool → Nat → List (Option (Pre × Bool × Out) × Bool) → List (Pre × Bool × (Nat × Out))
  | _, _, [] => []
  | expired, i, (t, ex) :: rest =>
    let c : Pre × Bool × (Nat × Out) := match expired, t with
      | false, some (p, d, o) => (p, d, (i, o))
      | _, _ => (.tmo, false, (i, .fail))
    c :: mkCands (expired || ex) (i + 1) rest

def c02Step (s : Sess) (line : String) : Sess × String :=
  match words line with
  | "votesort" :: ws =>
    match ws.mapM parseEntry with
    | some es =>
      if es.any (fun a => es.any (fun b => lessPanics a b)) then (s, "panic")
      else
        let out := buildVoteList es
        (s, if out.isEmpty then "-" else " ".intercalate (out.map showEntry))
    | none => (s, "bad-op")
  | ["vnew"] => ({}, "ok")
  | ["vadd", id, a] =>
    match natOfHex id, a.toNat? with
    | some id, some a =>
      -- vpr.add: a nil or zero power is ignored
      if a = 0 then (s, "ok") else ({ s with changes := chAdd s.changes id a }, "ok")
    | _, _ => (s, "bad-op")
  | ["vsub", id, a] =>
    match natOfHex id, a.toNat? with
    | some id, some a =>
      -- vpr.sub: only for a voter present in `voters.powers`
      if kget s.v.powers id = 0 then (s, "ok") else ({ s with changes := chAdd s.changes id (-(a : Int)) }, "ok")
    | _, _ => (s, "bad-op")
  | ["vapply"] =>
    let s' : Sess := { v := s.v.apply s.changes, changes := s.changes.filter (fun c => c.2 = 0) }
    (s', showVpr s')
  | "gather" :: toks =>
    match toks.mapM parseTok with
    | some ts =>
      -- candidates after the stop may be unknown ("-"): they are never looked at
      let cands := mkCands false 0 ts
      -- the scripted executor: the recorded class of the candidate, whatever the environment
      let exec : Env Unit → Unit → (Nat × Out) → Out × Unit × Nat := fun _ _ t => (t.2, (), t.1)
      let g := gather exec () () cands
      let verdict := match validate exec () () g.1 with
        | some _ => "accept"
        | none => "reject"
      (s, s!"{if g.1.isEmpty then "-" else " ".intercalate (g.1.map fun t => toString t.1)} {verdict}")
    | none => (s, "bad-op")
  | ["reward", h, l, fee] =>
    -- a validator whose own configured coinbase account is `l` executes a block whose header names `h` and whose
    -- transactions paid `fee`: who is credited (sendRewardCoinbase: nothing when the fee is 0 or there is no account)
    match fee.toNat? with
    | some fee =>
      let acct (w : String) : Option String := if w == "-" then none else some w
      let reward : Option String → List (String × Nat) → List (String × Nat) := fun k st =>
        match k with
        | some a => if fee = 0 then st else (a, fee) :: st
        | none => st
      let exec : Env (Option String) → List (String × Nat) → Unit → Out × List (String × Nat) × Unit :=
        fun _ st _ => (.ok, st, ())
      let bal (st : List (String × Nat)) (w : String) : Nat := (st.filter (fun e => e.1 == w)).foldl (fun a e => a + e.2) 0
      match validateBlock exec reward (acct l) [] ⟨acct h, []⟩ with
      | some (st, _) => (s, s!"hdr+{bal st h} local+{bal st l}")
      | none => (s, "reject")
    | none => (s, "bad-op")
  | _ => (s, "bad-op")

def main : IO UInt32 := run ({} : Sess) c02Step
