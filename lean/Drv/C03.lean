import Aergo.Model.LedgerDrv

/-! Model driver for C03 (transaction atomicity): `model-c03 < ops > out`. Same session interpreter as
C01 (`Aergo.Ledger.Drv.step`); the C03 sessions stress failing transactions and refused blocks. -/
open Aergo.DriverLib Aergo.Ledger.Drv

def main : IO UInt32 := run ({} : Sess) step
