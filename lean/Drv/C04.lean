import Aergo.Model.DriverLib
import Aergo.Model.Auth
import Aergo.Model.Pool

/-! Model driver for C04: `model-c04 < ops > out`. One session = one node (chain service + pool) from `new` on.
SHA-256 is instantiated by the identity (a carried hash is the digest *input*), ECDSA by the ideal scheme
`idealVerify` (a signature is the pair (key, message)); the harness maps real hashes / signatures to these
symbolic ones by construction history (who signed which fields, which fields a hash was computed from). -/
open Aergo Aergo.DriverLib Aergo.Auth Aergo.Enc

namespace C04Drv

def Hid : Bytes → Bytes := id

structure Blk where
  id : Nat
  parent : Nat
  height : Nat
  txs : List Nat
  post : Option World
  hdr : HdrCid                -- the chain id the block's header carries (rest: `[0]` this chain's, `[1]` anything else)
  hcid : Bytes                -- its hash: `bi.ChainIdHash()` of the block

structure Node where
  cidA : Bytes                -- chain-id hash of blocks below the hard-fork height `forkAt`
  cidB : Bytes                -- … of blocks at or above it (`forkAt = 0`: every block)
  forkAt : Nat
  verA : Nat                  -- hard-fork version the node is configured with below `forkAt`
  verB : Nat                  -- … at or above it
  hcids : List Bytes          -- registry: header chain-id hash ↦ number (what the pool compares to detect a "fork")
  poolH : Nat                 -- height of the block the pool was last notified of
  pub : Bool
  maxAER : Nat
  txs : List (Nat × Tx)
  blks : List Blk
  best : Nat
  accts : List Bytes          -- registry: account bytes ↦ index (Aergo.Pool works on numbers)
  shown : List Bytes          -- accounts `state` prints
  hashes : List Bytes         -- registry: carried hash ↦ index
  names : List Bytes          -- names seen in create commands (for `state`)
  pool : Pool.Pool
  pentries : List (Nat × Nat) -- hash index ↦ tid of the pooled transaction
  poolW : World               -- the pool's state view (state of the block it was last notified of)

def emptyWorld : World :=
  { nonce := fun _ => 0, led := { bal := fun _ => 0, names := fun _ => none, pend := [], creator := fun _ => [] } }

def Node.init : Node :=
  { cidA := [], cidB := [], forkAt := 0, verA := 4, verB := 5, hcids := [], poolH := 0, pub := false, maxAER := 0, txs := [], blks := [], best := 0, accts := [], shown := [], hashes := [], names := [],
    pool := Pool.Pool.init, pentries := [], poolW := emptyWorld }

def findTx (nd : Node) (tid : Nat) : Option Tx := (nd.txs.find? (·.1 == tid)).map (·.2)
def findBlk (nd : Node) (bid : Nat) : Option Blk := nd.blks.find? (·.id == bid)

def indexOf (l : List Bytes) (b : Bytes) : Option Nat :=
  let rec go : List Bytes → Nat → Option Nat
    | [], _ => none
    | x :: r, i => if x == b then some i else go r (i + 1)
  go l 0

/-- index of `b`, registering it if new -/
def reg (l : List Bytes) (b : Bytes) : List Bytes × Nat :=
  match indexOf l b with
  | some i => (l, i)
  | none => (l ++ [b], l.length)

def sigmaOf (W : World) (accts : List Bytes) : Nat → Pool.Acct :=
  fun i => match accts[i]? with
    | some a => ⟨W.nonce a, W.led.bal a⟩
    | none => ⟨0, 0⟩

def vErr : VErr → String
  | .format => "format" | .chainId => "chainid" | .size => "size" | .hash => "hash" | .amount => "amount"
  | .price => "price" | .account => "account" | .recipient => "recipient" | .type => "type" | .payload => "payload"

def parseVErr : String → Option (Option VErr)
  | "-" => some none
  | "format" => some (some .format) | "chainid" => some (some .chainId) | "size" => some (some .size)
  | "hash" => some (some .hash) | "amount" => some (some .amount) | "price" => some (some .price)
  | "account" => some (some .account) | "recipient" => some (some .recipient) | "type" => some (some .type)
  | "payload" => some (some .payload)
  | _ => none

def sErr : SErr → String
  | .nonceLow => "noncelow" | .nonceHigh => "noncehigh" | .balance => "balance" | .fee => "fee"
  | .payload => "payload" | .recipient => "recipient"

/-- classes are named after the error value, not after the stage that produced it -/
def codeName (c : Nat) : String :=
  if c == cInsufficient then "balance" else if c == cRecipient then "recipient" else "x"

def xErr : XErr → String
  | .signMismatch => "sigmismatch"
  | .v e => vErr e
  | .s e => sErr e
  | .body c => codeName c

def aErr : AErr → String
  | .exists_ => "exists"
  | .v e => vErr e
  | .sig => "sig"
  | .s e => sErr e
  | .extra c => codeName c

def bErr : BErr → String
  | .tx e => xErr e
  | .sig => "sig"

def hErr : HErr → String
  | .header => "x"
  | .blk e => bErr e

def short (b : Bytes) : String := hex (b.take 4)

/-- `bi.ChainIdHash()` of a block at height `h`: hash of the chain id carrying the hard-fork version of that height. -/
def cidFor (nd : Node) (h : Nat) : Bytes := if h < nd.forkAt then nd.cidA else nd.cidB

/-- the pool's `acceptChainIdHash`: the chain id with the version of the block after the one it was last told about -/
def acceptCid (nd : Node) : Bytes := cidFor nd (nd.poolH + 1)

/-- `cfg.Hardfork.Version(h)` of the node -/
def cfgVer (nd : Node) (h : Nat) : Nat := if h < nd.forkAt then nd.verA else nd.verB

/-- the header an honest producer gives a block at height `h`: this chain's id in the configured version -/
def hdrFor (nd : Node) (h : Nat) : HdrCid := ⟨cfgVer nd h, [0]⟩

/-- number standing for the chain id bytes of a block header (1: the genesis header with version 0, else by the
header's chain-id hash; `hcids` starts as `[cidA, cidB]`) -/
def chainNo (nd : Node) (b : Blk) : Nat :=
  if b.height = 0 then 1 else
  match indexOf nd.hcids b.hcid with
  | some i => i + 2
  | none => 0

def env (nd : Node) : Env := zeroFeeEnv nd.pub nd.maxAER

/-- cost `ValidateWithSenderState` compares with the balance (zero fee) -/
def costOf (t : Tx) : Nat :=
  if t.type = 0 ∨ t.type = 2 ∨ t.type = 3 ∨ t.type = 4 ∨ t.type = 5 ∨ t.type = 6 then beNat t.amount else 0

def hitOf (nd : Node) (t : Tx) : Bool :=
  match indexOf nd.hashes t.hash with
  | some i => Pool.cacheHas i nd.pool.cache
  | none => false

/-- `TxVerifier.Receive`: exists?, verifyTx, put. -/
def takeTx (nd : Node) (tid : Nat) (t : Tx) : Node × String :=
  let W := nd.poolW
  match poolAdmit Hid idealVerify (env nd) (acceptCid nd) W (fun h => hitOf nd { t with hash := h }) stdExtra t with
  | .error e => (nd, aErr e)
  | .ok acc =>
    let (accts, ai) := reg nd.accts acc
    let (hashes, hi) := reg nd.hashes t.hash
    let P0 := { nd.pool with state := sigmaOf W accts }
    let ptx : Pool.Tx := { acc := ai, nonce := t.nonce, id := hi, cost := costOf t, named := t.named && decide (acc ≠ t.account) }
    let r := P0.put ptx
    let nd1 := { nd with accts := accts, hashes := hashes, pool := r.1 }
    match r.2 with
    | .ok => ({ nd1 with pentries := (hi, tid) :: nd1.pentries.filter (·.1 != hi) }, "ok")
    | .already => (nd1, "exists")
    | .low => (nd1, "noncelow")
    | .insufficient => (nd1, "balance")
    | .same => (nd1, "same")

/-- `MemPoolDel{block}` after a block was executed and connected: `removeOnBlockArrival`. When the chain id bytes of the
block differ from those of the block the pool knew (genesis → block 1, and at the hard-fork height) `setStateDB` reports
"forked" and the pool is emptied, as in the real node. -/
def notifyPool (nd : Node) (b : Blk) (W : World) : Node :=
  let P := nd.pool.blockArrival (b.id + 1) (b.parent + 1) (chainNo nd b) [] (sigmaOf W nd.accts)
  { nd with pool := P, poolW := W, poolH := b.height }

def txsOf (nd : Node) (tids : List Nat) : Option (List Tx) := tids.mapM (findTx nd)

def setPost (nd : Node) (bid : Nat) (W : World) : Node :=
  { nd with blks := nd.blks.map (fun b => if b.id == bid then { b with post := some W } else b) }

/-- ancestors of `bid` (inclusive) up to, not including, the first block on the main chain; oldest first. Fuel = #blocks. -/
def pathTo (nd : Node) (main : List Nat) : Nat → Nat → List Nat → Option (Nat × List Nat)
  | 0, _, _ => none
  | fuel + 1, bid, acc =>
    if main.contains bid then some (bid, acc) else
    match findBlk nd bid with
    | none => none
    | some b => pathTo nd main fuel b.parent (bid :: acc)

/-- the main chain: best and its ancestors, best first -/
def mainChain (nd : Node) : Nat → Nat → List Nat
  | 0, _ => []
  | fuel + 1, bid =>
    if bid == 0 then [0] else
    match findBlk nd bid with
    | none => [bid]
    | some b => bid :: mainChain nd fuel b.parent

def worldOf (nd : Node) (bid : Nat) : Option World := (findBlk nd bid).bind (·.post)

/-- the header chain id of the node's best block -/
def hdrOfBlk (nd : Node) (bid : Nat) : HdrCid := match findBlk nd bid with | some b => b.hdr | none => ⟨0, [0]⟩

/-- one received block: header check and execution (`execHBlock`); the hash of the header's chain id is the one the
op line carried -/
def execOne (nd : Node) (useMempool : Bool) (best : HdrCid) (W : World) (b : Blk) (txs : List Tx) :=
  execHBlock Hid idealVerify (env nd) stdBody (fun _ => b.hcid) (cfgVer nd) useMempool (hitOf nd) best b.height W b.hdr txs

/-- roll forward over `path` from world `W`: (node, error class or none, last world) -/
def rollForward (useMempool : Bool) : Node → World → Nat → List Nat → Node × Option String
  | nd, _, _, [] => (nd, none)
  | nd, W, parent, bid :: rest =>
    match findBlk nd bid with
    | none => (nd, some "bad-op")
    | some b =>
      match txsOf nd b.txs with
      | none => (nd, some "bad-op")
      | some txs =>
        match execOne nd useMempool (hdrOfBlk nd parent) W b txs with
        | .error e => (nd, some (hErr e))
        | .ok (W1, _) =>
          let nd1 := notifyPool (setPost nd bid W1) b W1
          rollForward useMempool nd1 W1 bid rest

def insertSorted (x : Nat × String) : List (Nat × String) → List (Nat × String)
  | [] => [x]
  | y :: r => if x.1 ≤ y.1 then x :: y :: r else y :: insertSorted x r

def addBlock (nd : Node) (bid parent : Nat) (useMempool : Bool) (hdr : Option (HdrCid × Bytes)) (tids : List Nat) : Node × String :=
  match findBlk nd parent, txsOf nd tids with
  | some pb, some txs =>
    let height := pb.height + 1
    let (h, hc) := match hdr with
      | some x => x
      | none => (hdrFor nd height, cidFor nd height)
    let nd := { nd with hcids := (reg nd.hcids hc).1 }
    let b : Blk := { id := bid, parent := parent, height := height, txs := tids, post := none, hdr := h, hcid := hc }
    let bestH := match findBlk nd nd.best with | some x => x.height | none => 0
    -- `ValidChildOf(bestBlock)` comes before anything else, also for a block that would only be stored
    if !acceptHeader (cfgVer nd) (hdrOfBlk nd nd.best) height h then (nd, "rej:x") else
    if parent == nd.best then
      match pb.post with
      | none => (nd, "bad-op")
      | some W =>
        match execOne nd useMempool (hdrOfBlk nd nd.best) W b txs with
        | .error e => (nd, "rej:" ++ hErr e)
        | .ok (W1, _) =>
          let b1 := { b with post := some W1 }
          let nd1 := { nd with blks := nd.blks ++ [b1], best := bid }
          (notifyPool nd1 b1 W1, "ok")
    else
      let nd1 := { nd with blks := nd.blks ++ [b] }
      if b.height ≤ bestH then (nd1, "stored") else
      let main := mainChain nd1 (nd1.blks.length + 1) nd1.best
      match pathTo nd1 main (nd1.blks.length + 1) bid [] with
      | none => (nd1, "bad-op")
      | some (fork, path) =>
        match worldOf nd1 fork with
        | none => (nd1, "bad-op")
        | some W =>
          match rollForward useMempool nd1 W fork path with
          | (nd2, some e) =>
            -- a failed reorganisation (repair 245caf14): the pool, which followed the executed blocks of the abandoned
            -- branch, is notified of the unchanged best block again
            (match findBlk nd2 nd2.best, worldOf nd2 nd2.best with
             | some bb, some Wb => (notifyPool nd2 bb Wb, "rej:" ++ e)
             | _, _ => (nd2, "rej:" ++ e))
          | (nd2, none) =>
            -- swapTxMapping: old-branch transactions that are not in the new branch (by carried hash) go back to the pool
            let olds := (main.takeWhile (· != fork)).reverse
            let oldTids := olds.flatMap (fun o => match findBlk nd2 o with | some x => x.txs | none => [])
            let newHashes := path.flatMap (fun o => match findBlk nd2 o with
              | some x => x.txs.filterMap (fun t => (findTx nd2 t).map (·.hash))
              | none => [])
            -- one entry per carried hash (Go: a map keyed by hash; a later tx with the same hash overwrites the earlier one)
            let cand := oldTids.foldl (fun (acc : List (Bytes × Nat)) tid =>
              match findTx nd2 tid with
              | some t => (t.hash, tid) :: acc.filter (fun p => p.1 != t.hash)
              | none => acc) []
            let cand := cand.filter (fun p => !newHashes.contains p.1)
            let sorted := cand.foldl (fun acc p => insertSorted (p.2, "") acc) []
            let r := sorted.foldl (fun (st : Node × List String) p =>
              match findTx st.1 p.1 with
              | some t => let a := takeTx st.1 p.1 t; (a.1, st.2 ++ [s!"{p.1}={a.2}"])
              | none => st) ({ nd2 with best := bid }, [])
            (r.1, "ok reorg " ++ (if r.2.isEmpty then "-" else ",".intercalate r.2))
  | _, _ => (nd, "bad-op")

/-- The node's own block (`produce <bid> <tids…>`: the transactions the real block factory put into its block, in block
order): each must be an entry of the model's pool and execute, in this order, with the verified account the pool attached. -/
def produce (nd : Node) (bid : Nat) (tids : List Nat) : Node × String :=
  match findBlk nd nd.best, worldOf nd nd.best, txsOf nd tids with
  | some pb, some W, some txs =>
    let height := pb.height + 1
    let cands : List PEntry := txs.filterMap (fun t => match indexOf nd.hashes t.hash with
      | some hi => (nd.pool.exist hi).map (fun ptx => ⟨t, (nd.accts[ptx.acc]?).getD []⟩)
      | none => none)
    if cands.length ≠ txs.length then (nd, "notpooled") else
    let r := produceBlock Hid (env nd) stdBody (cidFor nd height) W cands
    if r.2.length ≠ txs.length then (nd, "skipped") else
    let hc := cidFor nd height
    let b : Blk := { id := bid, parent := nd.best, height := height, txs := tids, post := some r.1, hdr := hdrFor nd height, hcid := hc }
    let nd1 := { nd with blks := nd.blks ++ [b], best := bid, hcids := (reg nd.hcids hc).1 }
    (notifyPool nd1 b r.1, "ok")
  | _, _, _ => (nd, "bad-op")

/-- `MemPool.loadTxs`, one record: `verifyTx`, then `put` (`poolLoad` = `poolAdmit`). -/
def loadTx (nd : Node) (tid : Nat) (t : Tx) : Node :=
  -- `takeTx` runs `poolAdmit` on the pool's view; `poolLoad` is that function by definition
  (takeTx nd tid t).1

def parseCmd (s : String) : Option Cmd :=
  if s == "-" then some .none else
  match s.splitOn ":" with
  | ["c", n] => (unhex n).map .create
  | ["u", n, to] => do let n ← unhex n; let to ← unhex to; pure (.update n to)
  | ["d", a] => (unhex a).map .deploy
  | ["s", "ok"] => some (.script false)
  | ["s", "vm"] => some (.script true)
  | ["y", "stake"] => some (.sys true)
  | ["y", "other"] => some (.sys false)
  | ["y", "bad"] => some .sysBad
  | _ => none

/-- signature reference: `k:<addr>` signed now with that key, `t:<tid>` copied from a transaction, `x:<hex>` raw, `-` none -/
def parseSig (nd : Node) (base : Tx) (s : String) : Option Bytes :=
  if s == "-" then some [] else
  match s.splitOn ":" with
  | ["k", a] => (unhex a).map (fun pk => sigEnc pk (Hid (signInput base)))
  | ["t", tid] => do let n ← tid.toNat?; let t ← findTx nd n; pure t.sign
  | ["x", h] => unhex h
  | _ => none

/-- hash reference: `self` computed from the final fields, `t:<tid>` copied, `x:<hex>` raw -/
def parseHash (nd : Node) (t : Tx) (s : String) : Option Bytes :=
  if s == "self" then some (Hid (hashInput t)) else
  match s.splitOn ":" with
  | ["t", tid] => do let n ← tid.toNat?; let t' ← findTx nd n; pure t'.hash
  | ["x", h] => unhex h
  | _ => none

def stateLine (nd : Node) : String :=
  match worldOf nd nd.best with
  | none => "bad-op"
  | some W =>
    let accs := nd.shown.map (fun a => s!"{short a}:{W.nonce a}:{W.led.bal a}")
    let nms := nd.names.map (fun n => match W.led.names n with
      | some e => s!"{hex n}={short e.owner}/{short e.dest}"
      | none => s!"{hex n}=-")
    s!"best={nd.best} " ++ " ".intercalate accs ++ " | " ++ " ".intercalate nms

def poolLine (nd : Node) : String :=
  let tids := nd.pentries.filterMap (fun p => if Pool.cacheHas p.1 nd.pool.cache then some p.2 else none)
  let sorted := tids.foldl (fun acc t => insertSorted (t, "") acc) []
  "holds " ++ (if sorted.isEmpty then "-" else ",".intercalate (sorted.map (fun p => toString p.1)))

def step (nd : Node) (line : String) : Node × String :=
  match words line with
  | "new" :: cidA :: cidB :: forkAt :: pub :: mx :: g :: addrs =>
    match unhex cidA, unhex cidB, forkAt.toNat?, mx.toNat?, g.toNat?, addrs.mapM unhex with
    | some cidA, some cidB, some forkAt, some mx, some g, some addrs =>
      let W : World := { nonce := fun _ => 0,
                         led := { bal := fun a => if addrs.contains a then g else 0, names := fun _ => none, pend := [], creator := fun _ => [] } }
      let accts := addrs ++ [aergoName]
      let P := (Pool.Pool.init.setStateDB 1 0 1 (sigmaOf W accts)).1
      ({ Node.init with cidA := cidA, cidB := cidB, forkAt := forkAt, pub := pub == "1", maxAER := mx, accts := accts, shown := accts,
                        hcids := [cidA, cidB],
                        blks := [{ id := 0, parent := 0, height := 0, txs := [], post := some W, hdr := ⟨0, [0]⟩, hcid := [] }],
                        pool := P, poolW := W }, "ok")
    | _, _, _, _, _, _ => (nd, "bad-op")
  | ["tx", tid, nonce, acct, rcpt, amt, payload, gl, gp, ty, cid, sig, hash, size, gov, cmd] =>
    match tid.toNat?, nonce.toNat?, unhex acct, unhex rcpt, unhex amt, unhex payload, gl.toNat?, unhex gp, ty.toNat?,
          unhex cid, size.toNat?, parseVErr gov, parseCmd cmd with
    | some tid, some nonce, some acct, some rcpt, some amt, some payload, some gl, some gp, some ty, some cid, some size,
      some gov, some cmd =>
      let base : Tx := { nonce := nonce, account := acct, recipient := rcpt, amount := amt, payload := payload, gasLimit := gl,
                         gasPrice := gp, type := ty, chainIdHash := cid, sign := [], hash := [], size := size, gov := gov, cmd := cmd }
      match parseSig nd base sig with
      | none => (nd, "bad-op")
      | some sg =>
        let t1 := { base with sign := sg }
        match parseHash nd t1 hash with
        | none => (nd, "bad-op")
        | some h =>
          let t2 := { t1 with hash := h }
          let names := match cmd with
            | .create n => if nd.names.contains n then nd.names else nd.names ++ [n]
            | _ => nd.names
          ({ nd with txs := (tid, t2) :: nd.txs.filter (·.1 != tid), names := names }, "ok")
    | _, _, _, _, _, _, _, _, _, _, _, _, _ => (nd, "bad-op")
  | ["validate", tid, cid, pub] =>
    match tid.toNat?.bind (findTx nd), unhex cid with
    | some t, some cid =>
      (nd, match validate Hid nd.maxAER cid (pub == "1") t with | none => "ok" | some e => vErr e)
    | _, _ => (nd, "bad-op")
  | ["vsender", tid, n, b] =>
    -- `ValidateWithSenderState` on a given sender state (nonce, balance)
    match tid.toNat?.bind (findTx nd), n.toNat?, b.toNat? with
    | some t, some n, some b => (nd, match validateSender (env nd) n b t with | none => "ok" | some e => sErr e)
    | _, _, _ => (nd, "bad-op")
  | ["vtx", tid] =>
    match tid.toNat?.bind (findTx nd) with
    | some t => (nd, if idealVerify t.account (Hid (signInput t)) t.sign then "ok" else "fail")
    | none => (nd, "bad-op")
  | ["vaddr", tid, addr] =>
    match tid.toNat?.bind (findTx nd), unhex addr with
    | some t, some a => (nd, if idealVerify a (Hid (signInput t)) t.sign then "ok" else "fail")
    | _, _ => (nd, "bad-op")
  | ["bverify", tid, usepool] =>
    match tid.toNat?.bind (findTx nd), worldOf nd nd.best with
    | some t, some W =>
      let useMempool := usepool == "1"
      if t.account.isEmpty then (nd, "fail")
      else if useMempool && !t.named && hitOf nd t then (nd, "hit")
      else (nd, if blockSigOk Hid idealVerify W.led.names false (fun _ => false) t then "ok" else "fail")
    | _, _ => (nd, "bad-op")
  | ["offer", tid] =>
    match tid.toNat? with
    | some n => match findTx nd n with
      | some t => takeTx nd n t
      | none => (nd, "bad-op")
    | none => (nd, "bad-op")
  | ["exec", tid, verified] =>
    match tid.toNat?.bind (findTx nd), unhex verified, worldOf nd nd.best, findBlk nd nd.best with
    | some t, some v, some W, some bb =>
      (nd, match executeTx Hid (env nd) stdBody (cidFor nd (bb.height + 1)) W v t with
        | .error e => "rej:" ++ xErr e
        | .ok (_, e) => s!"ok {short e.account} {e.tx.nonce} " ++ (if e.failed then "F" else "S"))
    | _, _, _, _ => (nd, "bad-op")
  | "block" :: bid :: parent :: usepool :: tids =>
    match bid.toNat?, parent.toNat?, tids.mapM String.toNat? with
    | some bid, some parent, some tids =>
      if (findBlk nd bid).isSome then (nd, "bad-op") else addBlock nd bid parent (usepool == "1") none tids
    | _, _, _ => (nd, "bad-op")
  | "blockh" :: bid :: parent :: usepool :: ver :: hc :: same :: tids =>
    match bid.toNat?, parent.toNat?, ver.toNat?, unhex hc, tids.mapM String.toNat? with
    | some bid, some parent, some ver, some hc, some tids =>
      if (findBlk nd bid).isSome || !(same == "0" || same == "1") then (nd, "bad-op")
      else addBlock nd bid parent (usepool == "1") (some (⟨ver, if same == "1" then [0] else [1]⟩, hc)) tids
    | _, _, _, _, _ => (nd, "bad-op")
  | "produce" :: bid :: tids =>
    match bid.toNat?, tids.mapM String.toNat? with
    | some bid, some tids => if (findBlk nd bid).isSome then (nd, "bad-op") else produce nd bid tids
    | _, _ => (nd, "bad-op")
  | ["cfgver", a, b] =>
    match a.toNat?, b.toNat? with
    | some a, some b => ({ nd with verA := a, verB := b }, "ok")
    | _, _ => (nd, "bad-op")
  | "load" :: tids =>
    match tids.mapM String.toNat? with
    | some tids =>
      (match tids.mapM (fun n => (findTx nd n).map (fun t => (n, t))) with
       | some l => let nd1 := l.foldl (fun nd p => loadTx nd p.1 p.2) nd; (nd1, poolLine nd1)
       | none => (nd, "bad-op"))
    | none => (nd, "bad-op")
  | ["state"] => (nd, stateLine nd)
  | ["pool"] => (nd, poolLine nd)
  | _ => (nd, "bad-op")

end C04Drv

def main : IO UInt32 := run C04Drv.Node.init C04Drv.step
