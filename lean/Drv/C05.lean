import Aergo.Model.ChainDriver

/-! Model driver for C05: `model-c05 < ops > out` (session step function: `C05Drv.step`, shared with C07). -/

def main : IO UInt32 := Aergo.DriverLib.run (none : Option C05Drv.Sess) C05Drv.step
