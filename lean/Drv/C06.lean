import Aergo.Model.DriverLib
import Aergo.Model.Crash

/-! Model driver for C06: `model-c06 < ops > out`. One session per `new` line:

* `new <genesis id> <genesis root> <max height>`        fresh node on the genesis store; answer: dump
* `feed <id> <parent> <no> <root> <txs|->`              `addBlock` of a block from the network; answer:
                                                        result, best, state root, the write units
* `feedx <id> <parent> <no> <root> <txs|->`             the same for a block whose execution fails (the header's
                                                        state root is not the one execution reaches)
* `lag <k> <s> [<j>]`                                   restart on the stores left by the first k units of the
                                                        journal when the state DB lost its units from position s on
                                                        (but for the first j entries of unit s)
* `dump`                                                canonical dump of the durable stores
* `crash <k> [<j>]`                                     restart on the stores left by the first k units of the
                                                        recorded journal (plus the first j entries of unit k)
* `rcrash <j>`                                          restart on the stores left by a crash after j units of
                                                        the restart that the last `crash` line performed
-/
open Aergo Aergo.DriverLib Aergo.Crash

namespace C06Drv

structure Sess where
  blocks : List Block := []     -- universe, ascending by id
  txs : List Nat := []          -- ascending
  roots : List Nat := []        -- ascending
  maxNo : Nat := 0
  base : Store := fun _ => none
  J : List Crash.Unit := []
  recording : Bool := false
  node : Node := ⟨fun _ => none, default, 0, []⟩
  crashStart : Store := fun _ => none
  crashUnits : List Crash.Unit := []
  bad : List Nat := []          -- ids of the blocks whose execution fails

def insNat (x : Nat) : List Nat → List Nat
  | [] => [x]
  | y :: ys => if x < y then x :: y :: ys else if x = y then y :: ys else y :: insNat x ys

def insBlock (b : Block) : List Block → List Block
  | [] => [b]
  | y :: ys => if b.id < y.id then b :: y :: ys else if b.id = y.id then y :: ys else y :: insBlock b ys

def showW : W → String
  | .set (.block i) _ => s!"+blk:{i}"
  | .del (.block i) => s!"-blk:{i}"
  | .set .latest (.num n) => s!"+latest:{n}"
  | .del .latest => "-latest"
  | .set (.byNo n) (.id i) => s!"+no:{n}>{i}"
  | .del (.byNo n) => s!"-no:{n}"
  | .set .cons (.id i) => s!"+cons:{i}"
  | .del .cons => "-cons"
  | .set (.tx t) (.txIdx i j) => s!"+tx:{t}>{i}.{j}"
  | .del (.tx t) => s!"-tx:{t}"
  | .set (.rcpt i n) _ => s!"+rcpt:{i}.{n}"
  | .del (.rcpt i n) => s!"-rcpt:{i}.{n}"
  | .set (.iops n) _ => s!"+iops:{n}"
  | .del (.iops n) => s!"-iops:{n}"
  | .set .marker (.mk m) => s!"+marker:{m.start}.{m.best}.{m.top}"
  | .del .marker => "-marker"
  | .set (.stData _) _ => "+data"
  | .del (.stData _) => "-data"
  | .set (.stMark r) _ => s!"+mark:{r}"
  | .del (.stMark r) => s!"-mark:{r}"
  | _ => "+other"

def showUnit (u : Crash.Unit) : String :=
  let d := match u.db with | .C => "C" | .S => "S"
  let k := match u.kind with | .set => "tx" | .del => "tx" | .tx => "tx" | .bulk => "bulk"
  s!"{d}.{k}[{",".intercalate (u.ops.map showW)}]"

/-- Units that write nothing are not durable writes: dropped from the journal and from the answers (the harness
does the same with the real journal). -/
def durable (us : List Crash.Unit) : List Crash.Unit := us.filter (fun u => !u.ops.isEmpty)

def showUnits (us : List Crash.Unit) : String :=
  if us.isEmpty then "-" else "|".intercalate (us.map showUnit)

def dump (s : Sess) (D : Store) : String :=
  let latest := match getLatest D with | some n => toString n | none => "-"
  let nos := ",".intercalate ((List.range (s.maxNo + 2)).map fun h =>
    match getByNo D h with | some i => toString i | none => "-")
  let blks := ",".intercalate ((s.blocks.filter fun b => (D (.block b.id)).isSome).map fun b => toString b.id)
  let txs := ",".intercalate (s.txs.filterMap fun t =>
    match getTx D t with | some (i, j) => some s!"{t}>{i}.{j}" | none => none)
  let rc := ",".intercalate ((s.blocks.filter fun b => hasRcpt D b.id b.no).map fun b => toString b.id)
  let marker := match getMarker D with | some m => s!"{m.start}.{m.best}.{m.top}" | none => "-"
  let cons := match getCons D with | some i => toString i | none => "-"
  let marks := ",".intercalate ((s.roots.filter fun r => hasStMark D r).map toString)
  s!"latest={latest} nos={nos} blks={blks} txs={txs} rc={rc} marker={marker} cons={cons} marks={marks}"

def showErr : Err → String
  | .noLatest => "err-no-latest"
  | .loadBest => "err-load-best"
  | .noBlock => "err-no-block"
  | .prevHash => "err-prev"
  | .recoBest => "err-reco-best"
  | .badMarker => "err-marker"
  | .noStateMarker => "err-no-state-marker"
  | .loop => "err-loop"

def pTxs (s : String) : Option (List Nat) :=
  if s == "-" then some [] else (s.splitOn ",").mapM (·.toNat?)

/-- Restart on `D`; the answer line and the node (unchanged session node on failure). -/
def doRestart (s : Sess) (D : Store) : Sess × String × List Crash.Unit :=
  match initChainDB D with
  | .error e => (s, s!"boot={showErr e} init=-", [])
  | .ok (D1, best, us1') =>
    let us1 := durable us1'
    match recover ⟨D1, best, best.root, []⟩ with
    | .error e => (s, s!"boot=ok init={showUnits us1} rec={showErr e} recunits=-", us1)
    | .ok (N, us2') =>
      let us2 := durable us2'
      ({ s with node := N, recording := false },
       s!"boot=ok init={showUnits us1} rec=ok recunits={showUnits us2} best={N.best.id} root={N.sdbRoot}", us1 ++ us2)

def doFeed (s : Sess) (isBad : Bool) (i p n r t : String) : Sess × String :=
  match i.toNat?, p.toNat?, n.toNat?, r.toNat?, pTxs t with
  | some i, some p, some n, some r, some t =>
    let b : Block := ⟨i, p, n, r, t⟩
    let bad := if isBad then i :: s.bad else s.bad
    let (N, res, us0) := feedB (fun x => bad.contains x) s.node b
    let us := durable us0
    let s' := { s with blocks := insBlock b s.blocks, txs := t.foldl (fun a x => insNat x a) s.txs,
                       roots := insNat r s.roots, node := N, bad := bad,
                       J := if s.recording then s.J ++ us else s.J }
    let rs := match res with | .ok => "ok" | .err => "err"
    (s', s!"{rs} best={N.best.id} root={N.sdbRoot} units={showUnits us}")
  | _, _, _, _, _ => (s, "bad-op")

def step (s : Sess) (line : String) : Sess × String :=
  match words line with
  | ["new", g, r, mx] =>
    match g.toNat?, r.toNat?, mx.toNat? with
    | some g, some r, some mx =>
      let gb : Block := ⟨g, 0, 0, r, []⟩
      let D := genesisStore gb
      let s' : Sess := { blocks := [gb], txs := [], roots := [r], maxNo := mx, base := D, J := [], recording := true,
                         node := ⟨D, gb, r, []⟩ }
      (s', dump s' D)
    | _, _, _ => (s, "bad-op")
  | ["feed", i, p, n, r, t] => doFeed s false i p n r t
  | ["feedx", i, p, n, r, t] => doFeed s true i p n r t
  | ["lag", k, l, j] =>
    match k.toNat?, l.toNat?, j.toNat? with
    | some k, some l, some j =>
      if k > s.J.length ∨ l ≥ k then (s, "bad-op") else
      let D := crashLagTorn s.J k l j s.base
      let (s', out, us) := doRestart s D
      ({ s' with crashStart := D, crashUnits := us }, out)
    | _, _, _ => (s, "bad-op")
  | ["lag", k, l] =>
    match k.toNat?, l.toNat? with
    | some k, some l =>
      if k > s.J.length ∨ l > k then (s, "bad-op") else
      let D := crashLag s.J k l s.base
      let (s', out, us) := doRestart s D
      ({ s' with crashStart := D, crashUnits := us }, out)
    | _, _ => (s, "bad-op")
  | ["dump"] => (s, dump s s.node.D)
  | ["crash", k] =>
    match k.toNat? with
    | some k =>
      if k > s.J.length then (s, "bad-op") else
      let D := crash s.J k s.base
      let (s', out, us) := doRestart s D
      ({ s' with crashStart := D, crashUnits := us }, out)
    | none => (s, "bad-op")
  | ["crash", k, j] =>
    match k.toNat?, j.toNat? with
    | some k, some j =>
      if k ≥ s.J.length then (s, "bad-op") else
      let D := crashTorn s.J k j s.base
      let (s', out, us) := doRestart s D
      ({ s' with crashStart := D, crashUnits := us }, out)
    | _, _ => (s, "bad-op")
  | ["rcrash", j] =>
    match j.toNat? with
    | some j =>
      if j > s.crashUnits.length then (s, "bad-op") else
      let D := crash s.crashUnits j s.crashStart
      let (s', out, _) := doRestart s D
      (s', out)
    | none => (s, "bad-op")
  | ["rcrash", j, e] =>
    match j.toNat?, e.toNat? with
    | some j, some e =>
      if j ≥ s.crashUnits.length then (s, "bad-op") else
      let D := crashTorn s.crashUnits j e s.crashStart
      let (s', out, _) := doRestart s D
      (s', out)
    | _, _ => (s, "bad-op")
  | _ => (s, "bad-op")

end C06Drv

def main : IO UInt32 := run ({} : C06Drv.Sess) C06Drv.step
