import Drv.C05

/-! Model driver for C07: the same session step function as C05 (`C05Drv.step`); the two properties share
the model `Aergo.Chain` and the harness `c05`. -/

def main : IO UInt32 := Aergo.DriverLib.run (none : Option Aergo.Chain.Node) C05Drv.step
