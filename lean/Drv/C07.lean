import Aergo.Model.ChainDriver

/-! Model driver for C07: `model-c07 < ops > out`. The two properties share the model `Aergo.Chain`, the harness
machinery (harness/c05lib) and this session step function (`C05Drv.step`). -/

def main : IO UInt32 := Aergo.DriverLib.run (none : Option C05Drv.Sess) C05Drv.step
