import Aergo.Model.DriverLib
import Aergo.Model.Lib

/-! Model driver for C08: `model-c08 < ops > out`. One node session is threaded through the lines
(`new` starts a fresh node). -/
open Aergo Aergo.DriverLib Aergo.Lib

namespace C08Drv

def dash (s : String) : String := if s.isEmpty then "-" else s
def undash (s : String) : String := if s == "-" then "" else s

def commas (s : String) : List String := if s == "-" then [] else s.splitOn ","

def showBI (b : BI) : String := s!"{dash b.hash}:{b.no}:{b.range}"

def showCI (c : CI) : String := s!"{showBI c.bi}:{dash c.bp}:{c.left}"

def insertKV (x : String × PL) : List (String × PL) → List (String × PL)
  | [] => [x]
  | y :: t => if x.1 < y.1 then x :: y :: t else y :: insertKV x t

def showP (kv : String × PL) : String := s!"{dash kv.1}={showBI kv.2.plib}@{showBI kv.2.plibBy}"

def joinOr (l : List String) : String := if l.isEmpty then "-" else ",".intercalate l

def showLS (ls : LS) : String :=
  let cs := ls.confirms.reverse.map showCI
  let ps := (ls.prpsd.foldr insertKV []).map showP
  s!"L={showBI ls.lib} lpb={ls.lpb} cr={ls.cr} C={joinOr cs} P={joinOr ps}"

def showNode (n : Node) : String :=
  if n.panicked then "panic" else
  s!"{showLS n.ls} ld={if n.done then 1 else 0} best={dash n.best}"

def step (n : Node) (line : String) : Node × String :=
  match words line with
  | ["new", self, gbps] =>
    let n := newNode (undash self) (commas gbps)
    (n, showNode n)
  | ["blk", id, no, prev, bp, confirms] =>
    match no.toNat?, confirms.toNat? with
    | some no, some c =>
      if (findBlk n.blocks id).isSome then (n, "dup")
      else ({ n with blocks := ⟨id, no, undash prev, undash bp, c⟩ :: n.blocks }, "ok")
    | _, _ => (n, "bad-op")
  | ["update", id, hint] =>
    match findBlk n.blocks id with
    | none => (n, "bad-op")
    | some b => let n := statusUpdate n b (undash hint); (n, showNode n)
  | ["connect", id] =>
    match findBlk n.blocks id with
    | none => (n, "bad-op")
    | some b => (connect n b, "ok")
  | ["swap", ids] =>
    match (commas ids).mapM (findBlk n.blocks) with
    | none => (n, "bad-op")
    | some bs => let r := swap n bs; (r.1, if r.2 then "ok" else "refused")
  | ["needreorg", no] =>
    match no.toNat? with
    | some no => (n, toString (needReorg n no))
    | none => (n, "bad-op")
  | ["verifyts", id] =>
    match findBlk n.blocks id with
    | none => (n, "bad-op")
    | some b => (n, toString (verifyTs n b))
  | ["size", k] =>
    match k.toNat? with
    | some k => ({ n with size := k }, "ok")
    | none => (n, "bad-op")
  | ["gcbps", k, bps] =>
    match k.toNat? with
    | some k =>
      let ls := gc n.ls (commas bps)
      let n := { n with ls := { ls with cr := confirmsRequired k } }
      (n, showNode n)
    | none => (n, "bad-op")
  | ["restart"] =>
    let n := restart n
    (n, s!"{showNode n} | {showLS n.bl} best={dash n.blBest}")
  | _ => (n, "bad-op")

end C08Drv

def main : IO UInt32 := run (newNode "" []) C08Drv.step
