import Aergo.Model.DriverLib
import Aergo.Model.Slot
import Aergo.Model.Enc
import Aergo.Model.Producer

/-! Model driver for C09: `model-c09 < ops > out`. Serves the harnesses c09 and c09chain. -/
open Aergo Aergo.DriverLib

/-- `-` = empty list, otherwise comma separated. -/
def parseList (s : String) : List String := if s == "-" then [] else s.splitOn ","
def showList (l : List String) : String := if l.isEmpty then "-" else ",".intercalate l
/-- `!err` = the Go call returned an error. -/
def parseOptList (s : String) : Option (List String) := if s == "!err" then none else some (parseList s)
def showOptList : Option (List String) → String
  | none => "nil"
  | some l => showList l
def parseOptInt (s : String) : Option (Option Int) := if s == "-" then some none else s.toInt?.map some

/-- The signature primitive as the op line describes it: `key` = `-` (the header's PubKey does not unmarshal) or the
peer id of the key; `sig` = good | wrong (well formed, does not verify) | malformed (Verify returns an error). -/
def cryptoOf (key sig : String) : Option (Producer.Crypto String) :=
  let v : Option (Option Bool) := match sig with
    | "good" => some (some true)
    | "wrong" => some (some false)
    | "malformed" => some none
    | _ => none
  v.map fun v => { unmarshal := fun _ => if key == "-" then none else some key, verify := fun _ _ _ => v, peerId := some }

def noRec : Enc.Rec := { raw := fun _ => [], num := fun _ => 0 }

/-- What is compared: the producer count and the indexed members. The list `AddSnapshot`/`UpdateCluster` report back
(`out`) only feeds the finality status' garbage collection (C08) and is not observable through `Status.Update`. -/
def showSnaps (s : Producer.Snaps) (_out : Option (List String)) : String :=
  s!"{s.size} {showList s.members}"

def c09Step (st : Option Producer.Snaps) (line : String) : Option Producer.Snaps × String :=
  match words line with
  | ["slot", iv, ns, n] =>
    (st, match iv.toInt?, ns.toInt?, n.toInt? with
    | some iv, some ns, some n =>
      let s := Slot.fromUnixNs iv ns
      s!"{s.timeMs} {s.prevIndex} {s.nextIndex} {Slot.owner iv ns n}"
    | _, _, _ => "bad-op")
  | ["future", iv, ns, now] =>
    (st, match iv.toInt?, ns.toInt?, now.toInt? with
    | some iv, some ns, some now => toString (Slot.isFuture iv (Slot.fromUnixNs iv ns) now)
    | _, _, _ => "bad-op")
  | "valid" :: iv :: ts :: bpid :: ids =>
    (st, match iv.toInt?, ts.toInt? with
    | some iv, some ts => toString (Slot.isBlockValid iv ids bpid ts)
    | _, _ => "bad-op")
  | "validk" :: iv :: ts :: key :: ids =>
    -- DPoS.IsBlockValid incl. its bad-public-key path (key = `-`)
    (st, match iv.toInt?, ts.toInt? with
    | some iv, some ts => toString (Producer.isBlockValidK iv ids (if key == "-" then none else some key) ts)
    | _, _ => "bad-op")
  | ["vsign", key, sig] =>
    (st, match cryptoOf key sig with
    | some c => toString (Producer.dposVerifySign c noRec)
    | none => "bad-op")
  | ["vts", iv, ts, now, lib, no] =>
    (st, match iv.toInt?, ts.toInt?, now.toInt?, parseOptInt lib, no.toInt? with
    | some iv, some ts, some now, some lib, some no => toString (Producer.verifyTimestamp iv ts now lib no)
    | _, _, _, _, _ => "bad-op")
  | "accept" :: iv :: now :: lib :: no :: ts :: key :: sig :: ids =>
    (st, match iv.toInt?, now.toInt?, parseOptInt lib, no.toInt?, ts.toInt?, cryptoOf key sig with
    | some iv, some now, some lib, some no, some ts, some c => toString (Producer.accept c iv ids now lib noRec no ts)
    | _, _, _, _, _, _ => "bad-op")
  | ["hdrmut", f] =>
    -- mutating header field f: does the block id change? does the producer signature still verify?
    -- (an altered signature, or a digest that reads the field, stops verifying)
    let idChanges := Enc.covers Gen.Enc.blockHashSpec f
    let sigOk := !(Enc.covers Gen.Enc.blockSignSpec f || f == "Sign")
    (st, s!"{idChanges} {sigOk}")
  | ["sboot", best, load, g] =>
    match best.toInt? with
    | some best =>
      let s := Producer.boot (parseList g) best (parseOptList load)
      (some s, showSnaps s none)
    | none => (st, "bad-op")
  | ["sconn", no, rank, load] =>
    match st, no.toInt? with
    | some s, some no =>
      let (s, out) := Producer.addSnapshot s no (parseOptList rank) (parseOptList load)
      (some s, showSnaps s out)
    | _, _ => (st, "bad-op")
  | ["sroll", no, load] =>
    match st, no.toInt? with
    | some s, some no =>
      let (s, out) := Producer.updateCluster s no (parseOptList load)
      (some s, showSnaps s out)
    | _, _ => (st, "bad-op")
  | ["sref", no] =>
    (st, match no.toInt? with
    | some no => toString (Gen.Snap.snapBlockNo no)
    | none => "bad-op")
  | _ => (st, "bad-op")

def main : IO UInt32 := run none c09Step
