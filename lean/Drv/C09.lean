import Aergo.Model.DriverLib
import Aergo.Model.Slot
import Aergo.Model.Enc

/-! Model driver for C09: `model-c09 < ops > out`. -/
open Aergo Aergo.DriverLib

def c09Step (line : String) : String :=
  match words line with
  | ["slot", iv, ns, n] =>
    match iv.toInt?, ns.toInt?, n.toInt? with
    | some iv, some ns, some n =>
      let s := Slot.fromUnixNs iv ns
      s!"{s.timeMs} {s.prevIndex} {s.nextIndex} {Slot.owner iv ns n}"
    | _, _, _ => "bad-op"
  | ["future", iv, ns, now] =>
    match iv.toInt?, ns.toInt?, now.toInt? with
    | some iv, some ns, some now => toString (Slot.isFuture iv (Slot.fromUnixNs iv ns) now)
    | _, _, _ => "bad-op"
  | "valid" :: iv :: ts :: bpid :: ids =>
    match iv.toInt?, ts.toInt? with
    | some iv, some ts => toString (Slot.isBlockValid iv ids bpid ts)
    | _, _ => "bad-op"
  | ["hdrmut", f] =>
    -- mutating header field f: does the block id change? does the producer signature still verify?
    -- (an altered signature, or a digest that reads the field, stops verifying)
    let idChanges := Enc.covers Gen.Enc.blockHashSpec f
    let sigOk := !(Enc.covers Gen.Enc.blockSignSpec f || f == "Sign")
    s!"{idChanges} {sigOk}"
  | _ => "bad-op"

def main : IO UInt32 := runPure c09Step
