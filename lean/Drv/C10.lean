import Aergo.Model.DriverLib
import Aergo.Model.Trie
import Aergo.Model.TrieBatch
import Aergo.Model.TrieStore
import Aergo.Model.TrieStoreUpd

/-! Model driver for C10 (and the trie part of C11): `model-c10 < ops > out`.
Ops: `new` | `update k=v k=DEL …` (sorted hex keys) | `get k` | `keys` | `commit` | `reopen i`.
Roots are printed as hash *terms* (`root N E L <key> <val> <h> …`); the harness evaluates them.
Storage layer: `sbatch <path bits | ->` prints the batch `TrieStore.layout` expects in the store under the
batch root reached by the path in the current tree (child references as hash terms); `sget <root> <key> k=v …`
runs `TrieStore.getRoot` (the trie's `get` through loadChildren/parseBatch) on the given store pairs.
`new <h> w` switches on the `updatedNodes` bookkeeping (`TrieStore.updU`, hashes kept symbolic by an injective
length-prefixed stand-in for the hash function); `wset`, sent before `commit`, prints the batch roots of the current
tree that the commit is going to write (by path) and the number of recorded batches that are not part of the tree. -/
open Aergo Aergo.DriverLib Aergo.Trie

def hexToBits (s : String) : Option (List Bool) := do
  let ns ← s.toList.mapM hexDigit
  pure (ns.flatMap fun n => [n / 8 % 2 == 1, n / 4 % 2 == 1, n / 2 % 2 == 1, n % 2 == 1])

structure St where
  height : Nat := 256
  cur : T String := .empty
  committed : Array (T String) := #[]
  /-- `updatedNodes` of the instance and the hash-annotated current/committed trees (only when `track`) -/
  un : TrieStore.UN := []
  track : Bool := false
  curH : TrieStore.TH := .empty
  committedH : Array TrieStore.TH := #[]

/-- A stand-in for the hash function in the `updatedNodes` bookkeeping (the driver never evaluates SHA-256, and
`wset` compares paths, not hash values): two 64-bit multiplicative lanes, 16 bytes of output. Only
equality of hashes matters there; an accidental collision of this stand-in would show as a spurious trace
difference, never hide one silently in a proof. -/
def mixH (x : List UInt8) : List UInt8 :=
  let m1 : UInt64 := 0x100000001b3
  let m2 : UInt64 := 0x9E3779B97F4A7C15
  let s := x.foldl (fun (s : UInt64 × UInt64) b =>
    let v : UInt64 := b.toUInt64 + 1
    ((s.1 ^^^ v) * m1, ((s.2 + v) * m2) ^^^ ((s.2 + v) >>> 31) ^^^ s.1))
    ((0xcbf29ce484222325 : UInt64), (0x84222325cbf29ce4 : UInt64))
  let a := s.1
  let b := s.2
  [a.toUInt8, (a >>> 8).toUInt8, (a >>> 16).toUInt8, (a >>> 24).toUInt8, (a >>> 32).toUInt8, (a >>> 40).toUInt8,
   (a >>> 48).toUInt8, (a >>> 56).toUInt8, b.toUInt8, (b >>> 8).toUInt8, (b >>> 16).toUInt8, (b >>> 24).toUInt8,
   (b >>> 32).toUInt8, (b >>> 40).toUInt8, (b >>> 48).toUInt8, (b >>> 56).toUInt8]

def symCtx : HashCtx := { H := mixH, enc := TrieBatch.packBits }

def mapT {α β : Type} (f : α → β) : T α → T β
  | .empty => .empty
  | .leaf k v => .leaf k (f v)
  | .node l r => .node (mapT f l) (mapT f r)

def toBytesT (t : T String) : T Trie.Bytes := mapT (fun v => (unhex v).getD []) t

def bitsStr (p : List Bool) : String := if p.isEmpty then "-" else String.ofList (p.map fun b => if b then '1' else '0')

def parseKV (s : String) : Option (KV String) :=
  match s.splitOn "=" with
  | [k, v] => do
    let kb ← hexToBits k
    pure (kb, if v == "DEL" then none else some v)
  | _ => none

def rootLine (s : St) : String := "root " ++ " ".intercalate (term s.height s.cur)

def c10Step (s : St) (line : String) : St × String :=
  match words line with
  | ["new", _cacheHeight] => ({ s with cur := .empty, committed := #[], un := [], track := false, curH := .empty, committedH := #[] }, "ok")
  | ["new", _cacheHeight, "w"] => ({ s with cur := .empty, committed := #[], un := [], track := true, curH := .empty, committedH := #[] }, "ok")
  | "update" :: kvs =>
    match kvs.mapM parseKV with
    | some (kv :: rest) =>
      let (curH', un') := if s.track then
          let r := TrieStore.updUH symCtx (fun _ _ _ => []) s.height [] s.curH
            ((kv :: rest).map fun (k, ov) => (k, ov.map fun v => (unhex v).getD [])) s.un
          (r.1.1, r.2)
        else (s.curH, s.un)
      let s' := { s with cur := updateRoot s.height s.cur (kv :: rest), un := un', curH := curH' }
      -- the annotated tree must stay the plain one (Lemmas/TrieStoreUpdH.lean proves it does)
      if s.track && toBytesT s'.cur != curH'.erase then (s', "model-inconsistent") else
      (s', rootLine s')
    | _ => (s, "bad-op")
  | ["wset"] =>
    if !s.track then (s, "bad-op") else
    let roots := TrieStore.batchRootsH (s.height / 4) [] s.curH
    let keys := s.un.map (·.1)
    let live := (roots.filter fun r => keys.contains r.2).map fun r => bitsStr r.1
    let orphans := (keys.filter fun k => !roots.any fun r => r.2 == k).length
    (s, s!"wset {",".intercalate (live.toArray.qsort (· < ·)).toList} orphans={orphans}")
  | ["get", k] =>
    match hexToBits k with
    | some kb => (s, (get s.cur kb).getD "nil")
    | none => (s, "bad-op")
  | ["keys"] => (s, "keys " ++ ",".intercalate (((keysOf s.cur []).map bitsToHex).toArray.qsort (· < ·)).toList)
  | ["commit"] => ({ s with committed := s.committed.push s.cur, un := [], committedH := s.committedH.push s.curH }, s!"ok {s.committed.size}")
  | ["reopen", i] =>
    match i.toNat? with
    | some i =>
      match s.committed[i]? with
      | some t => let s' := { s with cur := t, un := [], curH := s.committedH[i]?.getD .empty }; (s', rootLine s')
      | none => (s, "bad-op")
    | none => (s, "bad-op")
  | ["par", v] =>
    -- parseBatch of a stored value
    match unhex v with
    | some bytes => (s, batchLine (TrieBatch.parse bytes))
    | none => (s, "bad-op")
  | "ser" :: sc :: slots =>
    -- serializeBatch of a batch given as shortcut flag + 30 slots ("-" = nil)
    match slots.mapM (fun x => if x == "-" then some none else (unhex x).map some) with
    | some sl => (s, "ser " ++ hex (TrieBatch.serialize { shortcut := sc == "1", slots := sl }))
    | none => (s, "bad-op")
  | ["sbatch", path] =>
    match (if path == "-" then some [] else path.toList.mapM fun ch => if ch == '0' then some false else if ch == '1' then some true else none) with
    | some q =>
      if q.length % 4 != 0 || q.length > s.height then (s, "bad-op") else
      match TrieStore.descend s.cur q with
      | none | some .empty => (s, "sbatch none")
      | some sub =>
        let h := s.height - q.length
        let slot (x : Option (TrieStore.Slot String)) : String :=
          match x with
          | none => "-"
          | some (.key k) => "K " ++ bitsToHex k
          | some (.val v) => "V " ++ v
          | some (.ref flag h' p t) => s!"R {flag} " ++ " ".intercalate (termAcc h' p.reverse t []).reverse
        (s, s!"sbatch sc={TrieStore.isLeaf sub} ; " ++ " ; ".intercalate ((TrieStore.layout h q sub).map slot))
    | none => (s, "bad-op")
  | "sget" :: root :: key :: pairs =>
    match unhex root, hexToBits key, pairs.mapM (fun x => match x.splitOn "=" with
        | [k, v] => do pure ((← unhex k), (← unhex v))
        | _ => none) with
    | some r, some kb, some ps =>
      let σ : TrieStore.Store := fun k => (ps.find? fun kv => kv.1 == k).map (·.2)
      let c : HashCtx := { H := fun _ => [], enc := TrieBatch.packBits }   -- `get` never hashes
      match TrieStore.getRoot c σ s.height r kb with
      | .err => (s, "err")
      | .ok none => (s, "nil")
      | .ok (some v) => (s, hex v)
    | _, _, _ => (s, "bad-op")
  | _ => (s, "bad-op")
where
  batchLine (b : Option TrieBatch.Batch) : String :=
    match b with
    | none => "panic"
    | some b => s!"batch sc={b.shortcut} " ++ ",".intercalate (b.slots.map fun x => match x with | some y => hex y | none => "-")

def main : IO UInt32 := run ({} : St) c10Step
