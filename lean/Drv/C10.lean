import Aergo.Model.DriverLib
import Aergo.Model.Trie
import Aergo.Model.TrieBatch

/-! Model driver for C10 (and the trie part of C11): `model-c10 < ops > out`.
Ops: `new` | `update k=v k=DEL …` (sorted hex keys) | `get k` | `keys` | `commit` | `reopen i`.
Roots are printed as hash *terms* (`root N E L <key> <val> <h> …`); the harness evaluates them. -/
open Aergo Aergo.DriverLib Aergo.Trie

def hexToBits (s : String) : Option (List Bool) := do
  let ns ← s.toList.mapM hexDigit
  pure (ns.flatMap fun n => [n / 8 % 2 == 1, n / 4 % 2 == 1, n / 2 % 2 == 1, n % 2 == 1])

structure St where
  height : Nat := 256
  cur : T String := .empty
  committed : Array (T String) := #[]

def parseKV (s : String) : Option (KV String) :=
  match s.splitOn "=" with
  | [k, v] => do
    let kb ← hexToBits k
    pure (kb, if v == "DEL" then none else some v)
  | _ => none

def rootLine (s : St) : String := "root " ++ " ".intercalate (term s.height s.cur)

def c10Step (s : St) (line : String) : St × String :=
  match words line with
  | ["new", _cacheHeight] => ({ s with cur := .empty, committed := #[] }, "ok")
  | "update" :: kvs =>
    match kvs.mapM parseKV with
    | some (kv :: rest) =>
      let s' := { s with cur := updateRoot s.height s.cur (kv :: rest) }
      (s', rootLine s')
    | _ => (s, "bad-op")
  | ["get", k] =>
    match hexToBits k with
    | some kb => (s, (get s.cur kb).getD "nil")
    | none => (s, "bad-op")
  | ["keys"] => (s, "keys " ++ ",".intercalate ((keysOf s.cur []).map bitsToHex))
  | ["commit"] => ({ s with committed := s.committed.push s.cur }, s!"ok {s.committed.size}")
  | ["reopen", i] =>
    match i.toNat? with
    | some i =>
      match s.committed[i]? with
      | some t => let s' := { s with cur := t }; (s', rootLine s')
      | none => (s, "bad-op")
    | none => (s, "bad-op")
  | ["par", v] =>
    -- parseBatch of a stored value
    match unhex v with
    | some bytes => (s, batchLine (TrieBatch.parse bytes))
    | none => (s, "bad-op")
  | "ser" :: sc :: slots =>
    -- serializeBatch of a batch given as shortcut flag + 30 slots ("-" = nil)
    match slots.mapM (fun x => if x == "-" then some none else (unhex x).map some) with
    | some sl => (s, "ser " ++ hex (TrieBatch.serialize { shortcut := sc == "1", slots := sl }))
    | none => (s, "bad-op")
  | _ => (s, "bad-op")
where
  batchLine (b : Option TrieBatch.Batch) : String :=
    match b with
    | none => "panic"
    | some b => s!"batch sc={b.shortcut} " ++ ",".intercalate (b.slots.map fun x => match x with | some y => hex y | none => "-")

def main : IO UInt32 := run ({} : St) c10Step
