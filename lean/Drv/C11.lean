import Aergo.Model.DriverLib
import Aergo.Model.Trie
import Aergo.Model.Sha256

/-! Model driver for C11: tries are built as in C10 (`new`, `update`, `commit`, `reopen`), then
`prove k`, `provec k` print the model's Merkle proof and `vinc`/`vexc`/`vincc`/`vexcc` print the
model verifiers' verdicts. The hash parameter is instantiated with SHA-256 here only. -/
open Aergo Aergo.DriverLib Aergo.Trie

def bytesToBits (bs : List UInt8) : List Bool :=
  bs.flatMap fun b => (List.range 8).map fun i => (b.toNat >>> (7 - i)) % 2 == 1

def bitsToBytes : List Bool → List UInt8
  | a :: b :: c :: d :: e :: f :: g :: h :: rest =>
    UInt8.ofNat ((if a then 128 else 0) + (if b then 64 else 0) + (if c then 32 else 0) + (if d then 16 else 0) +
      (if e then 8 else 0) + (if f then 4 else 0) + (if g then 2 else 0) + (if h then 1 else 0)) :: bitsToBytes rest
  | _ => []

def ctx : HashCtx := { H := Sha256.sha256, enc := bitsToBytes }

structure St where
  cur : T Bytes := .empty
  committed : Array (T Bytes) := #[]

def parseKV (s : String) : Option (KV Bytes) :=
  match s.splitOn "=" with
  | [k, v] => do
    let kb ← unhex k
    if v == "DEL" then pure (bytesToBits kb, none) else
    let vb ← unhex v
    pure (bytesToBits kb, some vb)
  | _ => none

def hexList (l : List Bytes) : String := if l.isEmpty then "-" else ",".intercalate (l.map hex)

def parseList (s : String) : Option (List Bytes) :=
  if s == "-" then some [] else (s.splitOn ",").mapM unhex

def optHex (o : Option Bytes) : String := match o with | some b => hex b | none => "-"

/-- `bitIsSet(bitmap, i)`; `none` = index out of range (Go panics). -/
def bitAt (bm : Bytes) (i : Nat) : Option Bool :=
  (bm[i / 8]?).map fun b => (b.toNat >>> (7 - i % 8)) % 2 == 1

def apHashes (ap : List (Sib Bytes)) : List Bytes := ap.map fun (h, p, t) => hashT ctx h p t

/-- merkleProofCompressed: bitmap of len/8+1 bytes, bit i set iff the i-th (deepest first) sibling is not default -/
def compress (ap : List Bytes) : Bytes × List Bytes :=
  let n := ap.length / 8 + 1
  let bits := ap.map fun x => x != defaultLeaf
  let padded := bits ++ List.replicate (n * 8 - bits.length) false
  (bitsToBytes padded, ap.filter fun x => x != defaultLeaf)

def rootBytes (s : St) : Bytes := rootOf ctx 256 s.cur

def c11Step (s : St) (line : String) : St × String :=
  match words line with
  | ["new"] => ({}, "ok")
  | "update" :: kvs =>
    match kvs.mapM parseKV with
    | some (kv :: rest) =>
      let s' := { s with cur := updateRoot 256 s.cur (kv :: rest) }
      (s', "root " ++ hex (rootBytes s'))
    | _ => (s, "bad-op")
  | ["commit"] => ({ s with committed := s.committed.push s.cur }, s!"ok {s.committed.size}")
  | ["reopen", i] =>
    match i.toNat? >>= (s.committed[·]?) with
    | some t => let s' := { s with cur := t }; (s', "root " ++ hex (rootBytes s'))
    | none => (s, "bad-op")
  | ["prove", k] =>
    match unhex k with
    | some kb =>
      let p := merkleProof 256 [] s.cur (bytesToBits kb)
      let pk := p.proofKV.map fun kv => bitsToBytes kv.1
      let pv := match p.value, p.proofKV with
        | some v, _ => some v
        | none, some kv => some kv.2
        | none, none => none
      (s, s!"proof inc={p.included} pk={optHex pk} pv={optHex pv} ap={hexList (apHashes p.ap)}")
    | none => (s, "bad-op")
  | ["provec", k] =>
    match unhex k with
    | some kb =>
      let p := merkleProof 256 [] s.cur (bytesToBits kb)
      let pk := p.proofKV.map fun kv => bitsToBytes kv.1
      let pv := match p.value, p.proofKV with
        | some v, _ => some v
        | none, some kv => some kv.2
        | none, none => none
      let full := apHashes p.ap
      let (bm, ap) := compress full
      (s, s!"proofc inc={p.included} pk={optHex pk} pv={optHex pv} bitmap={hex bm} len={full.length} ap={hexList ap}")
    | none => (s, "bad-op")
  | ["vinc", root, key, value, ap] =>
    match unhex root, unhex key, unhex value, parseList ap with
    | some r, some k, some v, some ap =>
      if ap.length > k.length * 8 then (s, "panic") else
      (s, toString (verifyInclusion ctx 256 r ap (bytesToBits k) v))
    | _, _, _, _ => (s, "bad-op")
  | ["vexc", root, key, value, pk, ap] =>
    match unhex root, unhex key, unhex value, unhex pk, parseList ap with
    | some r, some k, some v, some pk, some ap =>
      if ap.length > k.length * 8 then (s, "panic") else
      if !pk.isEmpty && ap.length > pk.length * 8 then (s, "panic") else
      (s, toString (verifyNonInclusion ctx 256 r ap (bytesToBits k) v (if pk.isEmpty then none else some (bytesToBits pk))))
    | _, _, _, _, _ => (s, "bad-op")
  | ["vincc", root, bitmap, key, value, len, ap] =>
    match unhex root, unhex bitmap, unhex key, unhex value, len.toNat?, parseList ap with
    | some r, some bm, some k, some v, some len, some ap =>
      (s, verdictC r bm (bytesToBits k) v len ap none)
    | _, _, _, _, _, _ => (s, "bad-op")
  | ["vexcc", root, bitmap, key, value, pk, len, ap] =>
    match unhex root, unhex bitmap, unhex key, unhex value, unhex pk, len.toNat?, parseList ap with
    | some r, some bm, some k, some v, some pk, some len, some ap =>
      (s, verdictC r bm (bytesToBits k) v len ap (some (if pk.isEmpty then none else some (bytesToBits pk))))
    | _, _, _, _, _, _, _ => (s, "bad-op")
  | _ => (s, "bad-op")
where
  /-- `VerifyInclusionC` (excl = none) / `VerifyNonInclusionC` (excl = some proofKey?) -/
  verdictC (r bm : Bytes) (k : List Bool) (v : Bytes) (len : Nat) (ap : List Bytes)
      (excl : Option (Option (List Bool))) : String :=
    -- bits root first: bitIsSet(bitmap, length-keyIndex-1)
    match (List.range len).mapM (fun j => bitAt bm (len - 1 - j)) with
    | none => "panic"
    | some bits =>
      let inc (key : List Bool) (leaf : Bytes) : Option Bool :=
        if len > key.length then none else
        (vUpC ctx key bits ap.reverse leaf).map (r == ·)
      let leafOf (key : List Bool) := ctx.H (ctx.enc key ++ v ++ [byteOf (256 - len)])
      let show? (o : Option Bool) := match o with | some b => toString b | none => "panic"
      match excl with
      | none => show? (inc k (leafOf k))
      | some none => if len == 0 then toString r.isEmpty else show? (inc k defaultLeaf)
      | some (some pk) =>
        if pk = k then "false" else
        match inc pk (leafOf pk) with
        | none => "panic"
        | some false => "false"
        | some true => if len > k.length then "panic" else toString (k.take len == pk.take len)

def main : IO UInt32 := run ({} : St) c11Step
