import Aergo.Model.DriverLib
import Aergo.Model.Trie
import Aergo.Model.TrieCompress
import Aergo.Model.Sha256

/-! Model driver for C11: tries are built as in C10 (`new`, `update`, `commit`, `reopen`), then
`prove k`, `provec k` print the model's Merkle proof and `vinc`/`vexc`/`vincc`/`vexcc` print the
model verifiers' verdicts. The hash parameter is instantiated with SHA-256 here only. -/
open Aergo Aergo.DriverLib Aergo.Trie

def bytesToBits (bs : List UInt8) : List Bool :=
  bs.flatMap fun b => (List.range 8).map fun i => (b.toNat >>> (7 - i)) % 2 == 1

def bitsToBytes : List Bool → List UInt8 := packBits

def ctx : HashCtx := { H := Sha256.sha256, enc := bitsToBytes }

structure St where
  cur : T Bytes := .empty
  committed : Array (T Bytes) := #[]
  /-- the trie the StateDB instance is positioned at (the latest account trie), for `acctprove` / `varprove` -/
  acct : T Bytes := .empty

def parseKV (s : String) : Option (KV Bytes) :=
  match s.splitOn "=" with
  | [k, v] => do
    let kb ← unhex k
    if v == "DEL" then pure (bytesToBits kb, none) else
    let vb ← unhex v
    pure (bytesToBits kb, some vb)
  | _ => none

def hexList (l : List Bytes) : String := if l.isEmpty then "-" else ",".intercalate (l.map hex)

def parseList (s : String) : Option (List Bytes) :=
  if s == "-" then some [] else (s.splitOn ",").mapM unhex

def optHex (o : Option Bytes) : String := match o with | some b => hex b | none => "-"

def apHashes (ap : List (Sib Bytes)) : List Bytes := ap.map fun (h, p, t) => hashT ctx h p t

def rootBytes (s : St) : Bytes := rootOf ctx 256 s.cur

def c11Step (s : St) (line : String) : St × String :=
  match words line with
  | ["new"] => ({ acct := s.acct }, "ok")
  | ["setacct"] => ({ s with acct := s.cur }, "ok")
  -- StateDB.GetAccountAndProof on an instance positioned at `acct`: at the trie last reopened ("req") or with no root ("latest")
  | ["acctprove", k, r] => nodeProof s k r false false
  | ["acctprovec", k, r] => nodeProof s k r false true
  -- StateDB.GetVarAndProof(key, root of the current (storage) trie) on an instance positioned at `acct`
  | ["varprove", k] => nodeProof s k "req" true false
  | ["varprovec", k] => nodeProof s k "req" true true
  | "update" :: kvs =>
    match kvs.mapM parseKV with
    | some (kv :: rest) =>
      let s' := { s with cur := updateRoot 256 s.cur (kv :: rest) }
      (s', "root " ++ hex (rootBytes s'))
    | _ => (s, "bad-op")
  | ["commit"] => ({ s with committed := s.committed.push s.cur }, s!"ok {s.committed.size}")
  | ["reopen", i] =>
    match i.toNat? >>= (s.committed[·]?) with
    | some t => let s' := { s with cur := t }; (s', "root " ++ hex (rootBytes s'))
    | none => (s, "bad-op")
  | ["prove", k] =>
    match unhex k with
    | some kb =>
      let p := merkleProof 256 [] s.cur (bytesToBits kb)
      let pk := p.proofKV.map fun kv => bitsToBytes kv.1
      let pv := match p.value, p.proofKV with
        | some v, _ => some v
        | none, some kv => some kv.2
        | none, none => none
      (s, s!"proof inc={p.included} pk={optHex pk} pv={optHex pv} ap={hexList (apHashes p.ap)}")
    | none => (s, "bad-op")
  | ["provec", k] =>
    match unhex k with
    | some kb =>
      let p := merkleProof 256 [] s.cur (bytesToBits kb)
      let pk := p.proofKV.map fun kv => bitsToBytes kv.1
      let pv := match p.value, p.proofKV with
        | some v, _ => some v
        | none, some kv => some kv.2
        | none, none => none
      let (bm, ap, len) := compress (apHashes p.ap)
      (s, s!"proofc inc={p.included} pk={optHex pk} pv={optHex pv} bitmap={hex bm} len={len} ap={hexList ap}")
    | none => (s, "bad-op")
  | ["vinc", root, key, value, ap] =>
    match unhex root, unhex key, unhex value, parseList ap with
    | some r, some k, some v, some ap =>
      if ap.length > k.length * 8 then (s, "false") else   -- Go: index out of range = rejected
      (s, toString (verifyInclusion ctx 256 r ap (bytesToBits k) v))
    | _, _, _, _ => (s, "bad-op")
  | ["vexc", root, key, value, pk, ap] =>
    match unhex root, unhex key, unhex value, unhex pk, parseList ap with
    | some r, some k, some v, some pk, some ap =>
      if ap.length > k.length * 8 then (s, "false") else
      if !pk.isEmpty && ap.length > pk.length * 8 then (s, "false") else
      (s, toString (verifyNonInclusion ctx 256 r ap (bytesToBits k) v (if pk.isEmpty then none else some (bytesToBits pk))))
    | _, _, _, _, _ => (s, "bad-op")
  | ["vincc", root, bitmap, key, value, len, ap] =>
    match unhex root, unhex bitmap, unhex key, unhex value, len.toNat?, parseList ap with
    | some r, some bm, some k, some v, some len, some ap =>
      (s, verdictC r bm (bytesToBits k) v len ap none)
    | _, _, _, _, _, _ => (s, "bad-op")
  | ["vexcc", root, bitmap, key, value, pk, len, ap] =>
    match unhex root, unhex bitmap, unhex key, unhex value, unhex pk, len.toNat?, parseList ap with
    | some r, some bm, some k, some v, some pk, some len, some ap =>
      (s, verdictC r bm (bytesToBits k) v len ap (some (if pk.isEmpty then none else some (bytesToBits pk))))
    | _, _, _, _, _, _, _ => (s, "bad-op")
  | _ => (s, "bad-op")
where
  /-- the model's `getAccountProof` / `getVarProof` (load = identity: the harness prints the hash of what was loaded) -/
  nodeProof (s : St) (k r : String) (isVar compressed : Bool) : St × String :=
    match unhex k, (r == "req" || r == "latest") with
    | some kb, true =>
      let key := bytesToBits kb
      let pr := if isVar then getVarProof ctx 256 id s.acct s.cur key
        else getAccountProof ctx 256 id s.acct (if r == "req" then some s.cur else none) key
      let pv := match pr.value with | some v => v | none => pr.proofVal
      let head := s!"inc={pr.inclusion} pk={optHex (pr.proofKey.map bitsToBytes)} pv={hex pv}"
      if compressed then
        let (bm, ap, len) := compress pr.ap
        (s, s!"nproofc {head} bitmap={hex bm} len={len} ap={hexList ap}")
      else (s, s!"nproof {head} ap={hexList pr.ap}")
    | _, _ => (s, "bad-op")
  /-- `VerifyInclusionC` (excl = none) / `VerifyNonInclusionC` (excl = some proofKey?): the model's verdict, `none` = panic -/
  verdictC (r bm : Bytes) (k : List Bool) (v : Bytes) (len : Nat) (ap : List Bytes)
      (excl : Option (Option (List Bool))) : String :=
    -- `none` is a panic of the Go verifier: a rejection (the harness folds it into "false" too)
    let show? (o : Option Bool) := match o with | some b => toString b | none => "false"
    match excl with
    | none => show? (verifyInclusionC ctx 256 r bm k v ap len)
    | some pk => show? (verifyNonInclusionC ctx 256 r bm k v pk ap len)

def main : IO UInt32 := run ({} : St) c11Step
