import Aergo.Model.DriverLib
import Aergo.Model.Buffer

/-! Model driver for C12: `model-c12 < ops > out`. One session = `new <accounts> <keys>` followed
by operations on one StateDB/BlockState with at most one open ContractState per contract.
Every answer line carries all reads (accounts, storage keys) and the export lists. -/
set_option linter.unusedVariables false
open Aergo Aergo.DriverLib Aergo.Buffer

/-- An open `ContractState`: its `storage` field is either the staged object of the cache
(`alias`) or a private `bufferedStorage` created by `OpenContractState`. `bound`: it was opened
on the working record of a held `AccountState` (`OpenContractState(id, as.State(), …)`, the way
`contract.Execute` does), so `SetCode` writes the code hash into that record. -/
inductive HKind where
  | alias
  | priv (st : Storage)

structure Handle where
  kind : HKind
  bound : Bool := false

/-- A held `AccountState`, by value: `old` = what `GetAccountState` saw, `new` = the working record,
`sealed` = it has been put. -/
structure Held where
  old : Option AVal
  new : AVal
  sealed : Bool := false

def emptyAVal : AVal := { nonce := 0, sroot := [] }

/-- The mirror: the definitions the theorems of `Props/C12` are stated over (`runB`, `survivorsAux`,
`Spec.run`, `runPlain`, `commitBlock`), run on the same session, one `BOp` at a time, from the last
`Update`/`Commit`/reopen (`base`). After every operation the driver compares the mirror with its own
state (which it computes with the transcribed functions, and which the harness compares with the real
code); a disagreement is printed into the answer line. -/
structure Mirror where
  base : SDB := SDB.new []
  st : Option (SDB × List BlockSnap) := some (SDB.new [], [])   -- `runB` state; none: runB refused
  sv : List SDB.Op × List Nat := ([], [])                        -- `survivorsAux` state
  sp : Spec × List Spec := (⟨[], []⟩, [])                        -- `Spec.run` state
  ids : List Nat := []                                           -- session-wide numbers of the live snapshots
  plain : Bool := true                                           -- no contract-level rollback in this segment
  hist : List POp := []                                          -- the block so far, raw writes included

structure Sess where
  mir : Mirror := {}
  na : Nat := 0
  nk : Nat := 0
  db : SDB := SDB.new []
  handles : AMap Handle := []
  held : AMap Held := []
  raws : List Nat := []       -- code tokens in the store (SetCode -> SetRawKV writes at call time)
  snaps : List BlockSnap := []
  committed : List (AMap AVal) := []
  undef : Bool := false      -- the model left an operation undefined; the rest of the session is void

def joinWith (sep : String) (l : List String) : String :=
  match l with
  | [] => "."
  | _ => sep.intercalate l

def showSVal : SVal → String
  | none => "-"
  | some v => toString v

/-- the storage a handle (or, without one, a temporary `OpenContractStateAccount`) reads -/
def storageOf (s : Sess) (c : Nat) : Res Storage :=
  match s.handles.get c with
  | some ⟨.priv st, _⟩ => .found st
  | _ => s.db.openStorage c

def showAVal (v : AVal) : String :=
  if v.bal = 0 ∧ v.code = 0 then toString v.nonce else s!"{v.nonce}/{v.bal}/{v.code}"

def insertSorted (x : Nat) : List Nat → List Nat
  | [] => [x]
  | y :: t => if x < y then x :: y :: t else if x = y then y :: t else y :: insertSorted x t

def showRaw (s : Sess) : String := s!"raw={joinWith "," (s.raws.map toString)}"

def readsLine (s : Sess) : String :=
  let accts := (List.range s.na).map fun a =>
    match s.db.getState a with
    | .found (some v) => showAVal v
    | .found none => "-"
    | _ => "panic"
  let stor := (List.range s.na).flatMap fun c =>
    (List.range s.nk).map fun k =>
      match storageOf s c with
      | .found st =>
        match st.getData k with
        | .found v => showSVal v
        | _ => "panic"
      | _ => "panic"
  let has := (List.range s.na).flatMap fun c =>
    (List.range s.nk).map fun k =>
      match storageOf s c with
      | .found st => if st.hasKey k then "1" else "0"
      | _ => "p"
  let expA := match s.db.buf.exportAll with
    | some l => joinWith "," (l.map fun (e : Nat × AVal) => toString e.1)
    | none => "panic"
  let expS (tag : String) (c : Nat) (st : Storage) : String :=
    match st.buf.exportAll with
    | some l => s!" {tag}{c}[{joinWith "," (l.map fun (e : Nat × SVal) => s!"{e.1}={match e.2 with | some v => toString v | none => "d"}")}]"
    | none => s!" {tag}{c}[panic]"
  let expC := String.join (s.db.cache.map fun p => expS "c" p.1 p.2)
  let expH := String.join (s.handles.filterMap fun p =>
    match p.2.kind with
    | .priv st => some (expS "h" p.1 st)
    | .alias => none)
  s!"A {" ".intercalate accts} | S {" ".intercalate stor} | H {String.join has} | X {expA}{expC}{expH}"

def showSnap (sn : BlockSnap) : String :=
  s!"snap={sn.state}/{joinWith "," (sn.storage.map fun p => s!"{p.1}:{p.2}")}"

/-- modify the storage behind a handle -/
def withHandle (s : Sess) (c : Nat) (f : Storage → Option Storage) : Option Sess :=
  match s.handles.get c with
  | none => none
  | some ⟨.priv st, b⟩ =>
    match f st with
    | some st' => some { s with handles := s.handles.set c ⟨.priv st', b⟩ }
    | none => some { s with undef := true }
  | some ⟨.alias, _⟩ =>
    match s.db.cache.get c with
    | none => none
    | some st =>
      match f st with
      | some st' => some { s with db := { s.db with cache := s.db.cache.set c st' } }
      | none => some { s with undef := true }

/-- before `Update` (and at the end of a transaction) no `AccountState` is kept; handles lose their binding -/
def dropHeld (s : Sess) : Sess :=
  { s with held := [], handles := s.handles.map fun p => (p.1, { p.2 with bound := false }) }

/-- the abstraction of a state over the session's universe: what every account and every key of every
staged storage reads as -/
def absOf (s : SDB) (na nk : Nat) : Spec :=
  { acct := (List.range na).filterMap fun a => (s.view a).map fun v => (a, v)
    staged := s.cache.map fun p => (p.1, (List.range nk).filterMap fun k => (p.2.view k).map fun v => (k, v)) }

def Mirror.reset (db : SDB) (na nk : Nat) : Mirror :=
  { base := db, st := some (db, []), sp := (absOf db na nk, []) }

/-- one step of every mirrored definition -/
def Mirror.step (m : Mirror) (o : BOp) : Mirror :=
  { m with
    st := m.st.bind fun st => runB st [o]
    sv := survivorsAux m.sv [o]
    sp := Spec.run m.sp [o]
    plain := m.plain && o.plain
    hist := m.hist ++ [.db o] }

def mop (s : Sess) (o : BOp) : Sess := { s with mir := s.mir.step o }

/-- does the mirror agree with the driver's state? "" = yes -/
def mirrorCheck (s : Sess) : String :=
  match s.mir.st with
  | none => " RUNB-REFUSED"
  | some (db, sn) =>
    if db ≠ s.db then " RUNB-DIVERGES"
    else if sn.length ≠ s.mir.ids.length then " RUNB-STACK-DIVERGES"
    else if !s.mir.plain then ""
    else
      let σ := s.mir.sp.1
      let okA := (List.range s.na).all fun a => s.db.getState a == .found (σ.acct.get a)
      let okS := s.db.cache.all fun p =>
        match σ.staged.get p.1 with
        | some m => (List.range s.nk).all fun k => p.2.getData k == .found (m.get k)
        | none => false
      let okC := σ.staged.all fun p => (s.db.cache.get p.1).isSome
      if okA && okS && okC then "" else " SPEC-DIVERGES"

def isAlias (s : Sess) (c : Nat) : Bool :=
  match s.handles.get c with
  | some ⟨.alias, _⟩ => true
  | _ => false

/-- `update_account_half`: the specification of `StateDB.Update` evaluated next to the transcribed function -/
def updateCheck (s : Sess) : String :=
  match s.db.update with
  | none => ""
  | some db' =>
    let okC := (List.range s.na).all fun c => db'.cache.get c == (s.db.cache.get c).map Storage.flushed
    let okV := (List.range s.na).all fun a =>
      db'.view a == (match s.db.cache.get a with
        | some st => recAfter (s.db.view a) st
        | none => s.db.view a) && db'.trie.get a == db'.view a
    if okC && okV then "" else " UPDATE-SPEC-DIVERGES"

def answer (s : Sess) (head : String) : Sess × String :=
  if s.undef then (s, "undef") else (s, s!"{head}{mirrorCheck s} | {readsLine s}")

def orUndef (s : Sess) (r : Option Sess) (head : String) : Sess × String :=
  match r with
  | some s' => answer s' head
  | none => ({ s with undef := true }, "undef")

def c12Step (s : Sess) (line : String) : Sess × String :=
  match words line with
  | ["new", na, nk] =>
    match na.toNat?, nk.toNat? with
    | some na, some nk => answer { na := na, nk := nk, mir := Mirror.reset (SDB.new []) na nk } "ok"
    | _, _ => (s, "bad-op")
  | op :: args =>
    if s.undef then (s, "undef") else
    match op, args.map String.toNat? with
    | "put", [some a, some n] =>
      match s.db.getState a with
      | .found ov =>
        let v : AVal := match ov with
          | some v => { v with nonce := n }
          | none => { nonce := n, sroot := [] }
        answer (mop { s with db := s.db.putState a v } (.op (.putState a v))) "ok"
      | _ => (s, "panic")
    | "aget", [some a] =>
      if a < s.na then
        match s.db.getState a with
        | .found ov =>
          let unbind := s.handles.map fun p => if p.1 = a then (p.1, { p.2 with bound := false }) else p
          answer { s with held := s.held.set a { old := ov, new := ov.getD emptyAVal }, handles := unbind } "ok"
        | _ => (s, "panic")
      else (s, "bad-op")
    | "anonce", [some a, some n] =>
      match s.held.get a with
      | some h => if h.sealed then (s, "bad-op") else
        answer { s with held := s.held.set a { h with new := { h.new with nonce := n } } } "ok"
      | none => (s, "bad-op")
    | "abal", [some a, some n] =>
      match s.held.get a with
      | some h => if h.sealed then (s, "bad-op") else
        answer { s with held := s.held.set a { h with new := { h.new with bal := h.new.bal + n } } } "ok"
      | none => (s, "bad-op")
    | "areset", [some a] =>
      match s.held.get a with
      | some h => if h.sealed then (s, "bad-op") else
        -- Reset installs a new working record: an open handle keeps pointing at the discarded one
        let unbind := s.handles.map fun p => if p.1 = a then (p.1, { p.2 with bound := false }) else p
        answer { s with held := s.held.set a { h with new := h.old.getD emptyAVal }, handles := unbind } "ok"
      | none => (s, "bad-op")
    | "aput", [some a] =>
      match s.held.get a with
      | some h => if h.sealed then (s, "bad-op") else
        answer (mop { s with db := s.db.putState a h.new, held := s.held.set a { h with sealed := true } }
          (.op (.putState a h.new))) "ok"
      | none => (s, "bad-op")
    | "code", [some c, some t] =>
      match s.handles.get c, s.held.get c with
      | some hd, some h =>
        if hd.bound && !h.sealed then
          let s' := { s with held := s.held.set c { h with new := { h.new with code := t } }, raws := insertSorted t s.raws,
                             mir := { s.mir with hist := s.mir.hist ++ [.raw t] } }
          answer s' (showRaw s')
        else (s, "bad-op")
      | _, _ => (s, "bad-op")
    | "kill", [] => answer { s with handles := [], held := [] } "ok"
    | "open", [some c] =>
      let bound := match s.held.get c with
        | some h => !h.sealed
        | none => false
      match s.db.cache.get c with
      | some _ => answer { s with handles := s.handles.set c ⟨.alias, bound⟩ } "ok"
      | none =>
        -- a bound handle reads the storage root from the held working record, else from the visible state
        let r : Res Storage := if bound then
            match s.held.get c with
            | some h => .found (Storage.new h.new.sroot)
            | none => .panic
          else s.db.openStorage c
        match r with
        | .found st => answer { s with handles := s.handles.set c ⟨.priv st, bound⟩ } "ok"
        | _ => (s, "panic")
    | "stage", [some c] =>
      match s.handles.get c with
      | none => (s, "bad-op")
      | some ⟨.alias, _⟩ => answer { s with handles := s.handles.erase c } "ok"
      | some ⟨.priv st, _⟩ =>
        -- as a block-level operation: a storage created on `st.trie`, written with the surviving entries of the handle
        answer (mop { s with db := s.db.stage c st, handles := s.handles.erase c }
          (.op (.stageNew c st.trie st.buf.entries))) "ok"
    | "set", [some c, some k, some v] =>
      match withHandle s c (fun st => some (st.setData k v)) with
      | some s' => answer (if isAlias s c then mop s' (.op (.setData c k v)) else s') "ok"
      | none => (s, "bad-op")
    | "del", [some c, some k] =>
      match withHandle s c (fun st => some (st.deleteData k)) with
      | some s' => answer (if isAlias s c then mop s' (.op (.deleteData c k)) else s') "ok"
      | none => (s, "bad-op")
    | "csnap", [some c] =>
      match storageOf s c, s.handles.get c with
      | .found st, some _ => answer s s!"rev={st.buf.snapshot}"
      | _, _ => (s, "bad-op")
    | "croll", [some c, some r] =>
      match withHandle s c (fun st => (st.buf.rollback r).map fun b => { st with buf := b }) with
      | some s' =>
        if isAlias s c then
          -- block snapshots that recorded a later revision of this storage are invalidated by the caller
          let n := match s.mir.st with
            | some (_, sn) => (sn.takeWhile fun b => revOK b.storage c r).length
            | none => 0
          let s1 := mop s' (.keep n)
          let s2 := { s1 with mir := { s1.mir with ids := s1.mir.ids.take n } }
          answer (mop s2 (.op (.storageRollback c r))) "ok"
        else answer s' "ok"
      | none => (s, "bad-op")
    | "snap", [] =>
      let sn := s.db.blockSnapshot
      let s1 := mop { s with snaps := s.snaps ++ [sn] } .snap
      answer { s1 with mir := { s1.mir with ids := s1.mir.ids ++ [s.snaps.length] } } (showSnap sn)
    | "roll", [some i] =>
      match s.snaps[i]? with
      | none => (s, "bad-op")
      | some sn =>
        let j := s.mir.ids.takeWhile (· ≠ i) |>.length
        let s1 := mop s (.rollbackTo j)
        let s2 := { s1 with mir := { s1.mir with ids := s1.mir.ids.take (j + 1) } }
        orUndef s ((s.db.blockRollback sn).map fun db => { s2 with db := db, handles := [], held := [] }) "ok"
    | "update", [] =>
      -- the block so far IS its surviving operations (`reverted_never_happened`)
      let chk := if s.mir.st.isSome && runPlain s.mir.base s.mir.sv.1 != some s.db then " SURVIVORS-DIVERGE" else ""
      orUndef s (s.db.update.map fun db => { (dropHeld s) with db := db, mir := Mirror.reset db s.na s.nk })
        s!"ok{chk}{updateCheck s}"
    | "commit", [] =>
      -- `commitBlock` on the block and on its surviving operations (`persisted_ignores_reverted`)
      let r := s.db.update.bind SDB.commit
      let chk := if s.mir.st.isSome && ((commitBlock s.mir.base s.mir.hist).map (·.1) != r ||
          (commitBlock s.mir.base (survivorsP s.mir.hist)).map (·.1) != r) then " COMMITBLOCK-DIVERGES" else ""
      orUndef s (r.map fun db =>
        { (dropHeld s) with db := db, committed := s.committed ++ [db.trie], mir := Mirror.reset db s.na s.nk }) s!"{showRaw s}{chk}"
    | "commit0", [] =>
      orUndef s (s.db.commit.map fun db =>
        { (dropHeld s) with db := db, committed := s.committed ++ [db.trie], mir := Mirror.reset db s.na s.nk }) (showRaw s)
    | "reopen", [some i] =>
      match s.committed[i]? with
      | none => (s, "bad-op")
      | some t => answer { s with db := SDB.new t, handles := [], held := [], mir := Mirror.reset (SDB.new t) s.na s.nk } "ok"
    | _, _ => (s, "bad-op")
  | [] => (s, "bad-op")

/-- `back` undoes the last recorded operation (the harness walks operation trees depth-first). -/
def c12Drv (st : Sess × List Sess) (line : String) : (Sess × List Sess) × String :=
  match words line with
  | ["back"] =>
    match st.2 with
    | prev :: rest => ((prev, rest), "ok")
    | [] => (st, "bad-op")
  | "new" :: _ =>
    let (s', out) := c12Step st.1 line
    ((s', []), out)
  | _ =>
    let (s', out) := c12Step st.1 line
    ((s', st.1 :: st.2), out)

def main : IO UInt32 := run (({} : Sess), ([] : List Sess)) c12Drv
