import Aergo.Model.DriverLib
import Aergo.Model.Pool

/-! Model driver for C13: `model-c13 < ops > out`.

Pool session ops (answer = `<result> | <canonical pool state>`):
  new | put a n id c | putn a n id c (sender field is a name; a = verified address) | rm a id | block new parent chain d=<a,..|-> s=<a:n:b,..|-> | evict <a,..|->
  get | exist id | size | unconf a
Chain-side ops (harness c13chain; answer = `ok | <canonical pool state>` unless said otherwise):
  defblock id parent chain d=<a,..|-> s=<a:n:b,..> t=<a/n/id/c/named,..|->   (defines a block; answer `ok`)
  event old=<ids|-> new=<ids> drop=<tx ids|->   (`Pool.chainEvent`: notifications for `new` in order, then the rolled-back
        transactions except those the front end refuses (`drop`), in ascending id order)
  notes <ids|->                                 (notifications only)
  bad id                                        (a submission the front end refuses: answer `rejected | <state>`)
  existx id,..  |  listhash max  |  stats  |  txstat      (queries; answer without state)
Bare list session ops (answer = `<result> | <list state>`):
  lnew n b | lput n id c | lfilter n b | lrm id | lget
-/
open Aergo Aergo.DriverLib Aergo.Pool

structure DS where
  pool : Pool
  tl : TxList
  blocks : List Blk := []

def insSorted {α} (lt : α → α → Bool) (x : α) : List α → List α
  | [] => [x]
  | y :: r => if lt x y then x :: y :: r else y :: insSorted lt x r

def sortBy {α} (lt : α → α → Bool) (l : List α) : List α := l.foldl (fun acc x => insSorted lt x acc) []

def joinWith (sep : String) (l : List String) : String :=
  match l with
  | [] => "-"
  | _ => sep.intercalate l

def showTx (t : Tx) : String := s!"{t.nonce}/{t.id}/{t.cost}"

def showList (L : TxList) : String :=
  s!"n{L.base.nonce}:b{L.base.bal}:r{L.ready}[{joinWith "," (L.list.map showTx)}]"

def showPool (P : Pool) : String :=
  let ids := sortBy (fun (a b : Nat) => a < b) (P.cache.map (·.id))
  -- empty lists (left by the unconfirmed report) are not part of the canonical state
  let ls := sortBy (fun (a b : Nat × TxList) => a.1 < b.1) (P.lists.filter fun e => !e.2.list.isEmpty)
  s!"L={P.length} O={P.orphan} C={joinWith "," (ids.map toString)} | " ++
    joinWith " " (ls.map fun e => s!"a{e.1}:{showList e.2}")

def parseNats (s : String) : Option (List Nat) :=
  if s == "-" then some [] else (s.splitOn ",").mapM (·.toNat?)

def parseState (s : String) : Option (List (Nat × Acct)) :=
  if s == "-" then some [] else
  (s.splitOn ",").mapM fun e =>
    match e.splitOn ":" with
    | [a, n, b] => do pure ((← a.toNat?), (⟨← n.toNat?, ← b.toNat?⟩ : Acct))
    | _ => none

def stateFn (l : List (Nat × Acct)) (a : Nat) : Acct :=
  match l.find? (fun e => e.1 == a) with
  | some e => e.2
  | none => ⟨0, 0⟩

def parseTxs (s : String) : Option (List Tx) :=
  if s == "-" then some [] else
  (s.splitOn ",").mapM fun e =>
    match e.splitOn "/" with
    | [a, n, id, c, nm] => do pure (⟨← a.toNat?, ← n.toNat?, ← id.toNat?, ← c.toNat?, nm == "1"⟩ : Tx)
    | _ => none

def findBlocks (bs : List Blk) (ids : List Nat) : Option (List Blk) :=
  ids.mapM fun i => bs.find? (fun b => b.id == i)

def showPutRes : PutRes → String
  | .ok => "ok" | .already => "already" | .low => "low" | .insufficient => "insufficient" | .same => "samenonce"

def c13Step (s : DS) (line : String) : DS × String :=
  let bad := (s, "bad-op")
  match words line with
  | ["new"] => ({ s with pool := Pool.init }, "ok | " ++ showPool Pool.init)
  | [op, a, n, id, c] =>
    if op != "put" && op != "putn" then bad else
    match a.toNat?, n.toNat?, id.toNat?, c.toNat? with
    | some a, some n, some id, some c =>
      let (P, r) := s.pool.put ⟨a, n, id, c, op == "putn"⟩
      ({ s with pool := P }, showPutRes r ++ " | " ++ showPool P)
    | _, _, _, _ => bad
  | ["rm", a, id] =>
    match a.toNat?, id.toNat? with
    | some a, some id =>
      let (P, r) := s.pool.removeTx a id
      ({ s with pool := P }, (if r then "ok" else "notfound") ++ " | " ++ showPool P)
    | _, _ => bad
  | ["block", nw, par, ch, d, st] =>
    match nw.toNat?, par.toNat?, ch.toNat?, (d.dropPrefix? "d=").bind (parseNats ·.toString),
          (st.dropPrefix? "s=").bind (parseState ·.toString) with
    | some nw, some par, some ch, some d, some st =>
      let P := s.pool.blockArrival nw par ch d (stateFn st)
      ({ s with pool := P }, "ok | " ++ showPool P)
    | _, _, _, _, _ => bad
  | ["evict", o] =>
    match parseNats o with
    | some o => let P := s.pool.evict o; ({ s with pool := P }, "ok | " ++ showPool P)
    | none => bad
  | ["defblock", nw, par, ch, d, st, t] =>
    match nw.toNat?, par.toNat?, ch.toNat?, (d.dropPrefix? "d=").bind (parseNats ·.toString),
          (st.dropPrefix? "s=").bind (parseState ·.toString), (t.dropPrefix? "t=").bind (parseTxs ·.toString) with
    | some nw, some par, some ch, some d, some st, some t =>
      ({ s with blocks := ⟨nw, par, ch, d, stateFn st, t⟩ :: s.blocks }, "ok")
    | _, _, _, _, _, _ => bad
  | ["event", o, nw, dr] =>
    match (o.dropPrefix? "old=").bind (parseNats ·.toString), (nw.dropPrefix? "new=").bind (parseNats ·.toString),
          (dr.dropPrefix? "drop=").bind (parseNats ·.toString) with
    | some o, some nw, some dr =>
      match findBlocks s.blocks o, findBlocks s.blocks nw with
      | some ob, some nb =>
        -- the re-submissions reach the pool in map order; the harness reads the state at quiescence, the model
        -- submits in ascending id order
        let ob' : List Blk := [⟨0, 0, 0, [], fun _ => ⟨0, 0⟩, sortBy (fun (x y : Tx) => x.id < y.id) (ob.flatMap (·.txs))⟩]
        let P := s.pool.chainEvent ob' nb (fun t => !dr.contains t.id)
        ({ s with pool := P }, "ok | " ++ showPool P)
      | _, _ => bad
    | _, _, _ => bad
  | ["notes", ids] =>
    match parseNats ids with
    | some ids =>
      match findBlocks s.blocks ids with
      | some bs => let P := bs.foldl Pool.notify s.pool; ({ s with pool := P }, "ok | " ++ showPool P)
      | none => bad
    | none => bad
  | ["bad", id] =>
    match id.toNat? with
    | some _ => (s, "rejected | " ++ showPool s.pool)
    | none => bad
  | ["existx", ids] =>
    match parseNats ids with
    | some ids => (s, ",".intercalate ((s.pool.existEx ids).map fun o => match o with | some t => toString t.id | none => "0"))
    | none => bad
  | ["listhash", m] =>
    match m.toNat? with
    | some m =>
      let ids := sortBy (fun (a b : Nat) => a < b) s.pool.offeredIds
      (s, if ids.length ≤ m then s!"all {joinWith "," (ids.map toString)} more=false" else s!"{m} more=true")
    | none => bad
  | ["stats"] => (s, s!"{s.pool.length} {s.pool.orphan}")
  | ["txstat"] =>
    let l := sortBy (fun (a b : Nat × Nat × Nat) => a.1 < b.1) (s.pool.txStat.filter fun e => e.2.1 + e.2.2 != 0)
    (s, joinWith " " (l.map fun e => s!"a{e.1}:{e.2.1}:{e.2.2}"))
  | ["get"] =>
    let g := sortBy (fun (a b : Nat × List Tx) => a.1 < b.1) (s.pool.get.filter (fun e => !e.2.isEmpty))
    (s, joinWith " " (g.map fun e => s!"a{e.1}:" ++ joinWith "," (e.2.map fun t => s!"{t.nonce}/{t.id}")))
  | ["exist", id] =>
    match id.toNat? with
    | some id => (s, match s.pool.exist id with | some t => s!"1 a{t.acc} {t.nonce}" | none => "0")
    | none => bad
  | ["size"] => (s, s!"{s.pool.length} {s.pool.orphan}")
  | ["unconf", a] =>
    match a.toNat? with
    | some a =>
      let (P, p, o) := s.pool.unconfirmed a
      ({ s with pool := P },
        s!"{p.length} {o.length} p={joinWith "," (p.map (toString ·.id))} o={joinWith "," (o.map (toString ·.id))} | " ++ showPool P)
    | none => bad
  | ["lnew", n, b] =>
    match n.toNat?, b.toNat? with
    | some n, some b =>
      let L : TxList := ⟨⟨n, b⟩, [], 0⟩
      ({ s with tl := L }, "ok | " ++ showList L)
    | _, _ => bad
  | ["lput", n, id, c] =>
    match n.toNat?, id.toNat?, c.toNat? with
    | some n, some id, some c =>
      let (L, r) := s.tl.put ⟨0, n, id, c, false⟩
      ({ s with tl := L }, (match r with
        | .ok d => s!"ok {d}" | .error .low => "low" | .error .same => "samenonce") ++ " | " ++ showList L)
    | _, _, _ => bad
  | ["lfilter", n, b] =>
    match n.toNat?, b.toNat? with
    | some n, some b =>
      let (L, d, rm) := s.tl.filter ⟨n, b⟩
      ({ s with tl := L }, s!"{d} rm={joinWith "," (rm.map (toString ·.id))} | " ++ showList L)
    | _, _ => bad
  | ["lrm", id] =>
    match id.toNat? with
    | some id =>
      let (L, d, x) := s.tl.remove id
      ({ s with tl := L }, s!"{d} {match x with | some t => toString t.nonce | none => "-"} | " ++ showList L)
    | none => bad
  | ["lget"] => (s, joinWith "," (s.tl.get.map fun t => s!"{t.nonce}/{t.id}"))
  | _ => bad

def main : IO UInt32 := run (⟨Pool.init, ⟨⟨0, 0⟩, [], 0⟩, []⟩ : DS) c13Step
