import Aergo.Model.DriverLib
import Aergo.Model.Admit

/-! Model driver for C14: `model-c14 < ops > out`.

    tx  k=v …   a transaction of any type: admission (`poolAdmit`) and execution (`execute`) outcome
    val k=v …   any transaction: outcome of `Validate` alone
    up <hex> / low <hex>   the model's `strings.ToUpper` / allowed-character test on a string (rune tables)
    json <hex>  decoding of a payload into CallInfo: `err` or name/number of args/kinds

Keys (all optional, defaults in `envOf`): see harness/c14/main.go `opLine`. -/
open Aergo Aergo.DriverLib Aergo.Json Aergo.Admit

abbrev KV := List (String × String)

def kvOf (ws : List String) : KV :=
  ws.filterMap fun w =>
    match w.splitOn "=" with
    | k :: v :: rest => some (k, String.intercalate "=" (v :: rest))
    | _ => none

def KV.get (kv : KV) (k : String) : Option String := (kv.find? (·.1 == k)).map (·.2)

def bytesOf (s : String) : Option (List Nat) := (unhex s).map (·.map UInt8.toNat)

def strOf (s : String) : Option Str := (bytesOf s).map fun b => decodeUtf8 (b.length + 1) b []

structure P where
  kv : KV
  bad : Bool := false

def getBool (kv : KV) (k : String) (d : Bool) : Except String Bool :=
  match kv.get k with
  | none => .ok d
  | some "1" => .ok true
  | some "0" => .ok false
  | some v => .error s!"{k}={v}"

def getNat (kv : KV) (k : String) (d : Nat) : Except String Nat :=
  match kv.get k with
  | none => .ok d
  | some v => match v.toNat? with
    | some n => .ok n
    | none => .error s!"{k}={v}"

def getInt (kv : KV) (k : String) (d : Int) : Except String Int :=
  match kv.get k with
  | none => .ok d
  | some v => match v.toInt? with
    | some n => .ok n
    | none => .error s!"{k}={v}"

def getBytes (kv : KV) (k : String) : Except String (List Nat) :=
  match kv.get k with
  | none => .ok []
  | some v => match bytesOf v with
    | some b => .ok b
    | none => .error s!"{k}={v}"

def getNats (kv : KV) (k : String) : Except String (List Nat) :=
  match kv.get k with
  | none | some "-" => .ok []
  | some v => match (v.splitOn ",").mapM String.toNat? with
    | some l => .ok l
    | none => .error s!"{k}={v}"

def getBits (kv : KV) (k : String) (d : List Bool) : Except String (List Bool) :=
  match kv.get k with
  | none => .ok d
  | some v => if v.toList.all (fun c => c == '0' || c == '1') then .ok (v.toList.map (· == '1')) else .error s!"{k}={v}"

/-- `-` = empty list; items separated by `,`, each `~<hex>`. -/
def tildeList (v : String) : Option (List (List Nat)) :=
  if v == "-" || v == "" then some [] else
  (v.splitOn ",").mapM fun it =>
    if it.startsWith "~" then bytesOf (let h := (it.drop 1).toString; if h == "" then "-" else h) else none

def getList (kv : KV) (k : String) : Except String (List (List Nat)) :=
  match kv.get k with
  | none => .ok []
  | some v => match tildeList v with
    | some l => .ok l
    | none => .error s!"{k}={v}"

def utf8 (b : List Nat) : Str := decodeUtf8 (b.length + 1) b []

def getConf (kv : KV) (k : String) : Except String (Option Conf) :=
  match kv.get k with
  | none | some "nil" | some "empty" => .ok none
  | some v =>
    match v.splitOn ":" with
    | [on, vals] =>
      match tildeList vals with
      | some l => if on == "1" || on == "0" then .ok (some { on := on == "1", values := l.map utf8 }) else .error s!"{k}={v}"
      | none => .error s!"{k}={v}"
    | _ => .error s!"{k}={v}"

/-- `af=addr|b58|pid|list|b64;…` with addr = `x` or `~hex`, b58 = `x` or a length. -/
def getArgF (kv : KV) : Except String (List ArgF) :=
  match kv.get "af" with
  | none | some "-" => .ok []
  | some v =>
    (v.splitOn ";").mapM fun it =>
      match it.splitOn "|" with
      | [a, b, p, l, c] =>
        let addr : Option (Option (List Nat)) :=
          if a == "x" then some none
          else if a.startsWith "~" then (bytesOf (let h := (a.drop 1).toString; if h == "" then "-" else h)).map some
          else none
        let b58 : Option (Option Nat) := if b == "x" then some none else b.toNat?.map some
        match addr, b58 with
        | some addr, some b58 => .ok { addr, b58, pidOk := p == "1", listOk := l == "1", b64Ok := c == "1" }
        | _, _ => .error s!"af={it}"
      | _ => .error s!"af={it}"

/-- `tal<i>=<hex cand>:<amount>:<inOld 0|1>,…` (`-` = empty), rows in the order the harness read them. -/
def getTally (kv : KV) (k : String) : Except String (List TallyRow) :=
  match kv.get k with
  | none | some "-" => .ok []
  | some v =>
    (v.splitOn ",").mapM fun it =>
      match it.splitOn ":" with
      | [c, a, o] =>
        match bytesOf c, a.toInt?, o with
        | some cand, some amt, "1" => .ok { cand, amt, inOld := true }
        | some cand, some amt, "0" => .ok { cand, amt, inOld := false }
        | _, _, _ => .error s!"{k}={it}"
      | _ => .error s!"{k}={it}"

def getFd (kv : KV) : Except String FdReply :=
  match kv.get "fd" with
  | none | some "ok" => .ok .ok
  | some "refused" => .ok .refused
  | some "timeout" => .ok .timeout
  | some "untyped" => .ok .untyped
  | some v => .error s!"fd={v}"

def envOf (kv : KV) : Except String Env := do
  let tx : Tx := {
    nilBody := ← getBool kv "nil" false
    chainOk := ← getBool kv "chain" true
    sizeOk := ← getBool kv "size" true
    hashOk := ← getBool kv "hash" true
    sigOk := ← getBool kv "sig" true
    account := ← getBytes kv "acc"
    recipient := ← getBytes kv "rcpt"
    amount := ← getNat kv "amt" 0
    gasPrice := ← getNat kv "price" 0
    type := ← getInt kv "type" 1
    payload := ← getBytes kv "pay"
    nonce := ← getNat kv "txn" 1
    gasLimit := ← getNat kv "gl" 0 }
  pure {
    tx
    isPublic := ← getBool kv "pub" false
    dpos := ← getBool kv "dpos" true
    raft := ← getBool kv "raft" false
    maxAER := ← getNat kv "max" 500000000000000000000000000
    forkVersion := ← getInt kv "fv" 3
    blockNo := ← getNat kv "bno" 0
    stNonce := ← getNat kv "sn" 0
    balance := ← getNat kv "bal" 0
    staked := ← getNat kv "stk" 0
    stakeRec := ← getBool kv "srec" false
    stakedWhen := ← getNat kv "when" 0
    stakingMin := ← getInt kv "smin" 0
    voteRec := ← getBits kv "vrec" []
    oldVoteOk := ← getBits kv "oldok" []
    voteAmt := ← getNats kv "vamt"
    candCap := ← getNat kv "cap" 0
    namePrice := ← getInt kv "nprice" 0
    nameOwned := ← getBool kv "nown" false
    acctEqName := ← getBool kv "aeq" false
    acctIsOwner := ← getBool kv "aown" false
    contractOwned := ← getBool kv "cown" false
    adminsReadable := ← getBool kv "ard" true
    admins := ← getList kv "adm"
    adminsEnc := (← getList kv "admenc").map utf8
    senderInAdmins := ← getBool kv "sadm" false
    confKey := ← getConf kv "ck"
    confWhite := ← getConf kv "cw"
    confKeyEmpty := kv.get "ck" == some "empty"
    confWhiteEmpty := kv.get "cw" == some "empty"
    ccPeerOk := ← getBool kv "ccp" false
    ccAddrOk := ← getBool kv "cca" false
    ccIdOk := ← getBool kv "cci" false
    argF := ← getArgF kv
    zeroFee := ← getBool kv "zf" true
    gasPrice := ← getInt kv "gp" 50000000000
    rcptResolved := ← getBool kv "rres" false
    rcptBalance := ← getNat kv "rbal" 0
    blockMulticall := ← getBool kv "bm" false
    blockDeploy := ← getBool kv "bd" false
    fdReply := ← getFd kv
    tally := [[], ← getTally kv "tal1", ← getTally kv "tal2", ← getTally kv "tal3", ← getTally kv "tal4"]
    stakingTotal := ← getNat kv "stot" 0 }

def rejName : Rej → String
  | .format => "format" | .chain => "chain" | .size => "size" | .hash => "hash" | .amount => "amount"
  | .price => "price" | .account => "account" | .recipient => "recipient" | .type_ => "type"
  | .payload => "payload" | .args => "args" | .public_ => "public" | .sig => "sig" | .nonce => "nonce"
  | .balance => "balance" | .state => "state" | .unsupported => "unsupported"
  | .fee => "fee" | .fd => "fd" | .internal => "internal"

def siteName (s : Site) : String := (reprStr s).replace "Aergo.Admit.Site." ""

def showOut : Outcome Unit → String
  | .ok _ => "ok"
  | .reject r => "rej:" ++ rejName r
  | .panic s => "panic:" ++ siteName s

def showExec : Outcome Unit → String
  | .panic s => "panic:" ++ siteName s
  | _ => "done"

def kindName : JVal → String
  | .null => "n" | .bool _ => "b" | .num _ => "f" | .str _ => "s" | .arr _ => "a" | .obj _ => "o"

def c14Step (line : String) : String :=
  match words line with
  | "tx" :: ws =>
    match envOf (kvOf ws) with
    | .ok e => s!"adm={showOut (poolAdmit pinned e)} exec={showExec (execute pinned e)}"
    | .error _ => "bad-op"
  | "val" :: ws =>
    match envOf (kvOf ws) with
    | .ok e => s!"val={showOut (typesValidate pinned e)}"
    | .error _ => "bad-op"
  | ["up", h] =>
    match strOf h with
    | some s => s!"{proposalIndex s |>.getD 0} {enterpriseKey (toUpper s)}"
    | none => "bad-op"
  | ["low", h] =>
    match strOf h with
    | some s => s!"{allowedChars s} {byteLen s}"
    | none => "bad-op"
  | ["json", h] =>
    match bytesOf h with
    | some b =>
      match unmarshalCallInfo b with
      | none => "err"
      | some ci => s!"{hex (ci.name.flatMap fun c => (String.singleton (Char.ofNat c)).toUTF8.toList)} {ci.args.length} {String.join (ci.args.map kindName)}"
    | none => "bad-op"
  | _ => "bad-op"

def main : IO UInt32 := runPure c14Step
