import Aergo.Model.DriverLib
import Aergo.Model.Gov
import Aergo.Model.GovNode

/-! Model driver for C15: `model-c15 < ops > out`.

Session ops (bytes in hex, `-` = empty; answer `<result> | <canonical state>`):
  new <forkVersion>
  acct <addr> <accountId> <balance>
  stake <addr> <height> <amount> | unstake <addr> <height> <amount>
  votebp <addr> <height> <cand,cand,..|->          (base58-decoded candidates)
  votedao <addr> <height> <id> <arg,arg,..|->      (arguments after the id, hex of the strings)
  transfer <src> <dst> <amount>
  namecreate <sender> <name> <amount> | nameupdate <txAccount> <sender> <name> <to> <amount> | setowner <owner>
  endblock | restart
Node-level sessions (Aergo.Model.GovNode; a tx is one of the transaction lines above, `;`-separated, `-` = none):
  nnew <forkVersion> <genesis producer ids>        a DPoS genesis (zero tallies for the genesis producers)
  ev own <txs> | ev stale <txs>                    -> `<one bit per candidate: executed?> | <state>`
  ev net <txs> | ev netfail <txs>                  -> `ok | <state>` / `fail | <state>`
  ev reorg <k> <failAt|-> <txs / txs / ..>         -> `ok | <state>` / `fail | <state>`
  ev restart
Pure ops:
  less <candA> <amtA> <candB> <amtB>        -> `<Less(a,b)> <Less(b,a)>`
  rank <cand:amt,cand:amt,..>               -> the sorted list (ties in canonical order)
  codec staking <when> <amountBytes>        -> serialisation and its deserialisation
  codec vote <cand> <amountBytes> | codec voteex <cand> <amountBytes>
  codec votelist <0|1> <cand:amountBytes,..>
  codec vp <id> <addr> <powerBytes> | codec bucket <id:addr:powerBytes,..>
  codec namemap <owner> <dest>
  codec raw <kind> <bytes>                  -> deserialisation of arbitrary bytes (kind: staking vote voteex namemap)
-/
open Aergo Aergo.DriverLib Aergo.Gov

def insSorted {α} (lt : α → α → Bool) (x : α) : List α → List α
  | [] => [x]
  | y :: r => if lt x y then x :: y :: r else y :: insSorted lt x r

def sortBy {α} (lt : α → α → Bool) (l : List α) : List α := l.foldl (fun acc x => insSorted lt x acc) []

def sortStr (l : List String) : List String := sortBy (fun (a b : String) => a < b) l

def joinC (l : List String) : String := ",".intercalate l

def issueName : Issue → String
  | .bp => "voteBP" | .bpCount => "BPCOUNT" | .stakingMin => "STAKINGMIN" | .gasPrice => "GASPRICE" | .namePrice => "NAMEPRICE"

def daoIssues : List Issue := [.bpCount, .stakingMin, .gasPrice, .namePrice]

/-- Canonical form of a ranking: maximal runs of adjacent mutually-tied entries are sorted by candidate hex. -/
def canonRuns : List Entry → List Entry → List Entry → List Entry
  | [], grp, acc => acc ++ sortBy (fun (a b : Entry) => hex a.1 < hex b.1) grp
  | x :: r, [], acc => canonRuns r [x] acc
  | x :: r, y :: grp, acc =>
    if !less y x && !less x y then canonRuns r (x :: y :: grp) acc
    else canonRuns r [x] (acc ++ sortBy (fun (a b : Entry) => hex a.1 < hex b.1) (y :: grp))

def canonRank (l : List Entry) : List Entry := canonRuns l [] []

def showRank (l : List Entry) : String := joinC ((canonRank l).map fun e => s!"{hex e.1}:{e.2}")

/-- The issue's entries in canonical (candidate hex) order, then the model's sort. -/
def rankCanon (t : AMap (Issue × Bytes) Nat) (i : Issue) : List Entry :=
  rankSort (sortBy (fun (a b : Entry) => hex a.1 < hex b.1) (entriesOf t i))

def showVP (e : VP) : String := s!"{hex e.id}:{hex e.addr}:{e.power}"

def showVpr (v : Vpr) (withChanges : Bool) : String :=
  let ps := sortStr (v.powers.map fun e => showVP e.2)
  let bs := sortBy (fun (a b : Nat × List VP) => a.1 < b.1) (v.buckets.filter fun e => !e.2.isEmpty)
  let b := " ".intercalate (bs.map fun e => s!"{e.1}=[{joinC (e.2.map showVP)}]")
  let c := if withChanges then
      " c=[" ++ joinC (sortStr (v.changes.map fun e => s!"{hex e.1}:{hex e.2.1}:{e.2.2}")) ++ "]"
    else ""
  let m := joinC ((membersOf v).map fun e => s!"{hex (e.id.take 4)}:{e.power}")
  "{" ++ s!"t={v.total} p=[{joinC ps}] b=[{b}] m=[{m}]{c}" ++ "}"

def showNames (m : AMap Bytes NameRec) : String :=
  joinC (sortStr (m.map fun e => s!"{hex e.1}:{hex e.2.owner}:{hex e.2.dest}"))

def showState (s : St) : String :=
  let st := sortStr (s.stakes.map fun e => s!"{hex e.1}:{e.2.amount}@{e.2.when}")
  let vs := sortStr (s.votes.map fun e =>
    s!"{issueName e.1.1}/{hex e.1.2}:{e.2.amount}:" ++ (if e.2.cands.isEmpty then "-" else "+".intercalate (e.2.cands.map hex)))
  let rk := " ".intercalate ((Issue.bp :: daoIssues).map fun i => s!"r.{issueName i}=[{showRank (rankCanon s.tally i)}]")
  let vt := joinC (daoIssues.map fun i => s!"{issueName i}:{match s.vtotal.get i with | some x => x | none => 0}")
  let p := joinC (daoIssues.map fun i => s!"{issueName i}:{s.param i}")
  let np := joinC (daoIssues.map fun i => s!"{issueName i}:{match s.nextParams.get i with | some v => v | none => s.param i}")
  let bl := sortStr ((s.bal.filter fun e => e.2 != 0).map fun e => s!"{hex e.1}:{e.2}")
  let rkr := joinC (((canonRank (rankCanon s.tally .bp)).take s.bpCount).map fun e => hex e.1)
  s!"T={s.total} st=[{joinC st}] v=[{joinC vs}] {rk} rk=[{rkr}] vt=[{vt}] p=[{p}] np=[{np}] " ++
  s!"vm={showVpr s.vpr true} vd={showVpr (loadVpr s.vprDisk) false} nm=[{showNames s.names}] ni=[{showNames s.namesInit}] b=[{joinC bl}]"

def showRes : Res → String
  | .ok => "ok" | .insufficient => "insufficient" | .lessTime => "lesstime" | .tooSmall => "toosmall"
  | .mustStakeVote => "muststake-vote" | .mustStakeUnstake => "muststake-unstake" | .exceed => "exceed"
  | .notSupported => "notsupported" | .daoBadId => "dao-badid" | .daoTooFew => "dao-toofew" | .daoTooMany => "dao-toomany"
  | .daoBadNumber => "dao-badnumber" | .daoBadRange => "dao-badrange"
  | .occupied => "occupied" | .ownerMismatch => "owner-mismatch" | .notCreated => "not-created" | .ownerSet => "owner-set"
  | .panic => "panic" | .misaligned => "unmodelled-misaligned-candidate"

def parseList (s : String) : Option (List Bytes) :=
  if s == "-" then some [] else (s.splitOn ",").mapM unhex

def parseEntries (s : String) : Option (List (Bytes × String)) :=
  if s == "-" then some [] else
  (s.splitOn ",").mapM fun e =>
    match e.splitOn ":" with
    | [c, a] => do pure ((← unhex c), a)
    | _ => none

def showOB (o : Option Bytes) : String := match o with | some b => hex b | none => "panic"

def codec (ws : List String) : String :=
  match ws with
  | ["staking", w, a] =>
    match w.toNat?, unhex a with
    | some w, some a =>
      let d := serStaking w a
      s!"{hex d} -> " ++ (match deserStaking d with | some (w', a') => s!"{w'} {hex a'}" | none => "panic")
    | _, _ => "bad-op"
  | ["vote", c, a] =>
    match unhex c, unhex a with
    | some c, some a => let d := serVote c a; let r := deserVote d; s!"{hex d} -> {hex r.1} {hex r.2}"
    | _, _ => "bad-op"
  | ["voteex", c, a] =>
    match unhex c, unhex a with
    | some c, some a =>
      let d := serVoteEx c a
      s!"{hex d} -> " ++ (match deserVoteEx d with | some r => s!"{hex r.1} {hex r.2}" | none => "panic")
    | _, _ => "bad-op"
  | ["votelist", ex, l] =>
    match parseEntries l with
    | some es =>
      match es.mapM (fun e => (unhex e.2).map fun a => (e.1, a)) with
      | some es =>
        let d := serVoteList (ex == "1") es
        s!"{hex d} -> " ++ (match deserVoteList (ex == "1") d with
          | some r => joinC (r.map fun e => s!"{hex e.1}:{hex e.2}")
          | none => "panic")
      | none => "bad-op"
    | none => "bad-op"
  | ["vp", id, addr, p] =>
    match unhex id, unhex addr, unhex p with
    | some id, some addr, some p =>
      let d := marshalVP id addr p
      s!"{hex d} -> " ++ (match unmarshalVP d with
        | some (i, a, pw, n) => s!"{hex i} {hex a} {hex pw} {n}"
        | none => "panic")
    | _, _, _ => "bad-op"
  | ["bucket", l] =>
    let parse : Option (List (Bytes × Bytes × Bytes)) :=
      if l == "-" then some [] else (l.splitOn ",").mapM fun e =>
        match e.splitOn ":" with
        | [i, a, p] => do pure ((← unhex i), (← unhex a), (← unhex p))
        | _ => none
    match parse with
    | some es =>
      let d := marshalBucket es
      s!"{hex d} -> " ++ (match unmarshalBucket d with
        | some r => joinC (r.map fun e => s!"{hex e.1}:{hex e.2.1}:{hex e.2.2}")
        | none => "panic")
    | none => "bad-op"
  | ["namemap", o, d] =>
    match unhex o, unhex d with
    | some o, some d =>
      let b := serNameMap o d
      s!"{hex b} -> " ++ (match deserNameMap b with | some r => s!"{hex r.1} {hex r.2}" | none => "panic")
    | _, _ => "bad-op"
  | ["raw", kind, b] =>
    match unhex b with
    | none => "bad-op"
    | some b =>
      match kind with
      | "staking" => (match deserStaking b with | some (w, a) => s!"{w} {hex a}" | none => "panic")
      | "vote" => let r := deserVote b; s!"{hex r.1} {hex r.2}"
      | "voteex" => (match deserVoteEx b with | some r => s!"{hex r.1} {hex r.2}" | none => "panic")
      | "namemap" => (match deserNameMap b with | some r => s!"{hex r.1} {hex r.2}" | none => "panic")
      | _ => "bad-op"
  | _ => "bad-op"

/-- A Go panic inside block execution kills the node (no recover in executeTx): the harness ends the session
there and no state is compared for that operation. -/
def applyOp (s : St) (o : Op) : St × String :=
  let (r, s') := step s o
  if r = .panic then (s', "panic") else (s', showRes r ++ " | " ++ showState s')

/-- One transaction line as an operation. -/
def parseTx (ws : List String) : Option Op :=
  match ws with
  | ["stake", a, h, amt] => do pure (.stake (← unhex a) (← h.toNat?) (← amt.toNat?))
  | ["unstake", a, h, amt] => do pure (.unstake (← unhex a) (← h.toNat?) (← amt.toNat?))
  | ["votebp", a, h, cs] => do pure (.voteBP (← unhex a) (← h.toNat?) (← parseList cs))
  | ["votedao", a, h, id, args] => do pure (.voteDAO (← unhex a) (← h.toNat?) id (← parseList args))
  | ["transfer", x, y, amt] => do pure (.transfer (← unhex x) (← unhex y) (← amt.toNat?))
  | ["namecreate", a, n, amt] => do pure (.nameCreate (← unhex a) (← unhex n) (← amt.toNat?))
  | ["nameupdate", t, sd, n, to, amt] => do pure (.nameUpdate (← unhex t) (← unhex sd) (← unhex n) (← unhex to) (← amt.toNat?))
  | _ => none

def parseTxs (s : String) : Option (List Op) :=
  if s == "-" || s == " -" || s == "- " then some [] else (s.splitOn " ; ").mapM fun t => parseTx (words t)

def showBits (l : List Bool) : String :=
  if l.isEmpty then "-" else String.ofList (l.map fun b => if b then '1' else '0')

/-- Node-level events. -/
def evStep (n : Node) (kind : String) (rest : String) : Node × String :=
  let bad := (n, "bad-op")
  let fin (n' : Node) (res : String) : Node × String := (n', res ++ " | " ++ showState n'.cur)
  match kind with
  | "own" =>
    match parseTxs rest with
    | some txs => fin (n.step (.own txs)) (showBits (runTxs n.cur txs).2)
    | none => bad
  | "stale" =>
    match parseTxs rest with
    | some txs => fin (n.step (.stale txs)) (showBits (runTxs n.cur txs).2)
    | none => bad
  | "net" =>
    match parseTxs rest with
    | some txs => fin (n.step (.net txs)) "ok"
    | none => bad
  | "netfail" =>
    match parseTxs rest with
    | some txs => fin (n.step (.netFail txs)) "fail"
    | none => bad
  | "restart" => fin (n.step .restart) "ok"
  | "reorg" =>
    match rest.splitOn " " with
    | k :: f :: bl =>
      let failAt : Option (Option Nat) := if f == "-" then some none else f.toNat?.map some
      match k.toNat?, failAt, ((" ".intercalate bl).splitOn " / ").mapM parseTxs with
      | some k, some failAt, some blocks =>
        if n.hist.length ≤ k then bad else
        fin (n.step (.reorg k blocks failAt)) (if failAt.isSome then "fail" else "ok")
      | _, _, _ => bad
    | _ => bad
  | _ => bad

def c15StepSt (s : St) (line : String) : St × String :=
  let bad := (s, "bad-op")
  match words line with
  | ["new", fv] =>
    match fv.toNat? with
    | some fv => let s' := St.init fv; (s', "ok | " ++ showState s')
    | none => bad
  | ["acct", a, id, b] =>
    match unhex a, unhex id, b.toNat? with
    | some a, some id, some b =>
      let s' := { s with accts := s.accts.set a id, bal := s.bal.set a b }
      (s', "ok | " ++ showState s')
    | _, _, _ => bad
  | ["stake", a, h, amt] =>
    match unhex a, h.toNat?, amt.toNat? with
    | some a, some h, some amt => if (s.accts.get a).isNone then bad else applyOp s (.stake a h amt)
    | _, _, _ => bad
  | ["unstake", a, h, amt] =>
    match unhex a, h.toNat?, amt.toNat? with
    | some a, some h, some amt => if (s.accts.get a).isNone then bad else applyOp s (.unstake a h amt)
    | _, _, _ => bad
  | ["votebp", a, h, cs] =>
    match unhex a, h.toNat?, parseList cs with
    | some a, some h, some cs => if (s.accts.get a).isNone then bad else applyOp s (.voteBP a h cs)
    | _, _, _ => bad
  | ["votedao", a, h, id, args] =>
    match unhex a, h.toNat?, parseList args with
    | some a, some h, some args => if (s.accts.get a).isNone then bad else applyOp s (.voteDAO a h id args)
    | _, _, _ => bad
  | ["transfer", x, y, amt] =>
    match unhex x, unhex y, amt.toNat? with
    | some x, some y, some amt => applyOp s (.transfer x y amt)
    | _, _, _ => bad
  | ["namecreate", a, n, amt] =>
    match unhex a, unhex n, amt.toNat? with
    | some a, some n, some amt => applyOp s (.nameCreate a n amt)
    | _, _, _ => bad
  | ["nameupdate", t, sd, n, to, amt] =>
    match unhex t, unhex sd, unhex n, unhex to, amt.toNat? with
    | some t, some sd, some n, some to, some amt => applyOp s (.nameUpdate t sd n to amt)
    | _, _, _, _, _ => bad
  | ["setowner", o] =>
    match unhex o with
    | some o => applyOp s (.setOwner o)
    | none => bad
  | ["endblock"] => applyOp s .endBlock
  | ["restart"] => applyOp s .restart
  | ["less", ca, aa, cb, ab] =>
    match unhex ca, aa.toNat?, unhex cb, ab.toNat? with
    | some ca, some aa, some cb, some ab =>
      let a : Entry := (ca, aa)
      let b : Entry := (cb, ab)
      (s, s!"{if less a b then 1 else 0} {if less b a then 1 else 0}")
    | _, _, _, _ => bad
  | ["rank", l] =>
    match parseEntries l with
    | some es =>
      match es.mapM (fun e => e.2.toNat?.map fun a => (e.1, a)) with
      | some es => (s, showRank (rankSort (sortBy (fun (a b : Entry) => hex a.1 < hex b.1) es)))
      | none => bad
    | none => bad
  | "codec" :: ws => (s, codec ws)
  | _ => bad

def c15Step (n : Node) (line : String) : Node × String :=
  match line.splitOn " " with
  | ["nnew", fv, bps] =>
    match fv.toNat?, parseList bps with
    | some fv, some bps => let n' : Node := { cur := genesisWith fv bps, hist := [] }; (n', "ok | " ++ showState n'.cur)
    | _, _ => (n, "bad-op")
  | "ev" :: kind :: rest => evStep n kind (" ".intercalate rest)
  | _ => let r := c15StepSt n.cur line; ({ n with cur := r.1 }, r.2)

def main : IO UInt32 := DriverLib.run ({ cur := St.init 2, hist := [] } : Node) c15Step
