import Aergo.Model.DriverLib
import Aergo.Model.RaftLog

/-! Model driver for C16: `model-c16 < ops > out`. One WAL session is threaded through the
lines (`new` starts a fresh store); `mem` lines are stateless membership decisions. -/
open Aergo Aergo.DriverLib Aergo.RaftLog

namespace C16Drv

def commas (s : String) : List String := s.splitOn ","

def pBlock (s : String) : Option Block :=
  match s.splitOn "/" with
  | [h, n] => do
    let hb ← unhex h
    let nn ← n.toNat?
    pure ⟨hb, nn⟩
  | _ => none

def pItem (s : String) : Option Item :=
  match commas s with
  | ["b", t, i, d, b] => do
    let t ← t.toNat?; let i ← i.toNat?; let d ← unhex d
    if b == "nil" then pure ⟨⟨tBlock, t, i, d⟩, none, none⟩
    else do let blk ← pBlock b; pure ⟨⟨tBlock, t, i, d⟩, some blk, none⟩
  | ["e", t, i, d] => do
    let t ← t.toNat?; let i ← i.toNat?; let d ← unhex d
    pure ⟨⟨tEmpty, t, i, d⟩, none, none⟩
  | ["c", t, i, d, id] => do
    let t ← t.toNat?; let i ← i.toNat?; let d ← unhex d; let id ← id.toNat?
    pure ⟨⟨tConf, t, i, d⟩, none, some id⟩
  | [ty, t, i, d] =>
    if ty.startsWith "t" then do
      let k ← (ty.drop 1).toNat?
      let t ← t.toNat?; let i ← i.toNat?; let d ← unhex d
      if k ≤ 2 then none else pure ⟨⟨k, t, i, d⟩, none, none⟩
    else none
  | _ => none

def pRaftIn (s : String) : Option RaftIn :=
  match commas s with
  | ["b", t, i, b] => do
    let t ← t.toNat?; let i ← i.toNat?; let blk ← pBlock b
    pure (.normal t i (some blk))
  | ["e", t, i] => do
    let t ← t.toNat?; let i ← i.toNat?
    pure (.normal t i none)
  | ["c", t, i, d, id] => do
    let t ← t.toNat?; let i ← i.toNat?; let d ← unhex d; let id ← id.toNat?
    pure (.conf t i d id)
  | _ => none

def pHard (s : String) : Option HardState :=
  match commas s with
  | [t, v, c] => do pure ⟨← t.toNat?, ← v.toNat?, ← c.toNat?⟩
  | _ => none

def pPair (s : String) : Option (Nat × Nat) :=
  match commas s with
  | [a, b] => do pure (← a.toNat?, ← b.toNat?)
  | _ => none

def showBlock (b : Block) : String := s!"{hex b.hash}/{b.no}"

def showBlkRes : BlkRes → String
  | .ok b => showBlock b
  | .nilHash => "nilhash"
  | .noBlock => "noblock"

def showEntry (s : St) (e : Entry) : String :=
  let base := s!"{e.typ},{e.term},{e.index},{hex e.data}"
  if e.typ = tBlock then base ++ "," ++ showBlkRes (getBlock s e.data) else base

def showGet (s : St) : GetRes → String
  | .ok e => showEntry s e
  | .noEntry => "absent"
  | .mismatch => "mismatch"

def showRes : Res → String
  | .ok => "ok" | .panic => "panic" | .fatal => "fatal" | .nilHardState => "nilhs"

def showHard : Option HardState → String
  | none => "none"
  | some h => s!"{h.term},{h.vote},{h.commit}"

def showSnap : Option Snapshot → String
  | none => "none"
  | some sn => s!"{sn.index},{sn.term},{showBlock sn.chain}"

def showIdent : Option Identity → String
  | none => "none"
  | some i => s!"{i.clusterId},{i.id},{i.name},{i.peer}"

def showOut : RaftOut → String
  | .normal t i none => s!"n,{t},{i},-"
  | .normal t i (some b) => s!"n,{t},{i},{showBlock b}"
  | .conf t i d => s!"c,{t},{i},{hex d}"

def showReadErr : ReadErr → String
  | .hardState => "hardstate" | .noEntry => "noentry" | .mismatch => "mismatch" | .lowTerm => "lowterm"
  | .nilHash => "nilhash" | .noBlock => "noblock" | .invalidWal => "invalidwal"

def dump (s : St) (mx : Nat) : String :=
  let ents := (List.range (mx + 3)).map fun i => s!"{i}:{showGet s (getRaftEntry s i)}"
  let best := match s.best with | none => "none" | some b => showBlock b
  s!"last={lastIdx s} ents={" ".intercalate ents} hs={showHard s.hard} snap={showSnap s.snap} id={showIdent s.ident} best={best}"

def doOp (s : St) (op : Op) : St × String :=
  let r := step s op
  (r.1, showRes r.2)

/-! membership -/

def dash (s : String) : String := if s == "-" then "" else s

def pMember (s : String) : Option Member :=
  match commas s with
  | [id, name, addr, ok, peer] => do
    let id ← id.toNat?
    let p ← unhex peer
    let okb ← (if ok == "1" then some true else if ok == "0" then some false else none)
    pure ⟨id, dash name, dash addr, okb, p⟩
  | _ => none

def pList {α : Type} (f : String → Option α) (s : String) : Option (List α) :=
  if s.isEmpty then some [] else (s.splitOn ";").mapM f

def pBool (s : String) : Option Bool := if s == "1" then some true else if s == "0" then some false else none

def pProg (s : String) : Option Prog :=
  match s.splitOn ":" with
  | [id, st, m, nx, act] => do pure ⟨← id.toNat?, ← st.toNat?, ← m.toNat?, ← nx.toNat?, ← pBool act⟩
  | _ => none


def pRaft (s : String) (prog : List Prog) : Option Raft :=
  match commas s with
  | [hn, sid, ld, self, last, gap] => do
    pure ⟨← pBool hn, ← sid.toNat?, ← pBool ld, ← self.toNat?, ← last.toNat?, ← gap.toNat?, prog⟩
  | _ => none

def stripPrefix (p s : String) : Option String := if s.startsWith p then some (s.drop p.length).toString else none

def showV : VRes → String
  | .ok => "ok" | .nilMember => "nilmember" | .invalidId => "invalidid" | .alreadyRemoved => "removed"
  | .invalidMember => "invalidmember" | .alreadyAdded => "added" | .dup => "dup" | .noMember => "nomember" | .invType => "invtype"

def showE : ERes → String
  | .ok => "ok" | .statusEmpty => "statusempty" | .unhealthyExists => "unhealthy" | .noProgress => "noprogress"
  | .removeHealthy => "removehealthy" | .invType => "invtype"

def memOp (a r raft p t m : String) : Option String := do
  let applied ← pList pMember (← stripPrefix "A=" a)
  let removed ← pList String.toNat? (← stripPrefix "R=" r)
  let prog ← pList pProg (← stripPrefix "P=" p)
  let rf ← pRaft (← stripPrefix "raft=" raft) prog
  let ty ← (← stripPrefix "t=" t).toNat?
  let ms ← stripPrefix "m=" m
  let mem ← (if ms == "nil" then some none else (pMember ms).map some)
  let cl : Cluster := ⟨applied, removed⟩
  let v := validate cl ty mem
  let nodeId := match mem with | none => 0 | some x => x.id
  let e := enable rf ty nodeId
  let cp := clusterProgress rf
  let hv := ",".intercalate (cp.2.map fun x => s!"{x.1}={x.2}")
  pure s!"{showV v} {showE e} acc={changeAccepted cl rf ty mem} h={cp.1}:{hv}"

def showCM : CMRes → String
  | .ok => "ok" | .pending => "pending" | .invalidReqType => "invreqtype" | .invalidAttr => "invalidattr"
  | .invalidId => "invalidid" | .v r => "v:" ++ showV r | .e r => "e:" ++ showE r | .notLeader => "notleader"

def sortedIds (l : List Nat) : String :=
  ";".intercalate ((l.mergeSort (fun a b => decide (a ≤ b))).eraseDups.map toString)

def pReq (s : String) : Option Req :=
  match commas s with
  | [ty, id, name, addr, ok, peer] => do
    let ty ← ty.toNat?; let id ← id.toNat?; let okb ← pBool ok; let p ← unhex peer
    pure ⟨ty, id, dash name, dash addr, okb, p⟩
  | _ => none

def mempOp (a r raft p pend via req gen : String) : Option String := do
  let applied ← pList pMember (← stripPrefix "A=" a)
  let removed ← pList String.toNat? (← stripPrefix "R=" r)
  let prog ← pList pProg (← stripPrefix "P=" p)
  let rf ← pRaft (← stripPrefix "raft=" raft) prog
  let pd ← pBool (← stripPrefix "pend=" pend)
  let v ← stripPrefix "via=" via
  let rq ← pReq (← stripPrefix "req=" req)
  let g ← (← stripPrefix "gen=" gen).toNat?
  let cl : Cluster := ⟨applied, removed⟩
  if v == "cm" then pure (showCM (changeMembership cl rf pd rq g))
  else if v == "mk" then pure (showCM (makeConfChangeProposal cl rf pd rq g))
  else none

def memaOp (a r t m : String) : Option String := do
  let applied ← pList pMember (← stripPrefix "A=" a)
  let removed ← pList String.toNat? (← stripPrefix "R=" r)
  let ty ← (← stripPrefix "t=" t).toNat?
  let mem ← pMember (← stripPrefix "m=" m)
  let (cl', v) := applyConfChange ⟨applied, removed⟩ ty mem
  pure s!"{showV v} A={sortedIds (cl'.applied.map (·.id))} R={sortedIds cl'.removed}"

def memrOp (a rm sa sr : String) : Option String := do
  let applied ← pList pMember (← stripPrefix "A=" a)
  let removed ← pList pMember (← stripPrefix "RM=" rm)
  let sap ← pList pMember (← stripPrefix "SA=" sa)
  let srm ← pList pMember (← stripPrefix "SR=" sr)
  match recover ⟨applied, removed⟩ sap srm with
  | none => pure "err"
  | some (cl', eq) => pure s!"eq={eq} A={sortedIds (cl'.applied.map (·.id))} R={sortedIds (cl'.removed.map (·.id))}"

/-- The operations of a WAL session that change the store. -/
def parseOp : List String → Option Op
  | ["best", b] => (pBlock b).map .best
  | "write" :: items => (items.mapM pItem).map .write
  | "save" :: hs :: ents => do
    let h ← pHard hs
    let es ← ents.mapM pRaftIn
    pure (.save h es)
  | ["hard", hs] => (pHard hs).map .hard
  | ["snap", sn] =>
    match commas sn with
    | [i, t, b] => do
      let i ← i.toNat?; let t ← t.toNat?; let blk ← pBlock b
      pure (.snap ⟨i, t, blk⟩)
    | _ => none
  | ["ident", id] =>
    match commas id with
    | [c, i, n, p] => do
      let c ← c.toNat?; let i ← i.toNat?
      pure (.ident ⟨c, i, dash n, dash p⟩)
    | _ => none
  | ["restart"] => some .restart
  | ["ccprog", id, st] => do
    let i ← id.toNat?; let t ← st.toNat?
    pure (.ccprog i t)
  | ["clear"] => some .clear
  | ["reset", a] => if a == "nil" then some (.reset none) else (pPair a).map (fun p => .reset (some p))
  | _ => none

/-- Split a word list at the separator `;;`. -/
def splitOps (ws : List String) : List (List String) :=
  let r := ws.foldl (fun (acc : List (List String) × List String) w =>
    if w == ";;" then (acc.1 ++ [acc.2], []) else (acc.1, acc.2 ++ [w])) ([], [])
  r.1 ++ [r.2]

def showWal : WalState → String
  | .noIdentity => "noidentity" | .nameMismatch => "name" | .peerMismatch => "peer" | .noHardState => "nohardstate" | .ok => "ok"

def showHanded (h : Handed) : String :=
  let sn := match h.snap with | none => "none" | some s => s!"{s.index},{s.term}"
  s!"snap={sn} hs={showHard (some h.hard)} id={showIdent (some h.ident)} ents={h.ents.length}" ++
    String.join (h.ents.map fun e => " " ++ showOut e)

def showHand : HandRes → String
  | .noWal w => "nowal:" ++ showWal w
  | .emptyLog => "emptylog"
  | .fatal (.read e) => "fatal:read:" ++ showReadErr e
  | .fatal .identity => "fatal:identity"
  | .fatal .snapOutOfDate => "fatal:snap-out-of-date"
  | .raftPanics h => "raft-panics " ++ showHanded h
  | .ok h => "ok " ++ showHanded h

def stepLine (s : St) (line : String) : St × String :=
  match words line with
  | ["new"] => (RaftLog.empty, "ok")
  | "cut" :: k :: mx :: rest =>
    match k.toNat?, mx.toNat?, (splitOps rest).mapM parseOp with
    | some k, some mx, some ops =>
      let sts := prefixStatesSeq s ops
      let n := sts.length - 1
      match sts[k]? with
      | none => (s, s!"n={n} beyond")
      | some c =>
        match restart c with
        | none => (s, s!"n={n} restart-fails")
        | some c' => (s, s!"n={n} " ++ dump c' mx)
    | _, _, _ => (s, "bad-op")
  | "cuth" :: k :: cfg :: rest =>
    match k.toNat?, commas cfg, (splitOps rest).mapM parseOp with
    | some k, [n, p], some ops =>
      let sts := prefixStatesSeq s ops
      match sts[k]? with
      | none => (s, s!"n={sts.length - 1} beyond")
      | some c =>
        match restart c with
        | none => (s, s!"n={sts.length - 1} restart-fails")
        | some c' => (s, s!"n={sts.length - 1} " ++ showHand (handOver c' ⟨dash n, dash p⟩))
    | _, _, _ => (s, "bad-op")
  | "crash" :: k :: rest =>
    match k.toNat?, (splitOps rest).mapM parseOp with
    | some k, some ops =>
      match (prefixStatesSeq s ops)[k]? with
      | none => (s, "beyond")
      | some c =>
        match restart c with
        | none => (s, "restart-fails")
        | some c' => (c', "ok")
    | _, _ => (s, "bad-op")
  | ["handover", cfg] =>
    match commas cfg with
    | [n, p] => (s, showHand (handOver s ⟨dash n, dash p⟩))
    | _ => (s, "bad-op")
  | ["dump", mx] =>
    match mx.toNat? with
    | some m => (s, dump s m)
    | none => (s, "bad-op")
  | ["readall", a] =>
    let go (sn : Option (Nat × Nat)) : String :=
      match readAll s sn with
      | .error e => "err:" ++ showReadErr e
      | .ok (id, hs, es) => s!"id={showIdent id} hs={showHard (some hs)} ents={es.length}" ++ String.join (es.map fun e => " " ++ showOut e)
    if a == "nil" then (s, go none)
    else match pPair a with
      | some p => (s, go (some p))
      | none => (s, "bad-op")
  | ["ofblock", h] =>
    match unhex h with
    | some hb =>
      match getRaftEntryOfBlock s hb with
      | none => (s, "none")
      | some r => (s, s!"{(getRaftEntryIndexOfBlock s hb).getD 0}:{showGet s r}")
    | none => (s, "bad-op")
  | ["ccget", id] =>
    match id.toNat? with
    | some i => (s, match s.ccp i with | none => "none" | some st => toString st)
    | none => (s, "bad-op")
  | ["mem", a, r, raft, p, t, m] =>
    match memOp a r raft p t m with
    | some out => (s, out)
    | none => (s, "bad-op")
  | ["memp", a, r, raft, p, pend, via, req, gen] =>
    match mempOp a r raft p pend via req gen with
    | some out => (s, out)
    | none => (s, "bad-op")
  | ["mema", a, r, t, m] =>
    match memaOp a r t m with
    | some out => (s, out)
    | none => (s, "bad-op")
  | ["memr", a, rm, sa, sr] =>
    match memrOp a rm sa sr with
    | some out => (s, out)
    | none => (s, "bad-op")
  | ws =>
    match parseOp ws with
    | some op => doOp s op
    | none => (s, "bad-op")

end C16Drv

def main : IO UInt32 := run RaftLog.empty C16Drv.stepLine
