import Aergo.Model.DriverLib
import Aergo.Model.Sync

/-! Model driver for C17: `model-c17 < ops > out`. One answer line per operation line.
Stateless lines: `bs`, `anchors`, `finder`, `vseq`. Stateful sessions (one of each kind is
threaded through the lines): `hf …` (hash fetcher), `new/hs/sched/tick/chunk/add` (block fetcher +
block processor), `svc …` (service session counter), `sys …` (service with the session behind the
sequence filter), `recv …` (P2P chunk receiver). -/
open Aergo Aergo.DriverLib Aergo.Sync

namespace C17Drv

def commas (s : String) : List String := if s == "-" then [] else s.splitOn ","

def pNats (s : String) : Option (List Nat) := (commas s).mapM (·.toNat?)

def pBool (s : String) : Option Bool := if s == "1" then some true else if s == "0" then some false else none

/-- `hash/prev/no` with an optional `/B` (serialised size above the maximum). -/
def pBlk (s : String) : Option (Blk × Bool) :=
  match s.splitOn "/" with
  | [h, p, n] => do pure (⟨← h.toNat?, ← p.toNat?, ← n.toNat?⟩, false)
  | [h, p, n, "B"] => do pure (⟨← h.toNat?, ← p.toNat?, ← n.toNat?⟩, true)
  | _ => none

def pBlks (s : String) : Option (List (Blk × Bool)) := (commas s).mapM pBlk

def showNats (l : List Nat) : String := if l.isEmpty then "-" else ",".intercalate (l.map toString)

def showBlk (b : Blk) : String := s!"{b.hash}/{b.prev}/{b.no}"

def showBlks (l : List Blk) : String := if l.isEmpty then "-" else ",".intercalate (l.map showBlk)

/-! ### finder -/

/-- probe from the local best height and the reply pattern (`s` same, `d`/`n` different/none, `e` error). -/
def mkProbe (best : Nat) (pat : List Char) : Option (Nat → Probe) :=
  if pat.all (fun c => c == 's' || c == 'd' || c == 'n' || c == 'e') then
    some fun i =>
      if best < i then .localErr
      else match pat[i]? with
        | some 's' => .same
        | some 'e' => .remoteErr
        | _ => .diff
  else none

def pPat (s : String) : List Char := if s == "-" then [] else s.toList

def showFind : FindRes → String
  | .ok (some n) => s!"some:{n}"
  | .ok none => "none"
  | .localErr => "localerr"
  | .remoteErr => "remoteerr"

def showFinder : FinderOut → String
  | .ancestor n => s!"ancestor:{n}"
  | .noAncestor => "noancestor"
  | .alreadyDone => "done"
  | .timeout => "timeout"
  | .localErr => "localerr"
  | .remoteErr => "remoteerr"

def pReply (s : String) : Option (Option Nat) := if s == "nil" then some none else s.toNat?.map some

/-! ### fetcher / processor -/

def showErr : Err → String
  | .allPeerBad => "allpeerbad" | .rspErr => "rsperr" | .invalidAdd => "invalidadd" | .panic => "panic"

def showOut : Out → String
  | .fetch p hs => s!"fetch:{p}:{showNats hs}"
  | .addBlock b => s!"add:{showBlk b}"
  | .stop none => "stop:ok"
  | .stop (some e) => s!"stop:{showErr e}"

def showOuts (l : List Out) : String := if l.isEmpty then "-" else " ".intercalate (l.map showOut)

def showTask (t : Task) : String :=
  let p := match t.peer with | none => "-" | some p => s!"{p.no}.{p.failCnt}"
  s!"{t.startNo}:{showNats t.hashes}:{p}:{t.retry}:{if t.peer.isSome then t.age else 0}"

def showList {α : Type} (f : α → String) (l : List α) : String := "[" ++ " ".intercalate (l.map f) ++ "]"

def dump (s : St) : String :=
  let cur := match s.curConn with | none => "-" | some c => s!"{c.firstNo}:{c.cur}:{c.blocks.length}"
  let cb := match s.curBlock with | none => "-" | some b => showBlk b
  s!"run={showList showTask s.running} pend={showList showTask s.pending} retry={showList showTask s.retryQ} " ++
  s!"free={showList (fun (p : Peer) => s!"{p.no}.{p.failCnt}") s.free} bad={s.bad} total={s.total} " ++
  s!"connq={showList (fun (c : ConnTask) => s!"{c.firstNo}:{c.blocks.length}") s.connQ} cur={cur} prev={showBlk s.prev} cb={cb} " ++
  s!"hs={if s.curHashSet then 1 else 0} hfq={s.hfq.length}"

/-! ### driver state -/

structure D where
  hf : Option HF := none
  st : Option St := none
  svc : Svc := Svc.init
  recv : Option Recv := none
  sys : Sys Nat := Sys.init
  hrecv : Option HRecv := none

def showHF (h : HF) : String := s!"last={h.lastHash}/{h.lastNo} req={h.reqCount}"

def showHFOut (h : HF) : HFOut → String
  | .dropped => "dropped"
  | .ignored => "ignored"
  | .stopErr => "stoperr"
  | .stopInvalid => "stopinvalid"
  | .pushed st hs true => s!"pushed {st} {showNats hs} fin"
  | .pushed st hs false => s!"pushed {st} {showNats hs} next {h.reqCount}"

def pKind : String → Option MsgKind
  | "syncStart" => some .syncStart | "anchorsRsp" => some .anchorsRsp | "ancestorRsp" => some .ancestorRsp
  | "finderResult" => some .finderResult | "hashesRsp" => some .hashesRsp | "hashByNoRsp" => some .hashByNoRsp
  | "blockChunksRsp" => some .blockChunksRsp | "addBlockRsp" => some .addBlockRsp | "syncStop" => some .syncStop
  | "closeFetcher" => some .closeFetcher | "blockChunksReq" => some .blockChunksReq | "other" => some .other
  | _ => none

def showSvc (v : Svc) : String := s!"seq={v.seq} running={if v.running then 1 else 0} target={v.target}"

def showSys (v : Sys Nat) : String := s!"seq={v.seq} running={if v.sess.isSome then 1 else 0} target={v.sess.getD 0}"

def sysRecv (d : D) (m : Msg SysBody) : D × String :=
  let v := Sys.recv sysStart sysHandle d.sys m
  ({ d with sys := v }, showSys v)

def showRecvErr : RecvErr → String
  | .remotePeerFail => "remotepeerfail" | .missingHash => "missinghash" | .tooMany => "toomany"
  | .unexpected => "unexpected" | .tooBig => "toobig" | .tooFew => "toofew"

def showRecv (r : Recv) : String :=
  let st := match r.status with | .waiting => "waiting" | .canceled => "canceled" | .finished => "finished"
  s!"st={st} got={r.got.length}"

def bad (d : D) : D × String := (d, "bad-op")

/-! ### the exchanges below the finder -/

def pStatus : String → Option WStatus
  | "ok" => some .ok | "notfound" => some .notFound | "failed" => some .failed | _ => none

def showStatus : WStatus → String
  | .ok => "ok" | .notFound => "notfound" | .failed => "failed"

/-- `a:b` pairs, comma separated. -/
def pPairs (s : String) : Option (List (Nat × Nat)) :=
  (commas s).mapM fun w =>
    match w.splitOn ":" with
    | [a, b] => do pure (← a.toNat?, ← b.toNat?)
    | _ => none

def lookup (l : List (Nat × Nat)) (k : Nat) : Option Nat := (l.find? (·.1 == k)).map (·.2)

/-- `tok/no` or `nil`. -/
def pReplyId (s : String) : Option (Option (Nat × Nat)) :=
  if s == "nil" then some none
  else match s.splitOn "/" with
    | [h, n] => do pure (some (← h.toNat?, ← n.toNat?))
    | _ => none

def showFinderId : FinderOutId → String
  | .ancestor h n => s!"ancestor:{h}/{n}"
  | .noAncestor => "noancestor"
  | .alreadyDone => "done"
  | .timeout => "timeout"
  | .localErr => "localerr"
  | .remoteErr => "remoteerr"

def showHRecvErr : HRecvErr → String
  | .remotePeerFail => "remotepeerfail" | .missingHash => "missinghash" | .wrongHash => "wronghash" | .tooMany => "toomany"

def showHRecv (r : HRecv) : String :=
  let st := match r.status with | .waiting => "waiting" | .canceled => "canceled" | .finished => "finished"
  s!"st={st} got={r.got.length}"

/-- `tok:1` (a hash of block-id length) or `tok:0`. -/
def pHParts (s : String) : Option (List (Nat × Bool)) :=
  (commas s).mapM fun w =>
    match w.splitOn ":" with
    | [a, b] => do pure (← a.toNat?, ← pBool b)
    | _ => none

def stepSt (d : D) (e : Ev) : D × String :=
  match d.st with
  | none => bad d
  | some s =>
    if s.halted then (d, "halted")
    else
      let (s', outs) := step s e
      ({ d with st := some s' }, if s'.halted then showOuts outs else s!"{showOuts outs} | {dump s'}")

def stepLine (d : D) (line : String) : D × String :=
  match words line with
  | ["bs", best, lo, hi, pat] =>
    match best.toNat?, lo.toNat?, hi.toNat? with
    | some best, some lo, some hi =>
      match mkProbe best (pPat pat) with
      | some probe => (d, s!"{showFind (binarySearch probe lo hi none)} probes={showNats (bsProbes probe lo hi)}")
      | none => bad d
    | _, _, _ => bad d
  | ["anchors", best] =>
    match best.toNat? with
    | some best => (d, s!"{showNats (anchors best)} last={lastAnchorOf best}")
    | none => bad d
  | ["finder", fo, best, target, replies, pat] =>
    match pBool fo, best.toNat?, target.toNat?, (commas replies).mapM pReply with
    | some fo, some best, some target, some replies =>
      match mkProbe best (pPat pat) with
      | some probe => (d, showFinder (finder fo best target replies probe))
      | none => bad d
    | _, _, _, _ => bad d
  -- finder on two chains given by lengths: heights below `common` are shared, the remote has blocks up to `rbest`;
  -- the peer answers the light scan honestly from the full anchor list
  | ["finderf", fo, best, target, common, rbest] =>
    match pBool fo, best.toNat?, target.toNat?, common.toNat?, rbest.toNat? with
    | some fo, some best, some target, some common, some _ =>
      let probe : Nat → Probe := fun i => if best < i then .localErr else if i < common then .same else .diff
      let light := honestLightReply best (fun i => decide (i ≤ best ∧ i < common))
      let ls := match light with | none => "nil" | some n => toString n
      (d, s!"{showFinder (finder fo best target [light] probe)} light={if fo then "-" else ls} last={if fo then best + 1 else lastAnchorOf best}")
    | _, _, _, _, _ => bad d
  | ["vseq", cur, kind, seq] =>
    match cur.toNat?, pKind kind, seq.toNat? with
    | some cur, some k, some seq => (d, if verifySeq cur k seq then "1" else "0")
    | _, _, _ => bad d
  -- hash fetcher
  | ["hf", "new", ah, an, target, maxReq] =>
    match ah.toNat?, an.toNat?, target.toNat?, maxReq.toNat? with
    | some ah, some an, some target, some maxReq =>
      let h := (HF.mk ah an 0 target maxReq).request
      ({ d with hf := some h }, s!"req {h.lastHash} {h.lastNo} {h.reqCount}")
    | _, _, _, _ => bad d
  | ["hf", "rsp", ph, pn, cnt, err, hashes] =>
    match d.hf, ph.toNat?, pn.toNat?, cnt.toNat?, pBool err, pNats hashes with
    | some h, some ph, some pn, some cnt, some err, some hashes =>
      let (h', o) := h.response ⟨ph, pn, cnt, hashes, err⟩
      ({ d with hf := some h' }, s!"{showHFOut h' o} {showHF h'}")
    | _, _, _, _, _, _ => bad d
  -- block fetcher / processor
  | ["new", mfs, mft, mpc, to, target, npeers, anc] =>
    match mfs.toNat?, mft.toNat?, mpc.toNat?, to.toNat?, target.toNat?, npeers.toNat?, pBlk anc with
    | some mfs, some mft, some mpc, some to, some target, some npeers, some (anc, _) =>
      if mfs = 0 then bad d else
      let s := St.init ⟨mfs, mft, mpc, to⟩ anc target npeers
      ({ d with st := some s }, s!"- | {dump s}")
    | _, _, _, _, _, _, _ => bad d
  | ["hs", startNo, hashes] =>
    match startNo.toNat?, pNats hashes with
    | some startNo, some hashes => if hashes.isEmpty then bad d else stepSt d (.hashSet startNo hashes)
    | _, _ => bad d
  | ["sched"] => stepSt d .sched
  | ["tick", n] =>
    match n.toNat? with
    | some n => stepSt d (.tick n)
    | none => bad d
  | ["chunk", peer, err, blocks] =>
    match peer.toNat?, pBool err, pBlks blocks with
    | some peer, some err, some blocks => stepSt d (.chunk peer err (blocks.map (·.1)))
    | _, _, _ => bad d
  | ["add", no, hash, err] =>
    match no.toNat?, pBool err with
    | some no, some err =>
      if hash == "nil" then stepSt d (.addRsp no 0 err true)
      else match hash.toNat? with
        | some h => stepSt d (.addRsp no h err false)
        | none => bad d
    | _, _ => bad d
  -- service session counter
  | ["svc", "new"] => ({ d with svc := Svc.init }, showSvc Svc.init)
  | ["svc", "start", target, best] =>
    match target.toNat?, best.toNat? with
    | some target, some best =>
      let v := d.svc.syncStart target best
      ({ d with svc := v }, showSvc v)
    | _, _ => bad d
  | ["svc", "stop", seq] =>
    match seq.toNat? with
    | some seq =>
      let v := d.svc.stop seq
      ({ d with svc := v }, showSvc v)
    | none => bad d
  | ["svc", "finderfail", seq] =>
    match seq.toNat? with
    | some seq =>
      let v := d.svc.finderFail seq
      ({ d with svc := v }, showSvc v)
    | none => bad d
  -- service with the whole session behind the filter (`Sys`): the same real actions as the `svc` lines, plus
  -- arbitrary message kinds with a stale or the current sequence
  | ["sys", "new"] => ({ d with sys := Sys.init }, showSys Sys.init)
  | ["sys", "start", target, best] =>
    match target.toNat?, best.toNat? with
    | some target, some best => sysRecv d ⟨.syncStart, 0, .start target best⟩
    | _, _ => bad d
  | ["sys", "stop", seq] =>
    match seq.toNat? with
    | some seq => sysRecv d ⟨.syncStop, seq, .none⟩
    | none => bad d
  | ["sys", "finderfail", seq] =>
    match seq.toNat? with
    | some seq => sysRecv d ⟨.finderResult, seq, .fail⟩
    | none => bad d
  | ["sys", "msg", kind, seq] =>
    match pKind kind, seq.toNat? with
    | some k, some seq => if k == .syncStart then bad d else sysRecv d ⟨k, seq, .none⟩
    | _, _ => bad d
  -- chunk receiver
  | ["recv", "new", hashes] =>
    match pNats hashes with
    | some hashes =>
      let r : Recv := ⟨hashes, [], .waiting⟩
      ({ d with recv := some r }, showRecv r)
    | none => bad d
  | ["recv", "part", timedOut, statusOk, hasNext, blocks] =>
    match d.recv, pBool timedOut, pBool statusOk, pBool hasNext, pBlks blocks with
    | some r, some timedOut, some statusOk, some hasNext, some blocks =>
      let bigs := (blocks.filter (·.2)).map (·.1)
      let (r', o) := r.receive (fun b => bigs.contains b) ⟨timedOut, statusOk, blocks.map (·.1), hasNext⟩
      let os := match o with
        | .nothing => "nothing"
        | .rsp bs => s!"rsp:{showBlks bs}"
        | .rspErr e => s!"err:{showRecvErr e}"
      ({ d with recv := some r' }, s!"{os} {showRecv r'}")
    | _, _, _, _, _ => bad d
  -- serving node: findAncestor on a chain DB given as `id:height` (everything stored) and `height:id` (main chain)
  | ["fanc", store, main, hashes] =>
    match pPairs store, pPairs main, pNats hashes with
    | some store, some main, some hashes =>
      match findAncestor (lookup store) (lookup main) hashes with
      | none => (d, "none")
      | some (h, n) => (d, s!"some:{h}/{n}")
    | _, _, _ => bad d
  -- serving node: the getAncestor handler (status and body of the response)
  | ["serveanc", answered, found] =>
    match pBool answered, pReplyId found with
    | some answered, some found =>
      let r := serveAncestor answered found
      (d, s!"{showStatus r.1} {r.2.1}/{r.2.2}")
    | _, _ => bad d
  -- requesting node: AncestorReceiver / BlockHashByNoReceiver
  | ["arecv", timedOut, st, h, n] =>
    match pBool timedOut, pStatus st, h.toNat?, n.toNat? with
    | some timedOut, some st, some h, some n =>
      match ancRecv timedOut st h n with
      | none => (d, "nothing")
      | some none => (d, "rsp:nil")
      | some (some (h, n)) => (d, s!"rsp:{h}/{n}")
    | _, _, _, _ => bad d
  | ["hbnrecv", timedOut, st, h] =>
    match pBool timedOut, pStatus st, h.toNat? with
    | some timedOut, some st, some h =>
      match hbnRecv timedOut st h with
      | .nothing => (d, "nothing")
      | .hash h => (d, s!"hash:{h}")
      | .err => (d, "err")
    | _, _, _ => bad d
  -- the finder with ids: replies `tok/no`, local main-chain ids by height
  | ["finderi", fo, best, target, replies, pat, lm] =>
    match pBool fo, best.toNat?, target.toNat?, (commas replies).mapM pReplyId, pNats lm with
    | some fo, some best, some target, some replies, some lm =>
      match mkProbe best (pPat pat) with
      | some probe => (d, showFinderId (finderId fo best target (fun n => if n ≤ best then lm[n]? else none) replies probe))
      | none => bad d
    | _, _, _, _, _ => bad d
  -- hash receiver
  | ["hrecv", "new", cnt] =>
    match cnt.toNat? with
    | some cnt =>
      let r : HRecv := ⟨cnt, [], .waiting⟩
      ({ d with hrecv := some r }, showHRecv r)
    | none => bad d
  | ["hrecv", "part", timedOut, statusOk, hasNext, hashes] =>
    match d.hrecv, pBool timedOut, pBool statusOk, pBool hasNext, pHParts hashes with
    | some r, some timedOut, some statusOk, some hasNext, some hashes =>
      let (r', o) := r.receive ⟨timedOut, statusOk, hashes, hasNext⟩
      let os := match o with
        | .nothing => "nothing"
        | .rsp hs c => s!"rsp:{showNats hs}:{c}"
        | .rspErr e => s!"err:{showHRecvErr e}"
      ({ d with hrecv := some r' }, s!"{os} {showHRecv r'}")
    | _, _, _, _, _ => bad d
  | _ => bad d

end C17Drv

def main : IO UInt32 := run ({} : C17Drv.D) C17Drv.stepLine
