import Aergo.Model.DriverLib
import Aergo.Model.Frame
import Aergo.Model.Handshake
import Aergo.Model.BlockId
import Aergo.Model.Notice

/-! Model driver for C18: `model-c18 < ops > out`.

```
write  <max> <sub> <len> <ts> <id> <orig> <payload>          (hex, "-" = empty)
read   <max> <stream>
readall <max> <stream>
hs <200|33> <lver> <lpub> <lmain> <lmagic> <lcons> <lpeer> <lgen> <cid> <height> <besthash> <genesis>
      nosender | sender <addrOK> <peer> <role> <P> <p1..pP> <C> (<valid> <agent> <bp>)*C
hsw <in|out> <magicOK> <A> <accepted codes> <M> <made: 200|33|32|31> <K> <offered/answered codes> <status|other kind>
      <lgver> <lver> <lpub> <lmain> <lmagic> <lcons> <lpeer> <lgen> <cid> <height> <besthash> <genesis>
      nosender | sender <addrOK> <legacyAddrOK> <peer> <role> <P> <p1..pP> <C> (<valid> <agent> <bp>)*C
sm new <cap>
sm bp <id> <present> <lenOK> <senderOK> <sizeOK> <content token>
sm nb <id> <lenOK> <peerSeen> <chainHas>
sm gbr <statusOK> <N> (<id> <sizeOK>)*N
bhash <carried> <digest>
recv <maxBlock> <R> <r1..rR> <K> ( <isBlk> <statusOK> <hasNext> <N> (<hash> <size>)*N )*K
```
-/
open Aergo Aergo.DriverLib

namespace C18Drv
open Aergo.Frame

def showMsg (m : Msg) : String :=
  s!"{m.sub} {m.len} {m.ts} {hex m.id} {hex m.orig} {hex m.payload}"

def showRErr : RErr → String
  | .eof => "eof" | .tooBig => "toobig" | .short => "short"

def doWrite : List String → String
  | [mx, sub, len, ts, id, orig, pl] =>
    match mx.toNat?, sub.toNat?, len.toNat?, ts.toNat?, unhex id, unhex orig, unhex pl with
    | some mx, some sub, some len, some ts, some id, some orig, some pl =>
      match writeMsg mx (List.replicate Gen.Frame.headerLength 0) ⟨sub, len, ts, id, orig, pl⟩ with
      | .ok b => s!"ok {hex b}"
      | .err .sizeMismatch => "err mismatch"
      | .err .tooBig => "err toobig"
      | .err .wrongWrite => "err wrongwrite"
      | .panic => "panic"
    | _, _, _, _, _, _, _ => "bad-op"
  | _ => "bad-op"

def doRead : List String → String
  | [mx, st] =>
    match mx.toNat?, unhex st with
    | some mx, some bs =>
      match readMsg mx bs with
      | ⟨.ok m rest, a⟩ => s!"ok {showMsg m} rest={rest.length} alloc={a}"
      | ⟨.err e, a⟩ => s!"err {showRErr e} alloc={a}"
      | ⟨.panic, _⟩ => "panic"
    | _, _ => "bad-op"
  | _ => "bad-op"

def doReadAll : List String → String
  | [mx, st] =>
    match mx.toNat?, unhex st with
    | some mx, some bs =>
      let (ms, e, a) := readAll mx (bs.length + 1) bs
      let es := match e with
        | .err e => showRErr e
        | .panic => "panic"
        | .ok _ _ => "ok"
      let body := String.intercalate "|" (ms.map showMsg)
      s!"n={ms.length} end={es} maxalloc={a} {body}"
    | _, _ => "bad-op"
  | _ => "bad-op"

open Aergo.Handshake in
def parseBool : String → Option Bool
  | "1" => some true | "0" => some false | _ => none

/-- take `n` hex words -/
def takeHex : Nat → List String → Option (List (List UInt8) × List String)
  | 0, ws => some ([], ws)
  | n + 1, w :: ws => do
    let b ← unhex w
    let (bs, rest) ← takeHex n ws
    pure (b :: bs, rest)
  | _ + 1, [] => none

open Aergo.Handshake in
def takeCerts : Nat → List String → Option (List Cert × List String)
  | 0, ws => some ([], ws)
  | n + 1, v :: a :: b :: ws => do
    let v ← parseBool v
    let a ← unhex a
    let b ← unhex b
    let (cs, rest) ← takeCerts n ws
    pure (⟨v, a, b⟩ :: cs, rest)
  | _ + 1, _ => none

open Aergo.Handshake in
def parseSender : List String → Option (Option Sender × List Cert)
  | ["nosender"] => some (none, [])
  | "sender" :: ok :: peer :: role :: p :: rest => do
    let ok ← parseBool ok
    let peer ← unhex peer
    let role ← role.toNat?
    let p ← p.toNat?
    let (prods, rest) ← takeHex p rest
    match rest with
    | c :: rest => do
      let c ← c.toNat?
      let (certs, rest) ← takeCerts c rest
      if rest.isEmpty then pure (some ⟨ok, peer, role, prods⟩, certs) else none
    | [] => none
  | _ => none

open Aergo.Handshake in
def doHs : List String → String
  | ver :: lver :: lpub :: lmain :: lmagic :: lcons :: lpeer :: lgen :: cid :: height :: bhash :: gen :: rest =>
    match lver.toNat?, parseBool lpub, parseBool lmain, unhex lmagic, unhex lcons, unhex lpeer, unhex lgen,
        unhex cid, height.toNat?, unhex bhash, unhex gen, parseSender rest with
    | some lver, some lpub, some lmain, some lmagic, some lcons, some lpeer, some lgen,
        some cid, some height, some bhash, some gen, some (snd, certs) =>
      let l : Local := ⟨fun _ => ⟨lver, lpub, lmain, lmagic, lcons⟩, lpeer, lgen⟩
      let st : Status := ⟨cid, height, bhash, snd, gen, certs⟩
      let r := if ver == "200" then some (checkV200 l st) else if ver == "33" then some (checkV033 l st) else none
      match r with
      | some (.ok _) => "ok"
      | some (.error _) => "reject"
      | none => "bad-op"
    | _, _, _, _, _, _, _, _, _, _, _, _ => "bad-op"
  | _ => "bad-op"


/-- take `n` decimal words -/
def takeNats : Nat → List String → Option (List Nat × List String)
  | 0, ws => some ([], ws)
  | n + 1, w :: ws => do
    let x ← w.toNat?
    let (xs, rest) ← takeNats n ws
    pure (x :: xs, rest)
  | _ + 1, [] => none

open Aergo.Handshake in
def verOfNo : Nat → Option Ver
  | 200 => some .v200 | 33 => some .v033 | 32 => some .v032 | 31 => some .v031 | _ => none

open Aergo.Handshake in
def noOfCode (c : Nat) : Nat :=
  match verOfCode c with
  | some .v200 => 200 | some .v033 => 33 | some .v032 => 32 | some .v031 => 31 | none => 0

open Aergo.Handshake in
def doHsw : List String → String
  | dir :: magic :: a :: rest =>
    match parseBool magic, a.toNat? with
    | some magic, some a =>
      match takeNats a rest with
      | some (accepted, m :: rest) =>
        match m.toNat? with
        | some m =>
          match takeNats m rest with
          | some (madeNos, k :: rest) =>
            match k.toNat?, madeNos.mapM verOfNo with
            | some k, some made =>
              match takeNats k rest with
              | some (offered, kind :: lgver :: lver :: lpub :: lmain :: lmagic :: lcons :: lpeer :: lgen :: cid :: height :: bhash :: gen :: srest) =>
                let snd : Option (Option Sender × List Cert × Bool) :=
                  match srest with
                  | ["nosender"] => some (none, [], false)
                  | "sender" :: ok :: leg :: more =>
                    match parseBool leg, parseSender ("sender" :: ok :: more) with
                    | some leg, some (s, cs) => some (s, cs, leg)
                    | _, _ => none
                  | _ => none
                match lgver.toNat?, lver.toNat?, parseBool lpub, parseBool lmain, unhex lmagic, unhex lcons, unhex lpeer, unhex lgen,
                    unhex cid, height.toNat?, unhex bhash, unhex gen, snd with
                | some lgver, some lver, some lpub, some lmain, some lmagic, some lcons, some lpeer, some lgen,
                    some cid, some height, some bhash, some gen, some (sender, certs, leg) =>
                  let l : Local := ⟨fun _ => ⟨lver, lpub, lmain, lmagic, lcons⟩, lpeer, lgen⟩
                  let w : WireLocal := ⟨accepted, made, ⟨lgver, lpub, lmain, lmagic, lcons⟩, l⟩
                  let msg : PeerMsg := ⟨kind == "status", leg, ⟨cid, height, bhash, sender, gen, certs⟩⟩
                  let r : Option (Nat × Bool) :=
                    if dir == "in" then some (wireInbound w magic offered msg)
                    else if dir == "out" then
                      match offered with
                      | [c] => some (wireOutbound w magic c msg)
                      | _ => none
                    else none
                  match r with
                  | some (c, ok) => s!"v={noOfCode c} {if ok then "ok" else "reject"}"
                  | none => "bad-op"
                | _, _, _, _, _, _, _, _, _, _, _, _, _ => "bad-op"
              | _ => "bad-op"
            | _, _ => "bad-op"
          | _ => "bad-op"
        | none => "bad-op"
      | _ => "bad-op"
    | _, _ => "bad-op"
  | _ => "bad-op"

open Aergo.Notice in
def takeIdFlags : Nat → List String → Option (List (List UInt8 × Bool) × List String)
  | 0, ws => some ([], ws)
  | n + 1, h :: f :: ws => do
    let h ← unhex h
    let f ← parseBool f
    let (xs, rest) ← takeIdFlags n ws
    pure ((h, f) :: xs, rest)
  | _ + 1, _ => none

open Aergo.Notice in
def showAct : Act → String
  | .nothing => "nothing"
  | .forward id => s!"forward {hex id}"
  | .request id => s!"request {hex id}"

open Aergo.Notice in
def parseArr : List String → Option Arr
  | ["bp", id, p, l, s, z, c] => do
    pure (.bp (← unhex id) (← parseBool p) (← parseBool l) (← parseBool s) (← parseBool z) (← unhex c))
  | ["nb", id, l, p, c] => do
    pure (.nb (← unhex id) (← parseBool l) (← parseBool p) (← parseBool c))
  | "gbr" :: ok :: n :: rest => do
    let ok ← parseBool ok
    let n ← n.toNat?
    let (bs, rest) ← takeIdFlags n rest
    if rest.isEmpty then pure (.gbr ok bs) else none
  | _ => none

open Aergo.Notice in
def doSm (s : Seen) : List String → Seen × String
  | ["new", cap] =>
    match cap.toNat? with
    | some cap => (⟨cap, []⟩, "ok")
    | none => (s, "bad-op")
  | ws =>
    match parseArr ws with
    | some a => let (s', x) := step s a; (s', showAct x)
    | none => (s, "bad-op")

open Aergo.BlockId in
def doBhash : List String → String
  | [c, d] =>
    match unhex c, unhex d with
    | some c, some d => hex (blockHash (fun _ => d) ⟨c, [], 0⟩)
    | _, _ => "bad-op"
  | _ => "bad-op"

open Aergo.BlockId in
def takeBlocks : Nat → List String → Option (List Block × List String)
  | 0, ws => some ([], ws)
  | n + 1, h :: sz :: ws => do
    let h ← unhex h
    let sz ← sz.toNat?
    let (bs, rest) ← takeBlocks n ws
    pure (⟨h, [], sz⟩ :: bs, rest)
  | _ + 1, _ => none

open Aergo.BlockId in
def takeResps : Nat → List String → Option (List Resp × List String)
  | 0, ws => some ([], ws)
  | k + 1, isb :: sok :: hn :: n :: ws => do
    let isb ← parseBool isb
    let sok ← parseBool sok
    let hn ← parseBool hn
    let n ← n.toNat?
    let (bs, rest) ← takeBlocks n ws
    let (rs, rest) ← takeResps k rest
    pure (⟨isb, sok, bs, hn⟩ :: rs, rest)
  | _ + 1, _ => none

open Aergo.BlockId in
def showOut : Out → String
  | .nothing => "nothing"
  | .deliver bs => "deliver " ++ String.intercalate "," (bs.map (fun b => hex b.hash))
  | .fail .remoteFail => "fail remotefail"
  | .fail .missingHash => "fail missinghash"
  | .fail .tooMany => "fail toomany"
  | .fail .unexpected => "fail unexpected"
  | .fail .tooBig => "fail toobig"
  | .fail .tooFew => "fail toofew"

open Aergo.BlockId in
def doRecv : List String → String
  | mb :: r :: rest =>
    match mb.toNat?, r.toNat? with
    | some mb, some r =>
      match takeHex r rest with
      | some (req, k :: rest) =>
        match k.toNat? with
        | some k =>
          match takeResps k rest with
          | some (resps, []) => String.intercalate ";" ((run mb (Recv.init req) resps).map showOut)
          | _ => "bad-op"
        | none => "bad-op"
      | _ => "bad-op"
    | _, _ => "bad-op"
  | _ => "bad-op"

def step (s : Aergo.Notice.Seen) (line : String) : Aergo.Notice.Seen × String :=
  match words line with
  | "write" :: a => (s, doWrite a)
  | "read" :: a => (s, doRead a)
  | "readall" :: a => (s, doReadAll a)
  | "hs" :: a => (s, doHs a)
  | "hsw" :: a => (s, doHsw a)
  | "sm" :: a => doSm s a
  | "bhash" :: a => (s, doBhash a)
  | "recv" :: a => (s, doRecv a)
  | _ => (s, "bad-op")

end C18Drv

def main : IO UInt32 := run (⟨0, []⟩ : Aergo.Notice.Seen) C18Drv.step
