import Aergo.Model.DriverLib
import Aergo.Model.Enc
import Aergo.Model.Merkle
import Aergo.Model.Receipt
import Aergo.Model.ChainId
import Aergo.Model.Hardfork
import Aergo.Model.Startup

/-! Model driver for C19: `model-c19 < ops > out`. One answer line per operation line. -/
open Aergo Aergo.DriverLib Aergo.Enc

namespace C19Drv

def specOf : String → Option (List (String × Gen.Enc.Kind))
  | "blk" => some Gen.Enc.blockHashSpec
  | "blksign" => some Gen.Enc.blockSignSpec
  | "tx" => some Gen.Enc.txHashSpec
  | "txsign" => some Gen.Enc.txSignSpec
  | _ => none

/-- `Name=#123` (integer field, unsigned bit pattern) or `Name=<hex>|-` (bytes field). -/
def parseAssign (r : Rec) (w : String) : Option Rec :=
  match w.splitOn "=" with
  | [name, v] =>
    if v.startsWith "#" then
      match (v.drop 1).toNat? with
      | some n => some { r with num := fun g => if g = name then n else r.num g }
      | none => none
    else
      match unhex v with
      | some b => some { r with raw := fun g => if g = name then b else r.raw g }
      | none => none
  | _ => none

def emptyRec : Rec := { raw := fun _ => [], num := fun _ => 0 }

/-- Split `n` then `n*k` words off a word list. -/
def takeCounted (k : Nat) : List String → Option (List String × List String)
  | [] => none
  | n :: rest =>
    match n.toNat? with
    | some n => if n * k ≤ rest.length then some (rest.take (n * k), rest.drop (n * k)) else none
    | none => none

def triples : List String → List ((String × String) × String)
  | l :: r :: h :: rest => ((l, r), h) :: triples rest
  | _ => []

/-- `merkle <n> <leaf|nil>*n <m> (<l> <r> <sha256(l‖r)>)*m`: nodes are lower-case hex strings; the
branch function is the table of hash values sent by the harness (each one checked there against
SHA-256); a pair that is not in the table is printed as an unevaluated term. -/
def merkleOp (ws : List String) : String :=
  match takeCounted 1 ws with
  | none => "bad-op"
  | some (ls, rest) =>
    match takeCounted 3 rest with
    | some (tb, []) =>
      let table := triples tb
      let h := fun (l r : String) => match table.lookup (l, r) with
        | some v => v
        | none => s!"?H({l},{r})"
      let es := ls.map fun w => if w == "nil" then none else some w
      match Merkle.root h (String.ofList (List.replicate 64 '0')) es with
      | some v => v
      | none => "nil"
    | _ => "bad-op"

/-! receipts: `<addr> <status> <ret> <txhash> <fee> <cum> <gas> <fd> <bloom> <nev> (<eaddr> <ename> <eargs> <eidx> <etx>)*`,
byte strings in hex (`-` = empty), `status` = hex of the status string. -/

def strOfBytes (b : List UInt8) : String :=
  match String.fromUTF8? (ByteArray.mk b.toArray) with
  | some s => s
  | none => "?not-utf8"   -- not one of the four status strings either way

def parseEvents : Nat → List String → Option (List Receipt.Event × List String)
  | 0, ws => some ([], ws)
  | n + 1, a :: nm :: ar :: ix :: tx :: ws => do
    let a ← unhex a
    let nm ← unhex nm
    let ar ← unhex ar
    let ix ← ix.toNat?
    let tx ← unhex tx
    let (es, ws) ← parseEvents n ws
    pure ({ addr := a, name := nm, args := ar, idx := ix, txHash := tx } :: es, ws)
  | _, _ => none

def parseReceipt : List String → Option (Receipt.Receipt × List String)
  | a :: st :: ret :: tx :: fee :: cum :: gas :: fd :: bl :: nev :: ws => do
    let a ← unhex a
    let st ← unhex st
    let ret ← unhex ret
    let tx ← unhex tx
    let fee ← unhex fee
    let cum ← unhex cum
    let gas ← gas.toNat?
    let fd ← if fd == "1" then some true else if fd == "0" then some false else none
    let bl ← unhex bl
    let nev ← nev.toNat?
    let (es, ws) ← parseEvents nev ws
    pure ({ addr := a, status := strOfBytes st, ret := ret, txHash := tx, fee := fee, cum := cum, gas := gas,
            feeDeleg := fd, bloom := bl, events := es }, ws)
  | _ => none

def parseReceipts : Nat → List String → Option (List Receipt.Receipt × List String)
  | 0, ws => some ([], ws)
  | n + 1, ws => do
    let (r, ws) ← parseReceipt ws
    let (rs, ws) ← parseReceipts n ws
    pure (r :: rs, ws)

def showEvent (e : Receipt.Event) : String :=
  s!"{hex e.addr} {hex e.name} {hex e.args} {e.idx} {hex e.txHash}"

def showReceipt (r : Receipt.Receipt) : String :=
  let fd := if r.feeDeleg then "1" else "0"
  let evs := String.join (r.events.map fun e => " " ++ showEvent e)
  s!"{hex r.addr} {hex r.status.toUTF8.toList} {hex r.ret} {hex r.txHash} {hex r.fee} {hex r.cum} {r.gas} {fd} {hex r.bloom} {r.events.length}{evs}"

def parseV : String → Option Bool
  | "1" => some false
  | "2" => some true
  | _ => none

def receiptOp (op : String) (ws : List String) : String :=
  match op, ws with
  | "rmk", v :: ws =>
    match parseV v, parseReceipt ws with
    | some v2, some (r, []) => match Receipt.marshalMerkle v2 r with | some b => hex b | none => "err"
    | _, _ => "bad-op"
  | "rst", v :: ws =>
    match parseV v, parseReceipt ws with
    | some v2, some (r, []) => match Receipt.marshalStore v2 r with | some b => hex b | none => "err"
    | _, _ => "bad-op"
  | "rus", [v, d] =>
    match parseV v, unhex d with
    | some v2, some d =>
      match Receipt.unmarshalStore v2 d with
      | some (r, rest) => s!"{showReceipt r} | {hex rest}"
      | none => "reject"
    | _, _ => "bad-op"
  | "rsm", v :: bl :: n :: ws =>
    match parseV v, (if bl == "nil" then some none else (unhex bl).map some), n.toNat? with
    | some v2, some bloom, some n =>
      match parseReceipts n ws with
      | some (rs, []) => match Receipt.marshalAll v2 bloom rs with | some b => hex b | none => "err"
      | _ => "bad-op"
    | _, _, _ => "bad-op"
  | "rsu", [v, d] =>
    match parseV v, unhex d with
    | some v2, some d =>
      match Receipt.unmarshalAll v2 d with
      | some (bloom, rs) =>
        let b := match bloom with | some b => hex b | none => "nil"
        s!"{b} {rs.length}" ++ String.join (rs.map fun r => " " ++ showReceipt r)
      | none => "reject"
    | _, _ => "bad-op"
  | _, _ => "bad-op"

def parseBool : String → Option Bool
  | "true" => some true
  | "false" => some false
  | _ => none

def chainIdOp (ws : List String) : String :=
  match ws with
  | ["cidb", v, p, m, mg, cs] =>
    match v.toInt?, parseBool p, parseBool m, unhex mg, unhex cs with
    | some v, some p, some m, some mg, some cs =>
      hex (ChainId.bytes { version := v, publicNet := p, mainNet := m, magic := mg, consensus := cs })
    | _, _, _, _, _ => "bad-op"
  | ["cidr", d] =>
    match unhex d with
    | some d =>
      match ChainId.read d with
      | some c => s!"{c.version} {c.publicNet} {c.mainNet} {hex c.magic} {hex c.consensus}"
      | none => "err"
    | none => "bad-op"
  | ["cidv", d] =>
    match unhex d with
    | some d => toString (ChainId.decodeVersion d)
    | none => "bad-op"
  | ["mkcid", d, v] =>
    match unhex d, v.toInt? with
    | some d, some v => match ChainId.makeChainId d v with | some b => hex b | none => "panic"
    | _, _ => "bad-op"
  | ["cideq", a, b] =>
    match unhex a, unhex b with
    | some a, some b => toString (ChainId.eqWithoutVersion a b)
    | _, _ => "bad-op"
  | _ => "bad-op"

def parseNats (ws : List String) : Option (List Nat) := ws.mapM (·.toNat?)

def pairs : List Nat → List (Nat × Nat)
  | k :: v :: rest => (k, v) :: pairs rest
  | _ => []

/-- insertion sort of db entries by key (Go map: printed in key order) -/
def insertKV (kv : Nat × Nat) : List (Nat × Nat) → List (Nat × Nat)
  | [] => [kv]
  | x :: rest => if kv.1 ≤ x.1 then kv :: x :: rest else x :: insertKV kv rest

def hardforkOp (ws : List String) : String :=
  match ws with
  | "ver" :: h :: n :: rest =>
    match h.toNat?, n.toNat?, parseNats rest with
    | some h, some n, some c => if c.length = n then toString (Hardfork.version c h) else "bad-op"
    | _, _, _ => "bad-op"
  | "compat" :: h :: n :: rest =>
    match h.toNat?, n.toNat?, parseNats rest with
    | some h, some n, some xs =>
      match xs.drop n with
      | bad :: m :: kvs =>
        if xs.length = n + 2 + 2 * m then
          match Hardfork.checkCompatibility (xs.take n) { entries := pairs kvs, badKeys := bad } h with
          | .ok => "ok"
          | .invalid => "invalid"
          | .fork k => s!"fork:V{k}"
          | .older => "older"
        else "bad-op"
      | _ => "bad-op"
    | _, _, _ => "bad-op"
  | "fix" :: n :: rest =>
    match n.toNat?, parseNats rest with
    | some n, some xs =>
      match xs.drop n with
      | m :: kvs =>
        if xs.length = n + 1 + 2 * m then
          let d := Hardfork.fixDbConfig { entries := pairs kvs, badKeys := 0 } (xs.take n)
          let sorted := d.entries.foldl (fun acc kv => insertKV kv acc) []
          " ".intercalate (sorted.map fun kv => s!"V{kv.1}={kv.2}")
        else "bad-op"
      | _ => "bad-op"
    | _, _ => "bad-op"
  | _ => "bad-op"

def compatStr : Hardfork.Compat → String
  | .ok => "ok"
  | .invalid => "invalid"
  | .fork k => s!"fork:V{k}"
  | .older => "older"

/-- node-level operations (harness c19chain) -/
def startupOp (ws : List String) : String :=
  match ws with
  | "rfmt" :: _site :: no :: n :: rest =>
    match no.toNat?, n.toNat?, parseNats rest with
    | some no, some n, some c => if c.length = n then toString (Startup.receiptFormat c no) else "bad-op"
    | _, _, _ => "bad-op"
  | ["blkid", c, d] =>
    match unhex c, unhex d with
    | some c, some d => hex (Startup.blockHash c d)
    | _, _ => "bad-op"
  | ["txval", c, d] =>
    match unhex c, unhex d with
    | some c, some d => if Startup.txHashOk c d then "ok" else "badhash"
    | _, _ => "bad-op"
  | "chkhf" :: best :: n :: rest =>
    match best.toNat?, n.toNat? with
    | some best, some n =>
      match parseNats (rest.take n) with
      | some c =>
        if c.length = n then
          let stored : Option Startup.Stored :=
            match rest.drop n with
            | ["absent"] => some .absent
            | ["bad"] => some .unparsable
            | other :: m :: kvs =>
              match other.toNat?, m.toNat?, parseNats kvs with
              | some other, some m, some kvs => if kvs.length = 2 * m then some (.record { entries := pairs kvs, badKeys := other }) else none
              | _, _, _ => none
            | _ => none
          match stored with
          | some s =>
            match Startup.checkHardfork c s best with
            | .started => "ok written"
            | .refused e => compatStr e ++ " kept"
            | .unreadable => "unreadable kept"
          | none => "bad-op"
        else "bad-op"
      | none => "bad-op"
    | _, _ => "bad-op"
  | _ => "bad-op"

def step (line : String) : String :=
  match words line with
  | "enc" :: sp :: assigns =>
    -- the tx digests are only observable as SHA-256 values: print the input as a term the harness evaluates
    let pre := if sp == "tx" || sp == "txsign" then "sha256:" else ""
    match specOf sp, assigns.foldlM parseAssign emptyRec with
    | some spec, some r => pre ++ hex (encode spec r)
    | _, _ => "bad-op"
  | ["mut", sp, f] =>
    match specOf sp with
    | some spec => toString (covers spec f)
    | none => "bad-op"
  | "merkle" :: ws => merkleOp ws
  | "rmk" :: ws => receiptOp "rmk" ws
  | "rst" :: ws => receiptOp "rst" ws
  | "rus" :: ws => receiptOp "rus" ws
  | "rsm" :: ws => receiptOp "rsm" ws
  | "rsu" :: ws => receiptOp "rsu" ws
  | "cidb" :: ws => chainIdOp ("cidb" :: ws)
  | "cidr" :: ws => chainIdOp ("cidr" :: ws)
  | "cidv" :: ws => chainIdOp ("cidv" :: ws)
  | "mkcid" :: ws => chainIdOp ("mkcid" :: ws)
  | "cideq" :: ws => chainIdOp ("cideq" :: ws)
  | "ver" :: ws => hardforkOp ("ver" :: ws)
  | "compat" :: ws => hardforkOp ("compat" :: ws)
  | "fix" :: ws => hardforkOp ("fix" :: ws)
  | "rfmt" :: ws => startupOp ("rfmt" :: ws)
  | "blkid" :: ws => startupOp ("blkid" :: ws)
  | "txval" :: ws => startupOp ("txval" :: ws)
  | "chkhf" :: ws => startupOp ("chkhf" :: ws)
  | _ => "bad-op"

end C19Drv

def main : IO UInt32 := runPure C19Drv.step
