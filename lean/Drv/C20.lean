import Aergo.Model.DriverLib
import Aergo.Model.HostApi
import Aergo.Gen.HostApi

/-! Model driver for C20: `model-c20 < ops > out`.

There is no implementation to run (the VM does not build here); the operations ask the *Lean side* what it
concludes from the regenerated IR, and `./check` diffs the answers with what the harness expects
(reviewed expectation table / corpus annotations) and with what the harness' own witness search found.

  cb real|corpus <name>      verdict of the exported callback: pure | guarded | unguarded | missing
  search real|corpus <name>  ok | unguarded   (in the safe set of both modes?)
  cfn <index>                the index-th registered Lua function of the C modules, canonical line
  fact <name>                a generated inventory, canonical line
  ro <callee>                is the callee one of the `ro`-classified functions of the state API that the analysed
                             code calls (the harness drives those on the real code: `unchanged`)
-/
open Aergo Aergo.DriverLib Aergo.HostApi

structure C20Tables where
  real : List (String × Verdict)
  corpus : List (String × Verdict)
  cfns : Array CLuaFn

def c20Tables : C20Tables :=
  { real := Gen.HostApi.program.verdicts, corpus := Gen.HostApi.corpus.verdicts, cfns := Gen.HostApi.cLuaFns.toArray }

def c20Verdict (t : C20Tables) (set name : String) : Option Verdict :=
  match set with
  | "real" => some ((t.real.lookup name).getD .missing)
  | "corpus" => some ((t.corpus.lookup name).getD .missing)
  | _ => none

def c20Pairs (l : List (String × String)) : String :=
  " ".intercalate (l.map fun (a, b) => a.replace " " "_" ++ "=" ++ b.replace " " "_")

def c20Triples (l : List (String × String × String)) : String :=
  " ".intercalate (l.map fun (a, b, c) => a.replace " " "_" ++ "=" ++ b.replace " " "_" ++ "=" ++ c.replace " " "_")

def c20Cmp : CCmp → String
  | .gt k => s!"gt{k}" | .ge k => s!"ge{k}" | .ne k => s!"ne{k}" | .truthy => "truthy" | .other => "other"

def c20Guards (f : CLuaFn) : String :=
  ",".intercalate (f.guards.map fun g => s!"{g.call}:{c20Cmp g.cmp}:{if g.raises then "raise" else "noraise"}")

/-- `ro <callee>`: is the callee among the reads of the state API that the analysed code calls? -/
def c20Ro (name : String) : String :=
  if Gen.HostApi.roCallees.contains name then "unchanged" else "not-referenced"

def c20Fact (name : String) : Option String :=
  match name with
  | "flagForeign" => some (c20Pairs Gen.HostApi.flagForeign)
  | "ctxArgs" => some (c20Triples Gen.HostApi.ctxArgs)
  | "isViewWrites" => some (c20Pairs Gen.HostApi.isViewWrites)
  | "sqlOpens" => some (" ".intercalate (Gen.HostApi.sqlOpens.map fun (a, b, _, d) => a ++ "=" ++ b ++ "=" ++ d))
  | "sqlExecs" => some (c20Triples Gen.HostApi.sqlExecs)
  | "ifaceImpls" => some (c20Triples Gen.HostApi.ifaceImpls)
  | "flagBranches" => some (c20Triples Gen.HostApi.flagBranches)
  | "roCallees" => some (" ".intercalate Gen.HostApi.roCallees)
  | "checkViewRet" => some (" ".intercalate (Gen.HostApi.checkViewRet.map (·.replace " " "_")))
  | "refuseExempt" => some (" ".intercalate (Gen.HostApi.refuseExempt.map (·.1)))
  | "cErrChecks" => some (" ".intercalate (Gen.HostApi.cErrChecks.map fun (a, b, c, d) => a ++ "=" ++ b ++ "=" ++ c.replace " " "_" ++ "=" ++ d))
  | "sqlReadonly" => some (c20Pairs Gen.HostApi.sqlReadonlyFirst ++ " | " ++ c20Pairs Gen.HostApi.sqlReadonlyPragmas)
  | "sqlGateOK" => some s!"{SqlGate.firstOK Gen.HostApi.sqlReadonlyFirst} {SqlGate.pragmasOK Gen.HostApi.sqlReadonlyPragmas}"
  | "cPrepareGates" => some (c20Pairs Gen.HostApi.cPrepareGates)
  | "slotStepTable" =>
    -- the translated index update on every (maxContext, index) with 3 ≤ maxContext ≤ 9, 1 ≤ index < maxContext
    some (" ".intercalate ((List.range 7).flatMap fun dm =>
      let m : Int := Int.ofNat (dm + 3)
      (List.range (dm + 2)).map fun di =>
        let i : Int := Int.ofNat (di + 1)
        s!"{m}:{i}>{Gen.HostApi.slotStep m i}"))
  | "slotFacts" => some (s!"init={Gen.HostApi.slotInit} translated={Gen.HostApi.slotStepTranslated} " ++
      c20Triples Gen.HostApi.ctxSlotWrites ++ " | " ++ c20Pairs Gen.HostApi.ctxServiceWrites ++ " | " ++
      c20Pairs Gen.HostApi.lastQueryIndexWrites ++ " | " ++ c20Pairs Gen.HostApi.slotCallers)
  | "refuseOK" => some (toString Gen.HostApi.program.refuseOK)
  | "viewBracket" =>
    some (match Gen.HostApi.program.fns.find? (·.name == "executor.call") with
      | some fn => (match fn.atomIdx? "executor.isView" with
        | some a => toString (bracketFirst Gen.HostApi.program a fn.body)
        | none => "no-isView-test")
      | none => "missing")
  | "isViewSet" =>
    some (match Gen.HostApi.program.fns.find? (·.name == "newExecutor") with
      | some fn => (match fn.body.dropFinalRet with
        | some init => toString (init.emitsOnNormal .viewSet)
        | none => "no-final-return")
      | none => "missing")
  | "viewWrites" => some (c20Pairs Gen.HostApi.viewWrites)
  | "queryWrites" => some (c20Pairs Gen.HostApi.queryWrites)
  | "queryCtxLits" => some (c20Pairs Gen.HostApi.queryCtxLits)
  | "guardWhen" => some (c20Pairs Gen.HostApi.guardWhen)
  | "queryOnly" => some (c20Pairs Gen.HostApi.queryOnly)
  | "viewOnly" => some (c20Pairs Gen.HostApi.viewOnly)
  | "reenterSites" => some (c20Pairs Gen.HostApi.reenterSites)
  | "ctxBuilders" => some (c20Pairs Gen.HostApi.ctxBuilders)
  | "internalCallers" => some (c20Pairs Gen.HostApi.cInternalCallers)
  | "fnPtrWiring" => some (c20Pairs Gen.HostApi.cFnPtrWiring)
  | "unknownSinks" => some (toString Gen.HostApi.unknownSinks.length)
  | "unsupported" => some (toString Gen.HostApi.unsupported.length)
  | "stateApiUnclassified" => some (toString Gen.HostApi.stateApiUnclassified.length)
  | "counts" => some s!"fns={Gen.HostApi.program.fns.length} exported={(Gen.HostApi.program.fns.filter (·.exported)).length} corpus={(Gen.HostApi.corpus.fns.filter (·.exported)).length} cfns={Gen.HostApi.cLuaFns.length}"
  | _ => none

def c20Step (t : C20Tables) (line : String) : String :=
  match words line with
  | ["cb", set, name] =>
    match c20Verdict t set name with
    | some v => v.toString
    | none => "bad-op"
  | ["search", set, name] =>
    match c20Verdict t set name with
    | some .unguarded => "unguarded"
    | some .missing => "missing"
    | some _ => "ok"
    | none => "bad-op"
  | ["cfn", i] =>
    match i.toNat? with
    | some i =>
      match t.cfns[i]? with
      | some f =>
        s!"{f.file} {f.table}.{f.luaName} cfunc={f.cfunc.replace " " "_"} callbacks=[{",".intercalate f.callbacks}] sqlstep={f.sqlStep} guards=[{c20Guards f}] stopsview={f.viewGuarded}"
      | none => "none"
    | none => "bad-op"
  | ["fact", name] => (c20Fact name).getD "bad-op"
  | ["ro", name] => c20Ro name
  | _ => "bad-op"

def main : IO UInt32 :=
  let t := c20Tables
  run t (fun t l => (t, c20Step t l))
