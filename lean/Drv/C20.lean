import Aergo.Model.DriverLib
import Aergo.Model.HostApi
import Aergo.Gen.HostApi

/-! Model driver for C20: `model-c20 < ops > out`.

There is no implementation to run (the VM does not build here); the operations ask the *Lean side* what it
concludes from the regenerated IR, and `./check` diffs the answers with what the harness expects
(reviewed expectation table / corpus annotations) and with what the harness' own witness search found.

  cb real|corpus <name>      verdict of the exported callback: pure | guarded | unguarded | missing
  search real|corpus <name>  ok | unguarded   (in the safe set of both modes?)
  cfn <index>                the index-th registered Lua function of the C modules, canonical line
  fact <name>                a generated inventory, canonical line
-/
open Aergo Aergo.DriverLib Aergo.HostApi

structure C20Tables where
  real : List (String × Verdict)
  corpus : List (String × Verdict)
  cfns : Array CLuaFn

def c20Tables : C20Tables :=
  { real := Gen.HostApi.program.verdicts, corpus := Gen.HostApi.corpus.verdicts, cfns := Gen.HostApi.cLuaFns.toArray }

def c20Verdict (t : C20Tables) (set name : String) : Option Verdict :=
  match set with
  | "real" => some ((t.real.lookup name).getD .missing)
  | "corpus" => some ((t.corpus.lookup name).getD .missing)
  | _ => none

def c20Pairs (l : List (String × String)) : String :=
  " ".intercalate (l.map fun (a, b) => a.replace " " "_" ++ "=" ++ b.replace " " "_")

def c20Fact (name : String) : Option String :=
  match name with
  | "viewWrites" => some (c20Pairs Gen.HostApi.viewWrites)
  | "queryWrites" => some (c20Pairs Gen.HostApi.queryWrites)
  | "queryCtxLits" => some (c20Pairs Gen.HostApi.queryCtxLits)
  | "guardWhen" => some (c20Pairs Gen.HostApi.guardWhen)
  | "queryOnly" => some (c20Pairs Gen.HostApi.queryOnly)
  | "viewOnly" => some (c20Pairs Gen.HostApi.viewOnly)
  | "reenterSites" => some (c20Pairs Gen.HostApi.reenterSites)
  | "ctxBuilders" => some (c20Pairs Gen.HostApi.ctxBuilders)
  | "internalCallers" => some (c20Pairs Gen.HostApi.cInternalCallers)
  | "fnPtrWiring" => some (c20Pairs Gen.HostApi.cFnPtrWiring)
  | "unknownSinks" => some (toString Gen.HostApi.unknownSinks.length)
  | "unsupported" => some (toString Gen.HostApi.unsupported.length)
  | "stateApiUnclassified" => some (toString Gen.HostApi.stateApiUnclassified.length)
  | "counts" => some s!"fns={Gen.HostApi.program.fns.length} exported={(Gen.HostApi.program.fns.filter (·.exported)).length} corpus={(Gen.HostApi.corpus.fns.filter (·.exported)).length} cfns={Gen.HostApi.cLuaFns.length}"
  | _ => none

def c20Step (t : C20Tables) (line : String) : String :=
  match words line with
  | ["cb", set, name] =>
    match c20Verdict t set name with
    | some v => v.toString
    | none => "bad-op"
  | ["search", set, name] =>
    match c20Verdict t set name with
    | some .unguarded => "unguarded"
    | some .missing => "missing"
    | some _ => "ok"
    | none => "bad-op"
  | ["cfn", i] =>
    match i.toNat? with
    | some i =>
      match t.cfns[i]? with
      | some f =>
        s!"{f.file} {f.table}.{f.luaName} cfunc={f.cfunc.replace " " "_"} callbacks=[{",".intercalate f.callbacks}] sqlstep={f.sqlStep} guards=[{",".intercalate f.guardsBeforeStep}]"
      | none => "none"
    | none => "bad-op"
  | ["fact", name] => (c20Fact name).getD "bad-op"
  | _ => "bad-op"

def main : IO UInt32 :=
  let t := c20Tables
  run t (fun t l => (t, c20Step t l))
