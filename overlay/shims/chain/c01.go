//go:build verif

package chain

// Verification shim for properties C01 (ledger conservation) and C03 (transaction atomicity).
// Add-only. No logic of its own: it wires the real pieces the way newBlockExecutor does and calls
// the real unexported functions.

import (
	"context"

	"github.com/aergoio/aergo/v2/config"
	"github.com/aergoio/aergo/v2/consensus"
	"github.com/aergoio/aergo/v2/contract"
	"github.com/aergoio/aergo/v2/state"
	"github.com/aergoio/aergo/v2/types"
)

// VerifC01SetPublic sets what IsPublic() reports (initChainParams: pubNet = genesis.ID.PublicNet).
func VerifC01SetPublic(b bool) { pubNet = b }

// VerifC01ExecuteTx is the bare executeTx (no snapshot / rollback around it).
func VerifC01ExecuteTx(ccc consensus.ChainConsensusCluster, bs *state.BlockState, tx types.Transaction, bi *types.BlockHeaderInfo, mode int) error {
	return executeTx(context.Background(), ccc, nil, bs, tx, bi, mode)
}

// VerifC01RunBlock runs the real blockExecutor.execute() on a received block, wired as
// newBlockExecutor wires it for bState == nil (fresh BlockState on the state DB's current root,
// NewTxExecutor in chain-service mode, ValidatePost of a real BlockValidator, commit unless
// verifyOnly), minus the signature pre-verification (ValidateBlock / WaitVerifyDone), which needs the
// actor system. It returns execute()'s error and the BlockState it ran on.
func VerifC01RunBlock(sdb *state.ChainStateDB, ccc consensus.ChainConsensusCluster, block *types.Block,
	gasPrice func(*state.BlockState), hf types.BlockVersionner, verbose, verifyOnly bool) (*state.BlockState, error) {
	bState := state.NewBlockState(
		sdb.OpenNewStateDB(sdb.GetRoot()),
		state.SetPrevBlockHash(block.GetHeader().GetPrevBlockHash()),
	)
	bi := types.NewBlockHeaderInfo(block)
	exec := NewTxExecutor(context.Background(), ccc, nil, bi, contract.ChainService)
	gasPrice(bState)
	bState.Receipts().SetHardFork(hf, block.BlockNo())
	bv := &BlockValidator{sdb: sdb, verbose: verbose}
	ex := &blockExecutor{
		BlockState:      bState,
		sdb:             sdb,
		execTx:          exec,
		txs:             block.GetBody().GetTxs(),
		coinbaseAccount: block.GetHeader().GetCoinbaseAccount(),
		validatePost: func() error {
			return bv.ValidatePost(bState.GetRoot(), bState.Receipts(), block)
		},
		commitOnly: false,
		verifyOnly: verifyOnly,
		bi:         bi,
	}
	return bState, ex.execute()
}

// VerifC01ValidateHeader is BlockValidator.ValidateHeader (refuses a block whose state root already exists).
func VerifC01ValidateHeader(sdb *state.ChainStateDB, block *types.Block) error {
	bv := &BlockValidator{sdb: sdb}
	return bv.ValidateHeader(block.GetHeader())
}

// VerifC01Node is the part of a ChainService the REAL newBlockExecutor reads: the state DB, the consensus
// object handed to the tx executor, the hardfork configuration and a real BlockValidator (header check, tx
// root check, signature verification by the real SignVerifier workers; the mempool short-cut is switched
// off as during sync, because there is no actor system). Nothing else of the service is started.
func VerifC01Node(sdb *state.ChainStateDB, cc consensus.ChainConsensus, hf *config.HardforkConfig, verbose bool) *ChainService {
	cs := &ChainService{ChainConsensus: cc, Core: &Core{sdb: sdb}, cfg: &config.Config{Hardfork: hf}}
	cs.validator = NewBlockValidator(nil, sdb, verbose)
	cs.validator.signVerifier.SetSkipMempool(true)
	return cs
}

// VerifC01StopNode stops the validator's signature workers.
func VerifC01StopNode(cs *ChainService) { cs.validator.Stop() }

// VerifC01ExecBlock is what ChainService.executeBlock does with a block received from the network, up to
// and including the commit: the real newBlockExecutor (ValidateBlock incl. signature verification of every
// transaction, fresh BlockState on the current root, NewTxExecutor, reward wiring from the block header,
// ValidatePost) and blockExecutor.execute. Returns the BlockState it ran on and the error.
func VerifC01ExecBlock(cs *ChainService, block *types.Block, verifyOnly bool) (*state.BlockState, error) {
	ex, err := newBlockExecutor(cs, nil, block, verifyOnly)
	if err != nil {
		return nil, err
	}
	return ex.BlockState, ex.execute()
}

// VerifC01VerifyTx is the block verifier's own signature check of one transaction (SignVerifier.verifyTx
// without the mempool short-cut) against the state DB's current state: nil iff a block carrying the
// transaction passes signature verification on this node.
func VerifC01VerifyTx(cs *ChainService, tx *types.Tx) error {
	_, err := cs.validator.signVerifier.verifyTx(nil, tx, false)
	return err
}
