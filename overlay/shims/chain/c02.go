//go:build verif

package chain

// Verification shim for property C02 (deterministic execution; harness c02). Add-only: every function
// forwards to the real unexported entry point or reads a field; no logic is copied.

import (
	"github.com/aergoio/aergo/v2/state"
	"github.com/aergoio/aergo/v2/types"
)

// VerifC02AddBlock is ChainService.addBlock: with bstate == nil the block is validated and re-executed
// (a block received from the network); with the producer's block state it is only post-validated and
// committed (what ConnectBlock asks the chain service to do for a block this node produced).
func VerifC02AddBlock(cs *ChainService, blk *types.Block, bstate *state.BlockState, peer types.PeerID) error {
	return cs.addBlock(blk, bstate, peer)
}

// VerifC02VerifyExec is the verify-only validator path (ChainService.verifyBlock up to, and without, the
// final SetRoot): the real newBlockExecutor on a state DB opened at the node's current root (the parent of
// blk) and the real blockExecutor.execute (tx loop, block reward, Update, ValidatePost; no commit). It
// returns what the executor computed so that the harness can compare bytes.
func VerifC02VerifyExec(cs *ChainService, blk *types.Block) (root []byte, receipts *types.Receipts, err error) {
	ex, err := newBlockExecutor(cs, nil, blk, true)
	if err != nil {
		return nil, nil, err
	}
	err = ex.execute()
	return ex.BlockState.GetRoot(), ex.BlockState.Receipts(), err
}

// VerifC02VerifyExecState is VerifC02VerifyExec returning the executor's block state as well (the harness reads
// account balances from it: who was paid the block reward).
func VerifC02VerifyExecState(cs *ChainService, blk *types.Block) (bs *state.BlockState, err error) {
	ex, err := newBlockExecutor(cs, nil, blk, true)
	if err != nil {
		return nil, err
	}
	err = ex.execute()
	return ex.BlockState, err
}

// VerifC02SetSkipMempool switches the tx sign verifier to "sync" mode (no mempool actor lookups);
// signatures are then verified with the real key.VerifyTx.
func VerifC02SetSkipMempool(cs *ChainService, v bool) { cs.setSkipMempool(v) }

// VerifC02GetReceipts is the query "receipts of the block with this hash".
func VerifC02GetReceipts(cs *ChainService, blockHash []byte) (*types.Receipts, error) {
	return cs.getReceipts(blockHash)
}

// VerifC02SetCoinbase sets the package-level coinbase account (chain.Init reads it from the config). Kept for
// compatibility; harness c02 now configures it through the node's config and assigns the exported variable.
func VerifC02SetCoinbase(a []byte) { CoinbaseAccount = a }

// VerifC02CommitProduced is what the chain service does with a block this node produced, minus the chain DB
// (block store, best-block index): newBlockExecutor with the producer's block state (commitOnly) and execute
// (ValidatePost, BlockState.Commit, ChainStateDB.UpdateRoot). Used for "time-warp" sessions whose block
// numbers jump (the staking/voting delays are 86400 blocks), which the chain DB would refuse to index.
func VerifC02CommitProduced(cs *ChainService, blk *types.Block, bstate *state.BlockState) error {
	ex, err := newBlockExecutor(cs, bstate, blk, false)
	if err != nil {
		return err
	}
	return ex.execute()
}

// VerifC02ExecCommit is the validator path with commit, minus the chain DB: newBlockExecutor without a block
// state and execute (tx loop, reward, Update, ValidatePost, Commit, UpdateRoot).
func VerifC02ExecCommit(cs *ChainService, blk *types.Block) error {
	ex, err := newBlockExecutor(cs, nil, blk, false)
	if err != nil {
		return err
	}
	return ex.execute()
}
