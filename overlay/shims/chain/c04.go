//go:build verif

package chain

import (
	"context"

	"github.com/aergoio/aergo/v2/consensus"
	"github.com/aergoio/aergo/v2/state"
	"github.com/aergoio/aergo/v2/types"
)

// Shim for C04 (harness c04): handles to the unexported entry points of a real ChainService that
// the authorisation / replay-protection harness drives or observes. Every function only calls the
// real code or reads a field; no logic is copied.

// VerifC04AddBlock submits a block the way ChainManager.Receive does for a block received from the
// network (no block state): the real ChainService.addBlock, synchronously.
func VerifC04AddBlock(cs *ChainService, blk *types.Block, peer types.PeerID) error {
	return cs.addBlock(blk, nil, peer)
}

// VerifC04SetSkipMempool switches the sign verifier between "sync" mode (true: no mempool lookups)
// and normal mode (false: a tx whose hash is in the mempool is not verified again).
func VerifC04SetSkipMempool(cs *ChainService, v bool) { cs.setSkipMempool(v) }

// VerifC04VerifyTx is the block-level signature check of one transaction (signVerifier.verifyTx),
// with or without the mempool lookup.
func VerifC04VerifyTx(cs *ChainService, tx *types.Tx, useMempool bool) (hit bool, err error) {
	sv := cs.validator.signVerifier
	return sv.verifyTx(sv.comm, tx, useMempool)
}

// VerifC04VerifyState reads the block validator's sign-verification bookkeeping (isNeedWait, number
// of results sitting in the result channel). Observation only.
func VerifC04VerifyState(cs *ChainService) (needWait bool, pending int) {
	return cs.validator.isNeedWait, len(cs.validator.signVerifier.resultCh)
}

// VerifC04ExecuteTx is the bare executeTx (no snapshot / rollback around it).
func VerifC04ExecuteTx(ccc consensus.ChainConsensusCluster, bs *state.BlockState, tx types.Transaction, bi *types.BlockHeaderInfo, mode int) error {
	return executeTx(context.Background(), ccc, nil, bs, tx, bi, mode)
}

// VerifC04SDB is the state DB of a Core (the harness' block producer commits block states into it).
func (core *Core) VerifC04SDB() *state.ChainStateDB { return core.sdb }

// VerifC04ReorgCause unwraps the error a failed reorganisation is reported with (ErrReorg.err); nil if e is not one.
func VerifC04ReorgCause(e error) error {
	if r, ok := e.(*ErrReorg); ok {
		return r.err
	}
	return nil
}

// VerifC04AddOwnBlock submits a block the way ChainManager.Receive does for message.AddBlock sent by the node's own
// block factory (consensus/chain.ConnectBlock): with the block state the factory executed the transactions on.
func VerifC04AddOwnBlock(cs *ChainService, blk *types.Block, bstate *state.BlockState) error {
	return cs.addBlock(blk, bstate, "")
}
