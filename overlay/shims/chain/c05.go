//go:build verif

package chain

import (
	"github.com/aergoio/aergo-lib/db"
	"github.com/aergoio/aergo/v2/state"
	"github.com/aergoio/aergo/v2/types"
)

// Shim for C05/C07 (harness c05): handles to the unexported entry points and stores of a real
// ChainService. Every function only calls the real code or reads a field; no logic is copied.

// VerifC05AddBlock submits a block the way ChainManager.Receive does for a block received from the
// network (no block state): the real ChainService.addBlock, synchronously.
func VerifC05AddBlock(cs *ChainService, blk *types.Block, peer types.PeerID) error {
	return cs.addBlock(blk, nil, peer)
}

// VerifC05SetSkipMempool switches the sign verifier to "sync" mode (no mempool lookups, which
// would need a running mempool actor); signatures are then verified with the real key.VerifyTx.
func VerifC05SetSkipMempool(cs *ChainService, v bool) { cs.setSkipMempool(v) }

// VerifC05SetErrBlocksCap sets the capacity the next NewChainService gives to its bad-block LRU.
func VerifC05SetErrBlocksCap(n int) (old int) {
	old = dfltErrBlocks
	dfltErrBlocks = n
	return old
}

// VerifC05Store is the chain DB's key/value store (raw key scan).
func VerifC05Store(cs *ChainService) db.DB { return cs.cdb.store }

// VerifC05GetTx is the query "transaction by hash" as the chain worker answers it.
func VerifC05GetTx(cs *ChainService, h []byte) (*types.Tx, *types.TxIdx, error) { return cs.getTx(h) }

// VerifC05GetReceipt is the query "receipt by transaction hash".
func VerifC05GetReceipt(cs *ChainService, h []byte) (*types.Receipt, error) { return cs.getReceipt(h) }

// VerifC05GetReceipts is the query "receipts of the block with this hash".
func VerifC05GetReceipts(cs *ChainService, blockHash []byte) (*types.Receipts, error) {
	return cs.getReceipts(blockHash)
}

// VerifC05GetBlockByNo is the query "block by number".
func VerifC05GetBlockByNo(cs *ChainService, no types.BlockNo) (*types.Block, error) {
	return cs.getBlockByNo(no)
}

// VerifC05HasReceipts reports whether a receipts record exists under (blockHash, blockNo).
func VerifC05HasReceipts(cs *ChainService, blockHash []byte, no types.BlockNo) bool {
	return cs.cdb.checkExistReceipts(blockHash, no)
}

// VerifC05HasMarker reports whether a reorganisation marker is stored.
func VerifC05HasMarker(cs *ChainService) bool {
	m, err := cs.cdb.getReorgMarker()
	return m != nil || err != nil
}

// VerifC05LatestNo is the cached latest block number of the chain DB.
func VerifC05LatestNo(cs *ChainService) types.BlockNo { return cs.cdb.getBestBlockNo() }

// VerifC05Orphans lists the orphan pool: for every occupied slot the parent id (key) and the parked
// block, plus the counter and the keys of the eviction list from oldest to newest.
func VerifC05Orphans(cs *ChainService) (slots map[types.BlockID]*types.Block, cur int, max int, order []types.BlockID) {
	slots = map[types.BlockID]*types.Block{}
	for k, v := range cs.op.cache {
		slots[k] = v.Block
	}
	for _, k := range cs.op.lru.Keys() {
		order = append(order, k.(types.BlockID))
	}
	return slots, cs.op.curCnt, cs.op.maxCnt, order
}

// VerifC05ErrBlocks lists the ids in the bad-block cache from oldest to newest.
func VerifC05ErrBlocks(cs *ChainService) (ids []types.BlockID) {
	for _, k := range cs.errBlocks.Keys() {
		ids = append(ids, types.BlockID(k.(types.HashID)))
	}
	return ids
}

// VerifC05SDB is the state DB of a Core (the harness' block producer commits block states into it).
func (core *Core) VerifC05SDB() *state.ChainStateDB { return core.sdb }

// VerifC05VerifyState reads the block validator's sign-verification bookkeeping: whether a started
// verification has not been waited for (isNeedWait) and how many results sit in the result channel.
// The harness uses it only to wait until the verifier goroutines are idle before it stops a node.
func VerifC05VerifyState(cs *ChainService) (needWait bool, pending int) {
	return cs.validator.isNeedWait, len(cs.validator.signVerifier.resultCh)
}

// VerifC05ErrBlock returns the block the bad-block cache holds under this id (nil if none); Peek does not touch recency.
func VerifC05ErrBlock(cs *ChainService, id types.BlockID) *types.Block {
	if v, ok := cs.errBlocks.Peek(types.HashID(id)); ok {
		if b, ok := v.(*types.Block); ok {
			return b
		}
	}
	return nil
}

// VerifC05AddOwnBlock submits a block the way ChainManager.Receive does for a block the node's own block
// factory produced (message.AddBlock with the block state the producer executed the transactions on).
func VerifC05AddOwnBlock(cs *ChainService, blk *types.Block, bstate *state.BlockState) error {
	return cs.addBlock(blk, bstate, "")
}

// VerifC05GetReceiptsByNo is the query "receipts of the block at this height".
func VerifC05GetReceiptsByNo(cs *ChainService, no types.BlockNo) (*types.Receipts, error) {
	return cs.getReceiptsByNo(no)
}

// VerifC05ListEvents is the query "events matching this filter".
func VerifC05ListEvents(cs *ChainService, filter *types.FilterInfo) ([]*types.Event, error) {
	return cs.listEvents(filter)
}

// VerifC05InternalOps is the query "internal operations of the block at this height".
func VerifC05InternalOps(cs *ChainService, no types.BlockNo) (string, error) {
	return cs.getInternalOperations(no)
}
