//go:build verif

package chain

import (
	"github.com/aergoio/aergo-actor/actor"
	"github.com/aergoio/aergo-lib/db"
	"github.com/aergoio/aergo/v2/state"
	"github.com/aergoio/aergo/v2/types"
)

// Shim for C06 (harness c06, crash recovery): handles to unexported entry points and stores of a real
// ChainService / ChainDB. Every function only calls the real code or reads/sets a field; no logic is copied.

// VerifC06AddBlock submits a block the way ChainManager.Receive does for a block received from the
// network (no block state): the real ChainService.addBlock, synchronously.
func VerifC06AddBlock(cs *ChainService, blk *types.Block, peer types.PeerID) error {
	return cs.addBlock(blk, nil, peer)
}

// VerifC06SetSkipMempool switches the sign verifier to "sync" mode (no mempool actor needed).
func VerifC06SetSkipMempool(cs *ChainService, v bool) { cs.setSkipMempool(v) }

// VerifC06WrapStores replaces the chain DB's and the state DB's key/value stores of a booted chain
// service by wrappers (the harness' journaling store) around the very stores it booted on.
func VerifC06WrapStores(cs *ChainService, wrapChain, wrapState func(db.DB) db.DB) {
	cs.cdb.store = wrapChain(cs.cdb.store)
	cs.sdb.VerifC06WrapStore(wrapState)
}

// VerifC06ChainDBOn returns a fresh ChainDB object on an existing store and runs the real Init on it
// (loadChainData + recover → ReorgMarker.RecoverChainMapping): the chain-DB half of a node restart,
// returning its error instead of exiting the process. store must be non-nil; Init then skips db.NewDB.
func VerifC06ChainDBOn(store db.DB) (*ChainDB, error) {
	cdb := NewChainDB()
	cdb.store = store
	if err := cdb.Init("memorydb", "", nil); err != nil {
		return nil, err
	}
	return cdb, nil
}

// VerifC06Store is the chain DB's key/value store (raw key scan).
func VerifC06Store(cs *ChainService) db.DB { return cs.cdb.store }

// VerifC06GetTx is the query "transaction by hash" as the chain worker answers it.
func VerifC06GetTx(cs *ChainService, h []byte) (*types.Tx, *types.TxIdx, error) { return cs.getTx(h) }

// VerifC06GetReceipts is the query "receipts of the block with this hash".
func VerifC06GetReceipts(cs *ChainService, blockHash []byte) (*types.Receipts, error) {
	return cs.getReceipts(blockHash)
}

// VerifC06GetBlockByNo is the query "block by number".
func VerifC06GetBlockByNo(cs *ChainService, no types.BlockNo) (*types.Block, error) {
	return cs.getBlockByNo(no)
}

// VerifC06LatestNo is the cached latest block number of the chain DB.
func VerifC06LatestNo(cs *ChainService) types.BlockNo { return cs.cdb.getBestBlockNo() }

// VerifC06Marker decodes the stored reorganisation marker with the real getter.
// present=false: no marker; err != nil: a marker record exists but does not decode.
func VerifC06Marker(cs *ChainService) (start, best, top []byte, present bool, err error) {
	m, err := cs.cdb.getReorgMarker()
	if err != nil {
		return nil, nil, nil, true, err
	}
	if m == nil {
		return nil, nil, nil, false, nil
	}
	return m.BrStartHash, m.BrBestHash, m.BrTopHash, true, nil
}

// VerifC06SDB is the state DB of a Core (the harness' block producer commits block states into it).
func (core *Core) VerifC06SDB() *state.ChainStateDB { return core.sdb }

// verifC06Ctx is the part of actor.Context that ChainService.Receive uses for the messages it answers itself
// (Message, Respond, Sender); every other method is the nil embedded interface.
type verifC06Ctx struct {
	actor.Context
	msg  interface{}
	resp interface{}
}

func (c *verifC06Ctx) Message() interface{}  { return c.msg }
func (c *verifC06Ctx) Respond(r interface{}) { c.resp = r }
func (c *verifC06Ctx) Sender() *actor.PID    { return nil }

// VerifC06Receive hands one actor message to the real ChainService.Receive — the production entry point,
// whose first message triggers the lazy Recover — and returns what Receive responded.
func VerifC06Receive(cs *ChainService, msg interface{}) interface{} {
	c := &verifC06Ctx{msg: msg}
	cs.Receive(c)
	return c.resp
}
