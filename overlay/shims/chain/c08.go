//go:build verif

package chain

import (
	"github.com/aergoio/aergo-lib/db"
	"github.com/aergoio/aergo/v2/consensus"
	"github.com/aergoio/aergo/v2/types"
)

// Plumbing for the C08 harness: a real ChainDB on a given store, driven through the same
// ChainDB functions the chain service uses for a main-chain block (addBlock, connectToChain with
// the consensus status saved in the same transaction) and for a reorganisation (swapChainMapping).

// VerifC08ChainDBOn returns a fresh ChainDB object on store and runs the real Init on it.
func VerifC08ChainDBOn(store db.DB) (*ChainDB, error) {
	cdb := NewChainDB()
	cdb.store = store
	if err := cdb.Init("memorydb", "", nil); err != nil {
		return nil, err
	}
	return cdb, nil
}

// VerifC08SetConsensus sets the consensus object whose Save is called with every tip change.
func (cdb *ChainDB) VerifC08SetConsensus(cc consensus.ChainConsensus) { cdb.cc = cc }

// VerifC08AddGenesis stores the genesis block through the real addGenesisBlock.
func (cdb *ChainDB) VerifC08AddGenesis(g *types.Genesis) error { return cdb.addGenesisBlock(g) }

// VerifC08StoreBlock stores a block by hash (chainProcessor.addBlock).
func (cdb *ChainDB) VerifC08StoreBlock(block *types.Block) error {
	tx := cdb.store.NewTx()
	defer tx.Discard()
	if err := cdb.addBlock(tx, block); err != nil {
		return err
	}
	tx.Commit()
	return nil
}

// VerifC08Connect makes block the best block (chainProcessor.connectToChain without the tx index).
func (cdb *ChainDB) VerifC08Connect(block *types.Block) {
	tx := cdb.store.NewTx()
	defer tx.Discard()
	cdb.connectToChain(tx, block, false)
	tx.Commit()
}

// VerifC08SwapChainMapping rewrites the number index to the new branch (top block first), as
// reorganizer.swapChainMapping does.
func (cdb *ChainDB) VerifC08SwapChainMapping(newBlocks []*types.Block) error {
	return cdb.swapChainMapping(newBlocks)
}
