//go:build verif

package chain

import (
	"github.com/aergoio/aergo/v2/state"
	"github.com/aergoio/aergo/v2/types"
)

// Shim for C09 (harness c09chain): handles to unexported entry points of a real ChainService. Every function
// only calls the real code or reads a field; no logic is copied.

// VerifC09AddBlock submits a block the way ChainManager.Receive does for a block received from the network
// (no block state): the real ChainService.addBlock, synchronously.
func VerifC09AddBlock(cs *ChainService, blk *types.Block, peer types.PeerID) error {
	return cs.addBlock(blk, nil, peer)
}

// VerifC09SetSkipMempool switches the sign verifier to "sync" mode (no mempool lookups, which would need a
// running mempool actor).
func VerifC09SetSkipMempool(cs *ChainService, v bool) { cs.setSkipMempool(v) }

// VerifC09SDB is the state DB of a Core (the harness' block producer builds block states on it).
func (core *Core) VerifC09SDB() *state.ChainStateDB { return core.sdb }

// VerifC09GetBlockByNo is the query "main-chain block by number".
func VerifC09GetBlockByNo(cs *ChainService, no types.BlockNo) (*types.Block, error) {
	return cs.getBlockByNo(no)
}

// VerifC09VerifyState reads the block validator's sign-verification bookkeeping (used only to wait until
// the verifier goroutines are idle before a node is stopped).
func VerifC09VerifyState(cs *ChainService) (needWait bool, pending int) {
	return cs.validator.isNeedWait, len(cs.validator.signVerifier.resultCh)
}
