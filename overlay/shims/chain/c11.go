//go:build verif

package chain

import "github.com/aergoio/aergo/v2/state"

// Shim for C11 (harness c11): the real, exported ChainWorker.Receive (the actor that serves GetStateAndProof and
// GetStateQuery to the RPC layer) on a worker that holds nothing but a state DB. No logic copied: the
// harness passes an actor.Context that returns its message and records the response.

// VerifC11Worker returns a ChainWorker whose Core has only the state DB (the two proof messages read nothing else).
func VerifC11Worker(sdb *state.ChainStateDB) *ChainWorker {
	return &ChainWorker{Core: &Core{sdb: sdb}}
}
