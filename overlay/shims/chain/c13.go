//go:build verif

package chain

import "github.com/aergoio/aergo/v2/state"

// Shim for C13 (harness c13chain): read-only handles. No logic.

// VerifC13SDB is the state DB of a Core (the harness' block producer commits the states of the blocks it makes into it).
func (core *Core) VerifC13SDB() *state.ChainStateDB { return core.sdb }

// VerifC13VerifyState reads the block validator's sign-verification bookkeeping (is a started verification still
// un-awaited, how many results sit in the result channel); used only to wait for idle verifier goroutines before Stop.
func VerifC13VerifyState(cs *ChainService) (needWait bool, pending int) {
	return cs.validator.isNeedWait, len(cs.validator.signVerifier.resultCh)
}
