//go:build verif

package chain

// Verification shim for property C14 (admission totality). Add-only: forwards to the real
// unexported executeTx and sets the package-level flag initChainParams sets from the genesis.

import (
	"context"

	"github.com/aergoio/aergo/v2/consensus"
	"github.com/aergoio/aergo/v2/contract"
	"github.com/aergoio/aergo/v2/state"
	"github.com/aergoio/aergo/v2/types"
)

// VerifC14ExecuteTx runs the real block executor step on one transaction (chain-service mode).
func VerifC14ExecuteTx(ccc consensus.ChainConsensusCluster, bs *state.BlockState, tx types.Transaction, bi *types.BlockHeaderInfo) error {
	return executeTx(context.Background(), ccc, nil, bs, tx, bi, contract.ChainService)
}

// VerifC14SetPublic sets what IsPublic() reports (initChainParams: pubNet = genesis.ID.PublicNet).
func VerifC14SetPublic(b bool) { pubNet = b }
