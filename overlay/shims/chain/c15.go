//go:build verif

package chain

// Verification shim for property C15: the real block executor step on one transaction
// (used only to show that a plain transfer to the staking account is executed).

import (
	"context"

	"github.com/aergoio/aergo/v2/consensus"
	"github.com/aergoio/aergo/v2/contract"
	"github.com/aergoio/aergo/v2/state"
	"github.com/aergoio/aergo/v2/types"
)

func VerifC15ExecuteTx(ccc consensus.ChainConsensusCluster, bs *state.BlockState, tx types.Transaction, bi *types.BlockHeaderInfo) error {
	return executeTx(context.Background(), ccc, nil, bs, tx, bi, contract.ChainService)
}

// VerifC15AddBlock is the real ChainService.addBlock: with a block state it is what the chain manager does for a
// block of the node's own block factory (message.AddBlock with Bstate), without one for a block from the network.
func VerifC15AddBlock(cs *ChainService, blk *types.Block, bstate *state.BlockState, peer types.PeerID) error {
	return cs.addBlock(blk, bstate, peer)
}

// VerifC15SetSkipMempool: sign verification without mempool lookups (no mempool actor in the harness).
func VerifC15SetSkipMempool(cs *ChainService, v bool) { cs.setSkipMempool(v) }

// VerifC15HasReceipts reports whether receipts are stored for the block (written after a successful execution of a
// block that carries transactions).
func VerifC15HasReceipts(cs *ChainService, blockHash []byte, no types.BlockNo) bool {
	return cs.cdb.checkExistReceipts(blockHash, no)
}

// The query handlers of the chain worker (what the RPC layer reaches): the property's "observe_at".
func VerifC15QueryVotes(cs *ChainService, id string, n uint32) (*types.VoteList, error) {
	return cs.getVotes(id, n)
}
func VerifC15QueryAccountVote(cs *ChainService, addr []byte) (*types.AccountVoteInfo, error) {
	return cs.getAccountVote(addr)
}
func VerifC15QueryStaking(cs *ChainService, addr []byte) (*types.Staking, error) {
	return cs.getStaking(addr)
}
func VerifC15QueryNameInfo(cs *ChainService, name string, no types.BlockNo) (*types.NameInfo, error) {
	return cs.getNameInfo(name, no)
}
