//go:build verif

package chain

// Verification shim for property C15: the real block executor step on one transaction
// (used only to show that a plain transfer to the staking account is executed).

import (
	"context"

	"github.com/aergoio/aergo/v2/consensus"
	"github.com/aergoio/aergo/v2/contract"
	"github.com/aergoio/aergo/v2/state"
	"github.com/aergoio/aergo/v2/types"
)

func VerifC15ExecuteTx(ccc consensus.ChainConsensusCluster, bs *state.BlockState, tx types.Transaction, bi *types.BlockHeaderInfo) error {
	return executeTx(context.Background(), ccc, nil, bs, tx, bi, contract.ChainService)
}
