//go:build verif

package chain

import (
	"github.com/aergoio/aergo-lib/db"
	"github.com/aergoio/aergo/v2/types"
)

// VerifRaftChainDBOn returns a fresh ChainDB object on an existing store and runs the real
// Init on it (loadChainData + recover): this is what a node restart does to the raft WAL
// holder. store must be non-nil; Init then skips db.NewDB.
func VerifRaftChainDBOn(store db.DB) (*ChainDB, error) {
	cdb := NewChainDB()
	cdb.store = store
	if err := cdb.Init("memorydb", "", nil); err != nil {
		return nil, err
	}
	return cdb, nil
}

// VerifRaftConnectBest connects block as the best block of the chain through the real
// connectToChain in one DB transaction (block store, number index, latest key, in-memory best).
func (cdb *ChainDB) VerifRaftConnectBest(block *types.Block) {
	tx := cdb.store.NewTx()
	defer tx.Discard()
	cdb.connectToChain(tx, block, false)
	tx.Commit()
}

// VerifRaftStore exposes the store so that a restarted ChainDB can be put on it.
func (cdb *ChainDB) VerifRaftStore() db.DB { return cdb.store }
