//go:build verif

package chain

// C17 shims: the real anchor collection (getAnchorsNew) and ancestor lookup (findAncestor) on a
// real ChainDB (memorydb) that the harness fills block by block through the real connectToChain.

import (
	"github.com/aergoio/aergo-lib/db"
	"github.com/aergoio/aergo/v2/types"
)

// VerifC17ChainService returns a ChainService holding nothing but a fresh ChainDB on a memory store.
func VerifC17ChainService() (*ChainService, error) {
	cdb := NewChainDB()
	cdb.store = db.NewDB(db.MemoryImpl, "")
	if err := cdb.Init("memorydb", "", nil); err != nil {
		return nil, err
	}
	return &ChainService{Core: &Core{cdb: cdb}}, nil
}

// VerifC17Connect stores block and makes it the best block of the main chain (real connectToChain).
func (cs *ChainService) VerifC17Connect(block *types.Block) {
	tx := cs.cdb.store.NewTx()
	defer tx.Discard()
	cs.cdb.connectToChain(tx, block, false)
	tx.Commit()
}

// VerifC17AddSide stores a block without touching the main-chain index (a side-branch block).
func (cs *ChainService) VerifC17AddSide(block *types.Block) error {
	tx := cs.cdb.store.NewTx()
	defer tx.Discard()
	if err := cs.cdb.addBlock(tx, block); err != nil {
		return err
	}
	tx.Commit()
	return nil
}

func (cs *ChainService) VerifC17Anchors() (ChainAnchor, types.BlockNo, error) { return cs.getAnchorsNew() }
func (cs *ChainService) VerifC17FindAncestor(hashes [][]byte) (*types.BlockInfo, error) {
	return cs.findAncestor(hashes)
}
