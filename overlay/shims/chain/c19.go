//go:build verif

package chain

import (
	"github.com/aergoio/aergo-lib/db"
	"github.com/aergoio/aergo/v2/config"
	"github.com/aergoio/aergo/v2/state"
	"github.com/aergoio/aergo/v2/types"
)

// Shim for C19 (harness c19chain): handles to the unexported entry points of a real ChainService that pick the
// receipt format height, read the stored genesis / hardfork configuration and run the start-up compatibility check.
// Every function only calls the real code or reads a field; no logic is copied.

// VerifC19AddBlock is the real ChainService.addBlock: with a block state for a block of the node's own block
// factory (message.AddBlock with Bstate), without one for a block received from the network (executed again).
func VerifC19AddBlock(cs *ChainService, blk *types.Block, bstate *state.BlockState, peer types.PeerID) error {
	return cs.addBlock(blk, bstate, peer)
}

// VerifC19SetSkipMempool: sign verification without mempool lookups (no mempool actor in the harness).
func VerifC19SetSkipMempool(cs *ChainService, v bool) { cs.setSkipMempool(v) }

// VerifC19Store is the chain DB's key/value store (the harness rewrites the stored hardfork record the way an
// older / newer release or a damaged disk would have left it).
func VerifC19Store(cs *ChainService) db.DB { return cs.cdb.store }

// The chain worker's receipt queries (what RPC reaches).
func VerifC19GetReceipts(cs *ChainService, blockHash []byte) (*types.Receipts, error) {
	return cs.getReceipts(blockHash)
}
func VerifC19GetReceiptsByNo(cs *ChainService, no types.BlockNo) (*types.Receipts, error) {
	return cs.getReceiptsByNo(no)
}
func VerifC19GetReceipt(cs *ChainService, txHash []byte) (*types.Receipt, error) {
	return cs.getReceipt(txHash)
}

// VerifC19BestNo is the cached latest block number of the chain DB (what checkHardfork compares with).
func VerifC19BestNo(cs *ChainService) types.BlockNo { return cs.cdb.getBestBlockNo() }

// VerifC19CheckHardfork runs the real start-up check ChainService.checkHardfork with c as the node's configured
// hardfork heights (the configuration pointer is put back afterwards).
func VerifC19CheckHardfork(cs *ChainService, c *config.HardforkConfig) error {
	old := cs.cfg.Hardfork
	cs.cfg.Hardfork = c
	defer func() { cs.cfg.Hardfork = old }()
	return cs.checkHardfork()
}

// VerifC19DbHardfork is the real ChainDB.Hardfork: the stored hardfork record as checkHardfork sees it.
func VerifC19DbHardfork(cs *ChainService, c config.HardforkConfig) config.HardforkDbConfig {
	return cs.cdb.Hardfork(c)
}

// VerifC19VerifyState reads the block validator's sign-verification bookkeeping: whether a started verification has
// not been waited for and how many results sit in the result channel. The harness uses it only to wait until the
// verifier goroutines are idle before it stops a node (stopping closes their channels).
func VerifC19VerifyState(cs *ChainService) (needWait bool, pending int) {
	return cs.validator.isNeedWait, len(cs.validator.signVerifier.resultCh)
}
