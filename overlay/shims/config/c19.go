//go:build verif

package config

// VerifC19ForkErrVersion reports the version key carried by a *forkError (ok=false for any other error).
func VerifC19ForkErrVersion(err error) (version string, ok bool) {
	if fe, is := err.(*forkError); is {
		return fe.version, true
	}
	return "", false
}
