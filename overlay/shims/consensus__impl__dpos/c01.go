//go:build verif

package dpos

// Verification shim for property C01: access to the DPoS block-reward decoration.

import (
	"github.com/aergoio/aergo/v2/chain"
	"github.com/aergoio/aergo/v2/state"
)

// VerifC01DecorateBlockReward does what dpos.New does: chain.SendBlockReward becomes
// sendVotingReward followed by sendRewardCoinbase.
func VerifC01DecorateBlockReward() { chain.DecorateBlockRewardFn(sendVotingReward) }

// VerifC01SendVotingReward is the real sendVotingReward.
func VerifC01SendVotingReward(bState *state.BlockState) error { return sendVotingReward(bState, nil) }
