//go:build verif

package dpos

// Verification shim for property C02. Add-only.

import (
	"github.com/aergoio/aergo/v2/chain"
	"github.com/aergoio/aergo/v2/state/statedb"
)

// VerifC02DecorateVotingReward installs the real DPoS block reward (sendVotingReward, then the coinbase
// reward) exactly as dpos.New does.
func VerifC02DecorateVotingReward() { chain.DecorateBlockRewardFn(sendVotingReward) }

// VerifC02InitVPR is dpos.InitVPR (what a booting DPoS node and a reorganisation do).
func VerifC02InitVPR(sdb *statedb.StateDB) error { return InitVPR(sdb) }
