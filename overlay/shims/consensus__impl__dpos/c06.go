//go:build verif

package dpos

// Shim for C06 (harness c06, crash recovery with the real DPoS status): read-only view of a Status.

// VerifC06Lib reports the last irreversible block (hash in the Status' own encoding, number), the number of
// the last block produced by this node and the number of pre-LIB entries of a real Status.
func (s *Status) VerifC06Lib() (hash string, no uint64, lpb uint64, prpsd int) {
	s.RLock()
	defer s.RUnlock()
	if s.libState == nil {
		return "", 0, 0, 0
	}
	if s.libState.Lib != nil {
		hash, no = s.libState.Lib.BlockHash, s.libState.Lib.BlockNo
	}
	return hash, no, s.libState.LpbNo, len(s.libState.Prpsd)
}
