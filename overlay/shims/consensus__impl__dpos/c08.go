//go:build verif

package dpos

import (
	"container/list"
	"sort"

	"github.com/aergoio/aergo/v2/consensus"
	"github.com/aergoio/aergo/v2/types"
)

// Observation and plumbing for the C08 harness (DPoS finality). No logic of the LIB computation
// lives here: every state change goes through the real Status.Update / libStatus functions.

// VerifC08BI mirrors blockInfo.
type VerifC08BI struct {
	Hash  string
	No    uint64
	Range uint64
}

// VerifC08CI mirrors confirmInfo.
type VerifC08CI struct {
	VerifC08BI
	BP   string
	Left uint16
}

// VerifC08PL mirrors one entry of the proposed-LIB map.
type VerifC08PL struct {
	BP   string
	Nil  bool
	Plib VerifC08BI
	By   VerifC08BI
}

// VerifC08Dump is everything Status.Update can observe of a libStatus.
type VerifC08Dump struct {
	LibNil   bool
	Lib      VerifC08BI
	Lpb      uint64
	CR       uint16
	Confirms []VerifC08CI // front to back
	Prpsd    []VerifC08PL // sorted by producer id
	Loaded   bool         // Status.done: the lazily loaded status is in place
	Best     string       // Status.bestBlock id ("" before the first load)
}

func verifC08bi(b *blockInfo) VerifC08BI {
	if b == nil {
		return VerifC08BI{}
	}
	return VerifC08BI{Hash: b.BlockHash, No: b.BlockNo, Range: b.ConfirmRange}
}

func verifC08dump(ls *libStatus) VerifC08Dump {
	d := VerifC08Dump{}
	if ls == nil {
		d.LibNil = true
		return d
	}
	d.LibNil = ls.Lib == nil
	d.Lib = verifC08bi(ls.Lib)
	d.Lpb = ls.LpbNo
	d.CR = ls.confirmsRequired
	if ls.confirms != nil {
		for e := ls.confirms.Front(); e != nil; e = e.Next() {
			c := cInfo(e)
			d.Confirms = append(d.Confirms, VerifC08CI{VerifC08BI: verifC08bi(c.blockInfo), BP: c.bpid, Left: c.confirmsLeft})
		}
	}
	for bp, pl := range ls.Prpsd {
		if pl == nil {
			d.Prpsd = append(d.Prpsd, VerifC08PL{BP: bp, Nil: true})
			continue
		}
		d.Prpsd = append(d.Prpsd, VerifC08PL{BP: bp, Plib: verifC08bi(pl.Plib), By: verifC08bi(pl.PlibBy)})
	}
	sort.Slice(d.Prpsd, func(i, j int) bool { return d.Prpsd[i].BP < d.Prpsd[j].BP })
	return d
}

// VerifC08Dump returns the observable finality status of s.
func (s *Status) VerifC08Dump() VerifC08Dump {
	s.RLock()
	defer s.RUnlock()
	d := verifC08dump(s.libState)
	d.Loaded = s.done
	if s.bestBlock != nil {
		d.Best = s.bestBlock.ID()
	}
	return d
}

// VerifC08LoaderDump returns the status the boot loader restored from the DB (what the first
// Update after a restart will install).
func VerifC08LoaderDump() (VerifC08Dump, bool) {
	if bsLoader == nil || bsLoader.ls == nil {
		return VerifC08Dump{}, false
	}
	return verifC08dump(bsLoader.ls), true
}

// VerifC08NewDPoS wraps a Status into a DPoS object (Save/Update/NeedReorganization/VerifyTimestamp
// are then reached exactly as the chain service reaches them: through consensus.ChainConsensus).
func VerifC08NewDPoS(s *Status, cdb consensus.ChainDB) *DPoS {
	return &DPoS{Status: s, ChainDB: cdb}
}

// VerifC08LibNo is what DPoS.VerifyTimestamp compares block numbers with.
func (s *Status) VerifC08LibNo() types.BlockNo { return s.libNo() }

// VerifC08LpbNo is what the block factory reads when it starts (bsLoader.lpbNo()).
func VerifC08LoaderLpbNo() types.BlockNo { return bsLoader.lpbNo() }

// VerifC08GC calls the real libStatus.gc with a producer list, which is what Status.Update does
// with the list bp.Snapshots.AddSnapshot returns at an election boundary (not driven here: it needs
// a staked/voted state DB), followed by the real setConfirmsRequired.
func (s *Status) VerifC08GC(bps []string, size uint16) {
	s.Lock()
	defer s.Unlock()
	s.libState.gc(bps)
	s.libState.setConfirmsRequired(size)
}

// VerifC08Handle is an opaque copy of the package-level boot loader and of a Status' mutable part,
// so that a harness can simulate several nodes (the package keeps one global boot loader) and can
// branch a search without replaying histories.
type VerifC08Handle struct {
	ls   *libStatus
	best *types.Block
	done bool
	bl   *bootLoader
	same bool // the boot loader's status and the Status' status are one object (after Status.load)
}

func verifC08cloneLS(ls *libStatus) *libStatus {
	if ls == nil {
		return nil
	}
	c := *ls
	c.Prpsd = make(proposed, len(ls.Prpsd))
	for k, v := range ls.Prpsd {
		c.Prpsd[k] = v // plInfo values are never mutated in place
	}
	c.confirms = list.New()
	if ls.confirms != nil {
		for e := ls.confirms.Front(); e != nil; e = e.Next() {
			ci := *cInfo(e) // confirmsLeft is mutated in place: copy the element
			c.confirms.PushBack(&ci)
		}
	}
	return &c
}

// VerifC08Snapshot copies the mutable part of s (and the current global boot loader).
func (s *Status) VerifC08Snapshot() *VerifC08Handle {
	h := &VerifC08Handle{ls: verifC08cloneLS(s.libState), best: s.bestBlock, done: s.done}
	if bsLoader != nil {
		bl := *bsLoader
		bl.ls = verifC08cloneLS(bsLoader.ls)
		h.bl = &bl
		h.same = bsLoader.ls == s.libState
	}
	return h
}

// VerifC08Restore installs a copy of h into s and into the global boot loader.
func (s *Status) VerifC08Restore(h *VerifC08Handle) {
	s.libState = verifC08cloneLS(h.ls)
	s.bestBlock = h.best
	s.done = h.done
	if h.bl != nil {
		bl := *h.bl
		bl.ls = verifC08cloneLS(h.bl.ls)
		if h.same {
			bl.ls = s.libState
		}
		bsLoader = &bl
	}
}

// VerifC08SetLoaderDB points the global boot loader (used by libStatus.load to read stored blocks)
// at the chain DB of the simulated node that is about to run.
func VerifC08SetLoaderDB(cdb consensus.ChainDB) {
	if bsLoader != nil {
		bsLoader.cdb = cdb
	}
}

// VerifC08LoaderBest is the id of the best block the boot loader read from the chain DB.
func VerifC08LoaderBest() string {
	if bsLoader == nil || bsLoader.best == nil {
		return ""
	}
	return bsLoader.best.ID()
}

// VerifC08Dump of a snapshot handle (no Status needed).
func (h *VerifC08Handle) VerifC08Dump() VerifC08Dump {
	d := verifC08dump(h.ls)
	d.Loaded = h.done
	if h.best != nil {
		d.Best = h.best.ID()
	}
	return d
}
