//go:build verif

package dpos

// Verification shim for property C15 (governance accounting at node level): the real block factory step
// (BlockFactory.generateBlock: GatherTXs under the chain lock, voting reward, signature; recover() included) on a
// chosen parent block. No logic is copied.

import (
	"context"

	"github.com/aergoio/aergo/v2/consensus"
	"github.com/aergoio/aergo/v2/consensus/impl/dpos/bp"
	"github.com/aergoio/aergo/v2/consensus/impl/dpos/slot"
	"github.com/aergoio/aergo/v2/state"
	"github.com/aergoio/aergo/v2/types"
)

// VerifC15Generate runs the real generateBlock on top of best for the slot of the time tsNano.
func VerifC15Generate(c consensus.Consensus, best *types.Block, tsNano int64, lpbNo types.BlockNo) (*types.Block, *state.BlockState, error) {
	d := c.(*DPoS)
	bpi := &bpInfo{ChainDB: d.ChainDB, bestBlock: best, slot: slot.NewFromUnixNano(tsNano)}
	return d.bf.generateBlock(context.Background(), bpi, lpbNo)
}

// VerifC15BPs is the producer list the cluster currently holds (what IsBlockValid and the slot schedule use).
func VerifC15BPs(c consensus.Consensus) []string {
	d := c.(*DPoS)
	var out []string
	for i := 0; i < int(d.bpc.Size()); i++ {
		if id, ok := d.bpc.BpIndex2ID(bp.Index(i)); ok {
			out = append(out, types.IDB58Encode(id))
		}
	}
	return out
}

// VerifC15LibNo is the number of the last irreversible block (what VerifyTimestamp and NeedReorganization compare with).
func VerifC15LibNo(c consensus.Consensus) types.BlockNo {
	d := c.(*DPoS)
	if d.Status == nil {
		return 0
	}
	return d.libNo()
}
