//go:build verif

package dpos

// Verification shim for property C19 (harness c19chain): the real block factory step
// (BlockFactory.generateBlock: receipts format height, BlockGenerator.GenerateBlock, SetConfirms, Sign) on a chosen
// parent block. No logic is copied.

import (
	"context"

	"github.com/aergoio/aergo/v2/consensus"
	"github.com/aergoio/aergo/v2/consensus/impl/dpos/bp"
	"github.com/aergoio/aergo/v2/consensus/impl/dpos/slot"
	"github.com/aergoio/aergo/v2/state"
	"github.com/aergoio/aergo/v2/types"
)

// VerifC19Generate runs the real generateBlock on top of best for the slot of the time tsNano.
func VerifC19Generate(c consensus.Consensus, best *types.Block, tsNano int64, lpbNo types.BlockNo) (*types.Block, *state.BlockState, error) {
	d := c.(*DPoS)
	bpi := &bpInfo{ChainDB: d.ChainDB, bestBlock: best, slot: slot.NewFromUnixNano(tsNano)}
	return d.bf.generateBlock(context.Background(), bpi, lpbNo)
}

// VerifC19BPs is the producer list the cluster currently holds.
func VerifC19BPs(c consensus.Consensus) []string {
	d := c.(*DPoS)
	var out []string
	for i := 0; i < int(d.bpc.Size()); i++ {
		if id, ok := d.bpc.BpIndex2ID(bp.Index(i)); ok {
			out = append(out, types.IDB58Encode(id))
		}
	}
	return out
}
