//go:build verif

package dpos

import (
	"github.com/aergoio/aergo/v2/consensus"
	"github.com/aergoio/aergo/v2/consensus/impl/dpos/bp"
)

// VerifNewDPoS returns a DPoS object that has only its producer cluster set: enough for
// IsBlockValid and VerifySign, which read nothing else; VerifyTimestamp sees `dpos.Status == nil`.
func VerifNewDPoS(c *bp.Cluster) *DPoS { return &DPoS{bpc: c} }

// VerifC09NewDPoSLib: the same with a Status whose last irreversible block number is libNo (built by the
// real newLibStatus), so that VerifyTimestamp's second clause is live.
func VerifC09NewDPoSLib(c *bp.Cluster, libNo uint64) *DPoS {
	ls := newLibStatus(c.Size())
	ls.Lib = &blockInfo{BlockNo: libNo}
	return &DPoS{bpc: c, Status: &Status{libState: ls}}
}

// VerifC09NewDPoSStatus wires a Status made by the real NewStatus and the cluster it updates into a DPoS
// object, as dpos.New does (no block factory, no hub).
func VerifC09NewDPoSStatus(c *bp.Cluster, s *Status, cdb consensus.ChainDB) *DPoS {
	return &DPoS{bpc: c, Status: s, ChainDB: cdb}
}

// VerifC09LibNo is the block number VerifyTimestamp compares with.
func (s *Status) VerifC09LibNo() uint64 { return s.libNo() }
