//go:build verif

package dpos

import "github.com/aergoio/aergo/v2/consensus/impl/dpos/bp"

// VerifNewDPoS returns a DPoS object that has only its producer cluster set: enough for
// IsBlockValid, which reads nothing else.
func VerifNewDPoS(c *bp.Cluster) *DPoS { return &DPoS{bpc: c} }
