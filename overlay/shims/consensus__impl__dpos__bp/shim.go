//go:build verif

package bp

import "github.com/aergoio/aergo/v2/types"

// VerifNewCluster builds a Cluster from a producer id list through the real Update.
func VerifNewCluster(ids []string) (*Cluster, error) {
	c := &Cluster{}
	if err := c.Update(ids); err != nil {
		return nil, err
	}
	return c, nil
}

// VerifC09Members lists the producer ids by index (0..Size()-1) through the real BpIndex2ID; an index
// without a member is reported as "".
func (c *Cluster) VerifC09Members() []string {
	n := int(c.Size())
	var out []string
	for i := 0; i < n; i++ {
		if id, ok := c.BpIndex2ID(Index(i)); ok {
			out = append(out, types.IDB58Encode(id))
		} else {
			out = append(out, "")
		}
	}
	return out
}

// VerifC09SnapBlockNo is the real snapBlockNo: the election boundary whose ranking is in force at blockNo.
func VerifC09SnapBlockNo(blockNo uint64) uint64 { return snapBlockNo(blockNo) }
