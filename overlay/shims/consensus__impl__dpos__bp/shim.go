//go:build verif

package bp

// VerifNewCluster builds a Cluster from a producer id list through the real Update.
func VerifNewCluster(ids []string) (*Cluster, error) {
	c := &Cluster{}
	if err := c.Update(ids); err != nil {
		return nil, err
	}
	return c, nil
}
