//go:build verif

package slot

// VerifFields exposes the unexported fields of a Slot to the correspondence harness.
func (s *Slot) VerifFields() (ms, prev, next int64) { return s.timeMs, s.prevIndex, s.nextIndex }

// VerifIntervalMs returns the configured block interval in ms.
func VerifIntervalMs() int64 { return blockIntervalMs }
