//go:build verif

package raftv2

// Verification shim for property C14 (admission totality). Add-only: a BlockFactory that has exactly what the real
// MakeConfChangeProposal reads (the cluster and its raft server), so that the block executor's changeCluster branch
// runs the real makeProposal / validateChangeMembership / isEnableChangeMembership on the admitted request.

// VerifC14Factory wraps a cluster built with VerifNewCluster + VerifSetRaft.
func VerifC14Factory(cl *Cluster) *BlockFactory { return &BlockFactory{bpc: cl, raftServer: cl.rs} }
