//go:build verif

package raftv2

import (
	"context"

	"github.com/aergoio/aergo/v2/consensus"
	"github.com/aergoio/aergo/v2/types"
	raftlib "github.com/aergoio/etcd/raft"
	"github.com/aergoio/etcd/raft/raftpb"
)

// verifNode is a raftlib.Node whose only behaviour is Status(): the raft progress table the
// real raftServer.Status/GetClusterProgress read. Everything else is inert.
type verifNode struct{ st raftlib.Status }

func (n *verifNode) Tick()                                                             {}
func (n *verifNode) Campaign(ctx context.Context) error                                { return nil }
func (n *verifNode) Propose(ctx context.Context, data []byte) error                    { return nil }
func (n *verifNode) ProposeConfChange(ctx context.Context, cc raftpb.ConfChange) error { return nil }
func (n *verifNode) Step(ctx context.Context, msg raftpb.Message) error                { return nil }
func (n *verifNode) Ready() <-chan raftlib.Ready                                       { return nil }
func (n *verifNode) Advance()                                                          {}
func (n *verifNode) ApplyConfChange(cc raftpb.ConfChange) *raftpb.ConfState            { return nil }
func (n *verifNode) TransferLeadership(ctx context.Context, lead, transferee uint64)   {}
func (n *verifNode) ReadIndex(ctx context.Context, rctx []byte) error                  { return nil }
func (n *verifNode) Status() raftlib.Status                                            { return n.st }
func (n *verifNode) ReportUnreachable(id uint64)                                       {}
func (n *verifNode) ReportSnapshot(id uint64, status raftlib.SnapshotStatus)           {}
func (n *verifNode) Stop()                                                             {}

// VerifProgress is one row of the raft progress table handed to the stub node.
type VerifProgress struct {
	ID    uint64
	State int // 0 probe, 1 replicate, 2 snapshot (raftlib.ProgressStateType)
	Match uint64
}

// VerifNewCluster builds a real Cluster through the real addMember/removeMember: every member
// of applied is added as an applied member, every member of removed is added and then removed.
// self is the node id of this node.
func VerifNewCluster(applied, removed []*consensus.Member, self uint64) (*Cluster, error) {
	cl := NewCluster([]byte("verif"), nil, "", "", 0, nil)
	for _, m := range removed {
		c := *m
		if err := cl.addMember(&c, true); err != nil {
			return nil, err
		}
		if err := cl.removeMember(&c); err != nil {
			return nil, err
		}
	}
	for _, m := range applied {
		c := *m
		if err := cl.addMember(&c, true); err != nil {
			return nil, err
		}
	}
	cl.SetNodeID(self)
	return cl, nil
}

// VerifSetRaft attaches a raftServer that has only what Status/GetClusterProgress read: a stub
// node (nil if hasNode is false) with the given status id and progress table, the leader flag,
// and a real MemoryStorage whose last index is lastIdx.
func (cl *Cluster) VerifSetRaft(hasNode bool, statusID uint64, leader bool, lastIdx uint64, prog []VerifProgress) {
	rs := &raftServer{cluster: cl, raftStorage: raftlib.NewMemoryStorage()}
	if lastIdx > 0 {
		if err := rs.raftStorage.ApplySnapshot(raftpb.Snapshot{Metadata: raftpb.SnapshotMetadata{Index: lastIdx, Term: 1}}); err != nil {
			panic(err)
		}
	}
	rs.leaderStatus.IsLeader = leader
	if hasNode {
		st := raftlib.Status{ID: statusID, Progress: map[uint64]raftlib.Progress{}}
		for _, p := range prog {
			st.Progress[p.ID] = raftlib.Progress{Match: p.Match, Next: p.Match + 1, State: raftlib.ProgressStateType(p.State)}
		}
		rs.node = &verifNode{st: st}
	}
	cl.rs = rs
}

// VerifValidate calls the real validateChangeMembership (taking the cluster lock, as the
// raft-log path ValidateConfChangeEntry does). member may be nil.
func (cl *Cluster) VerifValidate(ccType raftpb.ConfChangeType, member *consensus.Member) error {
	var id uint64
	if member != nil {
		id = member.ID
	}
	return cl.validateChangeMembership(&raftpb.ConfChange{ID: 1, Type: ccType, NodeID: id}, member, true)
}

// VerifEnable calls the real isEnableChangeMembership.
func (cl *Cluster) VerifEnable(ccType raftpb.ConfChangeType, nodeID uint64) error {
	return cl.isEnableChangeMembership(&raftpb.ConfChange{ID: 1, Type: ccType, NodeID: nodeID})
}

// VerifMemberHealth returns the real GetClusterProgress verdicts (0 healthy, 1 slow, 2 syncing, 3 unknown) and N.
func (cl *Cluster) VerifMemberHealth() (int, map[uint64]int, error) {
	cp, err := cl.rs.GetClusterProgress()
	if err != nil {
		return 0, nil, err
	}
	out := map[uint64]int{}
	for id, mp := range cp.MemberProgresses {
		out[id] = int(mp.Status)
	}
	return cp.N, out, nil
}

// VerifChangeMembership drives the whole request path of the real ChangeMembership (makeProposal →
// validateChangeMembership → isEnableChangeMembership → submitProposal) without waiting for raft.
// A reader drains the proposal channel, as the raft server loop does.
func (cl *Cluster) VerifChangeMembership(req *types.MembershipChange) error {
	done := make(chan struct{})
	go func() {
		select {
		case <-cl.confChangeC:
		case <-done:
		}
	}()
	_, err := cl.ChangeMembership(req, true)
	close(done)
	return err
}

// VerifMarshalBlock / VerifUnmarshalBlock: the entry payload codec of block entries.
func VerifMarshalBlock(b *types.Block) ([]byte, error)   { return marshalEntryData(b) }
func VerifUnmarshalBlock(d []byte) (*types.Block, error) { return unmarshalEntryData(d) }

// VerifSlowGap is MaxSlowNodeGap.
func VerifSlowGap() uint64 { return MaxSlowNodeGap }
