//go:build verif

package raftv2

import (
	"context"
	"net/http"
	"sort"
	"time"

	"github.com/aergoio/aergo/v2/consensus"
	"github.com/aergoio/aergo/v2/types"
	rtypes "github.com/aergoio/etcd/pkg/types"
	raftlib "github.com/aergoio/etcd/raft"
	"github.com/aergoio/etcd/raft/raftpb"
	"github.com/aergoio/etcd/snap"
)

// verifNode is a raftlib.Node whose only behaviour is Status(): the raft progress table the
// real raftServer.Status/GetClusterProgress read. Everything else is inert.
type verifNode struct{ st raftlib.Status }

func (n *verifNode) Tick()                                                             {}
func (n *verifNode) Campaign(ctx context.Context) error                                { return nil }
func (n *verifNode) Propose(ctx context.Context, data []byte) error                    { return nil }
func (n *verifNode) ProposeConfChange(ctx context.Context, cc raftpb.ConfChange) error { return nil }
func (n *verifNode) Step(ctx context.Context, msg raftpb.Message) error                { return nil }
func (n *verifNode) Ready() <-chan raftlib.Ready                                       { return nil }
func (n *verifNode) Advance()                                                          {}
func (n *verifNode) ApplyConfChange(cc raftpb.ConfChange) *raftpb.ConfState            { return nil }
func (n *verifNode) TransferLeadership(ctx context.Context, lead, transferee uint64)   {}
func (n *verifNode) ReadIndex(ctx context.Context, rctx []byte) error                  { return nil }
func (n *verifNode) Status() raftlib.Status                                            { return n.st }
func (n *verifNode) ReportUnreachable(id uint64)                                       {}
func (n *verifNode) ReportSnapshot(id uint64, status raftlib.SnapshotStatus)           {}
func (n *verifNode) Stop()                                                             {}

// VerifProgress is one row of the raft progress table handed to the stub node.
type VerifProgress struct {
	ID     uint64
	State  int // 0 probe, 1 replicate, 2 snapshot (raftlib.ProgressStateType)
	Match  uint64
	Next   uint64 // 0 = Match + 1
	Active bool   // raft's RecentActive
}

// VerifNewCluster builds a real Cluster through the real addMember/removeMember: every member
// of applied is added as an applied member, every member of removed is added and then removed.
// self is the node id of this node.
func VerifNewCluster(applied, removed []*consensus.Member, self uint64) (*Cluster, error) {
	cl := NewCluster([]byte("verif"), nil, "", "", 0, nil)
	for _, m := range removed {
		c := *m
		if err := cl.addMember(&c, true); err != nil {
			return nil, err
		}
		if err := cl.removeMember(&c); err != nil {
			return nil, err
		}
	}
	for _, m := range applied {
		c := *m
		if err := cl.addMember(&c, true); err != nil {
			return nil, err
		}
	}
	cl.SetNodeID(self)
	return cl, nil
}

// VerifSetRaft attaches a raftServer that has only what Status/GetClusterProgress read: a stub
// node (nil if hasNode is false) with the given status id and progress table, the leader flag,
// and a real MemoryStorage whose last index is lastIdx.
func (cl *Cluster) VerifSetRaft(hasNode bool, statusID uint64, leader bool, lastIdx uint64, prog []VerifProgress) {
	rs := &raftServer{cluster: cl, raftStorage: raftlib.NewMemoryStorage()}
	if lastIdx > 0 {
		if err := rs.raftStorage.ApplySnapshot(raftpb.Snapshot{Metadata: raftpb.SnapshotMetadata{Index: lastIdx, Term: 1}}); err != nil {
			panic(err)
		}
	}
	rs.leaderStatus.IsLeader = leader
	if hasNode {
		st := raftlib.Status{ID: statusID, Progress: map[uint64]raftlib.Progress{}}
		for _, p := range prog {
			next := p.Next
			if next == 0 {
				next = p.Match + 1
			}
			st.Progress[p.ID] = raftlib.Progress{Match: p.Match, Next: next, State: raftlib.ProgressStateType(p.State), RecentActive: p.Active}
		}
		rs.node = &verifNode{st: st}
	}
	cl.rs = rs
}

// VerifValidate calls the real validateChangeMembership (taking the cluster lock, as the
// raft-log path ValidateConfChangeEntry does). member may be nil.
func (cl *Cluster) VerifValidate(ccType raftpb.ConfChangeType, member *consensus.Member) error {
	var id uint64
	if member != nil {
		id = member.ID
	}
	return cl.validateChangeMembership(&raftpb.ConfChange{ID: 1, Type: ccType, NodeID: id}, member, true)
}

// VerifEnable calls the real isEnableChangeMembership.
func (cl *Cluster) VerifEnable(ccType raftpb.ConfChangeType, nodeID uint64) error {
	return cl.isEnableChangeMembership(&raftpb.ConfChange{ID: 1, Type: ccType, NodeID: nodeID})
}

// VerifMemberHealth returns the real GetClusterProgress verdicts (0 healthy, 1 slow, 2 syncing, 3 unknown) and N.
func (cl *Cluster) VerifMemberHealth() (int, map[uint64]int, error) {
	cp, err := cl.rs.GetClusterProgress()
	if err != nil {
		return 0, nil, err
	}
	out := map[uint64]int{}
	for id, mp := range cp.MemberProgresses {
		out[id] = int(mp.Status)
	}
	return cp.N, out, nil
}

// VerifChangeMembership drives the whole request path of the real ChangeMembership (makeProposal →
// validateChangeMembership → isEnableChangeMembership → submitProposal) without waiting for raft.
// A reader drains the proposal channel, as the raft server loop does.
func (cl *Cluster) VerifChangeMembership(req *types.MembershipChange) error {
	done := make(chan struct{})
	go func() {
		select {
		case <-cl.confChangeC:
		case <-done:
		}
	}()
	_, err := cl.ChangeMembership(req, true)
	close(done)
	return err
}

// VerifMarshalBlock / VerifUnmarshalBlock: the entry payload codec of block entries.
func VerifMarshalBlock(b *types.Block) ([]byte, error)   { return marshalEntryData(b) }
func VerifUnmarshalBlock(d []byte) (*types.Block, error) { return unmarshalEntryData(d) }

// VerifSlowGap is MaxSlowNodeGap.
func VerifSlowGap() uint64 { return MaxSlowNodeGap }

// ------------------------------------------------------------------------------------------
// Round 3: the production call paths (membership gate, server loop, restart hand-over).
// Everything below only builds the objects the real functions need and then calls the real
// functions; no decision is taken here.

// VerifTransport is an inert Transporter. OnSend is called with every message batch the server
// loop hands to the transport (processMessages), OnPeer with every peer-table change.
type VerifTransport struct {
	OnSend func(msgs []raftpb.Message)
	OnPeer func(what string, id uint64)
}

func (t *VerifTransport) Start() error          { return nil }
func (t *VerifTransport) Handler() http.Handler { return nil }
func (t *VerifTransport) Send(m []raftpb.Message) {
	if t.OnSend != nil {
		t.OnSend(m)
	}
}
func (t *VerifTransport) SendSnapshot(m snap.Message) {}
func (t *VerifTransport) peer(what string, id uint64) {
	if t.OnPeer != nil {
		t.OnPeer(what, id)
	}
}
func (t *VerifTransport) AddPeer(id rtypes.ID, peerID types.PeerID, urls []string) {
	t.peer("add", uint64(id))
}
func (t *VerifTransport) RemovePeer(id rtypes.ID)                { t.peer("remove", uint64(id)) }
func (t *VerifTransport) RemoveAllPeers()                        { t.peer("removeall", 0) }
func (t *VerifTransport) UpdatePeer(id rtypes.ID, urls []string) {}
func (t *VerifTransport) ActiveSince(id rtypes.ID) time.Time     { return time.Time{} }
func (t *VerifTransport) ActivePeers() int                       { return 0 }
func (t *VerifTransport) Stop()                                  {}

// VerifNewClusterNamed is NewCluster for a node with the given raft name and p2p peer id.
func VerifNewClusterNamed(name string, peerID types.PeerID) *Cluster {
	return NewCluster([]byte("verif"), nil, name, peerID, 0, nil)
}

// VerifAddInitMember adds a configured (not yet applied) member, as the boot configuration does.
func (cl *Cluster) VerifAddInitMember(m *consensus.Member) error {
	c := *m
	return cl.addMember(&c, false)
}

// VerifIdentity is the identity the cluster object currently carries (what startRaft hands to HasWal).
func (cl *Cluster) VerifIdentity() consensus.RaftIdentity { return cl.identity }

// VerifMembers returns the ids of the applied and the removed members, ascending.
func (cl *Cluster) VerifMembers() (applied, removed []uint64) {
	cl.Lock()
	defer cl.Unlock()
	for id := range cl.appliedMembers.MapByID {
		applied = append(applied, id)
	}
	for id := range cl.removedMembers.MapByID {
		removed = append(removed, id)
	}
	sort.Slice(applied, func(i, j int) bool { return applied[i] < applied[j] })
	sort.Slice(removed, func(i, j int) bool { return removed[i] < removed[j] })
	return
}

// VerifMemberByID returns a copy of the applied member with this id (nil if there is none).
func (cl *Cluster) VerifMemberByID(id uint64) *consensus.Member {
	cl.Lock()
	defer cl.Unlock()
	if m := cl.appliedMembers.getMember(id); m != nil {
		c := *m
		return &c
	}
	return nil
}

// VerifServer is a real raftServer (newRaftServer) on a given ChainWAL whose raft node is supplied
// by the harness (a synchronous node built on the real raft state machine) and whose transport is inert.
type VerifServer struct {
	rs *raftServer
	T  *VerifTransport
}

func verifServer(wal consensus.ChainWAL, cl *Cluster, tr *VerifTransport) *raftServer {
	rs := newRaftServer(nil, cl, false, false, nil, time.Hour, cl.confChangeC, make(chan *commitEntry, 8192), true, wal)
	rs.transport = tr
	cl.rs = rs
	return rs
}

// VerifAttachServer gives an existing cluster (VerifNewCluster + VerifSetRaft) what the request and
// raft-log paths of a membership change touch beyond the raft status: the WAL (conf-change progress
// records), an inert transport, and a proposal channel with room for one proposal so that the
// non-blocking send of submitProposal succeeds exactly when no proposal is pending.
func (cl *Cluster) VerifAttachServer(wal consensus.ChainWAL) {
	cl.rs.walDB = NewWalDB(wal)
	cl.rs.transport = &VerifTransport{}
	cl.confChangeC = make(chan *consensus.ConfChangePropose, 1)
}

// VerifChangeMembershipProd is the real request path Cluster.ChangeMembership(req, nowait=true):
// makeProposal (NewMemberFrom…Req, makeConfChange, validateChangeMembership) → isEnableChangeMembership
// → submitProposal. The proposal that reached the channel (nil if none did) is returned. Unless
// keepPending, the channel is drained and the saved proposal reset, as AfterConfChange does when raft
// has dealt with the change.
func (cl *Cluster) VerifChangeMembershipProd(req *types.MembershipChange, keepPending bool) (*raftpb.ConfChange, error) {
	_, err := cl.ChangeMembership(req, true)
	var cc *raftpb.ConfChange
	if !keepPending {
		select {
		case p := <-cl.confChangeC:
			cc = p.Cc
		default:
		}
		cl.Lock()
		cl.resetSavedConfChangePropose()
		cl.Unlock()
	} else if cl.savedChange != nil {
		cc = cl.savedChange.Cc
	}
	return cc, err
}

// VerifMakeConfChangeProposal is the real BlockFactory.MakeConfChangeProposal (the path of the
// enterprise-contract conf change) on a BlockFactory that has only the cluster and the raft server.
func (cl *Cluster) VerifMakeConfChangeProposal(req *types.MembershipChange) (*raftpb.ConfChange, error) {
	bf := &BlockFactory{bpc: cl, raftServer: cl.rs}
	p, err := bf.MakeConfChangeProposal(req)
	if p == nil {
		return nil, err
	}
	return p.Cc, err
}

// VerifValidateConfChangeEntry / VerifApplyConfChange: the raft-log path of a committed conf-change entry.
func (cl *Cluster) VerifValidateConfChangeEntry(ent *raftpb.Entry) error {
	_, _, err := cl.rs.ValidateConfChangeEntry(ent)
	return err
}
func (cl *Cluster) VerifApplyConfChange(ent *raftpb.Entry) bool { return cl.rs.applyConfChange(ent) }

// VerifPublishSnapshot is the real publishSnapshot of the server loop (Cluster.Recover inside).
func (cl *Cluster) VerifPublishSnapshot(s raftpb.Snapshot) error { return cl.rs.publishSnapshot(s) }

// VerifStartServer does what startRaft/startNode do for a new cluster, except that the raft node is
// built by mk (on the same Config and start peers) instead of raftlib.StartNode: SetThisNodeID,
// GenerateID, SaveIdentity, fresh MemoryStorage, makeConfig, makeStartPeers.
func VerifStartServer(wal consensus.ChainWAL, cl *Cluster, tr *VerifTransport, mk func(c *raftlib.Config, peers []raftlib.Peer) raftlib.Node) (*VerifServer, error) {
	rs := verifServer(wal, cl, tr)
	if err := rs.cluster.SetThisNodeID(); err != nil {
		return nil, err
	}
	if rs.cluster.ClusterID() == InvalidClusterID {
		rs.cluster.GenerateID(false)
	}
	if err := rs.SaveIdentity(); err != nil {
		return nil, err
	}
	rs.raftStorage = raftlib.NewMemoryStorage()
	peers, err := rs.makeStartPeers()
	if err != nil {
		return nil, err
	}
	// raft creates the initial conf-change entries in the order of the peer list; getStartPeers ranges over a map
	sort.Slice(peers, func(i, j int) bool { return peers[i].ID < peers[j].ID })
	rs.setNodeSync(mk(makeConfig(rs.ID(), rs.raftStorage), peers))
	return &VerifServer{rs: rs, T: tr}, nil
}

// VerifHandOver is what the restart path handed to the consensus library.
type VerifHandOver struct {
	Hard      raftpb.HardState // MemoryStorage.InitialState
	Conf      raftpb.ConfState
	Snap      raftpb.Snapshot
	First     uint64
	Last      uint64
	Ents      []raftpb.Entry
	LastIndex uint64 // raftServer.lastIndex
	Term      uint64 // raftServer.curTerm
	Identity  consensus.RaftIdentity
	RaftHard  raftpb.HardState // what the restarted raft state machine reports
}

// VerifRestartServer runs the restart branch of startRaft on a WAL for which HasWal answered true:
// ResetMembers, then the real restartNode (loadSnapshot → replayWAL (ReadAll, RecoverIdentity,
// ApplySnapshot, SetHardState, Append) → Cluster.Recover → raftlib.RestartNode). The node it returns is
// asked for its status and stopped; the server then gets the node built by mk on the same storage.
// The callers check beforehand (with the non-fatal getters) that none of the logger.Fatal exits is due.
func VerifRestartServer(wal consensus.ChainWAL, cl *Cluster, tr *VerifTransport, mk func(c *raftlib.Config, peers []raftlib.Peer) raftlib.Node) (v *VerifServer, h *VerifHandOver, panicked interface{}) {
	rs := verifServer(wal, cl, tr)
	rs.cluster.ResetMembers()
	h = &VerifHandOver{}
	collect := func() {
		h.LastIndex, h.Term, h.Identity = rs.lastIndex, rs.curTerm, cl.identity
		if rs.raftStorage == nil {
			return
		}
		h.Hard, h.Conf, _ = rs.raftStorage.InitialState()
		h.Snap, _ = rs.raftStorage.Snapshot()
		h.First, _ = rs.raftStorage.FirstIndex()
		h.Last, _ = rs.raftStorage.LastIndex()
		if h.Last >= h.First {
			h.Ents, _ = rs.raftStorage.Entries(h.First, h.Last+1, 1<<40)
		}
	}
	defer func() {
		// etcd/raft refuses what it was handed (or replayWAL panicked): report what was handed
		if r := recover(); r != nil {
			panicked = r
			collect()
			v = nil
		}
	}()
	node := rs.restartNode(false)
	st := node.Status()
	node.Stop()
	collect()
	h.RaftHard = st.HardState
	if mk != nil {
		rs.setNodeSync(mk(makeConfig(rs.ID(), rs.raftStorage), nil))
	}
	return &VerifServer{rs: rs, T: tr}, h, nil
}

// VerifHasWal is the question startRaft asks first.
func (cl *Cluster) VerifHasWal(wal consensus.ChainWAL) (bool, error) {
	return NewWalDB(wal).HasWal(cl.identity)
}

// Serve starts the real server loop.
func (v *VerifServer) Serve() { go v.rs.serveChannels() }

// Stop ends the server loop the way the real server is stopped (stop channel).
func (v *VerifServer) Stop() { close(v.rs.stopc) }

func (v *VerifServer) Storage() *raftlib.MemoryStorage { return v.rs.raftStorage }
func (v *VerifServer) Cluster() *Cluster               { return v.rs.cluster }
func (v *VerifServer) SetLeader(b bool)                { v.rs.leaderStatus.IsLeader = b }
func (v *VerifServer) SetSnapFrequency(n uint64)       { v.rs.snapFrequency = n }

// VerifCommitted is one entry the server loop published on the commit channel.
type VerifCommitted struct {
	Block *types.Block
	Index uint64
	Term  uint64
}

// DrainCommitted takes what the server loop has published so far from the commit channel (the chain
// service is the consumer in a node). connect: report the last block among them as connected to the
// chain (CommitProgress.UpdateConnect), which is what lets triggerSnapshot take a snapshot.
func (v *VerifServer) DrainCommitted(connect bool) []VerifCommitted {
	var out []VerifCommitted
	for {
		select {
		case ce, ok := <-v.rs.commitC:
			if !ok {
				return out
			}
			if ce == nil {
				continue
			}
			out = append(out, VerifCommitted{Block: ce.block, Index: ce.index, Term: ce.term})
			if connect && ce.block != nil {
				v.rs.commitProgress.UpdateConnect(ce)
			}
		default:
			return out
		}
	}
}

// VerifSetPending puts the cluster into the state "a membership change is in progress" (savedChange set),
// which is the state submitProposal leaves behind until raft has dealt with the change.
func (cl *Cluster) VerifSetPending(on bool) {
	cl.Lock()
	defer cl.Unlock()
	if on {
		cl.saveConfChangePropose(&consensus.ConfChangePropose{Cc: &raftpb.ConfChange{ID: 424242}})
	} else {
		cl.resetSavedConfChangePropose()
	}
}

// VerifTransport returns the inert transport attached by VerifAttachServer.
func (cl *Cluster) VerifTransport() *VerifTransport { return cl.rs.transport.(*VerifTransport) }

// VerifStartNodeReal runs the new-cluster branch of startRaft as it is (startNode with the start
// peers; raftlib.StartNode, a goroutine-driven node which is stopped at once). It exits the process
// through logger.Fatal when startNode refuses to start: only for use in a child process.
func VerifStartNodeReal(wal consensus.ChainWAL, cl *Cluster) {
	rs := verifServer(wal, cl, &VerifTransport{})
	peers, err := rs.makeStartPeers()
	if err != nil {
		panic(err)
	}
	node := rs.startNode(peers)
	node.Stop()
}
