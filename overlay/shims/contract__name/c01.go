//go:build verif

package name

// Verification shim for properties C01/C03: read-only view of a name record through the write buffer
// (what ValidateNameTx / ExecuteNameTx read with getOwner(scs, name, false)).

import "github.com/aergoio/aergo/v2/state/statedb"

func VerifC01NameMap(scs *statedb.ContractState, name []byte) (owner, dest []byte, present bool) {
	nm := getNameMap(scs, name, false)
	if nm == nil {
		return nil, nil, false
	}
	return nm.Owner, nm.Destination, true
}
