//go:build verif

package name

// Verification shim for property C15: read-only accessors to the name map (buffered and committed view)
// and the real NameMap codec.

import "github.com/aergoio/aergo/v2/state/statedb"

// VerifC15NameMap returns (owner, destination, present) of a name; initial=true reads the committed
// storage (what getAddress/GetOwner use), false reads through the write buffer (what ValidateNameTx uses).
func VerifC15NameMap(scs *statedb.ContractState, name []byte, initial bool) (owner, dest []byte, present bool) {
	nm := getNameMap(scs, name, initial)
	if nm == nil {
		return nil, nil, false
	}
	return nm.Owner, nm.Destination, true
}

func VerifC15SerializeNameMap(owner, dest []byte) []byte {
	return serializeNameMap(&NameMap{Version: 1, Owner: owner, Destination: dest})
}

func VerifC15DeserializeNameMap(b []byte) (owner, dest []byte, ok bool) {
	nm := deserializeNameMap(b)
	if nm == nil {
		return nil, nil, false
	}
	return nm.Owner, nm.Destination, true
}
