//go:build verif

package system

// Verification shim for property C02 (deterministic execution; harness c02). Add-only. The process-wide
// governance state (voting-power rank, parameter table) is what distinguishes two *nodes* of one process:
// the handles below let the harness park one node's state and install another's. Everything else forwards
// to the real function.

import (
	"math/big"

	"github.com/aergoio/aergo/v2/state/statedb"
	"github.com/aergoio/aergo/v2/types"
)

// VerifC02Globals is one node's in-memory governance state.
type VerifC02Globals struct {
	rank   *vpr
	params *parameters
}

// VerifC02TakeGlobals returns the currently installed in-memory governance state.
func VerifC02TakeGlobals() VerifC02Globals { return VerifC02Globals{votingPowerRank, systemParams} }

// VerifC02InstallGlobals installs g.
func VerifC02InstallGlobals(g VerifC02Globals) { votingPowerRank, systemParams = g.rank, g.params }

// VerifC02BootGlobals does what a booting node does with the system account state of its best block:
// InitSystemParams (chain.NewChainService) and InitVotingPowerRank (dpos.New -> InitVPR).
func VerifC02BootGlobals(s *statedb.ContractState, bps int) error {
	systemParams = &parameters{params: map[string]*big.Int{}}
	InitSystemParams(s, bps)
	return InitVotingPowerRank(s)
}

// VerifC02BuildVoteList runs the real VoteResult.buildVoteList (map iteration + sort.Sort(sort.Reverse))
// on a tally given as pairs; ex selects the proposal (string candidate) form.
func VerifC02BuildVoteList(keys []string, amounts []*big.Int, ex bool) []*types.Vote {
	vr := &VoteResult{rmap: map[string]*big.Int{}, ex: ex}
	for i, k := range keys {
		vr.rmap[k] = amounts[i]
	}
	return vr.buildVoteList().Votes
}

// VerifC02Vpr is a private voting-power rank (not the process-wide one) driven through the real methods.
type VerifC02Vpr struct{ v *vpr }

func VerifC02NewVpr() *VerifC02Vpr { return &VerifC02Vpr{newVpr()} }

// VerifC02LoadVpr is loadVpr.
func VerifC02LoadVpr(s *statedb.ContractState) (*VerifC02Vpr, error) {
	v, err := loadVpr(s)
	return &VerifC02Vpr{v}, err
}
func (h *VerifC02Vpr) VerifC02Add(id types.AccountID, addr []byte, p *big.Int) { h.v.add(id, addr, p) }
func (h *VerifC02Vpr) VerifC02Sub(id types.AccountID, addr []byte, p *big.Int) { h.v.sub(id, addr, p) }
func (h *VerifC02Vpr) VerifC02Apply(s *statedb.ContractState) (int, error)     { return h.v.apply(s) }
func (h *VerifC02Vpr) VerifC02Total() *big.Int                                 { return h.v.getTotalPower() }

// VerifC02Buckets observes store.buckets: bucket index -> (account id, power) in list order.
func (h *VerifC02Vpr) VerifC02Buckets() map[uint8][][2][]byte {
	out := map[uint8][][2][]byte{}
	for i, l := range h.v.store.buckets {
		if l == nil {
			continue
		}
		for e := l.Front(); e != nil; e = e.Next() {
			vp := toVotingPower(e)
			out[i] = append(out[i], [2][]byte{append([]byte{}, vp.id[:]...), vp.getPower().Bytes()})
		}
	}
	return out
}

// VerifC02Powers observes voters.powers.
func (h *VerifC02Vpr) VerifC02Powers() map[types.AccountID]*big.Int {
	out := map[types.AccountID]*big.Int{}
	for id, vp := range h.v.voters.powers {
		out[id] = new(big.Int).Set(vp.getPower())
	}
	return out
}

// VerifC02PendingChanges is len(v.changes).
func (h *VerifC02Vpr) VerifC02PendingChanges() int { return len(h.v.changes) }

// VerifC02BucketIdx is getBucketIdx.
func VerifC02BucketIdx(id types.AccountID) uint8 { return getBucketIdx(id) }

// VerifC02PickWinner is vpr.pickVotingRewardWinner.
func (h *VerifC02Vpr) VerifC02PickWinner(seed int64) (types.Address, error) {
	return h.v.pickVotingRewardWinner(seed)
}

// VerifC02BlankGlobals installs "no node": no voting-power rank and an empty parameter table (InitSystemParams
// first discards the pending next-block values of whatever table is installed: that must not be another node's).
func VerifC02BlankGlobals() {
	votingPowerRank = nil
	systemParams = &parameters{params: map[string]*big.Int{}}
}
