//go:build verif

package system

// Verification shim for property C15 (governance accounting). Add-only, read-only accessors to the
// unexported voting-power rank (memory) and to the real loader / codecs. No logic is copied: every
// function forwards to the real one or walks the real data structures.

import (
	"bytes"
	"container/list"
	"encoding/hex"
	"fmt"
	"math/big"
	"sort"
	"strings"

	"github.com/aergoio/aergo/v2/types"
)

// VerifC15VP is one voter of the voting-power rank as observed.
type VerifC15VP struct {
	ID    []byte
	Addr  []byte
	Power *big.Int
}

// VerifC15VprView is an observation of a *vpr (the live one or a freshly loaded one).
type VerifC15VprView struct {
	Nil          bool
	Total        *big.Int
	Powers       []VerifC15VP // voters.powers, ascending by id
	Members      []VerifC15VP // voters.members in tree (iterator) order
	MembersSize  int          // members.Size()
	MembersPanic string
	Buckets      map[uint8][]VerifC15VP // store.buckets, list order
	Changes      []VerifC15VP           // pending changes, ascending by id
	Lowest       *VerifC15VP
}

func verifC15vp(v *votingPower) VerifC15VP {
	p := new(big.Int)
	if v.power != nil {
		p.Set(v.power)
	}
	return VerifC15VP{ID: append([]byte{}, v.id[:]...), Addr: append([]byte{}, v.addr...), Power: p}
}

func verifC15View(v *vpr) *VerifC15VprView {
	if v == nil {
		return &VerifC15VprView{Nil: true}
	}
	w := &VerifC15VprView{Total: v.getTotalPower(), Buckets: map[uint8][]VerifC15VP{}}
	for _, p := range v.voters.powers {
		w.Powers = append(w.Powers, verifC15vp(p))
	}
	sort.Slice(w.Powers, func(i, j int) bool { return bytes.Compare(w.Powers[i].ID, w.Powers[j].ID) < 0 })
	// members: walk the real tree with its iterator (Keys() indexes a slice of Size() elements and
	// panics when the tree holds more nodes than it counts)
	w.MembersSize = v.voters.members.Size()
	func() {
		defer func() {
			if e := recover(); e != nil {
				w.MembersPanic = fmt.Sprint(e)
			}
		}()
		it := v.voters.members.Iterator()
		for n := 0; it.Next() && n < 100000; n++ {
			w.Members = append(w.Members, verifC15vp(it.Key().(*votingPower)))
		}
	}()
	for i, l := range v.store.buckets {
		if l == nil {
			continue
		}
		var xs []VerifC15VP
		for e := l.Front(); e != nil; e = e.Next() {
			xs = append(xs, verifC15vp(toVotingPower(e)))
		}
		if len(xs) > 0 {
			w.Buckets[i] = xs
		}
	}
	for id, d := range v.changes {
		w.Changes = append(w.Changes, VerifC15VP{ID: append([]byte{}, id[:]...), Addr: append([]byte{}, d.addr_...), Power: new(big.Int).Set(d.amount)})
	}
	sort.Slice(w.Changes, func(i, j int) bool { return bytes.Compare(w.Changes[i].ID, w.Changes[j].ID) < 0 })
	if v.lowest != nil {
		l := verifC15vp(v.lowest)
		w.Lowest = &l
	}
	return w
}

// VerifC15VprMemory observes the live (global) voting-power rank.
func VerifC15VprMemory() *VerifC15VprView { return verifC15View(votingPowerRank) }

// VerifC15VprLoad runs the real loader (what InitVotingPowerRank calls) on s without touching the live rank.
func VerifC15VprLoad(s dataGetter) (*VerifC15VprView, error) {
	v, err := loadVpr(s)
	if err != nil {
		return nil, err
	}
	return verifC15View(v), nil
}

// VerifC15VprEquals is the code's own equality (vpr.equals) between the live rank and a fresh load from s.
func VerifC15VprEquals(s dataGetter) (bool, error) {
	v, err := loadVpr(s)
	if err != nil {
		return false, err
	}
	if votingPowerRank == nil {
		return false, nil
	}
	var eq bool
	func() {
		defer func() {
			if e := recover(); e != nil {
				err = fmt.Errorf("vpr.equals panics: %v", e)
			}
		}()
		eq = votingPowerRank.equals(v)
	}()
	return eq, err
}

// String renders the parts of a view (hex ids, decimal powers).
func (w *VerifC15VprView) String(members bool) string {
	if w.Nil {
		return "nil"
	}
	one := func(p VerifC15VP) string {
		return hex.EncodeToString(p.ID[:4]) + ":" + hex.EncodeToString(p.Addr) + ":" + p.Power.String()
	}
	lst := func(xs []VerifC15VP) string {
		ss := make([]string, len(xs))
		for i, x := range xs {
			ss[i] = one(x)
		}
		return "[" + strings.Join(ss, ",") + "]"
	}
	var idx []int
	for i := range w.Buckets {
		idx = append(idx, int(i))
	}
	sort.Ints(idx)
	var bs []string
	for _, i := range idx {
		bs = append(bs, fmt.Sprintf("%d=%s", i, lst(w.Buckets[uint8(i)])))
	}
	s := "total=" + w.Total.String() + " powers=" + lst(w.Powers) + " buckets={" + strings.Join(bs, " ") + "}"
	if members {
		s += fmt.Sprintf(" members(size=%d)=", w.MembersSize) + lst(w.Members) + w.MembersPanic
		if w.Lowest != nil {
			s += " lowest=" + one(*w.Lowest)
		} else {
			s += " lowest=nil"
		}
	}
	return s
}

// Codecs (real functions).
func VerifC15SerializeStaking(v *types.Staking) []byte   { return serializeStaking(v) }
func VerifC15DeserializeStaking(b []byte) *types.Staking { return deserializeStaking(b) }
func VerifC15SerializeVote(v *types.Vote) []byte         { return serializeVote(v) }
func VerifC15DeserializeVote(b []byte) *types.Vote       { return deserializeVote(b) }
func VerifC15SerializeVoteEx(v *types.Vote) []byte       { return serializeVoteEx(v) }
func VerifC15DeserializeVoteEx(b []byte) *types.Vote     { return deserializeVoteEx(b) }
func VerifC15SerializeVoteList(vl *types.VoteList, ex bool) []byte {
	return serializeVoteList(vl, ex)
}
func VerifC15DeserializeVoteList(b []byte, ex bool) *types.VoteList {
	return deserializeVoteList(b, ex)
}

// VerifC15MarshalVP / VerifC15UnmarshalVP: votingPower.marshal / unmarshal.
func VerifC15MarshalVP(id, addr []byte, power *big.Int) []byte {
	var aid types.AccountID
	copy(aid[:], id)
	return newVotingPower(addr, aid, power).marshal()
}
func VerifC15UnmarshalVP(b []byte) (VerifC15VP, uint32) {
	vp := &votingPower{}
	n := vp.unmarshal(b)
	return verifC15vp(vp), n
}

// VerifC15BucketIdx is getBucketIdx.
func VerifC15BucketIdx(id types.AccountID) uint8 { return getBucketIdx(id) }

// VerifC15ResetParams drops the in-memory parameter table (next-block values included) and reloads it from g.
func VerifC15ResetParams(g dataGetter, bps int) { InitSystemParams(g, bps) }

// VerifC15LoadedTally is loadVoteResult(scs,key).rmap as (candidate-key, amount) pairs sorted by key.
func VerifC15VoteTotal(vr *VoteResult) *big.Int { return vr.GetTotal() }

var _ = list.New

// ---- node-level observation (rounds 3): parameters in memory against the state, and the plumbing that lets the
// harness act as a second, coherent producer inside the same process (the package keeps ONE rank and ONE parameter
// table; another node has its own).

// VerifC15ParamsMemory returns the in-memory parameter table split into current values and pending next-block values.
func VerifC15ParamsMemory() (cur, next map[string]*big.Int) {
	cur, next = map[string]*big.Int{}, map[string]*big.Int{}
	systemParams.mutex.Lock()
	defer systemParams.mutex.Unlock()
	for k, v := range systemParams.params {
		if v == nil {
			continue
		}
		if strings.HasSuffix(k, "next") {
			next[strings.TrimSuffix(k, "next")] = new(big.Int).Set(v)
		} else {
			cur[k] = new(big.Int).Set(v)
		}
	}
	return
}

// VerifC15ParamsLoad is the real loadParams on g (what InitSystemParams installs).
func VerifC15ParamsLoad(g dataGetter) map[string]*big.Int {
	out := map[string]*big.Int{}
	for k, v := range loadParams(g).params {
		if v != nil {
			out[k] = new(big.Int).Set(v)
		}
	}
	return out
}

// VerifC15Globals holds the two package-level pointers.
type VerifC15Globals struct {
	rank   *vpr
	params *parameters
}

// VerifC15SwapInFresh installs a rank and a parameter table freshly loaded from g by the real loaders (the memory of
// a node whose best block has that state) and returns the previous pointers untouched.
func VerifC15SwapInFresh(g dataGetter) *VerifC15Globals {
	h := &VerifC15Globals{rank: votingPowerRank, params: systemParams}
	v, err := loadVpr(g)
	if err != nil {
		panic(err)
	}
	votingPowerRank = v
	systemParams = loadParams(g)
	return h
}

// VerifC15SwapBack re-installs the pointers saved by VerifC15SwapInFresh.
func VerifC15SwapBack(h *VerifC15Globals) {
	votingPowerRank = h.rank
	systemParams = h.params
}
