//go:build verif

package mempool

// Verification shim for property C04 (authorisation and replay protection). Add-only: forwards to
// the real unexported admission functions and reads fields; no pool logic lives here.

import (
	"github.com/aergoio/aergo/v2/types"
)

// VerifC04Init does what AfterStart does with the best block: setStateDB(best).
func (mp *MemPool) VerifC04Init(best *types.Block) (bool, bool) { return mp.setStateDB(best) }

// VerifC04VerifyTx is the verifier actor's first step: Validate + signature (+ verified account of a name sender).
func (mp *MemPool) VerifC04VerifyTx(tx types.Transaction) error { return mp.verifyTx(tx) }

// VerifC04Put is the verifier actor's second step: stateful validation + insertion.
func (mp *MemPool) VerifC04Put(tx types.Transaction) error { return mp.put(tx) }

// VerifC04Exist is the hash lookup the block-level sign verifier uses to skip a verification.
func (mp *MemPool) VerifC04Exist(hash []byte) *types.Tx { return mp.exist(hash) }

// VerifC04Get is what a block producer is offered.
func (mp *MemPool) VerifC04Get(max uint32) ([]types.Transaction, error) { return mp.get(max) }

// VerifC04ChainIdHashes: the chain-id hash of the best block and the one admission accepts (next block's version).
func (mp *MemPool) VerifC04ChainIdHashes() (best, accept []byte) {
	return mp.bestChainIdHash, mp.acceptChainIdHash
}

// VerifC04CacheTx returns the transaction (with its verified account) the hash index holds.
func (mp *MemPool) VerifC04CacheTx(hash []byte) types.Transaction {
	if v, ok := mp.cache.Load(types.ToTxID(hash)); ok {
		return v.(types.Transaction)
	}
	return nil
}

// VerifC04Len is the pool's transaction counter and the number of cached hashes.
func (mp *MemPool) VerifC04Len() (length int, cached int) {
	mp.cache.Range(func(k, v interface{}) bool { cached++; return true })
	return mp.length, cached
}

// VerifC04StateRoot is the root of the state the pool validates against (mp.stateDB).
func (mp *MemPool) VerifC04StateRoot() []byte { return mp.stateDB.GetRoot() }

// VerifC04BestNo is the number of the block the pool was last notified of (mp.bestBlockInfo.No).
func (mp *MemPool) VerifC04BestNo() uint64 { return mp.bestBlockInfo.No }

// VerifC04LoadTxs is what the pool does on actor.Started: read the dump file of the previous run (mp.dumpPath).
func (mp *MemPool) VerifC04LoadTxs() { mp.loadTxs() }

// VerifC04Dump is what BeforeStop does with the pool's contents: write them to the dump file.
func (mp *MemPool) VerifC04Dump() { mp.dumpTxsToFile() }
