//go:build verif

package mempool

// Shim for C07 (fork choice, harness c05lib): a real MemPool next to a real ChainService, fed with the
// MemPoolDel / MemPoolPut messages the chain service sends, in their order. Add-only; no pool logic here.

// VerifC07StateRoot is the state root the pool validates transactions against (nil before the first block notification).
func (mp *MemPool) VerifC07StateRoot() []byte {
	mp.RLock()
	defer mp.RUnlock()
	if mp.stateDB == nil {
		return nil
	}
	return mp.stateDB.GetRoot()
}
