//go:build verif

package mempool

// Verification shim for property C14 (admission totality). Add-only: builds a MemPool the way
// NewMemPoolService does (no actor system) on a given StateDB and forwards to the real
// verifyTx / validateTx. No pool logic lives here.

import (
	"math"

	"github.com/aergoio/aergo/v2/config"
	"github.com/aergoio/aergo/v2/state/statedb"
	"github.com/aergoio/aergo/v2/types"
)

// VerifC14New: cs == nil makes NewMemPoolService call fee.EnableZeroFee(), as the repo's tests do.
func VerifC14New(sdb *statedb.StateDB, isPublic bool) *MemPool {
	serverCtx := config.NewServerContext("", "")
	cfg := serverCtx.GetDefaultConfig().(*config.Config)
	mp := NewMemPoolService(cfg, nil)
	mp.stateDB = sdb
	mp.isPublic = isPublic
	mp.bestBlockInfo = &types.BlockHeaderInfo{}
	return mp
}

// VerifC14SetBest sets the best block number, the chain-id hash accepted by Validate and the hard-fork
// heights such that the next block (best+1) has version forkVersion (0, or 2..5).
func (mp *MemPool) VerifC14SetBest(best uint64, forkVersion int32, acceptChainIdHash []byte) {
	h := func(v int32) uint64 {
		if forkVersion >= v {
			return 0
		}
		return math.MaxUint64
	}
	mp.cfg.Hardfork = &config.HardforkConfig{V2: h(2), V3: h(3), V4: h(4), V5: h(5)}
	mp.bestBlockInfo = &types.BlockHeaderInfo{No: best, ForkVersion: mp.cfg.Hardfork.Version(best)}
	mp.acceptChainIdHash = acceptChainIdHash
}

func (mp *MemPool) VerifC14NextVersion() int32 { return mp.nextBlockVersion() }

// VerifC14SetFlags sets the two node-configuration switches validateTx reads (cfg.Mempool.BlockMulticall / BlockDeploy).
func (mp *MemPool) VerifC14SetFlags(blockMulticall, blockDeploy bool) {
	mp.blockMulticall, mp.blockDeploy = blockMulticall, blockDeploy
}

// VerifC14Verify is the verifier actor's step: Validate + signature.
func (mp *MemPool) VerifC14Verify(tx types.Transaction) error { return mp.verifyTx(tx) }

// VerifC14Validate is put()'s stateful validation step (account as put() derives it).
func (mp *MemPool) VerifC14Validate(tx types.Transaction) error {
	acc := tx.GetBody().GetAccount()
	if tx.HasVerifedAccount() {
		acc = tx.GetVerifedAccount()
	}
	return mp.validateTx(tx, acc)
}
