//go:build verif

package mempool

// Verification shim for property C13 (transaction pool). Add-only: every function below
// only constructs, forwards to, or reads the real unexported things; no pool logic lives here.

import (
	"math/big"
	"sort"
	"time"

	"github.com/aergoio/aergo/v2/config"
	"github.com/aergoio/aergo/v2/state"
	"github.com/aergoio/aergo/v2/types"
)

// VerifNew builds a MemPool the way NewMemPoolService does, without starting the actor
// system, on top of a real ChainStateDB (the pool opens its own StateDB on it in setStateDB).
// cs == nil makes NewMemPoolService call fee.EnableZeroFee(), exactly as the repo's tests do.
func VerifNew(sdb *state.ChainStateDB) *MemPool {
	serverCtx := config.NewServerContext("", "")
	cfg := serverCtx.GetDefaultConfig().(*config.Config)
	mp := NewMemPoolService(cfg, nil)
	mp.sdb = sdb
	return mp
}

// VerifInit does what AfterStart does with the best block: setStateDB(best).
func (mp *MemPool) VerifInit(best *types.Block) (bool, bool) { return mp.setStateDB(best) }

func (mp *MemPool) VerifPut(tx types.Transaction) error              { return mp.put(tx) }
func (mp *MemPool) VerifRemoveTx(tx *types.Tx) error                 { return mp.removeTx(tx) }
func (mp *MemPool) VerifBlockArrival(b *types.Block) error           { return mp.removeOnBlockArrival(b) }
func (mp *MemPool) VerifEvict()                                      { mp.evictTransactions() }
func (mp *MemPool) VerifExist(hash []byte) *types.Tx                 { return mp.exist(hash) }
func (mp *MemPool) VerifGet(max uint32) ([]types.Transaction, error) { return mp.get(max) }
func (mp *MemPool) VerifListHash(max int) ([]types.TxID, bool)       { return mp.listHash(max) }

// VerifVerifyTx is the front end's first step (TxVerifier.Receive: exist, verifyTx, put).
func (mp *MemPool) VerifVerifyTx(tx types.Transaction) error { return mp.verifyTx(tx) }

// VerifC13AccountState: the account state the pool itself reads (getAccountState on its own StateDB at the root it
// was last told): nonce and balance. Read-only.
func (mp *MemPool) VerifC13AccountState(acc []byte) (uint64, *big.Int) {
	mp.RLock()
	defer mp.RUnlock()
	st, err := mp.getAccountState(acc)
	if err != nil || st == nil {
		return 0, new(big.Int)
	}
	return st.GetNonce(), st.GetBalanceBigInt()
}

// VerifC13Started: has AfterStart run to its end (verifier pool spawned, state DB opened on the best block, monitor
// started)? AfterStart runs on the goroutine that called Start, after the actor is already receiving.
func (mp *MemPool) VerifC13Started() bool {
	mp.RLock()
	defer mp.RUnlock()
	return mp.verifier != nil && mp.stateDB != nil
}

// VerifUnconfirmed runs the unconfirmed-transaction report for one account.
func (mp *MemPool) VerifUnconfirmed(acc []byte) (pooled, orphaned int, pooledIDs, orphanedIDs []string) {
	u := mp.getUnconfirmed([]types.Address{types.Address(acc)}, false)
	return u[0].Pooled.Count, u[0].Orphaned.Count, u[0].Pooled.IDs, u[0].Orphaned.IDs
}

// VerifUnconfirmedAll runs the count-only report over every account of the pool.
func (mp *MemPool) VerifUnconfirmedAll() (pooled, orphaned int) {
	for _, u := range mp.getUnconfirmed(nil, true) {
		pooled += u.Pooled.Count
		orphaned += u.Orphaned.Count
	}
	return
}

// VerifSetEvict sets the package-level eviction period and the work timeout of one eviction
// sweep (injected clock: the harness backdates lists instead of sleeping).
func VerifSetEvict(period, workTimeout time.Duration) {
	evictPeriod = period
	evictWorkTimeout = workTimeout
}

// VerifBackdate moves the last-modified time of an account's list into the past.
func (mp *MemPool) VerifBackdate(acc []byte, d time.Duration) bool {
	mp.Lock()
	defer mp.Unlock()
	l := mp.pool[types.ToAccountID(acc)]
	if l == nil {
		return false
	}
	l.lastTime = time.Now().Add(-d)
	return true
}

// VerifList is a read-only view of one per-account list.
type VerifList struct {
	Account     []byte
	BaseNonce   uint64
	BaseBalance *big.Int
	Ready       int
	Txs         []types.Transaction
	LastTime    time.Time // zero for a list that was never modified
}

func viewOf(tl *txList) VerifList {
	return VerifList{Account: tl.account, BaseNonce: tl.base.GetNonce(), BaseBalance: tl.base.GetBalanceBigInt(),
		Ready: tl.ready, Txs: append([]types.Transaction(nil), tl.list...), LastTime: tl.GetLastModifiedTime()}
}

// VerifDump returns every per-account list (sorted by account bytes), the cache keys and the counters.
func (mp *MemPool) VerifDump() (lists []VerifList, cache []types.TxID, length, orphan int) {
	mp.RLock()
	defer mp.RUnlock()
	for id, tl := range mp.pool {
		v := viewOf(tl)
		if types.ToAccountID(tl.account) != id {
			v.Account = nil // key/account mismatch: made visible to the harness
		}
		lists = append(lists, v)
	}
	sort.Slice(lists, func(i, j int) bool { return string(lists[i].Account) < string(lists[j].Account) })
	mp.cache.Range(func(k, v interface{}) bool {
		cache = append(cache, k.(types.TxID))
		return true
	})
	return lists, cache, mp.length, mp.orphan // (not Size(): it may take the read lock itself)
}

// VerifCacheTx returns the transaction the hash index holds for id (nil if none).
func (mp *MemPool) VerifCacheTx(id types.TxID) types.Transaction {
	if v, ok := mp.cache.Load(id); ok {
		return v.(types.Transaction)
	}
	return nil
}

// VerifTxList is a bare per-account list (the real txList) for list-level operations.
type VerifTxList struct{ tl *txList }

func (mp *MemPool) VerifNewTxList(acc []byte, st *types.State) *VerifTxList {
	return &VerifTxList{newTxList(acc, st, mp)}
}
func (v *VerifTxList) Put(tx types.Transaction) (int, error) { return v.tl.Put(tx) }
func (v *VerifTxList) FilterByState(st *types.State) (int, []types.Transaction) {
	return v.tl.FilterByState(st)
}
func (v *VerifTxList) RemoveTx(tx *types.Tx) (int, types.Transaction) { return v.tl.RemoveTx(tx) }
func (v *VerifTxList) Get() []types.Transaction                       { return v.tl.Get() }
func (v *VerifTxList) GetAll() []types.Transaction                    { return v.tl.GetAll() }
func (v *VerifTxList) Len() int                                       { return v.tl.Len() }
func (v *VerifTxList) Empty() bool                                    { return v.tl.Empty() }
func (v *VerifTxList) View() VerifList                                { return viewOf(v.tl) }
