//go:build verif

package p2p

import (
	"time"

	"github.com/aergoio/aergo/v2/types"
)

// VerifC17State exposes the status (0 waiting, 1 canceled, 2 finished) and the number of blocks
// collected so far of a BlocksChunkReceiver (C17 harness).
func (br *BlocksChunkReceiver) VerifC17State() (status int, offset int) {
	return int(br.status), br.offset
}

// VerifC17Expire moves the receiver's time limit into the past (the TTL elapses in the middle of an
// exchange).
func (br *BlocksChunkReceiver) VerifC17Expire() { br.timeout = time.Now().Add(-time.Hour) }

// VerifC17Got returns the blocks accepted so far.
func (br *BlocksChunkReceiver) VerifC17Got() []*types.Block { return br.got[:br.offset] }
