//go:build verif

package p2p

// VerifC17State exposes the status (0 waiting, 1 canceled, 2 finished) and the number of blocks
// collected so far of a BlocksChunkReceiver (C17 harness).
func (br *BlocksChunkReceiver) VerifC17State() (status int, offset int) {
	return int(br.status), br.offset
}
