//go:build verif

package p2p

import (
	"time"

	"github.com/aergoio/aergo-lib/log"
	"github.com/aergoio/aergo/v2/p2p/p2pcommon"
	"github.com/aergoio/aergo/v2/pkg/component"
	"github.com/aergoio/aergo/v2/types"
	"github.com/aergoio/aergo/v2/types/message"
)

// VerifC17State exposes the status (0 waiting, 1 canceled, 2 finished) and the number of blocks
// collected so far of a BlocksChunkReceiver (C17 harness).
func (br *BlocksChunkReceiver) VerifC17State() (status int, offset int) {
	return int(br.status), br.offset
}

// VerifC17Expire moves the receiver's time limit into the past (the TTL elapses in the middle of an
// exchange).
func (br *BlocksChunkReceiver) VerifC17Expire() { br.timeout = time.Now().Add(-time.Hour) }

// VerifC17Got returns the blocks accepted so far.
func (br *BlocksChunkReceiver) VerifC17Got() []*types.Block { return br.got[:br.offset] }

// ---- the request path below the syncer (deepening round 3): the real actor entry points of P2P
// (actorwork.go GetSyncAncestor / GetBlockHashByNo / GetBlockHashes / GetBlocksChunk through P2P.Receive),
// the real receivers, the real remotePeerImpl request table and the real sub-protocol handlers on both
// ends, joined by a MsgReadWriter that the harness owns. Nothing here decides anything: constructors,
// and the two loops (write, read) of a peer run by hand so that the exchange is one deterministic thread.

// VerifC17NewP2P builds a P2P service object holding what the synchronisation requests touch: the peer
// manager, the message-order factory, the chain accessor and the component hub it tells the syncer through.
func VerifC17NewP2P(pm p2pcommon.PeerManager, ca types.ChainAccessor, hub *component.ComponentHub) *P2P {
	p2ps := &P2P{pm: pm, ca: ca}
	p2ps.BaseComponent = component.NewBaseComponent(message.P2PSvc, p2ps, log.NewLogger("p2p"))
	p2ps.SetHub(hub)
	p2ps.mf = &baseMOFactory{is: p2ps}
	return p2ps
}

// VerifC17NewPeer is CreateRemotePeer without the role manager and the metrics listener: the real
// remotePeerImpl with the real handlers of insertHandlers.
func (p2ps *P2P) VerifC17NewPeer(id types.PeerID, rw p2pcommon.MsgReadWriter) p2pcommon.RemotePeer {
	info := p2pcommon.RemoteInfo{Meta: p2pcommon.PeerMeta{ID: id}}
	peer := newRemotePeer(info, 1, p2ps.pm, p2ps, p2ps.Logger, p2ps.mf, p2ps.signer, rw)
	p2ps.insertHandlers(peer)
	peer.state.SetAndGet(types.RUNNING)
	return peer
}

// VerifC17Flush is the body of runWrite for everything queued: every order is sent with the real SendTo
// (which files a request in the peer's request table and writes to the MsgReadWriter). Returns the count.
func VerifC17Flush(peer p2pcommon.RemotePeer) int {
	p := peer.(*remotePeerImpl)
	n := 0
	for {
		select {
		case m := <-p.writeBuf:
			p.writeToPeer(m)
			n++
		default:
			return n
		}
	}
}

// VerifC17Handle is the body of runRead for one message.
func VerifC17Handle(peer p2pcommon.RemotePeer, msg p2pcommon.Message) error {
	return peer.(*remotePeerImpl).handleMsg(msg)
}

// VerifC17Pending returns the number of requests the peer object still waits an answer for.
func VerifC17Pending(peer p2pcommon.RemotePeer) int {
	p := peer.(*remotePeerImpl)
	p.reqMutex.Lock()
	defer p.reqMutex.Unlock()
	return len(p.requests)
}

// VerifC17ExpireRequests moves the time limit of the hash receivers into the past (TTL elapsed before
// the answer). The three receivers keep it in a field `timeout`.
func (br *BlockHashesReceiver) VerifC17Expire()   { br.timeout = time.Now().Add(-time.Hour) }
func (br *BlockHashByNoReceiver) VerifC17Expire() { br.timeout = time.Now().Add(-time.Hour) }
func (br *AncestorReceiver) VerifC17Expire()      { br.timeout = time.Now().Add(-time.Hour) }

// VerifC17State: status (0 waiting, 1 canceled, 2 finished) and number of hashes collected.
func (br *BlockHashesReceiver) VerifC17State() (status int, got int) { return int(br.status), len(br.got) }
