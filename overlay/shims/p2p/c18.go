//go:build verif

package p2p

import (
	"github.com/aergoio/aergo-lib/log"
	"github.com/aergoio/aergo/v2/p2p/p2pcommon"
	"github.com/aergoio/aergo/v2/types"
)

// VerifC18VersionManager builds the production version manager (the constructor P2P.initP2P uses), so that the C18
// harness drives version negotiation, the choice of the versioned handshaker with its production arguments
// (chain.Genesis.Block().Hash, the genesis chain id for the legacy versions) and GetChainID(height).
func VerifC18VersionManager(is p2pcommon.InternalService, actor p2pcommon.ActorService, pm p2pcommon.PeerManager, ca types.ChainAccessor,
	logger *log.Logger, localChainID *types.ChainID) p2pcommon.VersionedManager {
	return newDefaultVersionManager(is, actor, pm, ca, logger, localChainID)
}

// VerifC18SyncManager builds the production sync manager (not started: the tx manager's goroutine is not needed for
// the block paths).
func VerifC18SyncManager(actor p2pcommon.ActorService, pm p2pcommon.PeerManager, logger *log.Logger) p2pcommon.SyncManager {
	return newSyncManager(actor, pm, logger)
}

// VerifC18Seen reports whether the sync manager's "seen blocks" set holds the identifier (observation only; Contains
// does not touch the recency order).
func VerifC18Seen(sm p2pcommon.SyncManager, id types.BlockID) bool {
	return sm.(*syncManager).blkCache.Contains(id)
}

// VerifC18SeenCap is the capacity of that set.
func VerifC18SeenCap() int { return DefaultGlobalBlockCacheSize }
