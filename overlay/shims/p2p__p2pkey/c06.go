//go:build verif

package p2pkey

// VerifC06SetNodeSID sets the node identity string that dpos.newLibStatus reads through NodeSID()
// (production: InitNodeInfo from the node key file).
func VerifC06SetNodeSID(sid string) { ni = &nodeInfo{sid: sid} }
