//go:build verif

package p2pkey

// VerifC08SetNodeSID sets the node identity string that dpos.newLibStatus reads through NodeSID()
// (production: InitNodeInfo from the node key file). "" resets to "no identity".
func VerifC08SetNodeSID(sid string) {
	if sid == "" {
		ni = nil
		return
	}
	ni = &nodeInfo{sid: sid}
}
