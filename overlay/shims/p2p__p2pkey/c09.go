//go:build verif

package p2pkey

import (
	"time"

	"github.com/aergoio/aergo/v2/internal/enc/base58"
	"github.com/aergoio/aergo/v2/types"
	"github.com/libp2p/go-libp2p/core/crypto"
)

// VerifC09SetNodeKey gives the process the node identity of this key, filling the package's node info exactly as
// InitNodeInfo does after it has loaded the key file (id, base58 id, key pair, version, start time). nil resets to
// "no identity" (InitNodeInfo never called).
func VerifC09SetNodeKey(priv crypto.PrivKey) {
	if priv == nil {
		ni = nil
		return
	}
	pub := priv.GetPublic()
	id, _ := types.IDFromPublicKey(pub)
	ni = &nodeInfo{
		id:        id,
		sid:       base58.Encode([]byte(id)),
		pubKey:    pub,
		privKey:   priv,
		version:   "verif",
		startTime: time.Now(),
	}
}
