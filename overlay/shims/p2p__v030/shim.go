//go:build verif

package v030

import (
	"io"

	"github.com/aergoio/aergo-lib/log"
	"github.com/aergoio/aergo/v2/p2p/p2pcommon"
	"github.com/aergoio/aergo/v2/types"
)

// VerifCheckRemoteStatusV033 runs the real (*V033Handshaker).checkRemoteStatus on a handshaker built by the
// real constructor (peer manager and actor are not read by that function) and returns what it left behind.
func VerifCheckRemoteStatusV033(vm p2pcommon.VersionedManager, logger *log.Logger, peerID types.PeerID, rwc io.ReadWriteCloser,
	genesis []byte, st *types.Status) (err error, hash types.BlockID, no types.BlockNo, meta p2pcommon.PeerMeta) {
	h := NewV033VersionedHS(nil, nil, logger, vm, peerID, rwc, genesis)
	err = h.checkRemoteStatus(st)
	return err, h.remoteHash, h.remoteNo, h.remoteMeta
}
