//go:build verif

package v200

import (
	"io"

	"github.com/aergoio/aergo-lib/log"
	"github.com/aergoio/aergo/v2/p2p/p2pcommon"
	v030 "github.com/aergoio/aergo/v2/p2p/v030"
	"github.com/aergoio/aergo/v2/types"
)

// VerifCheckRemoteStatus runs the real (*V200Handshaker).checkRemoteStatus on a handshaker that has
// exactly the fields that function reads (version manager, connection peer id, local genesis hash,
// message pipe for the go-away notice) and returns what it left in the handshaker.
func VerifCheckRemoteStatus(vm p2pcommon.VersionedManager, logger *log.Logger, peerID types.PeerID, rwc io.ReadWriteCloser,
	genesis []byte, st *types.Status) (err error, hash types.BlockID, no types.BlockNo, meta p2pcommon.PeerMeta, certs int) {
	h := &V200Handshaker{vm: vm, logger: logger, peerID: peerID, localGenesisHash: genesis, msgRW: v030.NewV030MsgPipe(rwc)}
	err = h.checkRemoteStatus(st)
	return err, h.remoteHash, h.remoteNo, h.remoteMeta, len(h.remoteCerts)
}
