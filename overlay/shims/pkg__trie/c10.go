//go:build verif

package trie

// VerifC10ParseBatch / VerifC10SerializeBatch expose the batch codec of the trie's storage layer.
func VerifC10ParseBatch(val []byte) [][]byte { return (&Trie{}).parseBatch(val) }

func VerifC10SerializeBatch(batch [][]byte) []byte { return (&CacheDB{}).serializeBatch(batch) }
