//go:build verif

package state

import (
	"github.com/aergoio/aergo-lib/db"
	"github.com/aergoio/aergo/v2/state/statedb"
)

// Shim for C06 (harness c06, crash recovery). No logic is copied: the functions hand the harness'
// journaling key/value store to a ChainStateDB whose store field is interface-typed, or read fields.

// VerifC06Store is the state DB's key/value store.
func (sdb *ChainStateDB) VerifC06Store() db.DB { return sdb.store }

// VerifC06WrapStore replaces the state DB's store by wrap(store) and re-opens the trie at the same
// root on it, with the very call ChainStateDB.Init uses (statedb.NewStateDB(store, root, testmode)):
// every later write of the state DB (StateDB.Commit bulks) then goes through the wrapper.
func (sdb *ChainStateDB) VerifC06WrapStore(wrap func(db.DB) db.DB) {
	sdb.Lock()
	defer sdb.Unlock()
	root := sdb.states.GetRoot()
	sdb.store = wrap(sdb.store)
	sdb.states = statedb.NewStateDB(sdb.store, root, sdb.testmode)
}
