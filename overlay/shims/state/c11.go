//go:build verif

package state

import "github.com/aergoio/aergo-lib/db"

// Shim for C11 (harness c11, contract-variable proofs through the chain worker). No logic copied.

// VerifC11ChainStateDBOn returns a ChainStateDB on the given key/value store: the store field is preset, the
// rest is the real Init (which then skips opening a database directory and builds the StateDB at a nil root).
func VerifC11ChainStateDBOn(store db.DB) (*ChainStateDB, error) {
	sdb := NewChainStateDB()
	sdb.store = store
	if err := sdb.Init(string(db.MemoryImpl), "", nil, false, nil); err != nil {
		return nil, err
	}
	return sdb, nil
}
