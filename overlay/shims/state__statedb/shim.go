//go:build verif

// Verification shim (C12): read-only accessors to the unexported buffers of StateDB and
// ContractState. No logic here: every function calls the real method.
package statedb

import "github.com/aergoio/aergo/v2/types"

// VerifExport is stateBuffer.export() of the account buffer.
func (states *StateDB) VerifExport() ([][]byte, [][]byte) {
	return states.Buffer.export()
}

// VerifBufferLen returns (len(entries), nextIdx, len(indexes)) of the account buffer.
func (states *StateDB) VerifBufferLen() (int, int, int) {
	return len(states.Buffer.entries), states.Buffer.nextIdx, len(states.Buffer.indexes)
}

// VerifCacheIDs lists the accounts that have a staged storage (unordered).
func (states *StateDB) VerifCacheIDs() []types.AccountID {
	ids := make([]types.AccountID, 0, len(states.Cache.storages))
	for id := range states.Cache.storages {
		ids = append(ids, id)
	}
	return ids
}

// VerifCacheExport is stateBuffer.export() of the staged storage of id.
func (states *StateDB) VerifCacheExport(id types.AccountID) (keys, vals [][]byte, ok bool) {
	st := states.Cache.get(id)
	if st == nil {
		return nil, nil, false
	}
	keys, vals = st.Buffer.export()
	return keys, vals, true
}

// VerifExport is stateBuffer.export() of the storage buffer behind an open ContractState.
func (cs *ContractState) VerifExport() ([][]byte, [][]byte) {
	return cs.storage.Buffer.export()
}

// VerifIsStaged reports whether the handle's storage is the object held by the storage cache.
func (cs *ContractState) VerifIsStaged(states *StateDB) bool {
	return cs.storage != nil && states.Cache.get(cs.account) == cs.storage
}

// VerifHash is the value hash an entry with this value exports (valueEntry.Hash).
func VerifHash(value interface{}) []byte {
	return newValueEntry(types.HashID{}, value).Hash()
}
