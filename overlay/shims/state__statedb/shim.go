//go:build verif

// Verification shim (C12): read-only accessors to the unexported buffers of StateDB and
// ContractState. No logic here: every function calls the real method.
package statedb

import "github.com/aergoio/aergo/v2/types"

// VerifExport is stateBuffer.export() of the account buffer.
func (states *StateDB) VerifExport() ([][]byte, [][]byte) {
	return states.Buffer.export()
}

// VerifBufferLen returns (len(entries), nextIdx, len(indexes)) of the account buffer.
func (states *StateDB) VerifBufferLen() (int, int, int) {
	return len(states.Buffer.entries), states.Buffer.nextIdx, len(states.Buffer.indexes)
}

// VerifCacheIDs lists the accounts that have a staged storage (unordered).
func (states *StateDB) VerifCacheIDs() []types.AccountID {
	ids := make([]types.AccountID, 0, len(states.Cache.storages))
	for id := range states.Cache.storages {
		ids = append(ids, id)
	}
	return ids
}

// VerifCacheExport is stateBuffer.export() of the staged storage of id.
func (states *StateDB) VerifCacheExport(id types.AccountID) (keys, vals [][]byte, ok bool) {
	st := states.Cache.get(id)
	if st == nil {
		return nil, nil, false
	}
	keys, vals = st.Buffer.export()
	return keys, vals, true
}

// VerifExport is stateBuffer.export() of the storage buffer behind an open ContractState.
func (cs *ContractState) VerifExport() ([][]byte, [][]byte) {
	return cs.storage.Buffer.export()
}

// VerifIsStaged reports whether the handle's storage is the object held by the storage cache.
func (cs *ContractState) VerifIsStaged(states *StateDB) bool {
	return cs.storage != nil && states.Cache.get(cs.account) == cs.storage
}

// VerifHash is the value hash an entry with this value exports (valueEntry.Hash).
func VerifHash(value interface{}) []byte {
	return newValueEntry(types.HashID{}, value).Hash()
}

// VerifEntryDigests renders every entry of the account buffer's undo log, oldest first, as
// key ++ Marshal(value) (the real Marshal of statebuffer.go): what the log HOLDS, by value. The harness
// checks that an entry, once written, never changes (the buffer stores *types.State pointers).
func (states *StateDB) VerifEntryDigests() []string {
	return verifDigests(states.Buffer)
}

// VerifCacheEntryDigests is the same for the staged storage of id (nil when there is none).
func (states *StateDB) VerifCacheEntryDigests(id types.AccountID) []string {
	st := states.Cache.get(id)
	if st == nil {
		return nil
	}
	return verifDigests(st.Buffer)
}

func verifDigests(b *stateBuffer) []string {
	out := make([]string, len(b.entries))
	for i, et := range b.entries {
		k := et.KeyID()
		buf, _ := Marshal(et.Value())
		tag := "v"
		if et.Value() == nil {
			tag = "d"
		}
		out[i] = string(k[:]) + tag + string(buf)
	}
	return out
}

// VerifCacheObj returns the staged storage object of id as an opaque value (object identity only).
func (states *StateDB) VerifCacheObj(id types.AccountID) interface{} {
	if st := states.Cache.get(id); st != nil {
		return st
	}
	return nil
}

// VerifCacheRoot returns the storage trie root and the buffer revision of the staged storage of id.
func (states *StateDB) VerifCacheRoot(id types.AccountID) (root []byte, rev int, ok bool) {
	st := states.Cache.get(id)
	if st == nil {
		return nil, 0, false
	}
	return st.Trie.Root, st.Buffer.snapshot(), true
}
