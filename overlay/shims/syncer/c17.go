//go:build verif

package syncer

// C17 shims: exported handles to the unexported pieces of the synchroniser that the
// correspondence harness (harness/c17) drives synchronously. No logic here: every function calls
// the real one, reads fields, or replaces the clock/channel plumbing that goroutines would provide.

import (
	"time"

	"github.com/aergoio/aergo/v2/pkg/component"
	"github.com/aergoio/aergo/v2/types"
	"github.com/aergoio/aergo/v2/types/message"
)

// VerifC17NewCfg builds a SyncerConfig (all its fields are unexported).
func VerifC17NewCfg(maxHashReq uint64, maxBlockReqSize, maxPendingConn, maxBlockReqTasks int, fetchTimeOut time.Duration, fullScanOnly bool) *SyncerConfig {
	return &SyncerConfig{maxHashReqSize: maxHashReq, maxBlockReqSize: maxBlockReqSize, maxPendingConn: maxPendingConn,
		maxBlockReqTasks: maxBlockReqTasks, fetchTimeOut: fetchTimeOut, useFullScanOnly: fullScanOnly}
}

// VerifC17SetFetchTimeout changes the fetch timeout of a configuration in use.
func VerifC17SetFetchTimeout(cfg *SyncerConfig, d time.Duration) { cfg.fetchTimeOut = d }

// VerifC17SetTimers sets the package-level scheduler tick and the hash fetcher's default timeout
// (end-to-end runs use short ones); returns the previous values.
func VerifC17SetTimers(tick, hashTimeout time.Duration) (time.Duration, time.Duration) {
	a, b := schedTick, dfltTimeout
	schedTick, dfltTimeout = tick, hashTimeout
	return a, b
}

// ---- Finder

func VerifC17NewFinder(ctx *types.SyncContext, req component.IComponentRequester, chain types.ChainAccessor, cfg *SyncerConfig) *Finder {
	return newFinder(ctx, req, chain, cfg)
}
func (finder *Finder) VerifC17BinarySearch(left, right uint64) (*types.BlockInfo, error) {
	return finder.binarySearch(left, right)
}
func (finder *Finder) VerifC17Start() { finder.start() }
func (finder *Finder) VerifC17Stop()  { finder.stop() }

// VerifC17LScanSend hands a GetSyncAncestorRsp payload to the finder; it blocks until the finder
// takes it (or the finder has quit), returning whether it was taken.
func (finder *Finder) VerifC17LScanSend(bi *types.BlockInfo, giveUp <-chan struct{}) bool {
	select {
	case finder.lScanCh <- bi:
		return true
	case <-giveUp:
		return false
	}
}
func (finder *Finder) VerifC17LastAnchor() uint64 { return finder.ctx.LastAnchor }

// ---- HashFetcher

func VerifC17NewHashFetcher(ctx *types.SyncContext, req component.IComponentRequester, bfCh chan *HashSet, cfg *SyncerConfig) *HashFetcher {
	return newHashFetcher(ctx, req, bfCh, cfg)
}
func (hf *HashFetcher) VerifC17RequestHashSet()                                     { hf.requestHashSet() }
func (hf *HashFetcher) VerifC17IsValidResponse(m *message.GetHashesRsp) (bool, error) { return hf.isValidResponse(m) }
func (hf *HashFetcher) VerifC17ProcessHashSet(h *HashSet) error                     { return hf.processHashSet(h) }
func (hf *HashFetcher) VerifC17IsFinished(h *HashSet) bool                          { return hf.isFinished(h) }
func (hf *HashFetcher) VerifC17Last() *types.BlockInfo                              { return hf.lastBlockInfo }
func (hf *HashFetcher) VerifC17ReqCount() uint64                                    { return hf.reqCount }

func (hf *HashFetcher) VerifC17Start()                                              { hf.Start() }
func (hf *HashFetcher) VerifC17Stop()                                               { hf.stop() }

// VerifC17Exited returns a channel that is closed when the HashFetcher goroutine has returned.
func (hf *HashFetcher) VerifC17Exited() <-chan struct{} {
	ch := make(chan struct{})
	go func() { hf.waitGroup.Wait(); close(ch) }()
	return ch
}

// VerifC17Offer is GetHahsesRsp that gives up when the goroutine has exited (the real method would
// block for ever on the unbuffered channel). Reports whether GetHahsesRsp returned.
func (hf *HashFetcher) VerifC17Offer(m *message.GetHashesRsp, exited <-chan struct{}) bool {
	done := make(chan struct{})
	go func() {
		// if the fetcher is stopped while this offer is still waiting, the real stop() closes the channel
		defer func() { _ = recover() }()
		hf.GetHahsesRsp(m)
		close(done)
	}()
	select {
	case <-done:
		return true
	case <-exited:
		return false
	}
}

// ---- BlockFetcher / BlockProcessor

// VerifC17NewBlockFetcher is newBlockFetcher with a buffered hash-set channel, so that a
// synchronous driver can hand over hash sets without a HashFetcher goroutine.
func VerifC17NewBlockFetcher(ctx *types.SyncContext, req component.IComponentRequester, cfg *SyncerConfig) *BlockFetcher {
	bf := newBlockFetcher(ctx, req, cfg)
	bf.hfCh = make(chan *HashSet, 256)
	return bf
}
func (bf *BlockFetcher) VerifC17Init() error             { return bf.init() }
func (bf *BlockFetcher) VerifC17PushHashSet(h *HashSet)  { bf.hfCh <- h }
func (bf *BlockFetcher) VerifC17Schedule() error         { return bf.schedule() }
func (bf *BlockFetcher) VerifC17CheckTaskTimeout() error { return bf.checkTaskTimeout() }
func (bf *BlockFetcher) VerifC17Run(msg interface{}) error {
	return bf.blockProcessor.run(msg)
}

// VerifC17Age moves the start time of every running task d into the past (the virtual clock
// advances by d).
func (bf *BlockFetcher) VerifC17Age(d time.Duration) {
	for e := bf.runningQueue.Front(); e != nil; e = e.Next() {
		t := e.Value.(*FetchTask)
		t.started = t.started.Add(-d)
	}
}

type VerifC17Task struct {
	StartNo  uint64
	Hashes   []message.BlockHash
	Count    int
	PeerNo   int // -1: no peer
	PeerFail int
	PeerID   types.PeerID
	Retry    int
	Started  time.Time
}
type VerifC17Peer struct {
	No, FailCnt int
	ID          types.PeerID
}
type VerifC17Conn struct {
	FirstNo uint64
	Cur     int
	Blocks  []*types.Block
}
type VerifC17State struct {
	Running, Pending, Retry    []VerifC17Task
	Free                       []VerifC17Peer
	FreeCnt, Bad, BadLen, Total int
	ConnQ                      []VerifC17Conn
	Cur                        *VerifC17Conn
	Prev, CurBlock             *types.Block
	CurHashSet                 bool
	HfqLen                     int
}

func verifC17Tasks(q *TaskQueue) []VerifC17Task {
	var out []VerifC17Task
	for e := q.Front(); e != nil; e = e.Next() {
		t := e.Value.(*FetchTask)
		x := VerifC17Task{StartNo: t.startNo, Hashes: t.hashes, Count: t.count, PeerNo: -1, Retry: t.retry, Started: t.started}
		if t.syncPeer != nil {
			x.PeerNo, x.PeerFail, x.PeerID = t.syncPeer.No, t.syncPeer.FailCnt, t.syncPeer.ID
		}
		out = append(out, x)
	}
	return out
}

// VerifC17Dump copies the observable state of the fetcher and its processor.
func (bf *BlockFetcher) VerifC17Dump() VerifC17State {
	s := VerifC17State{Running: verifC17Tasks(&bf.runningQueue), Pending: verifC17Tasks(&bf.pendingQueue), Retry: verifC17Tasks(&bf.retryQueue.TaskQueue)}
	for e := bf.peers.freePeers.Front(); e != nil; e = e.Next() {
		p := e.Value.(*SyncPeer)
		s.Free = append(s.Free, VerifC17Peer{No: p.No, FailCnt: p.FailCnt, ID: p.ID})
	}
	s.FreeCnt, s.Bad, s.BadLen, s.Total = bf.peers.free, bf.peers.bad, bf.peers.badPeers.Len(), bf.peers.total
	bp := bf.blockProcessor
	for _, c := range bp.connQueue {
		s.ConnQ = append(s.ConnQ, VerifC17Conn{FirstNo: c.firstNo, Cur: c.cur, Blocks: c.Blocks})
	}
	if c := bp.curConnRequest; c != nil {
		s.Cur = &VerifC17Conn{FirstNo: c.firstNo, Cur: c.cur, Blocks: c.Blocks}
	}
	s.Prev, s.CurBlock = bp.prevBlock, bp.curBlock
	s.CurHashSet = bf.curHashSet != nil
	s.HfqLen = len(bf.hfCh)
	return s
}

// ---- Syncer service

func (syncer *Syncer) VerifC17HandleMessage(msg interface{}) { syncer.handleMessage(msg) }
func (syncer *Syncer) VerifC17VerifySeq(msg interface{}) bool { return syncer.verifySeq(msg) }
func (syncer *Syncer) VerifC17IsRunning() bool               { return syncer.isRunning }
func (syncer *Syncer) VerifC17SetSeq(seq uint64)             { syncer.Seq = seq }
func (syncer *Syncer) VerifC17Target() uint64 {
	if syncer.ctx == nil {
		return 0
	}
	return syncer.ctx.TargetNo
}
func (syncer *Syncer) VerifC17HasParts() (finder, hashFetcher, blockFetcher bool) {
	return syncer.finder != nil, syncer.hashFetcher != nil, syncer.blockFetcher != nil
}
