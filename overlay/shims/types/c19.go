//go:build verif

package types

import (
	"io"

	"github.com/willf/bloom"
)

// VerifC19WriteBlockHeader exposes the hash input writer of the block identifier (writeBlockHeader).
func VerifC19WriteBlockHeader(w io.Writer, bh *BlockHeader) error { return writeBlockHeader(w, bh) }

// VerifC19BytesForDigest exposes the message handed to the block signature primitive.
func VerifC19BytesForDigest(bh *BlockHeader) ([]byte, error) { return bh.bytesForDigest() }

// VerifC19CalculateBlockHash exposes calculateBlockHash (BlockHash() caches into block.Hash).
func VerifC19CalculateBlockHash(b *Block) []byte { return b.calculateBlockHash() }

// VerifC19MarshalStore / VerifC19UnmarshalStore expose the per-receipt storage codec of either format.
func VerifC19MarshalStore(r *Receipt, v2 bool) ([]byte, error) {
	if v2 {
		return r.marshalStoreBinaryV2()
	}
	return r.marshalStoreBinary()
}

func VerifC19UnmarshalStore(r *Receipt, data []byte, v2 bool) ([]byte, error) {
	if v2 {
		return r.unmarshalStoreBinaryV2(data)
	}
	return r.unmarshalStoreBinary(data)
}

// VerifC19Bloom returns the block bloom filter held by rs (nil when it has none).
func VerifC19Bloom(rs *Receipts) *bloom.BloomFilter {
	if rs.bloom == nil {
		return nil
	}
	return (*bloom.BloomFilter)(rs.bloom)
}

// VerifC19UnmarshalBody runs the real body decoder only (no event slice is allocated): the harness uses the
// returned event count to skip inputs on which the full decoder would try to allocate billions of events.
func VerifC19UnmarshalBody(data []byte, v2 bool) (evCount uint32) {
	var r Receipt
	if v2 {
		_, evCount = r.unmarshalBodyV2(data)
	} else {
		_, evCount = r.unmarshalBody(data)
	}
	return evCount
}
