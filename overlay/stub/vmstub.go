//go:build verif

// Package contract: pure-Go stand-in for the LuaJIT VM files of package contract.
// Mapped into /repo/contract by the build overlay (tools/mkoverlay.py); the real
// contract.go (Execute, checkExecution, checkRedeploy, CreateContractID) and
// errors.go are kept. A contract call executes a *script* carried in the payload:
//
//	{"fee":"<dec>","err":"" | "vm" | "system" | "timeout" | "negfee" | "nofd",
//	 "xfers":[{"to":"<hex account id>","amt":"<dec>"}],
//	 "sets":[{"k":"<str>","v":"<str>"}], "dels":["<str>"], "ret":"<str>", "events":<n>}
//
// Transfers go from the called contract's account to the target through the real
// state.SendBalance, which is what luaSendAmount does after its guards.
// "vm" fails before anything is written (a Lua error: the VM restores its recovery point);
// "system" and "timeout" fail AFTER the transfers and storage writes of the script have been made (a
// system error / the block deadline in the middle of a call: nothing inside the VM undoes them, the
// transaction executor's rollback has to).
package contract

import (
	"context"
	"encoding/hex"
	"encoding/json"
	"errors"
	"math/big"
	"os"

	"github.com/aergoio/aergo-lib/log"
	"github.com/aergoio/aergo/v2/state"
	"github.com/aergoio/aergo/v2/state/statedb"
	"github.com/aergoio/aergo/v2/types"
	"github.com/aergoio/aergo/v2/types/dbkey"
)

const (
	stateSQLMaxDBSize = 4 * 1024 * 1024
	stateSQLMinDBSize = 10
	maxCallDepthOld   = 5
	maxCallDepth      = 64
)

var ctrLgr = log.NewLogger("contract")

type ChainAccessor interface {
	GetBlockByNo(blockNo types.BlockNo) (*types.Block, error)
	GetBestBlock() (*types.Block, error)
}

type vmContext struct {
	bs            *state.BlockState
	cdb           ChainAccessor
	sender        *state.AccountState
	receiver      *state.AccountState
	contractState *statedb.ContractState
	blockInfo     *types.BlockHeaderInfo
	isQuery       bool
	gasLimit      uint64
	traceFile     *os.File
	execCtx       context.Context
}

func MaxCallDepth(version int32) int32 {
	if version >= 3 {
		return maxCallDepth
	}
	return maxCallDepthOld
}

func InitContext(numCtx int, logInternalOps bool)                   {}
func StartLStateFactory(numLStates, numClosers, numCloseLimit int) {}
func LoadDatabase(dataDir string) error                            { return nil }
func CloseDatabase()                                               {}
func SaveRecoveryPoint(bs *state.BlockState) error                 { return nil }

func NewVmContext(
	execCtx context.Context,
	blockState *state.BlockState,
	cdb ChainAccessor,
	sender, receiver *state.AccountState,
	contractState *statedb.ContractState,
	senderID,
	txHash []byte,
	bi *types.BlockHeaderInfo,
	node string,
	confirmed, query bool,
	rp uint64,
	executionMode int,
	amount *big.Int,
	gasLimit uint64,
	feeDelegation, isMultiCall bool,
) *vmContext {
	return &vmContext{bs: blockState, cdb: cdb, sender: sender, receiver: receiver,
		contractState: contractState, blockInfo: bi, isQuery: query, gasLimit: gasLimit, execCtx: execCtx}
}

// VerifScript is the scripted outcome of a stub VM call.
type VerifScript struct {
	Fee   string `json:"fee"`
	Err   string `json:"err"`
	Xfers []struct {
		To  string `json:"to"`
		Amt string `json:"amt"`
	} `json:"xfers"`
	Sets []struct {
		K string `json:"k"`
		V string `json:"v"`
	} `json:"sets"`
	Dels   []string `json:"dels"`
	Ret    string   `json:"ret"`
	Events int      `json:"events"`
	Iops   string   `json:"iops"` // internal operations the call reports (empty: none)
	// Multi: the script stands for the commands of a MULTICALL transaction. The real VM runs its built-in
	// multicall code on a MULTICALL tx (the "contract" is the sender's own account, no storage of its own);
	// the stub does so only for a payload that says so - any other MULTICALL payload finds no code, as before.
	Multi bool `json:"multi"`
}

type stubVmErr struct{ s string }

func (e *stubVmErr) Error() string { return e.s }

func runScript(contractState *statedb.ContractState, payload, contractAddress []byte, ctx *vmContext) (string, []*types.Event, string, *big.Int, error) {
	var sc VerifScript
	if len(payload) > 0 {
		if err := json.Unmarshal(payload, &sc); err != nil {
			// not a script: a call with an unknown payload costs nothing and does nothing
			return "", nil, "", big.NewInt(0), nil
		}
	}
	fee, ok := new(big.Int).SetString(sc.Fee, 10)
	if !ok {
		fee = big.NewInt(0)
	}
	if contractState.IsMultiCall() {
		// a multicall has no storage of its own
		sc.Sets, sc.Dels = nil, nil
	}
	switch sc.Err {
	case "negfee":
		return "", nil, "", big.NewInt(-1), nil
	case "vm":
		return "", nil, "", fee, &stubVmErr{"scripted vm error"}
	}
	if sc.Err == "vmlate" {
		// A Lua runtime error raised AFTER the contract wrote variables at top level (`system.setItem(..); error()`):
		// luaSetVariable has already done contractState.SetData; vm.go Call's error branch only rolls the SQL
		// savepoints back (rollbackToSavepoint) — recovery points, which revert the contract state, exist only for
		// nested calls / pcall / deploy — and balance changes of third parties are never put (commitCalledContract
		// is skipped). So: the writes are applied to the handle, nothing else happens, the error is a plain vm error.
		sc.Xfers = nil
	}
	for _, x := range sc.Xfers {
		id, err := hex.DecodeString(x.To)
		if err != nil {
			return "", nil, "", fee, &stubVmErr{"bad xfer target"}
		}
		amt, ok := new(big.Int).SetString(x.Amt, 10)
		if !ok || amt.Sign() < 0 {
			return "", nil, "", fee, &stubVmErr{"bad xfer amount"}
		}
		var target *state.AccountState
		if string(id) == string(ctx.sender.ID()) {
			target = ctx.sender
		} else if string(id) == string(ctx.receiver.ID()) {
			target = ctx.receiver
		} else {
			target, err = state.GetAccountState(id, ctx.bs.StateDB)
			if err != nil {
				return "", nil, "", fee, newDbSystemError(err)
			}
		}
		if err = state.SendBalance(ctx.receiver, target, amt); err != nil {
			return "", nil, "", fee, &stubVmErr{"insufficient contract balance"}
		}
		if target != ctx.sender && target != ctx.receiver {
			if err = target.PutState(); err != nil {
				return "", nil, "", fee, newDbSystemError(err)
			}
		}
	}
	for _, s := range sc.Sets {
		if err := contractState.SetData([]byte(s.K), []byte(s.V)); err != nil {
			return "", nil, "", fee, newDbSystemError(err)
		}
	}
	for _, k := range sc.Dels {
		if err := contractState.DeleteData([]byte(k)); err != nil {
			return "", nil, "", fee, newDbSystemError(err)
		}
	}
	switch sc.Err {
	case "vmlate":
		return "", nil, "", fee, &stubVmErr{"scripted vm error after writes"}
	case "system":
		return "", nil, "", fee, newVmSystemError(errors.New("scripted system error"))
	case "timeout":
		return "", nil, "", fee, &VmTimeoutError{}
	}
	var evs []*types.Event
	for i := 0; i < sc.Events; i++ {
		evs = append(evs, &types.Event{ContractAddress: contractAddress, EventIdx: int32(i), EventName: "ev", JsonArgs: "[]"})
	}
	return sc.Ret, evs, sc.Iops, fee, nil
}

func Call(contractState *statedb.ContractState, payload, contractAddress []byte, ctx *vmContext) (string, []*types.Event, string, *big.Int, error) {
	if contractState.IsMultiCall() {
		var sc VerifScript
		if len(payload) > 0 && json.Unmarshal(payload, &sc) == nil && sc.Multi {
			return runScript(contractState, payload, contractAddress, ctx)
		}
		return "", nil, "", big.NewInt(0), &stubVmErr{"not found contract"}
	}
	code, err := contractState.GetCode()
	if err != nil || len(code) == 0 {
		return "", nil, "", big.NewInt(0), &stubVmErr{"not found contract"}
	}
	return runScript(contractState, payload, contractAddress, ctx)
}

func Create(contractState *statedb.ContractState, payload, contractAddress []byte, ctx *vmContext) (string, []*types.Event, string, *big.Int, error) {
	if len(payload) == 0 {
		return "", nil, "", big.NewInt(0), errors.New("contract code is required")
	}
	if err := contractState.SetCode(nil, payload); err != nil {
		return "", nil, "", big.NewInt(0), err
	}
	if err := contractState.SetData(dbkey.CreatorMeta(), []byte(types.EncodeAddress(ctx.sender.ID()))); err != nil {
		return "", nil, "", big.NewInt(0), err
	}
	return runScript(contractState, payload, contractAddress, ctx)
}

func Query(contractAddress []byte, bs *state.BlockState, cdb ChainAccessor, contractState *statedb.ContractState, queryInfo []byte) (res []byte, err error) {
	return []byte("{}"), nil
}

func CheckFeeDelegation(contractAddress []byte, bs *state.BlockState, bi *types.BlockHeaderInfo, cdb ChainAccessor,
	contractState *statedb.ContractState, payload, txHash, sender, amount []byte) (err error) {
	// The real CheckFeeDelegation (vm.go) starts with GetABI(contractState, bs), which reads the code of the
	// recipient and fails with "cannot find contract" when there is none: a fee-delegation transaction is
	// accepted only if its recipient is a contract. The stub keeps that precondition.
	code, err := contractState.GetCode()
	if err != nil {
		return err
	}
	if len(code) == 0 {
		return errors.New("cannot find contract")
	}
	// then the contract's own check_delegation function decides: scripted
	var sc VerifScript
	if json.Unmarshal(payload, &sc) == nil && sc.Err == "nofd" {
		return errors.New("fee delegation is not allowed")
	}
	return nil
}

func GetABI(contractState *statedb.ContractState, bs *state.BlockState) (*types.ABI, error) {
	return &types.ABI{}, nil
}
