#!/bin/sh
# MANIFEST.setup_cmd: build the framework offline from files on disk only.
# Builds, per claimed property, its theorem modules and its model driver (a property still under
# construction cannot break the setup of the others), goext, and warms the Go build cache for the harnesses.
cd "$(dirname "$0")"
export GOFLAGS=-mod=mod GOPROXY=off CGO_ENABLED=0
S=/var/tmp/verif.setup.$$
trap 'rm -rf "$S"' EXIT
mkdir -p "$S"
python3 - <<'PY' > "$S/targets"
import json, glob, os
for f in sorted(glob.glob("tools/props.d/C*.json")):
    c = json.load(open(f))
    if not c.get("claimed"):
        continue
    pid = os.path.basename(f)[:-5]
    drv = c.get("driver", "model-" + pid.lower())
    print(pid, c.get("harness", ""), " ".join(c["lean_props"] + ([drv] if drv else [])))
PY
rc=0
while read pid harness targets; do
  ( cd lean && lake build $targets ) >"$S/lake.$pid.log" 2>&1 || { echo "setup: lake build failed for $pid" >&2; tail -5 "$S/lake.$pid.log" >&2; rc=1; }
done < "$S/targets"
( cd tools/goext && go build -o "$S/goext" . ) || rc=1
python3 tools/mkoverlay.py "$S/ov" >/dev/null || rc=1
while read pid harness targets; do
  [ -n "$harness" ] || continue
  ( cd /repo && go build -tags verif -overlay "$S/ov/overlay.json" -o "$S/h_$harness" "./zz_verif/$harness" ) || { echo "setup: harness $harness does not build" >&2; rc=1; }
done < "$S/targets"
[ $rc -eq 0 ] && echo "setup ok"
exit $rc
