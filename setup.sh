#!/bin/sh
# MANIFEST.setup_cmd: build the framework offline from files on disk only.
set -e
cd "$(dirname "$0")"
export GOFLAGS=-mod=mod GOPROXY=off CGO_ENABLED=0
( cd lean && lake build )
S=/var/tmp/verif.setup.$$
trap 'rm -rf "$S"' EXIT
mkdir -p "$S"
( cd tools/goext && go build -o "$S/goext" . )
python3 tools/mkoverlay.py "$S/ov" >/dev/null
# warm the Go build cache for every harness (the dependency graph of chain/p2p is large)
for h in harness/*/; do
  n=$(basename "$h")
  [ -f "$h/main.go" ] || continue
  ( cd /repo && go build -tags verif -overlay "$S/ov/overlay.json" -o "$S/h_$n" "./zz_verif/$n" ) || echo "setup: harness $n does not build" >&2
done
echo "setup ok"
