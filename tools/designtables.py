#!/usr/bin/env python3
"""Rewrite DESIGN.md §10.5 (seeded breaking changes) and §10.6 (behaviour-preserving changes) from seeded/*/ and neutral/*/."""
import glob, json, os, re
V = os.path.dirname(os.path.dirname(os.path.abspath(__file__)))
os.chdir(V)

def rows(dirpat, neutral=False):
    out = []
    for d in sorted(glob.glob(dirpat)):
        m = json.load(open(d + "/meta.json")); rp = d + "/result.json"
        r = json.load(open(rp)) if os.path.exists(rp) else {}
        summ = (m.get("summary") or "").replace("|", "/").replace("\n", " ")
        summ = summ[:170] + ("…" if len(summ) > 170 else "")
        if m.get("retired"):
            out.append("| %s | %s | - | retired | %s |" % (os.path.basename(d), summ, m["retired"][:150].replace("|", "/") + "…")); continue
        for p, c in (r.get("checks") or {}).items():
            if neutral:
                res = "quiet" if c["exit"] == 0 and not c["violations"] else "ALARM" + (" (no-failing-input-found)" if c.get("no_failing_input_found") else "")
                out.append("| %s | %s | %s | %s | %s |" % (os.path.basename(d), m.get("kind", ""), summ, p, res + ((": " + (c.get("first") or "")[:110].replace("|", "/")) if res != "quiet" else "")))
            else:
                res = "caught" if c["exit"] == 1 and c["violations"] else "MISSED"
                if c.get("no_failing_input_found"): res += " (no-failing-input-found)"
                first = (c.get("first") or "").replace("|", "/").replace("\n", " ")[:120]
                out.append("| %s | %s | %s | %s | %s |" % (os.path.basename(d), summ, p, res, first))
    return out

seeds = rows("seeded/C*"); neut = rows("neutral/C*", True)
nq = sum(1 for r in neut if "| quiet" in r)
n1 = len(glob.glob("seeded/C??-[0-9]")); n2 = len(glob.glob("seeded/C??-r2-*")); n3 = len(glob.glob("seeded/C??-r3-*"))
missed = [r.split("|")[1].strip() + "/" + r.split("|")[3].strip() for r in seeds if "| MISSED" in r]
tbl = "| seeded change | what was changed | check | result | what the check reported first |\n|---|---|---|---|---|\n" + "\n".join(seeds)
ntbl = "| neutral change | kind | what was changed | check | result |\n|---|---|---|---|---|\n" + "\n".join(neut)
text = open(os.path.join(V, "tools", "designtables.txt")).read()
sec = text % {"n1": n1, "n2": n2, "n3": n3, "pairs": sum(1 for r in seeds if "retired" not in r), "nfif": sum(1 for r in seeds if "no-failing-input-found" in r),
              "missed": ", ".join(missed) or "none", "tbl": tbl, "nq": nq, "nn": len(neut), "ntbl": ntbl}
s = open("DESIGN.md").read()
s = re.sub(r"\n### 10\.5 Seeded.*\Z", "", s, flags=re.S)
open("DESIGN.md", "w").write(s.rstrip("\n") + "\n" + sec)
print(len(seeds), "seed rows;", nq, "/", len(neut), "neutral quiet; missed:", missed)
