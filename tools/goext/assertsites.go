package main

import (
	"flag"
	"fmt"
	"go/ast"
	"go/parser"
	"go/printer"
	"go/token"
	"os"
	"path/filepath"
	"sort"
	"strings"
)

// Inventory of panic-capable syntax in the admission/execution path of governance
// transactions (C14).
//
//	goext assertsites -o out.lean -repo /repo [-ns Aergo.Gen.AssertSites] spec ...
//	spec = path/file.go                      every function of the file
//	     | path/file.go:Func,Recv.Method     only these functions (all must exist)
//
// For every scanned function (nested function literals included) it lists, in source order,
//
//	assert  x.(T)          a type assertion that is not in comma-ok form (`v, ok := x.(T)`),
//	                       i.e. one that panics when the dynamic type differs
//	index   a[i]           every index expression (slice, array, string or map: the tool is
//	                       purely syntactic; the model's table says which ones are maps)
//	slice   a[i:j]         every slice expression
//	panic   panic(...)     every explicit call of the builtin
//
// as a key `file:func:kind:text` (`#n` appended to the n-th repetition, n ≥ 1, of the same key
// inside one function; no line numbers, so unrelated edits do not move keys).  The Lean side
// (`Aergo.Model.Admit.knownSites`) must list exactly these keys: a new unchecked assertion,
// a new index expression or a function that disappeared changes the generated list and breaks
// `Props.C14.assert_sites_known`.
func init() { register("assertsites", cmdAssertSites) }

type siteScan struct {
	fset  *token.FileSet
	okSet map[*ast.TypeAssertExpr]bool
	out   []string
	seen  map[string]int
	pref  string
}

func (s *siteScan) add(kind string, n ast.Node) {
	var sb strings.Builder
	printer.Fprint(&sb, s.fset, n)
	txt := strings.Join(strings.Fields(sb.String()), " ")
	key := s.pref + ":" + kind + ":" + txt
	k := s.seen[key]
	s.seen[key] = k + 1
	if k > 0 {
		key = fmt.Sprintf("%s#%d", key, k)
	}
	s.out = append(s.out, key)
}

func (s *siteScan) markCommaOk(body ast.Node) {
	ast.Inspect(body, func(n ast.Node) bool {
		switch v := n.(type) {
		case *ast.AssignStmt:
			if len(v.Lhs) == 2 && len(v.Rhs) == 1 {
				if ta, ok := stripParens(v.Rhs[0]).(*ast.TypeAssertExpr); ok {
					s.okSet[ta] = true
				}
			}
		case *ast.ValueSpec:
			if len(v.Names) == 2 && len(v.Values) == 1 {
				if ta, ok := stripParens(v.Values[0]).(*ast.TypeAssertExpr); ok {
					s.okSet[ta] = true
				}
			}
		}
		return true
	})
}

func stripParens(e ast.Expr) ast.Expr {
	for {
		p, ok := e.(*ast.ParenExpr)
		if !ok {
			return e
		}
		e = p.X
	}
}

func (s *siteScan) scan(body ast.Node) {
	s.markCommaOk(body)
	ast.Inspect(body, func(n ast.Node) bool {
		switch v := n.(type) {
		case *ast.TypeAssertExpr:
			if v.Type != nil && !s.okSet[v] { // v.Type == nil: `x.(type)` of a type switch
				s.add("assert", v)
			}
		case *ast.IndexExpr:
			s.add("index", v)
		case *ast.SliceExpr:
			s.add("slice", v)
		case *ast.CallExpr:
			if id, ok := v.Fun.(*ast.Ident); ok && id.Name == "panic" {
				s.add("panic", v)
			}
		}
		return true
	})
}

func funcName(fd *ast.FuncDecl) string {
	if fd.Recv != nil && len(fd.Recv.List) == 1 {
		t := fd.Recv.List[0].Type
		if st, ok := t.(*ast.StarExpr); ok {
			t = st.X
		}
		if ix, ok := t.(*ast.IndexExpr); ok { // generic receiver
			t = ix.X
		}
		if id, ok := t.(*ast.Ident); ok {
			return id.Name + "." + fd.Name.Name
		}
	}
	return fd.Name.Name
}

func cmdAssertSites(args []string) error {
	fs := flag.NewFlagSet("assertsites", flag.ContinueOnError)
	out := fs.String("o", "", "output .lean file")
	repo := fs.String("repo", "/repo", "repository root")
	ns := fs.String("ns", "Aergo.Gen.AssertSites", "Lean namespace")
	if err := fs.Parse(args); err != nil {
		return err
	}
	if *out == "" || fs.NArg() == 0 {
		return fmt.Errorf("usage: goext assertsites -o out.lean [-repo /repo] [-ns NS] file.go[:Func,Recv.Method...] ...")
	}
	var scanned, sites []string
	var srcs []string
	for _, spec := range fs.Args() {
		file, only := spec, map[string]bool(nil)
		if i := strings.Index(spec, ":"); i >= 0 {
			file = spec[:i]
			only = map[string]bool{}
			for _, f := range strings.Split(spec[i+1:], ",") {
				if f != "" {
					only[f] = false
				}
			}
		}
		srcs = append(srcs, file)
		fset := token.NewFileSet()
		af, err := parser.ParseFile(fset, filepath.Join(*repo, file), nil, parser.SkipObjectResolution)
		if err != nil {
			return err
		}
		for _, d := range af.Decls {
			fd, ok := d.(*ast.FuncDecl)
			if !ok || fd.Body == nil {
				continue
			}
			name := funcName(fd)
			if only != nil {
				if _, want := only[name]; !want {
					continue
				}
				only[name] = true
			}
			scanned = append(scanned, file+":"+name)
			sc := &siteScan{fset: fset, okSet: map[*ast.TypeAssertExpr]bool{}, seen: map[string]int{}, pref: file + ":" + name}
			sc.scan(fd.Body)
			sites = append(sites, sc.out...)
		}
		var missing []string
		for f, found := range only {
			if !found {
				missing = append(missing, f)
			}
		}
		sort.Strings(missing)
		if len(missing) > 0 {
			return fmt.Errorf("%s: function(s) not found: %s (renamed or removed: the inventory no longer covers the admission path)", file, strings.Join(missing, ", "))
		}
	}
	var b strings.Builder
	fmt.Fprintf(&b, "-- GENERATED by /verif/tools/goext assertsites from %s. Do not edit.\n", strings.Join(srcs, ", "))
	fmt.Fprintf(&b, "namespace %s\n\n", *ns)
	b.WriteString("/-- functions scanned (`file:func`), in source order -/\n")
	b.WriteString("def scanned : List String := [\n")
	for i, s := range scanned {
		fmt.Fprintf(&b, "  %s%s\n", leanStr(s), comma(i, len(scanned)))
	}
	b.WriteString("]\n\n")
	b.WriteString("/-- every non-comma-ok type assertion, index expression, slice expression and explicit `panic(`\nin the scanned functions: `file:func:kind:text[#n]`, in source order -/\n")
	b.WriteString("def sites : List String := [\n")
	for i, s := range sites {
		fmt.Fprintf(&b, "  %s%s\n", leanStr(s), comma(i, len(sites)))
	}
	b.WriteString("]\n\n")
	fmt.Fprintf(&b, "end %s\n", *ns)
	return os.WriteFile(*out, []byte(b.String()), 0o644)
}

func comma(i, n int) string {
	if i+1 < n {
		return ","
	}
	return ""
}

func leanStr(s string) string {
	var b strings.Builder
	b.WriteByte('"')
	for _, r := range s {
		switch r {
		case '"':
			b.WriteString("\\\"")
		case '\\':
			b.WriteString("\\\\")
		case '\n':
			b.WriteString("\\n")
		case '\t':
			b.WriteString("\\t")
		default:
			b.WriteRune(r)
		}
	}
	b.WriteByte('"')
	return b.String()
}
