package main

import (
	"flag"
	"fmt"
	"go/ast"
	"go/parser"
	"go/token"
	"os"
	"sort"
	"strings"
)

// bigfn: translator for straight-line functions over *big.Int and machine integers (fee/*.go).
//
//	goext bigfn -ns <Namespace> -o out.lean file.go... Func1 Func2 ...
//
// Every function of the given files that a requested function calls (transitively) is translated too.
// Anything outside the subset below makes the command FAIL (exit 1): that is the broken-tie signal, a
// function is never skipped silently.
//
// Types:      *big.Int, uint64, int64, int, int32, uint32 -> Int;  bool -> Bool;  error -> Bool ("err != nil").
//             Machine-integer arithmetic WRAPS as in Go (u64 / i64 / i32 / u32 below), big.Int is exact.
// Results:    T | (T, error) -> T × Bool | named results (zero-initialised, bare `return`).
// Statements: x := e | x = e | x op= e | x++ | var x T [= e] | return ... |
//             if [n := e;] c { ... return } [else ...]          (branching continuation)
//             if [n := e;] c { assignments only } [else {...}]   (joins: the assigned variables are merged)
// Expressions: literals, locals, package constants (emitted as defs), package variables, + - * / % on machine
//             integers, comparisons, && || !, conversions, math.MaxUint64 etc, calls of translated functions,
//             new(big.Int).{Add,Sub,Mul,Div,Quo,Mod,Rem}(a,b), new(big.Int).{Set,SetUint64,SetInt64,Neg,Abs}(a),
//             new(big.Int), big.NewInt(n), x.Cmp(y), x.Sign(), x.IsUint64(), x.Uint64(), x.IsInt64(), x.Int64(),
//             errors.New(..) / fmt.Errorf(..) (= an error), nil.
// Package variables: one that is assigned only in init() (straight-line; `v, _ = new(big.Int).SetString(CONST, 10)`
//             included) becomes a def with that value; one that any other function of the package assigns
//             (zeroFee: EnableZeroFee/DisableZeroFee) becomes an explicit leading parameter of every definition that
//             (transitively) reads it, and its init value is emitted as <name>_init.
// Refused (exit 1): loops, switch, defer, go, closures, expression statements, in-place updates of a named
//             big.Int (x.Add(x, y)), returning or aliasing a package-level *big.Int, assignments to package
//             variables inside a translated function, shadowing, unknown calls, unknown types.
// Division: big.Int.Div/Mod are Euclidean (Int.ediv/Int.emod), Quo/Rem and signed machine `/ %` truncate
//             (Int.tdiv/Int.tmod). Go panics on a zero divisor where Lean yields 0: every division site is listed
//             in the doc comment of its definition; lemmas about it must assume the divisor non-zero.

type bty int

const (
	tBig bty = iota
	tU64
	tI64 // int64 and int (64-bit platforms)
	tI32
	tU32
	tBool
	tErr
	tUntyped
	tNil
)

func (t bty) lean() string {
	if t == tBool || t == tErr {
		return "Bool"
	}
	return "Int"
}

func (t bty) wrap() string {
	switch t {
	case tU64:
		return "u64"
	case tI64:
		return "i64"
	case tI32:
		return "i32"
	case tU32:
		return "u32"
	}
	return ""
}

func (t bty) isMachine() bool { return t == tU64 || t == tI64 || t == tI32 || t == tU32 }
func (t bty) isSigned() bool  { return t == tI64 || t == tI32 }

type bval struct {
	s string
	t bty
}

type bfn struct {
	name    string
	decl    *ast.FuncDecl
	params  []bval // name, type
	results []bty
	named   []string // names of named results ("" if unnamed)
	gvars   []string // mutable package variables read (transitively)
	calls   map[string]bool
	divs    []string
}

type bigCtx struct {
	fset    *token.FileSet
	consts  map[string]ast.Expr
	cpos    map[string]token.Pos
	vars    map[string]bty
	vpos    map[string]token.Pos
	mutable map[string]string // var -> function that assigns it
	initVal map[string]bval
	funcs   map[string]*ast.FuncDecl
	fns     map[string]*bfn
	cur     *bfn
	env     []map[string]bty
	tmp     int
}

func init() { register("bigfn", cmdBigFn) }

func cmdBigFn(args []string) error {
	fs := flag.NewFlagSet("bigfn", flag.ContinueOnError)
	ns := fs.String("ns", "Gen", "Lean namespace")
	out := fs.String("o", "", "output file")
	if err := fs.Parse(args); err != nil {
		return err
	}
	var files, names []string
	for _, a := range fs.Args() {
		if strings.HasSuffix(a, ".go") {
			files = append(files, a)
		} else {
			names = append(names, a)
		}
	}
	if len(files) == 0 || len(names) == 0 {
		return fmt.Errorf("bigfn: need files and function names")
	}
	c := &bigCtx{fset: token.NewFileSet(), consts: map[string]ast.Expr{}, cpos: map[string]token.Pos{}, vars: map[string]bty{},
		vpos: map[string]token.Pos{}, mutable: map[string]string{}, initVal: map[string]bval{}, funcs: map[string]*ast.FuncDecl{}, fns: map[string]*bfn{}}
	var inits []*ast.FuncDecl
	var initOrder []string
	for _, f := range files {
		af, err := parser.ParseFile(c.fset, f, nil, parser.SkipObjectResolution)
		if err != nil {
			return err
		}
		for _, d := range af.Decls {
			switch d := d.(type) {
			case *ast.GenDecl:
				for _, sp := range d.Specs {
					vs, ok := sp.(*ast.ValueSpec)
					if !ok {
						continue
					}
					for i, n := range vs.Names {
						switch d.Tok {
						case token.CONST:
							if i >= len(vs.Values) {
								return fmt.Errorf("bigfn: constant %s without a value (iota lists are unsupported)", n.Name)
							}
							c.consts[n.Name] = vs.Values[i]
							c.cpos[n.Name] = n.Pos()
						case token.VAR:
							t, err := c.goType(vs.Type)
							if err != nil {
								return fmt.Errorf("bigfn: package variable %s: %v", n.Name, err)
							}
							if len(vs.Values) != 0 {
								return fmt.Errorf("bigfn: package variable %s has an initialiser expression (unsupported: set it in init())", n.Name)
							}
							c.vars[n.Name] = t
							c.vpos[n.Name] = n.Pos()
						}
					}
				}
			case *ast.FuncDecl:
				if d.Recv != nil {
					continue
				}
				if d.Name.Name == "init" {
					inits = append(inits, d)
					continue
				}
				c.funcs[d.Name.Name] = d
			}
		}
	}
	// which package variables does any function other than init() write?
	fnames := []string{}
	for name := range c.funcs {
		fnames = append(fnames, name)
	}
	sort.Strings(fnames)
	for _, name := range fnames {
		d := c.funcs[name]
		if d.Body == nil {
			continue
		}
		ast.Inspect(d.Body, func(n ast.Node) bool {
			mark := func(e ast.Expr) {
				if id, ok := e.(*ast.Ident); ok {
					if _, isVar := c.vars[id.Name]; isVar && c.mutable[id.Name] == "" {
						c.mutable[id.Name] = name
					}
				}
			}
			switch n := n.(type) {
			case *ast.AssignStmt:
				if n.Tok != token.DEFINE {
					for _, l := range n.Lhs {
						mark(l)
					}
				}
			case *ast.IncDecStmt:
				mark(n.X)
			case *ast.UnaryExpr:
				if n.Op == token.AND {
					mark(n.X)
				}
			case *ast.CallExpr:
				if sel, ok := n.Fun.(*ast.SelectorExpr); ok && !bigReadOnly[sel.Sel.Name] {
					if id, ok := sel.X.(*ast.Ident); ok && c.vars[id.Name] == tBig {
						if _, isVar := c.vars[id.Name]; isVar && c.mutable[id.Name] == "" {
							c.mutable[id.Name] = name // in-place update of a package-level big.Int
						}
					}
				}
			}
			return true
		})
	}
	// init(): straight-line assignments to package variables
	for _, d := range inits {
		c.cur = &bfn{name: "init", calls: map[string]bool{}}
		c.env = []map[string]bty{{}}
		for _, st := range d.Body.List {
			as, ok := st.(*ast.AssignStmt)
			if !ok || as.Tok != token.ASSIGN || len(as.Rhs) != 1 {
				return fmt.Errorf("bigfn: init(): statement at %s is not a plain assignment to a package variable", c.fset.Position(st.Pos()))
			}
			id, ok := as.Lhs[0].(*ast.Ident)
			if !ok {
				return fmt.Errorf("bigfn: init(): assignment target at %s", c.fset.Position(st.Pos()))
			}
			vt, isVar := c.vars[id.Name]
			if !isVar {
				return fmt.Errorf("bigfn: init() assigns %s, which is not a package variable of the given files", id.Name)
			}
			if _, dup := c.initVal[id.Name]; dup {
				return fmt.Errorf("bigfn: init() assigns %s twice", id.Name)
			}
			var v bval
			var err error
			if len(as.Lhs) == 2 {
				if b, ok := as.Lhs[1].(*ast.Ident); !ok || b.Name != "_" {
					return fmt.Errorf("bigfn: init(): two-value assignment at %s", c.fset.Position(st.Pos()))
				}
				v, err = c.setString(as.Rhs[0])
			} else if len(as.Lhs) == 1 {
				v, err = c.expr(as.Rhs[0])
			} else {
				err = fmt.Errorf("assignment with %d targets", len(as.Lhs))
			}
			if err != nil {
				return fmt.Errorf("bigfn: init(): %s: %v", id.Name, err)
			}
			if v, err = c.coerce(v, vt); err != nil {
				return fmt.Errorf("bigfn: init(): %s: %v", id.Name, err)
			}
			if len(c.cur.gvars) != 0 || len(c.cur.calls) != 0 {
				return fmt.Errorf("bigfn: init(): the value of %s depends on a mutable variable or a function call", id.Name)
			}
			c.initVal[id.Name] = v
			initOrder = append(initOrder, id.Name)
		}
	}
	// translate the requested functions and everything they call
	var order []string
	var visit func(name string, from string) error
	visit = func(name, from string) error {
		if _, done := c.fns[name]; done {
			return nil
		}
		d := c.funcs[name]
		if d == nil {
			return fmt.Errorf("bigfn: function %s (%s) not found in %v (the tie to the source is broken)", name, from, files)
		}
		fi, err := c.signature(d)
		if err != nil {
			return fmt.Errorf("bigfn: %s: %v", name, err)
		}
		c.fns[name] = fi
		// callees first (their result types are needed)
		var cerr error
		ast.Inspect(d.Body, func(n ast.Node) bool {
			if call, ok := n.(*ast.CallExpr); ok {
				if id, ok := call.Fun.(*ast.Ident); ok {
					if _, isFn := c.funcs[id.Name]; isFn && id.Name != name {
						fi.calls[id.Name] = true
						if err := visit(id.Name, "called by "+name); err != nil && cerr == nil {
							cerr = err
						}
					}
				}
			}
			return true
		})
		if cerr != nil {
			return cerr
		}
		order = append(order, name)
		return nil
	}
	for _, n := range names {
		if err := visit(n, "requested"); err != nil {
			return err
		}
	}
	// mutable package variables read, transitively (callees are earlier in `order`)
	direct := map[string]map[string]bool{}
	for _, k := range order {
		direct[k] = map[string]bool{}
		fi := c.fns[k]
		locals := map[string]bool{}
		for _, p := range fi.params {
			locals[p.s] = true
		}
		ast.Inspect(fi.decl.Body, func(n ast.Node) bool {
			if id, ok := n.(*ast.Ident); ok {
				if _, isVar := c.vars[id.Name]; isVar && c.mutable[id.Name] != "" && !locals[id.Name] {
					direct[k][id.Name] = true
				}
			}
			return true
		})
		for cal := range fi.calls {
			for g := range direct[cal] {
				direct[k][g] = true
			}
		}
		for g := range direct[k] {
			fi.gvars = append(fi.gvars, g)
		}
		sort.Strings(fi.gvars)
	}
	var b strings.Builder
	short := []string{}
	for _, f := range files {
		short = append(short, shortPath(f))
	}
	fmt.Fprintf(&b, "-- GENERATED by /verif/tools/goext bigfn from %s. Do not edit.\n", strings.Join(short, " "))
	fmt.Fprintf(&b, "namespace %s\n\n", *ns)
	b.WriteString(bigPreamble)
	// constants (integers only), in dependency order
	emittedC := map[string]bool{}
	var emitConst func(n string) error
	emitConst = func(n string) error {
		if emittedC[n] {
			return nil
		}
		emittedC[n] = true
		e := c.consts[n]
		if lit, ok := e.(*ast.BasicLit); ok && lit.Kind == token.STRING {
			return nil // string constants are only usable as SetString arguments
		}
		var derr error
		ast.Inspect(e, func(x ast.Node) bool {
			if id, ok := x.(*ast.Ident); ok {
				if _, isC := c.consts[id.Name]; isC {
					if err := emitConst(id.Name); err != nil && derr == nil {
						derr = err
					}
				}
			}
			return true
		})
		if derr != nil {
			return derr
		}
		c.cur = &bfn{name: "const " + n, calls: map[string]bool{}}
		c.env = []map[string]bty{{}}
		v, err := c.constExpr(e)
		if err != nil {
			return fmt.Errorf("bigfn: constant %s: %v", n, err)
		}
		pos := c.fset.Position(c.cpos[n])
		fmt.Fprintf(&b, "/-- Go: constant `%s` (%s:%d) -/\ndef %s : Int := %s\n\n", n, shortPath(pos.Filename), pos.Line, leanName(n), v.s)
		return nil
	}
	cn := []string{}
	for n := range c.consts {
		cn = append(cn, n)
	}
	sort.Strings(cn)
	for _, n := range cn {
		if err := emitConst(n); err != nil {
			return err
		}
	}
	// package variables
	vn := append([]string{}, initOrder...)
	rest := []string{}
	for n := range c.vars {
		if _, has := c.initVal[n]; !has {
			rest = append(rest, n)
		}
	}
	sort.Strings(rest)
	for _, n := range append(vn, rest...) {
		pos := c.fset.Position(c.vpos[n])
		v, has := c.initVal[n]
		if m := c.mutable[n]; m != "" {
			if has {
				fmt.Fprintf(&b, "/-- Go: package variable `%s` (%s:%d) as init() leaves it; `%s` assigns it later, so every definition that\nreads it takes it as a parameter -/\ndef %s_init : %s := %s\n\n",
					n, shortPath(pos.Filename), pos.Line, m, leanName(n), c.vars[n].lean(), v.s)
			}
			continue
		}
		if !has {
			return fmt.Errorf("bigfn: package variable %s is never assigned (nil/zero value): unsupported", n)
		}
		fmt.Fprintf(&b, "/-- Go: package variable `%s` (%s:%d), assigned only in init() -/\ndef %s : %s := %s\n\n",
			n, shortPath(pos.Filename), pos.Line, leanName(n), c.vars[n].lean(), v.s)
	}
	for _, k := range order {
		s, err := c.emitFn(c.fns[k])
		if err != nil {
			return fmt.Errorf("bigfn: %s: %v (outside the translated subset: the tie to the source is broken)", k, err)
		}
		b.WriteString(s)
	}
	fmt.Fprintf(&b, "end %s\n", *ns)
	if *out == "" {
		fmt.Print(b.String())
		return nil
	}
	return os.WriteFile(*out, []byte(b.String()), 0o644)
}

const bigPreamble = `/-! Machine-integer wrap-around (Go's arithmetic on uint64 / int64 / int32 / uint32) and the big.Int readers. -/

def u64 (x : Int) : Int := x % 18446744073709551616
def i64 (x : Int) : Int := (x + 9223372036854775808) % 18446744073709551616 - 9223372036854775808
def u32 (x : Int) : Int := x % 4294967296
def i32 (x : Int) : Int := (x + 2147483648) % 4294967296 - 2147483648
/-- (*big.Int).IsUint64 -/
def bigIsUint64 (x : Int) : Bool := decide (0 ≤ x ∧ x ≤ 18446744073709551615)
/-- (*big.Int).Uint64: the low 64 bits of |x| ("undefined" by the documentation if x is no uint64) -/
def bigUint64 (x : Int) : Int := (x.natAbs : Int) % 18446744073709551616
/-- (*big.Int).IsInt64 -/
def bigIsInt64 (x : Int) : Bool := decide (-9223372036854775808 ≤ x ∧ x ≤ 9223372036854775807)
/-- (*big.Int).Int64: the low 64 bits of |x| as int64, negated for a negative x -/
def bigInt64 (x : Int) : Int := i64 (if x < 0 then -((x.natAbs : Int) % 18446744073709551616) else (x.natAbs : Int) % 18446744073709551616)
/-- (*big.Int).Cmp -/
def bigCmp (x y : Int) : Int := if x < y then -1 else if x = y then 0 else 1

`

var bigReadOnly = map[string]bool{"Cmp": true, "CmpAbs": true, "Sign": true, "IsUint64": true, "Uint64": true, "IsInt64": true,
	"Int64": true, "String": true, "Bytes": true, "BitLen": true, "Text": true}

var leanKeywords = map[string]bool{"end": true, "from": true, "at": true, "open": true, "fun": true, "let": true, "have": true, "show": true,
	"then": true, "else": true, "if": true, "do": true, "in": true, "with": true, "match": true, "where": true, "by": true, "def": true,
	"theorem": true, "instance": true, "class": true, "structure": true, "namespace": true, "section": true, "variable": true, "import": true,
	"return": true, "for": true, "Type": true, "Prop": true, "Sort": true, "mut": true, "using": true, "calc": true, "obtain": true,
	"u64": true, "i64": true, "u32": true, "i32": true}

func leanName(n string) string {
	if leanKeywords[n] {
		return "«" + n + "»"
	}
	return n
}

func (c *bigCtx) goType(e ast.Expr) (bty, error) {
	switch e := e.(type) {
	case *ast.Ident:
		switch e.Name {
		case "uint64":
			return tU64, nil
		case "int64", "int":
			return tI64, nil
		case "int32":
			return tI32, nil
		case "uint32":
			return tU32, nil
		case "bool":
			return tBool, nil
		case "error":
			return tErr, nil
		}
	case *ast.StarExpr:
		if sel, ok := e.X.(*ast.SelectorExpr); ok {
			if id, ok := sel.X.(*ast.Ident); ok && id.Name == "big" && sel.Sel.Name == "Int" {
				return tBig, nil
			}
		}
	}
	return 0, fmt.Errorf("type %s unsupported", exprString(e))
}

func (c *bigCtx) signature(d *ast.FuncDecl) (*bfn, error) {
	fi := &bfn{name: d.Name.Name, decl: d, calls: map[string]bool{}}
	if d.Body == nil {
		return nil, fmt.Errorf("no body")
	}
	if d.Type.TypeParams != nil {
		return nil, fmt.Errorf("generic function")
	}
	for _, p := range d.Type.Params.List {
		t, err := c.goType(p.Type)
		if err != nil {
			return nil, err
		}
		if t == tErr {
			return nil, fmt.Errorf("error-typed parameter")
		}
		if len(p.Names) == 0 {
			return nil, fmt.Errorf("unnamed parameter")
		}
		for _, n := range p.Names {
			fi.params = append(fi.params, bval{n.Name, t})
		}
	}
	if d.Type.Results == nil {
		return nil, fmt.Errorf("no result (a procedure with side effects only)")
	}
	for _, r := range d.Type.Results.List {
		t, err := c.goType(r.Type)
		if err != nil {
			return nil, err
		}
		if len(r.Names) == 0 {
			fi.results = append(fi.results, t)
			fi.named = append(fi.named, "")
		}
		for _, n := range r.Names {
			fi.results = append(fi.results, t)
			fi.named = append(fi.named, n.Name)
		}
	}
	switch {
	case len(fi.results) == 1 && fi.results[0] != tErr:
	case len(fi.results) == 2 && fi.results[0] != tErr && fi.results[1] == tErr:
	default:
		return nil, fmt.Errorf("result list unsupported (want T or (T, error))")
	}
	return fi, nil
}

func (fi *bfn) retType() string {
	if len(fi.results) == 2 {
		return fi.results[0].lean() + " × Bool"
	}
	return fi.results[0].lean()
}

func (c *bigCtx) lookup(n string) (bty, bool) {
	for i := len(c.env) - 1; i >= 0; i-- {
		if t, ok := c.env[i][n]; ok {
			return t, true
		}
	}
	return 0, false
}

func (c *bigCtx) emitFn(fi *bfn) (string, error) {
	c.cur = fi
	fi.divs = nil
	c.env = []map[string]bty{{}}
	var params []string
	for _, g := range fi.gvars {
		params = append(params, fmt.Sprintf("(%s : %s)", leanName(g), c.vars[g].lean()))
	}
	for _, p := range fi.params {
		if _, clash := c.vars[p.s]; clash {
			return "", fmt.Errorf("parameter %s shadows a package variable", p.s)
		}
		c.env[0][p.s] = p.t
		params = append(params, fmt.Sprintf("(%s : %s)", leanName(p.s), p.t.lean()))
	}
	pre := ""
	for i, n := range fi.named {
		if n == "" {
			continue
		}
		c.env[0][n] = fi.results[i]
		z := "0"
		if fi.results[i].lean() == "Bool" {
			z = "false"
		}
		pre += fmt.Sprintf("  let %s : %s := %s\n", leanName(n), fi.results[i].lean(), z)
	}
	body, err := c.stmts(fi.decl.Body.List, 1)
	if err != nil {
		return "", err
	}
	pos := c.fset.Position(fi.decl.Pos())
	var b strings.Builder
	fmt.Fprintf(&b, "/-- Go: `%s` (%s:%d)", fi.name, shortPath(pos.Filename), pos.Line)
	if len(fi.results) == 2 {
		b.WriteString("; result = (value, err ≠ nil)")
	}
	if len(fi.divs) > 0 {
		fmt.Fprintf(&b, ".\nGo panics on a zero divisor at: %s", strings.Join(fi.divs, "; "))
	}
	b.WriteString(" -/\n")
	fmt.Fprintf(&b, "def %s %s : %s :=\n%s%s\n\n", leanName(fi.name), strings.Join(params, " "), fi.retType(), pre, body)
	return b.String(), nil
}

// assignedVars: the outer variables a block assigns (no returns inside; checked by the caller).
func (c *bigCtx) assignedVars(list []ast.Stmt, acc map[string]bool, local map[string]bool) error {
	for _, s := range list {
		switch s := s.(type) {
		case *ast.AssignStmt:
			for _, l := range s.Lhs {
				id, ok := l.(*ast.Ident)
				if !ok {
					return fmt.Errorf("assignment to %s", exprString(l))
				}
				if s.Tok == token.DEFINE {
					if _, outer := c.lookup(id.Name); outer {
						return fmt.Errorf("%s := … shadows an outer variable inside a joining if", id.Name)
					}
					local[id.Name] = true
				} else if !local[id.Name] {
					acc[id.Name] = true
				}
			}
		case *ast.IncDecStmt:
			if id, ok := s.X.(*ast.Ident); ok && !local[id.Name] {
				acc[id.Name] = true
			}
		case *ast.IfStmt:
			if s.Init != nil {
				if err := c.assignedVars([]ast.Stmt{s.Init}, acc, local); err != nil {
					return err
				}
			}
			if err := c.assignedVars(s.Body.List, acc, local); err != nil {
				return err
			}
			switch e := s.Else.(type) {
			case *ast.BlockStmt:
				if err := c.assignedVars(e.List, acc, local); err != nil {
					return err
				}
			case *ast.IfStmt:
				if err := c.assignedVars([]ast.Stmt{e}, acc, local); err != nil {
					return err
				}
			}
		case *ast.DeclStmt:
			gd, ok := s.Decl.(*ast.GenDecl)
			if !ok {
				return fmt.Errorf("declaration unsupported")
			}
			for _, sp := range gd.Specs {
				if vs, ok := sp.(*ast.ValueSpec); ok {
					for _, n := range vs.Names {
						if _, outer := c.lookup(n.Name); outer {
							return fmt.Errorf("var %s shadows an outer variable inside a joining if", n.Name)
						}
						local[n.Name] = true
					}
				}
			}
		default:
			return fmt.Errorf("statement %T inside a joining if", s)
		}
	}
	return nil
}

func containsReturn(list []ast.Stmt) bool {
	found := false
	for _, s := range list {
		ast.Inspect(s, func(n ast.Node) bool {
			if _, ok := n.(*ast.ReturnStmt); ok {
				found = true
			}
			if _, ok := n.(*ast.FuncLit); ok {
				return false
			}
			return true
		})
	}
	return found
}

// stmts translates a statement list in continuation style; `tail` (may be "") is the expression a
// fall-through ends in (the merged variables of a joining if); without one a fall-through is an error.
func (c *bigCtx) stmts(list []ast.Stmt, d int) (string, error) { return c.stmtsT(list, d, "") }

func (c *bigCtx) stmtsT(list []ast.Stmt, d int, tail string) (string, error) {
	if len(list) == 0 {
		if tail != "" {
			return ind(d) + tail, nil
		}
		return "", fmt.Errorf("control may reach the end of the function without a return")
	}
	s := list[0]
	rest := list[1:]
	at := func() string { return c.fset.Position(s.Pos()).String() }
	bind := func(name string, v bval) (string, error) {
		r, err := c.stmtsT(rest, d, tail)
		if err != nil {
			return "", err
		}
		return fmt.Sprintf("%slet %s : %s := %s\n%s", ind(d), leanName(name), v.t.lean(), v.s, r), nil
	}
	switch s := s.(type) {
	case *ast.ReturnStmt:
		if tail != "" {
			return "", fmt.Errorf("return inside a joining if at %s", at())
		}
		fi := c.cur
		if len(s.Results) == 0 {
			var parts []string
			for _, n := range fi.named {
				if n == "" {
					return "", fmt.Errorf("bare return without named results at %s", at())
				}
				parts = append(parts, leanName(n))
			}
			if len(parts) == 1 {
				return ind(d) + parts[0], nil
			}
			return ind(d) + "(" + strings.Join(parts, ", ") + ")", nil
		}
		if len(s.Results) != len(fi.results) {
			return "", fmt.Errorf("return with %d values at %s", len(s.Results), at())
		}
		var parts []string
		for i, r := range s.Results {
			v, err := c.expr(r)
			if err != nil {
				return "", err
			}
			if fi.results[i] == tBig {
				if id, ok := r.(*ast.Ident); ok {
					if _, isVar := c.vars[id.Name]; isVar {
						return "", fmt.Errorf("returns the package-level *big.Int %s itself (callers could modify it) at %s", id.Name, at())
					}
				}
			}
			if v, err = c.coerce(v, fi.results[i]); err != nil {
				return "", fmt.Errorf("%v at %s", err, at())
			}
			parts = append(parts, v.s)
		}
		if len(parts) == 1 {
			return ind(d) + parts[0], nil
		}
		return ind(d) + "(" + strings.Join(parts, ", ") + ")", nil
	case *ast.AssignStmt:
		if len(s.Lhs) != 1 || len(s.Rhs) != 1 {
			return "", fmt.Errorf("multi-value assignment at %s", at())
		}
		id, ok := s.Lhs[0].(*ast.Ident)
		if !ok {
			return "", fmt.Errorf("assignment to %s at %s", exprString(s.Lhs[0]), at())
		}
		if _, isVar := c.vars[id.Name]; isVar {
			if _, local := c.lookup(id.Name); !local {
				return "", fmt.Errorf("assigns the package variable %s at %s", id.Name, at())
			}
		}
		v, err := c.expr(s.Rhs[0])
		if err != nil {
			return "", err
		}
		if v.t == tBig {
			if rid, ok := s.Rhs[0].(*ast.Ident); ok {
				if _, isVar := c.vars[rid.Name]; isVar {
					return "", fmt.Errorf("aliases the package-level *big.Int %s at %s", rid.Name, at())
				}
			}
		}
		if s.Tok == token.DEFINE {
			if _, isVar := c.vars[id.Name]; isVar {
				return "", fmt.Errorf("%s := … shadows a package variable at %s", id.Name, at())
			}
			if _, exists := c.lookup(id.Name); exists && len(c.env) > 1 {
				return "", fmt.Errorf("%s := … shadows an outer variable at %s", id.Name, at())
			}
			if v.t == tUntyped {
				v = bval{"(i64 " + v.s + ")", tI64}
			}
			if v.t == tNil {
				return "", fmt.Errorf("%s := nil at %s", id.Name, at())
			}
			c.env[len(c.env)-1][id.Name] = v.t
			return bind(id.Name, v)
		}
		lt, ok := c.lookup(id.Name)
		if !ok {
			return "", fmt.Errorf("assignment to unknown variable %s at %s", id.Name, at())
		}
		switch s.Tok {
		case token.ASSIGN:
		case token.ADD_ASSIGN, token.SUB_ASSIGN, token.MUL_ASSIGN:
			op := map[token.Token]token.Token{token.ADD_ASSIGN: token.ADD, token.SUB_ASSIGN: token.SUB, token.MUL_ASSIGN: token.MUL}[s.Tok]
			if v, err = c.arith(op, bval{leanName(id.Name), lt}, v, at()); err != nil {
				return "", err
			}
		default:
			return "", fmt.Errorf("assignment operator %s at %s", s.Tok, at())
		}
		if v, err = c.coerce(v, lt); err != nil {
			return "", fmt.Errorf("%v at %s", err, at())
		}
		return bind(id.Name, v)
	case *ast.IncDecStmt:
		id, ok := s.X.(*ast.Ident)
		if !ok {
			return "", fmt.Errorf("inc/dec of %s at %s", exprString(s.X), at())
		}
		lt, ok := c.lookup(id.Name)
		if !ok {
			return "", fmt.Errorf("inc/dec of unknown variable %s at %s", id.Name, at())
		}
		op := token.ADD
		if s.Tok == token.DEC {
			op = token.SUB
		}
		v, err := c.arith(op, bval{leanName(id.Name), lt}, bval{"1", tUntyped}, at())
		if err != nil {
			return "", err
		}
		return bind(id.Name, v)
	case *ast.DeclStmt:
		gd, ok := s.Decl.(*ast.GenDecl)
		if !ok || gd.Tok != token.VAR || len(gd.Specs) != 1 {
			return "", fmt.Errorf("declaration at %s", at())
		}
		vs := gd.Specs[0].(*ast.ValueSpec)
		if len(vs.Names) != 1 || len(vs.Values) > 1 {
			return "", fmt.Errorf("declaration at %s", at())
		}
		name := vs.Names[0].Name
		if _, exists := c.lookup(name); exists && len(c.env) > 1 {
			return "", fmt.Errorf("var %s shadows an outer variable at %s", name, at())
		}
		var v bval
		if vs.Type != nil {
			t, err := c.goType(vs.Type)
			if err != nil {
				return "", err
			}
			if t == tBig && len(vs.Values) == 0 {
				return "", fmt.Errorf("var %s *big.Int without a value (nil) at %s", name, at())
			}
			v = bval{"0", t}
			if t.lean() == "Bool" {
				v.s = "false"
			}
			if len(vs.Values) == 1 {
				e, err := c.expr(vs.Values[0])
				if err != nil {
					return "", err
				}
				if v, err = c.coerce(e, t); err != nil {
					return "", fmt.Errorf("%v at %s", err, at())
				}
			}
		} else {
			if len(vs.Values) != 1 {
				return "", fmt.Errorf("declaration at %s", at())
			}
			e, err := c.expr(vs.Values[0])
			if err != nil {
				return "", err
			}
			if e.t == tUntyped {
				e = bval{"(i64 " + e.s + ")", tI64}
			}
			v = e
		}
		c.env[len(c.env)-1][name] = v.t
		return bind(name, v)
	case *ast.IfStmt:
		pre := ""
		if s.Init != nil {
			as, ok := s.Init.(*ast.AssignStmt)
			if !ok || as.Tok != token.DEFINE || len(as.Lhs) != 1 || len(as.Rhs) != 1 {
				return "", fmt.Errorf("if-initialiser at %s is not `n := e`", at())
			}
			id, ok := as.Lhs[0].(*ast.Ident)
			if !ok {
				return "", fmt.Errorf("if-initialiser at %s", at())
			}
			if _, exists := c.lookup(id.Name); exists {
				return "", fmt.Errorf("if-initialiser %s shadows an outer variable at %s", id.Name, at())
			}
			if _, isVar := c.vars[id.Name]; isVar {
				return "", fmt.Errorf("if-initialiser %s shadows a package variable at %s", id.Name, at())
			}
			v, err := c.expr(as.Rhs[0])
			if err != nil {
				return "", err
			}
			if v.t == tUntyped {
				v = bval{"(i64 " + v.s + ")", tI64}
			}
			if v.t == tNil {
				return "", fmt.Errorf("if-initialiser %s := nil at %s", id.Name, at())
			}
			// The Lean binding stays visible in the continuation; Go code after the if cannot mention the name
			// (it would not compile) and a later re-declaration is refused as shadowing, so nothing can see it.
			c.env[len(c.env)-1][id.Name] = v.t
			pre = fmt.Sprintf("%slet %s : %s := %s\n", ind(d), leanName(id.Name), v.t.lean(), v.s)
		}
		pop := func() {}
		cond, err := c.expr(s.Cond)
		if err != nil {
			pop()
			return "", err
		}
		if cond.t != tBool {
			pop()
			return "", fmt.Errorf("if-condition is not boolean at %s", at())
		}
		var elseBody []ast.Stmt
		switch e := s.Else.(type) {
		case nil:
		case *ast.BlockStmt:
			elseBody = e.List
		case *ast.IfStmt:
			elseBody = []ast.Stmt{e}
		}
		if endsInReturn(s.Body.List) && tail == "" {
			c.env = append(c.env, map[string]bty{})
			th, err := c.stmtsT(s.Body.List, d+1, "")
			c.env = c.env[:len(c.env)-1]
			if err != nil {
				pop()
				return "", err
			}
			c.env = append(c.env, map[string]bty{})
			var el string
			if s.Else != nil && !endsInReturn(elseBody) {
				// else-branch falls through into the rest: inline it (no new bindings may leak: refuse := there)
				if containsReturn(elseBody) {
					c.env = c.env[:len(c.env)-1]
					pop()
					return "", fmt.Errorf("else-branch with a partial return at %s", at())
				}
				el, err = c.stmtsT(append(append([]ast.Stmt{}, elseBody...), rest...), d+1, "")
			} else if s.Else != nil {
				el, err = c.stmtsT(elseBody, d+1, "")
				// rest is unreachable
			} else {
				el, err = c.stmtsT(rest, d+1, "")
			}
			c.env = c.env[:len(c.env)-1]
			pop()
			if err != nil {
				return "", err
			}
			return fmt.Sprintf("%s%sif %s then\n%s\n%selse\n%s", pre, ind(d), cond.s, th, ind(d), el), nil
		}
		// joining if: no return inside; merge the assigned outer variables
		if containsReturn(s.Body.List) || containsReturn(elseBody) {
			pop()
			return "", fmt.Errorf("if with a return on some paths only at %s", at())
		}
		acc, local := map[string]bool{}, map[string]bool{}
		if err := c.assignedVars(s.Body.List, acc, local); err != nil {
			pop()
			return "", fmt.Errorf("%v at %s", err, at())
		}
		if err := c.assignedVars(elseBody, acc, local); err != nil {
			pop()
			return "", fmt.Errorf("%v at %s", err, at())
		}
		var vars []string
		for v := range acc {
			if _, ok := c.lookup(v); !ok {
				pop()
				return "", fmt.Errorf("assignment to unknown variable %s at %s", v, at())
			}
			if _, isVar := c.vars[v]; isVar {
				if _, local := c.lookup(v); !local {
					pop()
					return "", fmt.Errorf("assigns the package variable %s at %s", v, at())
				}
			}
			vars = append(vars, v)
		}
		sort.Strings(vars)
		if len(vars) == 0 {
			pop()
			return "", fmt.Errorf("if without effect (or with side effects only) at %s", at())
		}
		var names []string
		for _, v := range vars {
			names = append(names, leanName(v))
		}
		tup := names[0]
		if len(names) > 1 {
			tup = "(" + strings.Join(names, ", ") + ")"
		}
		c.env = append(c.env, map[string]bty{})
		th, err := c.stmtsT(s.Body.List, d+2, tup)
		c.env = c.env[:len(c.env)-1]
		if err != nil {
			pop()
			return "", err
		}
		c.env = append(c.env, map[string]bty{})
		el, err := c.stmtsT(elseBody, d+2, tup)
		c.env = c.env[:len(c.env)-1]
		pop()
		if err != nil {
			return "", err
		}
		r, err := c.stmtsT(rest, d, tail)
		if err != nil {
			return "", err
		}
		var b strings.Builder
		b.WriteString(pre)
		if len(vars) == 1 {
			t, _ := c.lookup(vars[0])
			fmt.Fprintf(&b, "%slet %s : %s :=\n%sif %s then\n%s\n%selse\n%s\n", ind(d), names[0], t.lean(), ind(d+1), cond.s, th, ind(d+1), el)
		} else {
			c.tmp++
			tn := fmt.Sprintf("j%d", c.tmp)
			fmt.Fprintf(&b, "%slet %s :=\n%sif %s then\n%s\n%selse\n%s\n", ind(d), tn, ind(d+1), cond.s, th, ind(d+1), el)
			for i, n := range names {
				proj := tn
				for k := 0; k < i; k++ {
					proj += ".2"
				}
				if i < len(names)-1 {
					proj += ".1"
				}
				t, _ := c.lookup(vars[i])
				fmt.Fprintf(&b, "%slet %s : %s := %s\n", ind(d), n, t.lean(), proj)
			}
		}
		b.WriteString(r)
		return b.String(), nil
	}
	return "", fmt.Errorf("statement %T unsupported at %s", s, at())
}

// coerce v to the Go type `to` (assignability): untyped constants adapt, nil adapts to error / *big.Int.
func (c *bigCtx) coerce(v bval, to bty) (bval, error) {
	if v.t == to {
		return v, nil
	}
	switch {
	case v.t == tUntyped && (to.isMachine() || to == tBig):
		return bval{v.s, to}, nil
	case v.t == tNil && to == tErr:
		return bval{"false", tErr}, nil
	case v.t == tNil && to == tBig:
		// a nil *big.Int (only ever paired with a non-nil error in the translated subset's callers)
		return bval{"0", tBig}, nil
	}
	return v, fmt.Errorf("type mismatch (%s value where %s is expected)", tyName(v.t), tyName(to))
}

func tyName(t bty) string {
	return map[bty]string{tBig: "*big.Int", tU64: "uint64", tI64: "int64/int", tI32: "int32", tU32: "uint32", tBool: "bool", tErr: "error", tUntyped: "untyped constant", tNil: "nil"}[t]
}

func (c *bigCtx) arith(op token.Token, x, y bval, at string) (bval, error) {
	t := x.t
	if t == tUntyped {
		t = y.t
	}
	if x.t != tUntyped && y.t != tUntyped && x.t != y.t {
		return bval{}, fmt.Errorf("operands of %s have different types (%s, %s) at %s", op, tyName(x.t), tyName(y.t), at)
	}
	if !(t.isMachine() || t == tUntyped) {
		return bval{}, fmt.Errorf("operator %s on %s at %s", op, tyName(t), at)
	}
	var s string
	switch op {
	case token.ADD, token.SUB, token.MUL:
		s = fmt.Sprintf("(%s %s %s)", x.s, op, y.s)
	case token.QUO:
		c.cur.divs = append(c.cur.divs, fmt.Sprintf("`%s / %s`", x.s, y.s))
		if t.isSigned() || t == tUntyped {
			s = fmt.Sprintf("(Int.tdiv %s %s)", x.s, y.s)
		} else {
			s = fmt.Sprintf("(Int.ediv %s %s)", x.s, y.s)
		}
	case token.REM:
		c.cur.divs = append(c.cur.divs, fmt.Sprintf("`%s %% %s`", x.s, y.s))
		if t.isSigned() || t == tUntyped {
			s = fmt.Sprintf("(Int.tmod %s %s)", x.s, y.s)
		} else {
			s = fmt.Sprintf("(Int.emod %s %s)", x.s, y.s)
		}
	default:
		return bval{}, fmt.Errorf("operator %s unsupported at %s", op, at)
	}
	if w := t.wrap(); w != "" {
		s = fmt.Sprintf("(%s %s)", w, s)
	}
	return bval{s, t}, nil
}

// constExpr: like expr, for package constants (exact arithmetic; a conversion fixes the type).
func (c *bigCtx) constExpr(e ast.Expr) (bval, error) { return c.expr(e) }

func (c *bigCtx) setString(e ast.Expr) (bval, error) {
	call, ok := e.(*ast.CallExpr)
	if !ok {
		return bval{}, fmt.Errorf("two-value assignment from %s", exprString(e))
	}
	sel, ok := call.Fun.(*ast.SelectorExpr)
	if !ok || sel.Sel.Name != "SetString" || !isNewBig(sel.X) || len(call.Args) != 2 {
		return bval{}, fmt.Errorf("two-value assignment from %s (only new(big.Int).SetString(CONST, 10))", exprString(e))
	}
	if lit, ok := call.Args[1].(*ast.BasicLit); !ok || lit.Value != "10" {
		return bval{}, fmt.Errorf("SetString with a base other than the literal 10")
	}
	var str string
	switch a := call.Args[0].(type) {
	case *ast.BasicLit:
		str = a.Value
	case *ast.Ident:
		lit, ok := c.consts[a.Name].(*ast.BasicLit)
		if !ok || lit.Kind != token.STRING {
			return bval{}, fmt.Errorf("SetString argument %s is not a string constant", a.Name)
		}
		str = lit.Value
	default:
		return bval{}, fmt.Errorf("SetString argument %s", exprString(call.Args[0]))
	}
	str = strings.Trim(str, "\"`")
	digits := strings.TrimPrefix(str, "-")
	if digits == "" || strings.Trim(digits, "0123456789") != "" {
		return bval{}, fmt.Errorf("SetString(%q, 10) does not parse (the variable would be nil)", str)
	}
	if strings.HasPrefix(str, "-") {
		return bval{"(-" + digits + ")", tBig}, nil
	}
	return bval{digits, tBig}, nil
}

func isNewBig(e ast.Expr) bool {
	call, ok := e.(*ast.CallExpr)
	if !ok || len(call.Args) != 1 {
		return false
	}
	if id, ok := call.Fun.(*ast.Ident); !ok || id.Name != "new" {
		return false
	}
	sel, ok := call.Args[0].(*ast.SelectorExpr)
	if !ok {
		return false
	}
	id, ok := sel.X.(*ast.Ident)
	return ok && id.Name == "big" && sel.Sel.Name == "Int"
}

func (c *bigCtx) bigArg(e ast.Expr) (bval, error) {
	v, err := c.expr(e)
	if err != nil {
		return v, err
	}
	if v.t != tBig {
		return v, fmt.Errorf("%s is not a *big.Int", exprString(e))
	}
	return v, nil
}

func (c *bigCtx) expr(e ast.Expr) (bval, error) {
	at := func() string { return c.fset.Position(e.Pos()).String() }
	switch e := e.(type) {
	case *ast.ParenExpr:
		return c.expr(e.X)
	case *ast.BasicLit:
		if e.Kind == token.INT {
			s := strings.ReplaceAll(e.Value, "_", "")
			if strings.HasPrefix(s, "0") && len(s) > 1 && !strings.HasPrefix(s, "0x") && !strings.HasPrefix(s, "0X") {
				return bval{}, fmt.Errorf("octal/binary literal %s at %s", e.Value, at())
			}
			return bval{s, tUntyped}, nil
		}
		return bval{}, fmt.Errorf("literal %s unsupported at %s", e.Value, at())
	case *ast.Ident:
		switch e.Name {
		case "true", "false":
			return bval{e.Name, tBool}, nil
		case "nil":
			return bval{"nil", tNil}, nil
		case "_":
			return bval{}, fmt.Errorf("blank identifier at %s", at())
		}
		if t, ok := c.lookup(e.Name); ok {
			return bval{leanName(e.Name), t}, nil
		}
		if ce, ok := c.consts[e.Name]; ok {
			if lit, ok := ce.(*ast.BasicLit); ok && lit.Kind == token.STRING {
				return bval{}, fmt.Errorf("string constant %s used as a value at %s", e.Name, at())
			}
			return bval{leanName(e.Name), c.constType(ce)}, nil
		}
		if t, ok := c.vars[e.Name]; ok {
			if c.cur != nil && c.cur.name == "init" {
				if c.mutable[e.Name] != "" {
					c.cur.gvars = append(c.cur.gvars, e.Name)
				}
				if _, has := c.initVal[e.Name]; !has {
					return bval{}, fmt.Errorf("init() reads %s before assigning it at %s", e.Name, at())
				}
			}
			return bval{leanName(e.Name), t}, nil
		}
		return bval{}, fmt.Errorf("unknown identifier %s at %s", e.Name, at())
	case *ast.SelectorExpr:
		if id, ok := e.X.(*ast.Ident); ok && id.Name == "math" {
			switch e.Sel.Name {
			case "MaxUint64":
				return bval{"18446744073709551615", tUntyped}, nil
			case "MaxInt64":
				return bval{"9223372036854775807", tUntyped}, nil
			case "MaxUint32":
				return bval{"4294967295", tUntyped}, nil
			case "MaxInt32":
				return bval{"2147483647", tUntyped}, nil
			case "MinInt64":
				return bval{"(-9223372036854775808)", tUntyped}, nil
			}
		}
		return bval{}, fmt.Errorf("selector %s unsupported at %s", exprString(e), at())
	case *ast.UnaryExpr:
		x, err := c.expr(e.X)
		if err != nil {
			return x, err
		}
		switch e.Op {
		case token.NOT:
			if x.t != tBool {
				return x, fmt.Errorf("! on a non-boolean at %s", at())
			}
			return bval{"(!" + x.s + ")", tBool}, nil
		case token.SUB:
			if x.t == tUntyped {
				return bval{"(-" + x.s + ")", tUntyped}, nil
			}
			if x.t.isMachine() {
				return bval{fmt.Sprintf("(%s (-%s))", x.t.wrap(), x.s), x.t}, nil
			}
		case token.ADD:
			if x.t == tUntyped || x.t.isMachine() {
				return x, nil
			}
		}
		return x, fmt.Errorf("unary %s unsupported at %s", e.Op, at())
	case *ast.BinaryExpr:
		// x.Cmp(y) ⋈ 0 and x.Sign() ⋈ 0
		if rel, ok := relName[e.Op]; ok {
			if lit, ok := e.Y.(*ast.BasicLit); ok && lit.Value == "0" {
				if call, ok := e.X.(*ast.CallExpr); ok {
					if sel, ok := call.Fun.(*ast.SelectorExpr); ok {
						if sel.Sel.Name == "Cmp" && len(call.Args) == 1 {
							x, err := c.bigArg(sel.X)
							if err != nil {
								return x, err
							}
							y, err := c.bigArg(call.Args[0])
							if err != nil {
								return y, err
							}
							return bval{fmt.Sprintf("(decide (%s %s %s))", x.s, rel, y.s), tBool}, nil
						}
						if sel.Sel.Name == "Sign" && len(call.Args) == 0 {
							x, err := c.bigArg(sel.X)
							if err != nil {
								return x, err
							}
							return bval{fmt.Sprintf("(decide (%s %s 0))", x.s, rel), tBool}, nil
						}
					}
				}
			}
		}
		x, err := c.expr(e.X)
		if err != nil {
			return x, err
		}
		y, err := c.expr(e.Y)
		if err != nil {
			return y, err
		}
		switch e.Op {
		case token.ADD, token.SUB, token.MUL, token.QUO, token.REM:
			return c.arith(e.Op, x, y, at())
		case token.LAND, token.LOR:
			if x.t != tBool || y.t != tBool {
				return x, fmt.Errorf("%s on non-booleans at %s", e.Op, at())
			}
			return bval{fmt.Sprintf("(%s %s %s)", x.s, e.Op, y.s), tBool}, nil
		}
		if rel, ok := relName[e.Op]; ok {
			if x.t == tBool && y.t == tBool && (e.Op == token.EQL || e.Op == token.NEQ) {
				return bval{fmt.Sprintf("(%s %s %s)", x.s, map[token.Token]string{token.EQL: "==", token.NEQ: "!="}[e.Op], y.s), tBool}, nil
			}
			if (x.t == tErr && y.t == tNil) || (x.t == tNil && y.t == tErr) {
				v := x
				if x.t == tNil {
					v = y
				}
				switch e.Op {
				case token.NEQ:
					return bval{v.s, tBool}, nil
				case token.EQL:
					return bval{"(!" + v.s + ")", tBool}, nil
				}
			}
			if x.t == tBig || y.t == tBig {
				return x, fmt.Errorf("comparison of *big.Int pointers at %s", at())
			}
			if x.t != tUntyped && y.t != tUntyped && x.t != y.t {
				return x, fmt.Errorf("comparison of %s with %s at %s", tyName(x.t), tyName(y.t), at())
			}
			if !(x.t.isMachine() || x.t == tUntyped) || !(y.t.isMachine() || y.t == tUntyped) {
				return x, fmt.Errorf("comparison of %s with %s at %s", tyName(x.t), tyName(y.t), at())
			}
			return bval{fmt.Sprintf("(decide (%s %s %s))", x.s, rel, y.s), tBool}, nil
		}
		return x, fmt.Errorf("binary %s unsupported at %s", e.Op, at())
	case *ast.CallExpr:
		return c.call(e)
	}
	return bval{}, fmt.Errorf("expression %T unsupported at %s", e, at())
}

var relName = map[token.Token]string{token.LSS: "<", token.LEQ: "≤", token.GTR: ">", token.GEQ: "≥", token.EQL: "=", token.NEQ: "≠"}

func (c *bigCtx) constType(e ast.Expr) bty {
	if call, ok := e.(*ast.CallExpr); ok && len(call.Args) == 1 {
		if t, err := c.goType(call.Fun); err == nil && t.isMachine() {
			return t
		}
	}
	if id, ok := e.(*ast.Ident); ok {
		if ce, ok := c.consts[id.Name]; ok {
			return c.constType(ce)
		}
	}
	if p, ok := e.(*ast.ParenExpr); ok {
		return c.constType(p.X)
	}
	if b, ok := e.(*ast.BinaryExpr); ok {
		if t := c.constType(b.X); t != tUntyped {
			return t
		}
		return c.constType(b.Y)
	}
	return tUntyped
}

func (c *bigCtx) call(e *ast.CallExpr) (bval, error) {
	at := func() string { return c.fset.Position(e.Pos()).String() }
	if e.Ellipsis != token.NoPos {
		return bval{}, fmt.Errorf("variadic call at %s", at())
	}
	switch f := e.Fun.(type) {
	case *ast.Ident:
		// conversion
		if t, err := c.goType(f); err == nil && t.isMachine() && len(e.Args) == 1 {
			if _, shadow := c.lookup(f.Name); !shadow {
				x, err := c.expr(e.Args[0])
				if err != nil {
					return x, err
				}
				if !(x.t.isMachine() || x.t == tUntyped) {
					return x, fmt.Errorf("conversion of %s to %s at %s", tyName(x.t), f.Name, at())
				}
				if x.t == t {
					return x, nil
				}
				if x.t == tUntyped {
					// a constant must fit the type (the Go compiler refuses it otherwise): no wrap
					return bval{x.s, t}, nil
				}
				return bval{fmt.Sprintf("(%s %s)", t.wrap(), x.s), t}, nil
			}
		}
		if f.Name == "new" {
			if isNewBig(e) {
				return bval{"0", tBig}, nil
			}
			return bval{}, fmt.Errorf("new(%s) at %s", exprString(e.Args[0]), at())
		}
		callee, ok := c.fns[f.Name]
		if !ok {
			return bval{}, fmt.Errorf("call of %s, which is not a function of the translated files, at %s", f.Name, at())
		}
		if c.cur != nil && (c.cur.name == "init" || strings.HasPrefix(c.cur.name, "const ")) {
			c.cur.calls[f.Name] = true
		}
		if len(callee.results) != 1 {
			return bval{}, fmt.Errorf("call of %s with %d results inside an expression at %s", f.Name, len(callee.results), at())
		}
		if len(e.Args) != len(callee.params) {
			return bval{}, fmt.Errorf("call of %s with %d arguments at %s", f.Name, len(e.Args), at())
		}
		args := []string{}
		for _, g := range callee.gvars {
			args = append(args, leanName(g))
		}
		for i, a := range e.Args {
			x, err := c.expr(a)
			if err != nil {
				return x, err
			}
			if x, err = c.coerce(x, callee.params[i].t); err != nil {
				return x, fmt.Errorf("argument %d of %s: %v at %s", i+1, f.Name, err, at())
			}
			args = append(args, x.s)
		}
		if len(args) == 0 {
			return bval{leanName(callee.name), callee.results[0]}, nil
		}
		return bval{"(" + leanName(callee.name) + " " + strings.Join(args, " ") + ")", callee.results[0]}, nil
	case *ast.SelectorExpr:
		if id, ok := f.X.(*ast.Ident); ok {
			if _, local := c.lookup(id.Name); !local {
				switch id.Name + "." + f.Sel.Name {
				case "big.NewInt":
					if len(e.Args) != 1 {
						break
					}
					x, err := c.expr(e.Args[0])
					if err != nil {
						return x, err
					}
					switch x.t {
					case tUntyped, tI64:
						return bval{x.s, tBig}, nil
					}
					return x, fmt.Errorf("big.NewInt of a %s (needs int64) at %s", tyName(x.t), at())
				case "errors.New", "fmt.Errorf":
					for _, a := range e.Args[1:] {
						if _, err := c.expr(a); err != nil {
							return bval{}, fmt.Errorf("argument of %s.%s: %v", id.Name, f.Sel.Name, err)
						}
					}
					return bval{"true", tErr}, nil
				}
			}
		}
		// methods of *big.Int
		name := f.Sel.Name
		switch name {
		case "Add", "Sub", "Mul", "Div", "Quo", "Mod", "Rem":
			if !isNewBig(f.X) {
				return bval{}, fmt.Errorf("%s.%s(…): in-place update of a big.Int that is not a fresh new(big.Int) at %s", exprString(f.X), name, at())
			}
			if len(e.Args) != 2 {
				break
			}
			x, err := c.bigArg(e.Args[0])
			if err != nil {
				return x, err
			}
			y, err := c.bigArg(e.Args[1])
			if err != nil {
				return y, err
			}
			switch name {
			case "Add":
				return bval{fmt.Sprintf("(%s + %s)", x.s, y.s), tBig}, nil
			case "Sub":
				return bval{fmt.Sprintf("(%s - %s)", x.s, y.s), tBig}, nil
			case "Mul":
				return bval{fmt.Sprintf("(%s * %s)", x.s, y.s), tBig}, nil
			}
			c.cur.divs = append(c.cur.divs, fmt.Sprintf("`%s(%s, %s)`", name, x.s, y.s))
			fn := map[string]string{"Div": "Int.ediv", "Mod": "Int.emod", "Quo": "Int.tdiv", "Rem": "Int.tmod"}[name]
			return bval{fmt.Sprintf("(%s %s %s)", fn, x.s, y.s), tBig}, nil
		case "Set", "Neg", "Abs", "SetUint64", "SetInt64":
			if !isNewBig(f.X) {
				return bval{}, fmt.Errorf("%s.%s(…): in-place update of a big.Int that is not a fresh new(big.Int) at %s", exprString(f.X), name, at())
			}
			if len(e.Args) != 1 {
				break
			}
			x, err := c.expr(e.Args[0])
			if err != nil {
				return x, err
			}
			switch name {
			case "Set", "Neg", "Abs":
				if x.t != tBig {
					return x, fmt.Errorf("%s of a %s at %s", name, tyName(x.t), at())
				}
				switch name {
				case "Neg":
					return bval{"(-" + x.s + ")", tBig}, nil
				case "Abs":
					return bval{"(" + x.s + ".natAbs : Int)", tBig}, nil
				}
				return x, nil
			case "SetUint64":
				if x.t != tU64 && x.t != tUntyped {
					return x, fmt.Errorf("SetUint64 of a %s at %s", tyName(x.t), at())
				}
				return bval{x.s, tBig}, nil
			case "SetInt64":
				if x.t != tI64 && x.t != tUntyped {
					return x, fmt.Errorf("SetInt64 of a %s at %s", tyName(x.t), at())
				}
				return bval{x.s, tBig}, nil
			}
		case "Cmp":
			if len(e.Args) != 1 {
				break
			}
			x, err := c.bigArg(f.X)
			if err != nil {
				return x, err
			}
			y, err := c.bigArg(e.Args[0])
			if err != nil {
				return y, err
			}
			return bval{fmt.Sprintf("(bigCmp %s %s)", x.s, y.s), tI64}, nil
		case "Sign", "IsUint64", "Uint64", "IsInt64", "Int64":
			if len(e.Args) != 0 {
				break
			}
			x, err := c.bigArg(f.X)
			if err != nil {
				return x, err
			}
			switch name {
			case "Sign":
				return bval{fmt.Sprintf("(Int.sign %s)", x.s), tI64}, nil
			case "IsUint64":
				return bval{fmt.Sprintf("(bigIsUint64 %s)", x.s), tBool}, nil
			case "Uint64":
				return bval{fmt.Sprintf("(bigUint64 %s)", x.s), tU64}, nil
			case "IsInt64":
				return bval{fmt.Sprintf("(bigIsInt64 %s)", x.s), tBool}, nil
			case "Int64":
				return bval{fmt.Sprintf("(bigInt64 %s)", x.s), tI64}, nil
			}
		}
		return bval{}, fmt.Errorf("call %s unsupported at %s", exprString(e.Fun), at())
	}
	return bval{}, fmt.Errorf("call %s unsupported at %s", exprString(e.Fun), at())
}
