#!/usr/bin/env python3
"""Maintenance helper for C14 (not run by ./check): prints the entries of `Aergo.Admit.openOps` for the current
`lean/Aergo/Gen/PartialOps.lean` from the classification rules below (regex on the key -> class), then `-----`, then
the `guardedInSource` entries.  Unclassified keys are listed and the exit code is 1: classify them by hand (a trap
needs a site in the model and a `safe_*` lemma).  Usage: python3 tools/goext/c14_mktable.py [PartialOps.lean]"""
import re, sys
src = open(sys.argv[1] if len(sys.argv) > 1 else '/verif/lean/Aergo/Gen/PartialOps.lean').read()
blk = src[src.index('def open_'):]
blk = blk[:blk.index('\n]')]
ents = re.findall(r'^\s*\("((?:[^"\\]|\\.)*)", (\d+)\)', blk, flags=re.M)
rules = [
 # (regex on key, class expr); keys print function-local names as `_` and attribute private single-caller helpers to their caller
 (r'validation\.go:ValidateSystemTx:slice:_\.Args\[1:\]', 'trap [sCandSlice]'),
 (r'validation\.go:ValidateSystemTx:index:_\.Args\[0\]', 'trap [sParseId0]'),
 (r'ExecuteSystemTx:slice:_\.Call\.Args\[1:\]', 'trap [vDaoSlice]'),
 (r'ExecuteSystemTx:(assert|index):_\.Call\.Args\[0\]', 'trap [vDaoId]'),
 (r'ExecuteSystemTx:(assert|index):_\.Call\.Args\[1\]', 'trap [vDaoVal]'),
 (r'ExecuteSystemTx:assert:_\.\(string\)', 'trap [vBpCand]'),
 (r'SubVote:nilarg', 'trap [rSubNil]'),
 (r'AddVote:slice', 'trap [rAddSlice]'),
 (r'Sync:index:_\.Votes\[0\]', 'trap [rSyncTop]'),
 (r'threshold:div', 'trap [rThreshDiv]'),
 (r'CalcGas:div', 'trap [fCalcGas]'),
 (r'validateTx:assert:_\.\(message', 'trap [pFdRsp]'),
 (r'ExecuteNameTx:(assert|index):_\.Args\[0\]', 'trap [nExCreate0, nExUpd0, nExOwner0]'),
 (r'ExecuteNameTx:(assert|index):_\.Args\[1\]', 'trap [nExUpd1]'),
 (r'ValidateNameTx:(assert|index)', 'trap [nVal0]'),
 (r'ValidateEnterpriseTx:slice:_\[_ : _\+types\.AddressLength\]', 'trap [gAdmins]'),
 (r'Conf\.Validate:index', 'trap [cRpcSplit]'),
 (r'config\.go:getConf:index:_\[0\]', 'trap [cDeser0]'),
 (r'ExecuteEnterpriseTx:index:_\.Args\[0\]', 'trap [xCtx0]'),
 (r'ExecuteEnterpriseTx:index:_\.Call\.Args\[1\]', 'trap [xEnable1]'),
 (r'ExecuteEnterpriseTx:index:_\.ArgsAny\[0\]', 'trap [xAny0]'),
 (r'ValidateEnterpriseTx:index:_\.Args\[0\]', 'trap [eCtx0, eCheckArgs0]'),
 (r'ValidateEnterpriseTx:slice:_\.Args\[1:\]', 'trap [eCtxTail]'),
 (r'ValidateEnterpriseTx:index:_\.Args\[1\]', 'trap [eCtx1]'),
 (r'ValidateEnterpriseTx:assert:_\.Args\[0\]', 'trap [eEnable0]'),
 # stored records
 (r'SubVote:slice', 'stored "old BP vote record = whole 39-byte ids: invariant OldVotesOk (hypothesis of the execution theorems; broken only through the known finding rAddSlice)"'),
 (r'vote\.go:deserializeVote(Ex)?:|voteresult\.go:loadVoteResult:slice', 'stored "written by serializeVote/serializeVoteEx/serializeVoteList; read by every vote/unstake the harness executes"'),
 (r'staking\.go:getStaking:slice', 'stored "deserializeStaking: written by serializeStaking; read by every system transaction the harness executes"'),
 (r'name\.go:getNameMap:(index|slice)', 'stored "deserializeNameMap: written by serializeNameMap (version 1, two length-prefixed fields); absent key = nil; read for every name sender/recipient the harness resolves"'),
 # library contracts
 (r'DecodeAddressBytes', 'lib "base58check.Decode returns at least the version byte or an error (checked in the library source)"'),
 (r'getConf:slice:strings\.Split', 'lib "strings.Split returns at least one element"'),
 (r'types/raft\.go:.*_name\[', 'lib "protobuf-generated enum name table: a map read"'),
 (r'CcArgument\.get:index', 'lib "CcArgument is a named map type: a map read"'),
 (r'whitelistConf\.Check:index', 'lib "whitelist is a map field: a map read"'),
 (r'vprStore\.update:index:_\[0\]', 'lib "getBucketIdx: types.AccountID is a [32]byte array"'),
 (r'CalculateMemberID:slice:_\[:8\]', 'lib "sha1.Sum-style fixed-size digest"'),
 (r':index:consensus\.ConsensusName', 'lib "static table indexed by a constant"'),
 (r'state/block\.go:BlockState\.AddReceipt:slice:_\[24:\]', 'lib "bloom GobEncode output starts with a 24-byte header"'),
 # constructor-initialised maps
 (r'getAccountState:mapwrite:(balance|nonce)', 'offPath "mp.testConfig is set only by the pool unit tests"'),
 (r':mapwrite:', 'ctor "the map is created by the constructor of its struct / by make in the package initialiser (newVoteResult, newVprStore, newTopVoters, newVpr, systemParams literal, initSysCmd)"'),
 # bounded by surrounding code
 (r'ValidateSystemTx:index:_\.Candidates', 'bounded "indices supplied by sort.Slice / guarded by i < len; the four system proposals have no candidate list"'),
 (r'Conf\.RemoveValue:slice', 'bounded "i is the range index of c.Values"'),
 (r'ExecuteEnterpriseTx:slice:_\.Admins', 'bounded "i is the range index of context.Admins"'),
 (r'executeTx:slice:_\[:maxRetSize-4\]', 'bounded "adjustRv: len(ret) > maxRetSize is tested on the line above"'),
 (r'OpSysTx\.ID:slice', 'bounded "op < OpSysTxMax is tested above; every stringer name starts with Op"'),
 (r'NewReceipt:slice', 'bounded "AccountState.ID() pads every id to 33 bytes"'),
 (r'types/receipt\.go:Receipt\.marshalBody(V2)?:slice', 'bounded "l := make([]byte, 8) in the same function"'),
 (r'AddressPadding', 'bounded "id := make([]byte, AddressLength) in the same function"'),
 (r'vprt\.go:(vprStore\.update|topVoters\.lowest|toVotingPower):assert', 'bounded "only *votingPower values are put into the bucket lists and the rank tree (vprStore.update/addTail, topVoters.update)"'),
 # explicit panics on storage errors
 (r':panic:panic\(\\"(failed to get staking total|voting data corruption|could not deserializeOwner)', 'storageErr'),
 # off path
 (r'types/blockchain\.go:(AvgTime|MovingAverage)', 'offPath "block producer signing-time statistics (reached only through the method-name over-approximation Get/Add)"'),
 (r'types/logging\.go', 'offPath "p2p log formatting"'),
 (r'types/quirk\.go', 'offPath "package initialisation of the quirk table"'),
 (r'types/rpc\.go:ConfigItem\.Add', 'offPath "RPC config reply (method name Add)"'),
 (r'mempool/stub\.go', 'offPath "mp.testConfig is set only by the pool unit tests"'),
 (r'chain/debugger\.go', 'offPath "debugger conditions (method names Check/String)"'),
 (r'raftlogger\.go|raftv2/.*defaultArgsFormat', 'offPath "raft log formatting"'),
]
out=[]
un=[]
for k,n in ents:
    key=k
    for rx,cl in rules:
        if re.search(rx,key):
            out.append((k,int(n),cl)); break
    else:
        un.append(k)
if un:
    print("UNCLASSIFIED:"); [print("  ",u) for u in un]; sys.exit(1)
# entries for sites whose expression is discharged in the source itself (auto) today
extra=[
 ('types/transaction.go:InitGovernance:index:_.Args[1]',1,'trap [tNameUpdTo]'),
 ('types/transaction.go:InitGovernance:index:_.Args[0]',2,'trap [tNameOwner0, tNameCommon0]'),
 ('types/vote.go:VoteList.Less:slice:_.Votes[_].Candidate[7:]',2,'trap [tLessSlice]'),
 ('contract/enterprise/validate.go:ValidateEnterpriseTx:index:_.Args[0]',9,'trap [eAdmin0, eEnable0]'),
 ('contract/enterprise/validate.go:ValidateEnterpriseTx:index:_.Args[1]',1,'trap [eEnable1]'),
 ('contract/enterprise/validate.go:ValidateEnterpriseTx:index:_[0]',1,'trap [eRpcVals0]'),
 ('contract/enterprise/changecluster.go:ValidateChangeCluster:index:_.Args[0]',2,'trap [eCc0]'),
]
def q(s): return '"'+s+'"'   # keys are already Lean-escaped as taken from the generated file
lines=[]
for k,n,cl in out: lines.append('  (%s, %d, %s)'%(q(k),n,cl))
lines2=[]
for k,n,cl in extra: lines2.append('  (%s, %d, %s)'%(q(k),n,cl))
sys.stdout.write(',\n'.join(lines)+'\n-----\n'+',\n'.join(lines2)+'\n')
