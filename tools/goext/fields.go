package main

import (
	"flag"
	"fmt"
	"go/ast"
	"go/parser"
	"go/token"
	"os"
	"path/filepath"
	"strings"
)

// Digest field-list extractor (C19, C09, C04).
//
// For each digest function it emits the ordered list of (field, kind) pairs the function
// feeds to the hash, recognising
//   for _, f := range []interface{}{ x.A, x.B, ... } { binary.Write(w, binary.LittleEndian, f) }
//   binary.Write(h, binary.LittleEndian, x.F)     -- fixed width, from the struct field type
//   h.Write(x.F)                                   -- raw bytes
// and any other statement in the function body that mentions the hash writer is an error
// (the function left the subset: the tie is broken).  It also emits the exported-field
// inventory of the hashed structs.

type digestSpec struct {
	lean, file, fn, strct, structFile string
}

func structFields(path, name string) ([][2]string, error) {
	fset := token.NewFileSet()
	af, err := parser.ParseFile(fset, path, nil, parser.SkipObjectResolution)
	if err != nil {
		return nil, err
	}
	var out [][2]string
	found := false
	ast.Inspect(af, func(n ast.Node) bool {
		ts, ok := n.(*ast.TypeSpec)
		if !ok || ts.Name.Name != name {
			return true
		}
		st, ok := ts.Type.(*ast.StructType)
		if !ok {
			return true
		}
		found = true
		for _, f := range st.Fields.List {
			for _, n := range f.Names {
				if !n.IsExported() {
					continue
				}
				out = append(out, [2]string{n.Name, exprString(f.Type)})
			}
		}
		return false
	})
	if !found {
		return nil, fmt.Errorf("struct %s not found in %s", name, path)
	}
	return out, nil
}

func kindOf(goType string) (string, error) {
	switch goType {
	case "[]byte":
		return "raw", nil
	case "uint64":
		return "u64le", nil
	case "int64":
		return "i64le", nil
	case "uint32":
		return "u32le", nil
	case "int32", "TxType":
		return "i32le", nil
	}
	return "", fmt.Errorf("field type %s has no fixed binary.Write encoding known to the model", goType)
}

func findFunc(path, fn string) (*ast.FuncDecl, *token.FileSet, error) {
	fset := token.NewFileSet()
	af, err := parser.ParseFile(fset, path, nil, parser.SkipObjectResolution)
	if err != nil {
		return nil, nil, err
	}
	for _, d := range af.Decls {
		if fd, ok := d.(*ast.FuncDecl); ok && goFnKey(fd) == fn {
			return fd, fset, nil
		}
	}
	return nil, nil, fmt.Errorf("function %s not found in %s", fn, path)
}

func selField(e ast.Expr) (string, bool) {
	if se, ok := e.(*ast.SelectorExpr); ok {
		if _, ok := se.X.(*ast.Ident); ok {
			return se.Sel.Name, true
		}
		// tx.Body.Nonce
		if _, ok := se.X.(*ast.SelectorExpr); ok {
			return se.Sel.Name, true
		}
	}
	return "", false
}

func isBinaryWrite(c *ast.CallExpr) bool {
	se, ok := c.Fun.(*ast.SelectorExpr)
	if !ok {
		return false
	}
	id, ok := se.X.(*ast.Ident)
	return ok && id.Name == "binary" && se.Sel.Name == "Write"
}

// isWriteLoop reports whether s is `for _, f := range X { if err := binary.Write(w, binary.LittleEndian, f); err != nil { return err } }`.
func isWriteLoop(s *ast.RangeStmt) bool {
	if len(s.Body.List) != 1 {
		return false
	}
	is, ok := s.Body.List[0].(*ast.IfStmt)
	if !ok || is.Init == nil {
		return false
	}
	as, ok := is.Init.(*ast.AssignStmt)
	if !ok || len(as.Rhs) != 1 {
		return false
	}
	c, ok := as.Rhs[0].(*ast.CallExpr)
	return ok && isBinaryWrite(c) && len(c.Args) == 3 &&
		exprString(c.Args[1]) == "binary.LittleEndian" && exprString(c.Args[2]) == exprString(s.Value)
}

// writeLoopHelper reports whether the function named fn in path is a helper `func h(w io.Writer, fields []interface{}) error`
// whose body is exactly the write loop over its second parameter followed by `return nil` (an extracted copy of the idiom).
func writeLoopHelper(path, fn string) bool {
	fd, _, err := findFunc(path, fn)
	if err != nil || fd.Recv != nil || fd.Type.Params == nil {
		return false
	}
	var params []string
	for _, f := range fd.Type.Params.List {
		for _, n := range f.Names {
			params = append(params, n.Name)
		}
	}
	if len(params) != 2 || len(fd.Body.List) != 2 {
		return false
	}
	rs, ok := fd.Body.List[0].(*ast.RangeStmt)
	if !ok || exprString(rs.X) != params[1] || !isWriteLoop(rs) {
		return false
	}
	ret, ok := fd.Body.List[1].(*ast.ReturnStmt)
	return ok && len(ret.Results) == 1 && exprString(ret.Results[0]) == "nil"
}

// noHashInput: digest := sha256.New(); txBody := tx.Body; return digest.Sum(nil) — such statements must not smuggle hash input.
func noHashInput(s ast.Node, fset *token.FileSet) error {
	bad := false
	ast.Inspect(s, func(n ast.Node) bool {
		if c, ok := n.(*ast.CallExpr); ok {
			if se, ok := c.Fun.(*ast.SelectorExpr); ok && se.Sel.Name == "Sum" && len(c.Args) == 1 && exprString(c.Args[0]) != "nil" {
				bad = true
			}
			if se, ok := c.Fun.(*ast.SelectorExpr); ok && se.Sel.Name == "Write" {
				bad = true
			}
		}
		return true
	})
	if bad {
		return fmt.Errorf("%s: hash input outside the recognised idioms", fset.Position(s.Pos()))
	}
	return nil
}

func extractDigest(spec digestSpec, types map[string]string) ([][2]string, error) {
	fd, fset, err := findFunc(spec.file, spec.fn)
	if err != nil {
		return nil, err
	}
	var out [][2]string
	add := func(e ast.Expr, forceRaw bool) error {
		f, ok := selField(e)
		if !ok {
			return fmt.Errorf("%s: hashed operand %s is not a struct field", fset.Position(e.Pos()), exprString(e))
		}
		t, ok := types[f]
		if !ok {
			return fmt.Errorf("%s: field %s is not a field of %s", fset.Position(e.Pos()), f, spec.strct)
		}
		k, err := kindOf(t)
		if err != nil {
			return err
		}
		if forceRaw && k != "raw" {
			return fmt.Errorf("%s: Write of non-bytes field %s", fset.Position(e.Pos()), f)
		}
		out = append(out, [2]string{f, k})
		return nil
	}
	for _, st := range fd.Body.List {
		switch s := st.(type) {
		case *ast.RangeStmt:
			cl, ok := s.X.(*ast.CompositeLit)
			if !ok {
				return nil, fmt.Errorf("%s: range over non-literal", fset.Position(s.Pos()))
			}
			if !isWriteLoop(s) {
				return nil, fmt.Errorf("%s: loop body is not the binary.Write(w, LittleEndian, f) idiom", fset.Position(s.Pos()))
			}
			for _, e := range cl.Elts {
				if err := add(e, false); err != nil {
					return nil, err
				}
			}
		case *ast.ExprStmt:
			c, ok := s.X.(*ast.CallExpr)
			if !ok {
				return nil, fmt.Errorf("%s: unsupported statement", fset.Position(s.Pos()))
			}
			if isBinaryWrite(c) {
				if len(c.Args) != 3 || exprString(c.Args[1]) != "binary.LittleEndian" {
					return nil, fmt.Errorf("%s: binary.Write not LittleEndian", fset.Position(s.Pos()))
				}
				if err := add(c.Args[2], false); err != nil {
					return nil, err
				}
			} else if se, ok := c.Fun.(*ast.SelectorExpr); ok && se.Sel.Name == "Write" && len(c.Args) == 1 {
				if err := add(c.Args[0], true); err != nil {
					return nil, err
				}
			} else {
				return nil, fmt.Errorf("%s: unsupported call %s", fset.Position(s.Pos()), exprString(c.Fun))
			}
		case *ast.ReturnStmt:
			// `return helper(w, []interface{}{ x.A, ... })` where helper is an extracted copy of the write loop
			if len(s.Results) == 1 {
				if c, ok := s.Results[0].(*ast.CallExpr); ok {
					if id, ok := c.Fun.(*ast.Ident); ok && len(c.Args) == 2 {
						cl, isLit := c.Args[1].(*ast.CompositeLit)
						if !isLit || !writeLoopHelper(spec.file, id.Name) {
							return nil, fmt.Errorf("%s: call of %s is not a recognised write-loop helper", fset.Position(s.Pos()), id.Name)
						}
						for _, e := range cl.Elts {
							if err := add(e, false); err != nil {
								return nil, err
							}
						}
						continue
					}
					if se, ok := c.Fun.(*ast.SelectorExpr); !ok || se.Sel.Name != "Sum" {
						return nil, fmt.Errorf("%s: unsupported call in return of a digest function", fset.Position(s.Pos()))
					}
				}
			}
			if err := noHashInput(s, fset); err != nil {
				return nil, err
			}
		case *ast.AssignStmt, *ast.DeclStmt:
			if err := noHashInput(s, fset); err != nil {
				return nil, err
			}
		default:
			return nil, fmt.Errorf("%s: unsupported statement %T in digest function", fset.Position(st.Pos()), st)
		}
	}
	return out, nil
}

func cmdFields(args []string) error {
	fs := flag.NewFlagSet("fields", flag.ContinueOnError)
	repo := fs.String("repo", "/repo", "repository root")
	out := fs.String("o", "", "output file")
	if err := fs.Parse(args); err != nil {
		return err
	}
	r := func(p string) string { return filepath.Join(*repo, p) }
	specs := []digestSpec{
		{"blockHashSpec", r("types/blockchain.go"), "writeBlockHeader", "BlockHeader", r("types/blockchain.pb.go")},
		{"blockSignSpec", r("types/blockchain.go"), "writeBlockHeaderOmitSign", "BlockHeader", r("types/blockchain.pb.go")},
		{"txHashSpec", r("types/blockchain.go"), "Tx.CalculateTxHash", "TxBody", r("types/blockchain.pb.go")},
		{"txSignSpec", r("account/key/sign.go"), "CalculateHashWithoutSign", "TxBody", r("types/blockchain.pb.go")},
	}
	var b strings.Builder
	b.WriteString("-- GENERATED by /verif/tools/goext fields from types/blockchain.go, types/blockchain.pb.go, account/key/sign.go. Do not edit.\n")
	b.WriteString("namespace Aergo.Gen.Enc\n\n")
	b.WriteString("/-- How `binary.Write(w, binary.LittleEndian, f)` / `h.Write(f)` serialises a field. -/\n")
	b.WriteString("inductive Kind | raw | u64le | i64le | u32le | i32le\nderiving Repr, DecidableEq\n\n")
	done := map[string]bool{}
	for _, s := range specs {
		sf, err := structFields(s.structFile, s.strct)
		if err != nil {
			return err
		}
		types := map[string]string{}
		for _, f := range sf {
			types[f[0]] = f[1]
		}
		if !done[s.strct] {
			done[s.strct] = true
			names := []string{}
			for _, f := range sf {
				names = append(names, fmt.Sprintf("%q", f[0]))
			}
			fmt.Fprintf(&b, "/-- exported fields of `types.%s` (%s) -/\ndef fieldsOf%s : List String := [%s]\n\n", s.strct, shortPath(s.structFile), s.strct, strings.Join(names, ", "))
		}
		l, err := extractDigest(s, types)
		if err != nil {
			return err
		}
		items := []string{}
		for _, f := range l {
			items = append(items, fmt.Sprintf("(%q, .%s)", f[0], f[1]))
		}
		fmt.Fprintf(&b, "/-- hash input of `%s` (%s), in order -/\ndef %s : List (String × Kind) := [%s]\n\n", s.fn, shortPath(s.file), s.lean, strings.Join(items, ", "))
	}
	b.WriteString("end Aergo.Gen.Enc\n")
	if *out == "" {
		fmt.Print(b.String())
		return nil
	}
	return os.WriteFile(*out, []byte(b.String()), 0o644)
}
