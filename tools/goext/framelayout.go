package main

import (
	"flag"
	"fmt"
	"go/ast"
	"go/parser"
	"go/token"
	"os"
	"sort"
	"strconv"
	"strings"
)

// Wire-header layout extractor (C18).
//
//	goext framelayout -o out.lean -io <repo>/p2p/v030/v030io.go -mv <repo>/p2p/p2pcommon/messagevalue.go
//
// Reads `const msgHeaderLength`, `(*V030ReadWriter).marshalHeader` and `parseHeader` and emits, for
// each of the two functions, the list of header slots (message field, lo, hi, encoding), sorted by
// offset (the statement order of non-overlapping writes / of reads is irrelevant; overlap is refused by the theorem
// header_layout_ok). Slice bounds may be integer constant expressions. Recognised statements (anything else is an error: the function left the subset
// and the tie is broken):
//
//	marshalHeader:  binary.BigEndian.PutUint32(rw.writeBuf[a:b], <expr containing m.Acc()>)
//	                binary.BigEndian.PutUint64(rw.writeBuf[a:b], <expr containing m.Acc()>)
//	                v := m.Acc()   /   v = m.Acc()
//	                copy(rw.writeBuf[a:b], v[:])
//	parseHeader:    v := [T(] binary.BigEndian.Uint32(buf[a:b]) [)]      (also Uint64)
//	                v := p2pcommon.MustParseBytes(buf[a:b])             (panics unless b-a = IDLength)
//	                return p2pcommon.NewLiteMessageValue(v..., v...), vLength
//
// The destination of a parsed variable is found through the constructor: parameter position ->
// struct field of the composite literal in NewLiteMessageValue -> the accessor method of
// MessageValue that returns that field (messagevalue.go). The second return value is `Length`.

type slot struct {
	field  string
	lo, hi int
	enc    string
}

// intLit evaluates a slice bound: an integer literal, a named integer constant of the file, or a constant expression
// built from those with + - * and parentheses (`offID+idLen`, `msgHeaderLength-16`): a harmless rewrite of `16`.
func intLit(e ast.Expr, consts map[string]int) (int, error) {
	switch x := e.(type) {
	case *ast.BasicLit:
		if x.Kind == token.INT {
			v, err := strconv.ParseInt(x.Value, 0, 64)
			return int(v), err
		}
	case *ast.Ident:
		if v, ok := consts[x.Name]; ok {
			return v, nil
		}
	case *ast.ParenExpr:
		return intLit(x.X, consts)
	case *ast.BinaryExpr:
		a, err := intLit(x.X, consts)
		if err != nil {
			return 0, err
		}
		b, err := intLit(x.Y, consts)
		if err != nil {
			return 0, err
		}
		switch x.Op {
		case token.ADD:
			return a + b, nil
		case token.SUB:
			return a - b, nil
		case token.MUL:
			return a * b, nil
		}
	}
	return 0, fmt.Errorf("slice bound %s is not an integer constant expression", exprString(e))
}

// sliceOf recognises <base>[lo:hi] and returns base text and bounds.
func sliceOf(e ast.Expr, consts map[string]int) (string, int, int, error) {
	s, ok := e.(*ast.SliceExpr)
	if !ok || s.Low == nil || s.High == nil || s.Max != nil {
		return "", 0, 0, fmt.Errorf("%s is not base[lo:hi]", exprString(e))
	}
	lo, err := intLit(s.Low, consts)
	if err != nil {
		return "", 0, 0, err
	}
	hi, err := intLit(s.High, consts)
	if err != nil {
		return "", 0, 0, err
	}
	return exprString(s.X), lo, hi, nil
}

// accessorCall finds the unique call recv.Acc() with no arguments inside e.
func accessorCall(e ast.Expr, recv string) (string, error) {
	var found []string
	ast.Inspect(e, func(n ast.Node) bool {
		c, ok := n.(*ast.CallExpr)
		if !ok || len(c.Args) != 0 {
			return true
		}
		if sel, ok := c.Fun.(*ast.SelectorExpr); ok {
			if id, ok := sel.X.(*ast.Ident); ok && id.Name == recv {
				found = append(found, sel.Sel.Name)
			}
		}
		return true
	})
	if len(found) != 1 {
		return "", fmt.Errorf("expected exactly one %s.Accessor() in %s, found %v", recv, exprString(e), found)
	}
	return found[0], nil
}

func beCall(c *ast.CallExpr) (string, bool) { // binary.BigEndian.<name>
	sel, ok := c.Fun.(*ast.SelectorExpr)
	if !ok {
		return "", false
	}
	if exprString(sel.X) != "binary.BigEndian" {
		return "", false
	}
	return sel.Sel.Name, true
}

func constsOf(af *ast.File) map[string]int {
	out := map[string]int{}
	for _, d := range af.Decls {
		gd, ok := d.(*ast.GenDecl)
		if !ok || gd.Tok != token.CONST {
			continue
		}
		for _, sp := range gd.Specs {
			vs := sp.(*ast.ValueSpec)
			for i, n := range vs.Names {
				if i < len(vs.Values) {
					// integer literals and constant expressions over earlier constants
					if v, err := intLit(vs.Values[i], out); err == nil {
						out[n.Name] = v
					}
				}
			}
		}
	}
	return out
}

func funcNamed(af *ast.File, name string) *ast.FuncDecl {
	for _, d := range af.Decls {
		if fd, ok := d.(*ast.FuncDecl); ok && fd.Name.Name == name {
			return fd
		}
	}
	return nil
}

func marshalSlots(fd *ast.FuncDecl, consts map[string]int) ([]slot, error) {
	if fd.Type.Params == nil || len(fd.Type.Params.List) != 1 || len(fd.Type.Params.List[0].Names) != 1 {
		return nil, fmt.Errorf("marshalHeader: expected one parameter")
	}
	m := fd.Type.Params.List[0].Names[0].Name
	vars := map[string]string{}
	var out []slot
	for _, st := range fd.Body.List {
		switch s := st.(type) {
		case *ast.AssignStmt:
			if len(s.Lhs) != 1 || len(s.Rhs) != 1 {
				return nil, fmt.Errorf("marshalHeader: unsupported assignment %s", exprString(s.Lhs[0]))
			}
			id, ok := s.Lhs[0].(*ast.Ident)
			if !ok {
				return nil, fmt.Errorf("marshalHeader: unsupported assignment target %s", exprString(s.Lhs[0]))
			}
			acc, err := accessorCall(s.Rhs[0], m)
			if err != nil {
				return nil, err
			}
			if c, ok := s.Rhs[0].(*ast.CallExpr); !ok || len(c.Args) != 0 {
				return nil, fmt.Errorf("marshalHeader: %s is not a plain accessor call", exprString(s.Rhs[0]))
			}
			vars[id.Name] = acc
		case *ast.ExprStmt:
			c, ok := s.X.(*ast.CallExpr)
			if !ok {
				return nil, fmt.Errorf("marshalHeader: unsupported statement %s", exprString(s.X))
			}
			if name, ok := beCall(c); ok && len(c.Args) == 2 {
				base, lo, hi, err := sliceOf(c.Args[0], consts)
				if err != nil {
					return nil, err
				}
				if !strings.HasSuffix(base, ".writeBuf") {
					return nil, fmt.Errorf("marshalHeader: writes to %s, not the header buffer", base)
				}
				acc, err := accessorCall(c.Args[1], m)
				if err != nil {
					return nil, err
				}
				enc := map[string]string{"PutUint32": "u32be", "PutUint64": "u64be"}[name]
				if enc == "" {
					return nil, fmt.Errorf("marshalHeader: unsupported binary.BigEndian.%s", name)
				}
				out = append(out, slot{acc, lo, hi, enc})
				continue
			}
			if id, ok := c.Fun.(*ast.Ident); ok && id.Name == "copy" && len(c.Args) == 2 {
				base, lo, hi, err := sliceOf(c.Args[0], consts)
				if err != nil {
					return nil, err
				}
				if !strings.HasSuffix(base, ".writeBuf") {
					return nil, fmt.Errorf("marshalHeader: copies to %s, not the header buffer", base)
				}
				src, ok := c.Args[1].(*ast.SliceExpr)
				if !ok || src.Low != nil || src.High != nil {
					return nil, fmt.Errorf("marshalHeader: copy source %s is not v[:]", exprString(c.Args[1]))
				}
				v, ok := src.X.(*ast.Ident)
				if !ok || vars[v.Name] == "" {
					return nil, fmt.Errorf("marshalHeader: copy source %s is not a known accessor value", exprString(c.Args[1]))
				}
				out = append(out, slot{vars[v.Name], lo, hi, "bytes16"})
				continue
			}
			return nil, fmt.Errorf("marshalHeader: unsupported statement %s", exprString(s.X))
		default:
			return nil, fmt.Errorf("marshalHeader: unsupported statement kind %T", st)
		}
	}
	return out, nil
}

// constructorMap: parameter position of NewLiteMessageValue -> accessor name.
func constructorMap(mvPath string) ([]string, string, error) {
	fset := token.NewFileSet()
	af, err := parser.ParseFile(fset, mvPath, nil, parser.SkipObjectResolution)
	if err != nil {
		return nil, "", err
	}
	// field -> accessor (methods of *MessageValue whose body is `return m.field`)
	acc := map[string]string{}
	for _, d := range af.Decls {
		fd, ok := d.(*ast.FuncDecl)
		if !ok || fd.Recv == nil || len(fd.Recv.List) != 1 || fd.Body == nil || len(fd.Body.List) != 1 {
			continue
		}
		if !strings.HasSuffix(exprString(fd.Recv.List[0].Type), "MessageValue") || len(fd.Recv.List[0].Names) != 1 {
			continue
		}
		rs, ok := fd.Body.List[0].(*ast.ReturnStmt)
		if !ok || len(rs.Results) != 1 {
			continue
		}
		sel, ok := rs.Results[0].(*ast.SelectorExpr)
		if !ok {
			continue
		}
		if id, ok := sel.X.(*ast.Ident); ok && id.Name == fd.Recv.List[0].Names[0].Name {
			acc[sel.Sel.Name] = fd.Name.Name
		}
	}
	fd := funcNamed(af, "NewLiteMessageValue")
	if fd == nil {
		return nil, "", fmt.Errorf("NewLiteMessageValue not found in %s", mvPath)
	}
	var params []string
	for _, f := range fd.Type.Params.List {
		for _, n := range f.Names {
			params = append(params, n.Name)
		}
	}
	p2f := map[string]string{}
	var lit *ast.CompositeLit
	ast.Inspect(fd.Body, func(n ast.Node) bool {
		if cl, ok := n.(*ast.CompositeLit); ok && lit == nil {
			lit = cl
		}
		return true
	})
	if lit == nil || len(fd.Body.List) != 1 {
		return nil, "", fmt.Errorf("NewLiteMessageValue: expected a single `return &MessageValue{...}`")
	}
	for _, el := range lit.Elts {
		kv, ok := el.(*ast.KeyValueExpr)
		if !ok {
			return nil, "", fmt.Errorf("NewLiteMessageValue: positional composite literal")
		}
		v, ok := kv.Value.(*ast.Ident)
		if !ok {
			return nil, "", fmt.Errorf("NewLiteMessageValue: field %s is not set from a parameter", exprString(kv.Key))
		}
		p2f[v.Name] = exprString(kv.Key)
	}
	var out []string
	for _, p := range params {
		f := p2f[p]
		if f == "" || acc[f] == "" {
			return nil, "", fmt.Errorf("NewLiteMessageValue: parameter %s does not reach a field with an accessor", p)
		}
		out = append(out, acc[f])
	}
	lengthAcc := acc["length"]
	if lengthAcc == "" {
		return nil, "", fmt.Errorf("MessageValue has no accessor for field length")
	}
	return out, lengthAcc, nil
}

func parseSlots(fd *ast.FuncDecl, consts map[string]int, ctor []string, lengthAcc string) ([]slot, error) {
	if len(fd.Type.Params.List) != 1 || len(fd.Type.Params.List[0].Names) != 1 {
		return nil, fmt.Errorf("parseHeader: expected one parameter")
	}
	buf := fd.Type.Params.List[0].Names[0].Name
	type pv struct {
		lo, hi int
		enc    string
		order  int
	}
	vars := map[string]pv{}
	dest := map[string]string{}
	returned := false
	for i, st := range fd.Body.List {
		switch s := st.(type) {
		case *ast.AssignStmt:
			if len(s.Lhs) != 1 || len(s.Rhs) != 1 {
				return nil, fmt.Errorf("parseHeader: unsupported assignment")
			}
			id, ok := s.Lhs[0].(*ast.Ident)
			if !ok {
				return nil, fmt.Errorf("parseHeader: unsupported assignment target")
			}
			// strip conversions T(x)
			e := s.Rhs[0]
			var call *ast.CallExpr
			for {
				c, ok := e.(*ast.CallExpr)
				if !ok || len(c.Args) != 1 {
					return nil, fmt.Errorf("parseHeader: unsupported right-hand side %s", exprString(s.Rhs[0]))
				}
				if _, ok := beCall(c); ok {
					call = c
					break
				}
				if exprString(c.Fun) == "p2pcommon.MustParseBytes" {
					call = c
					break
				}
				e = c.Args[0]
			}
			base, lo, hi, err := sliceOf(call.Args[0], consts)
			if err != nil {
				return nil, err
			}
			if base != buf {
				return nil, fmt.Errorf("parseHeader: reads %s, not the header buffer", base)
			}
			enc := ""
			if name, ok := beCall(call); ok {
				enc = map[string]string{"Uint32": "u32be", "Uint64": "u64be"}[name]
			} else {
				enc = "bytes16"
			}
			if enc == "" {
				return nil, fmt.Errorf("parseHeader: unsupported decoder %s", exprString(call.Fun))
			}
			vars[id.Name] = pv{lo, hi, enc, i}
		case *ast.ReturnStmt:
			if len(s.Results) != 2 {
				return nil, fmt.Errorf("parseHeader: expected two results")
			}
			c, ok := s.Results[0].(*ast.CallExpr)
			if !ok || exprString(c.Fun) != "p2pcommon.NewLiteMessageValue" || len(c.Args) != len(ctor) {
				return nil, fmt.Errorf("parseHeader: first result is not p2pcommon.NewLiteMessageValue(%d args)", len(ctor))
			}
			for k, a := range c.Args {
				id, ok := a.(*ast.Ident)
				if !ok {
					return nil, fmt.Errorf("parseHeader: constructor argument %s is not a variable", exprString(a))
				}
				dest[id.Name] = ctor[k]
			}
			id, ok := s.Results[1].(*ast.Ident)
			if !ok {
				return nil, fmt.Errorf("parseHeader: second result is not a variable")
			}
			dest[id.Name] = lengthAcc
			returned = true
		default:
			return nil, fmt.Errorf("parseHeader: unsupported statement kind %T", st)
		}
	}
	if !returned {
		return nil, fmt.Errorf("parseHeader: no return statement")
	}
	out := make([]slot, len(fd.Body.List))
	n := 0
	for v, p := range vars {
		d := dest[v]
		if d == "" {
			return nil, fmt.Errorf("parseHeader: variable %s is parsed but not used in the result", v)
		}
		out[p.order] = slot{d, p.lo, p.hi, p.enc}
		n++
	}
	for v := range dest {
		if _, ok := vars[v]; !ok {
			return nil, fmt.Errorf("parseHeader: result uses %s which is not parsed from the buffer", v)
		}
	}
	var res []slot
	for _, s := range out {
		if s.field != "" {
			res = append(res, s)
		}
	}
	return res, nil
}

func cmdFrameLayout(args []string) error {
	fs := flag.NewFlagSet("framelayout", flag.ContinueOnError)
	out := fs.String("o", "", "output .lean file")
	ioPath := fs.String("io", "", "p2p/v030/v030io.go")
	mvPath := fs.String("mv", "", "p2p/p2pcommon/messagevalue.go")
	if err := fs.Parse(args); err != nil {
		return err
	}
	if *out == "" || *ioPath == "" || *mvPath == "" {
		return fmt.Errorf("framelayout: need -o, -io, -mv")
	}
	fset := token.NewFileSet()
	af, err := parser.ParseFile(fset, *ioPath, nil, parser.SkipObjectResolution)
	if err != nil {
		return err
	}
	consts := constsOf(af)
	hl, ok := consts["msgHeaderLength"]
	if !ok {
		return fmt.Errorf("const msgHeaderLength not found")
	}
	mh, ph := funcNamed(af, "marshalHeader"), funcNamed(af, "parseHeader")
	if mh == nil || ph == nil {
		return fmt.Errorf("marshalHeader/parseHeader not found in %s", *ioPath)
	}
	ms, err := marshalSlots(mh, consts)
	if err != nil {
		return err
	}
	ctor, lengthAcc, err := constructorMap(*mvPath)
	if err != nil {
		return err
	}
	ps, err := parseSlots(ph, consts, ctor, lengthAcc)
	if err != nil {
		return err
	}
	// canonical order: by offset. The statement order of the writes matters only if two of them overlap, and
	// `header_layout_ok` (tiles) refuses overlapping or duplicated slots; reads never interfere. So a reordering of the
	// statements of either function gives the same tables.
	byOffset := func(ss []slot) {
		sort.SliceStable(ss, func(i, j int) bool {
			if ss[i].lo != ss[j].lo {
				return ss[i].lo < ss[j].lo
			}
			return ss[i].hi < ss[j].hi
		})
	}
	byOffset(ms)
	byOffset(ps)
	// field constructors: in order of first appearance (marshal first, then parse)
	var fields []string
	seen := map[string]bool{}
	for _, s := range append(append([]slot{}, ms...), ps...) {
		if !seen[s.field] {
			seen[s.field] = true
			fields = append(fields, s.field)
		}
	}
	var b strings.Builder
	b.WriteString("-- GENERATED by /verif/tools/goext framelayout from p2p/v030/v030io.go (marshalHeader, parseHeader, msgHeaderLength)\n")
	b.WriteString("-- and p2p/p2pcommon/messagevalue.go (NewLiteMessageValue, accessors). Do not edit.\n")
	b.WriteString("namespace Aergo.Gen.Frame\n\n")
	b.WriteString("/-- accessors of `p2pcommon.Message` that the header carries -/\n")
	b.WriteString("inductive Field | " + strings.Join(fields, " | ") + "\nderiving Repr, DecidableEq\n\n")
	b.WriteString("/-- `u32be`/`u64be`: binary.BigEndian.PutUint32/64 and Uint32/64; `bytes16`: copy of a MsgID / MustParseBytes -/\n")
	b.WriteString("inductive Enc | u32be | u64be | bytes16\nderiving Repr, DecidableEq\n\n")
	b.WriteString("/-- header bytes `[lo, hi)` hold `field` in encoding `enc` -/\n")
	b.WriteString("structure Slot where\n  field : Field\n  lo : Nat\n  hi : Nat\n  enc : Enc\nderiving Repr, DecidableEq\n\n")
	fmt.Fprintf(&b, "/-- `const msgHeaderLength` -/\ndef headerLength : Nat := %d\n\n", hl)
	emit := func(name, doc string, ss []slot) {
		var parts []string
		for _, s := range ss {
			parts = append(parts, fmt.Sprintf("⟨.%s, %d, %d, .%s⟩", s.field, s.lo, s.hi, s.enc))
		}
		fmt.Fprintf(&b, "/-- %s -/\ndef %s : List Slot := [%s]\n\n", doc, name, strings.Join(parts, ", "))
	}
	emit("marshalLayout", "writes of `marshalHeader`, by offset (statement order is irrelevant for non-overlapping slots: `tiles`)", ms)
	emit("parseLayout", "reads of `parseHeader`, by offset; destination = accessor that returns the constructor field", ps)
	b.WriteString("end Aergo.Gen.Frame\n")
	return os.WriteFile(*out, []byte(b.String()), 0o644)
}

func init() { register("framelayout", cmdFrameLayout) }
