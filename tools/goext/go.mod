module verif/goext

go 1.23
