package main

// goext hostapi -repo /repo [-corpus /verif/corpus/C20] -o HostApi.lean [-dump]
//
// Regenerates lean/Aergo/Gen/HostApi.lean (C20): the IR of every exported VM host callback of
// /repo/contract (hostapi_extract.go, tables hostapi_tables.go), the same for the synthetic callbacks of
// the extractor self-test corpus (with the verdicts their annotations expect), the inventories
// (flag writers, context constructors, state API classification, other //export functions, query call
// sites) and the lexical facts about the C modules (hostapi_c.go).

import (
	"flag"
	"fmt"
	"os"
	"sort"
	"strings"
)

func init() { register("hostapi", cmdHostAPI) }

func cmdHostAPI(args []string) error {
	fs := flag.NewFlagSet("hostapi", flag.ContinueOnError)
	repo := fs.String("repo", "/repo", "repository root")
	corpus := fs.String("corpus", "", "directory of synthetic callbacks (*.go) with `// verdict:` annotations")
	out := fs.String("o", "", "output Lean file")
	dump := fs.Bool("dump", false, "print a readable dump of the extraction to stderr")
	if err := fs.Parse(args); err != nil {
		return err
	}
	g, err := HGenerate(*repo, *corpus)
	if err != nil {
		return err
	}
	if *dump {
		fmt.Fprint(os.Stderr, g.Dump())
	}
	if *out == "" {
		return fmt.Errorf("need -o")
	}
	return os.WriteFile(*out, []byte(g.Lean()), 0o644)
}

// ---------------------------------------------------------------------------------- Lean emission

func hLeanStr(s string) string {
	var b strings.Builder
	b.WriteByte('"')
	for _, r := range s {
		switch r {
		case '"':
			b.WriteString("\\\"")
		case '\\':
			b.WriteString("\\\\")
		case '\n':
			b.WriteString("\\n")
		case '\t':
			b.WriteString("\\t")
		default:
			b.WriteRune(r)
		}
	}
	b.WriteByte('"')
	return b.String()
}

func hLeanStrList(l []string) string {
	q := make([]string, len(l))
	for i, s := range l {
		q[i] = hLeanStr(s)
	}
	return "[" + strings.Join(q, ", ") + "]"
}

func hLeanTuples(rows [][]string) string {
	q := make([]string, len(rows))
	for i, r := range rows {
		c := make([]string, len(r))
		for j, s := range r {
			c[j] = hLeanStr(s)
		}
		q[i] = "(" + strings.Join(c, ", ") + ")"
	}
	if len(q) == 0 {
		return "[]"
	}
	return "[\n  " + strings.Join(q, ",\n  ") + "]"
}

func hT2(rows [][2]string) [][]string {
	out := make([][]string, len(rows))
	for i, r := range rows {
		out[i] = []string{r[0], r[1]}
	}
	return out
}
func hT3(rows [][3]string) [][]string {
	out := make([][]string, len(rows))
	for i, r := range rows {
		out[i] = []string{r[0], r[1], r[2]}
	}
	return out
}
func hT4(rows [][4]string) [][]string {
	out := make([][]string, len(rows))
	for i, r := range rows {
		out[i] = []string{r[0], r[1], r[2], r[3]}
	}
	return out
}

type hLeanProg struct {
	p      *HProgram
	fnID   map[string]int
	sinkID map[string]int
	sinks  []string
}

func hNewLeanProg(p *HProgram) *hLeanProg {
	lp := &hLeanProg{p: p, fnID: map[string]int{}, sinkID: map[string]int{}}
	for i, f := range p.Funcs {
		lp.fnID[f.Name] = i
	}
	return lp
}

func (lp *hLeanProg) cond(c *HCond) string {
	switch c.Op {
	case "query":
		return ".query"
	case "view":
		return ".view"
	case "any":
		return ".any"
	case "atom":
		return fmt.Sprintf("(.atom %d)", c.Atom)
	case "not":
		return "(.not " + lp.cond(c.A) + ")"
	case "and":
		return "(.and " + lp.cond(c.A) + " " + lp.cond(c.B) + ")"
	case "or":
		return "(.or " + lp.cond(c.A) + " " + lp.cond(c.B) + ")"
	}
	panic("cond op " + c.Op)
}

func (lp *hLeanProg) sink(s *HSink) string {
	id, ok := lp.sinkID[s.Name]
	if !ok {
		id = len(lp.sinks)
		lp.sinkID[s.Name] = id
		lp.sinks = append(lp.sinks, s.Name)
	}
	return fmt.Sprintf("(.sink ⟨.%s, %d⟩)", s.Kind, id)
}

func (lp *hLeanProg) stmt(s *HStmt) string {
	switch s.Op {
	case "skip":
		return ".skip"
	case "ret":
		return ".ret"
	case "brk":
		return ".brk"
	case "cont":
		return ".cont"
	case "reenter":
		return ".reenter"
	case "sink":
		return lp.sink(s.Sink)
	case "call":
		id, ok := lp.fnID[s.Fn]
		if !ok {
			panic("call of unknown function " + s.Fn)
		}
		return fmt.Sprintf("(.call %d)", id)
	case "loop":
		return "(.loop " + lp.stmt(s.T) + ")"
	case "scope":
		return "(.scope " + lp.stmt(s.T) + ")"
	case "ite":
		return "(.ite " + lp.cond(s.C) + " " + lp.stmt(s.T) + " " + lp.stmt(s.E) + ")"
	case "seq":
		// right-nested
		out := lp.stmt(s.L[len(s.L)-1])
		for i := len(s.L) - 2; i >= 0; i-- {
			out = "(.seq " + lp.stmt(s.L[i]) + " " + out + ")"
		}
		return out
	}
	panic("stmt op " + s.Op)
}

func (lp *hLeanProg) emit(b *strings.Builder, defName, doc string) {
	var bodies []string
	for i, f := range lp.p.Funcs {
		var cls []string
		for _, cl := range f.Assume {
			var lits []string
			for _, l := range cl {
				lits = append(lits, fmt.Sprintf("(%d, %v)", l.Atom, l.Pos))
			}
			cls = append(cls, "["+strings.Join(lits, ", ")+"]")
		}
		fmt.Fprintf(b, "/-- `%s` (%s:%d)%s -/\ndef %s_fn%d : Fn :=\n  { name := %s, exported := %v, queryEntry := %v, atoms := %s,\n    assume := [%s],\n    body := %s }\n\n",
			f.Name, f.File, f.Line, map[bool]string{true: ", //export", false: ""}[f.Exported], defName, i, hLeanStr(f.Name), f.Exported, f.QueryEntry,
			hLeanStrList(f.Atoms), strings.Join(cls, ", "), lp.stmt(f.Body))
		bodies = append(bodies, fmt.Sprintf("%s_fn%d", defName, i))
	}
	fmt.Fprintf(b, "/-- %s -/\ndef %s : Program :=\n  { fns := [%s],\n    sinkNames := %s }\n\n", doc, defName, strings.Join(bodies, ", "), hLeanStrList(lp.sinks))
}

func (g *HGen) Lean() string {
	var b strings.Builder
	b.WriteString("-- GENERATED by /verif/tools/goext hostapi from contract/{" + strings.Join(g.Real.Facts.ParsedFiles, ",") + "}, contract/*.c, state/, state/statedb/, chain/chainservice.go. Do not edit.\n")
	b.WriteString("import Aergo.Model.HostApi\n\nnamespace Aergo.Gen.HostApi\nopen Aergo.HostApi\n\n")
	hNewLeanProg(g.Real).emit(&b, "program", "IR of every `//export`ed host callback of package contract, of the Go-level read-only entry points and of every in-package function they call")
	hNewLeanProg(g.Corpus).emit(&b, "corpus", "IR of the synthetic callbacks of the extractor self-test (corpus/C20)")
	var exp []string
	for _, f := range g.Corpus.Funcs {
		if f.Exported {
			exp = append(exp, fmt.Sprintf("(%s, .%s)", hLeanStr(f.Name), g.Expect[f.Name]))
		}
	}
	fmt.Fprintf(&b, "/-- verdicts the corpus annotations expect, in the order of `corpus.verdicts` -/\ndef corpusExpect : List (String × Verdict) := [\n  %s]\n\n", strings.Join(exp, ",\n  "))
	f := g.Real.Facts
	fact := func(name, doc string, rows [][]string, arity int) {
		ty := "String"
		for i := 1; i < arity; i++ {
			ty += " × String"
		}
		fmt.Fprintf(&b, "/-- %s -/\ndef %s : List (%s) := %s\n\n", doc, name, ty, hLeanTuples(rows))
	}
	fact("viewWrites", "every write of `vmContext.nestedView`: (function, inc|dec|assign)", hT2(f.ViewWrites), 2)
	fact("queryWrites", "every assignment to `vmContext.isQuery` outside a composite literal: (function, position)", hT2(f.QueryWrites), 2)
	fact("queryCtxLits", "`vmContext{… isQuery: e …}` literals: (function, e)", hT2(f.QueryCtxLits), 2)
	fact("guardWhen", "guards that test both flags together with something else: (function, condition)", hT2(f.GuardWhen), 2)
	fact("queryOnly", "conditions that test isQuery but not nestedView: (function, condition)", hT2(f.QueryOnly), 2)
	fact("viewOnly", "conditions that test nestedView but not isQuery: (function, condition)", hT2(f.ViewOnly), 2)
	fact("reenterSites", "C calls that run Lua code: (function, C function)", hT2(f.Reenter), 2)
	fact("otherExports", "`//export` functions in files of package contract that are not analysed: (file, name)", hT2(f.OtherExports), 2)
	fact("unknownSinks", "calls / writes that touch state-bearing things and are in no table: (function, what, position)", hT3(f.Unknown), 3)
	fact("unsupported", "control flow outside the extractor's subset: (function, what, position)", hT3(f.Unsupported), 3)
	var callers [][]string
	for _, n := range []string{"NewVmContextQuery", "NewVmContext"} {
		for _, c := range f.CallersOf[n] {
			callers = append(callers, []string{n, c})
		}
	}
	fact("ctxBuilders", "callers of the context constructors among the analysed functions: (constructor, caller)", callers, 2)
	fact("assumeWhy", "why each assumption on condition atoms is made: (function, reason)", g.assumeWhy(), 2)
	fact("stateApi", "methods of the state-bearing types and their class in the reviewed tables: (type, method, class)", hT3(g.StateAPI), 3)
	var uncl [][3]string
	for _, r := range g.StateAPI {
		switch r[2] {
		case "ro", "mut", "mutQ", "restore", "txctl", "cache":
		default:
			uncl = append(uncl, r)
		}
	}
	fact("stateApiUnclassified", "the rows of `stateApi` whose class is not one of ro/mut/mutQ/restore/txctl/cache (unclassified, or a mutating method whose bare name the extractor treats as harmless)", hT3(uncl), 3)
	fact("queryCalls", "call sites of contract.Query / contract.CheckFeeDelegation: (file, function, callee, origin of the BlockState argument)", hT4(g.QueryCalls), 4)
	fact("flagForeign", "tests of `.isQuery` / `.nestedView` whose receiver is not the function's own context (they are opaque conditions in the IR): (function, expression)", hT2(f.FlagForeign), 2)
	fact("ctxArgs", "a *vmContext handed to an in-package function or put into an executor literal that is not the function's own context: (function, callee, argument)", hT3(f.CtxArgs), 3)
	fact("isViewWrites", "every assignment to `executor.isView`: (function, right-hand side)", hT2(f.IsViewWrites), 2)
	fact("sqlOpens", "every `sql.Open`: (function, driver, DSN, query_only | writable)", hT4(f.SQLOpens), 4)
	fact("sqlExecs", "every SQL text executed through database/sql by the analysed functions: (function, leading text, class)", hT3(f.SQLExecs), 3)
	fact("ifaceImpls", "implementations of the in-package interface methods that the tables classify: (interface.method, class, implementation)", hT3(f.IfaceImpls), 3)
	fact("flagBranches", "every branch whose condition tests a read-only flag: (function, condition over the abstract flags, shape of the two arms)", hT3(f.FlagBranches), 3)
	ro := append([]string(nil), f.RoCallees...)
	sort.Strings(ro)
	fmt.Fprintf(&b, "/-- functions and methods of the state-bearing packages that the tables class as reads and that the analysed code calls (driven on the real code by harness/c20) -/\ndef roCallees : List String := %s\n\n", hLeanStrList(ro))
	fmt.Fprintf(&b, "/-- what `luaCheckView` returns to the C guards (`nestedView` = a plain conversion of the own context's counter) -/\ndef checkViewRet : List String := %s\n\n", hLeanStrList(f.CheckViewRet))
	if sl := f.Slot; sl != nil {
		b.WriteString("/-! ### Context slots (contract/vm.go allocContextSlot, contract/contract.go) -/\n\n")
		for _, c := range sl.Consts {
			fmt.Fprintf(&b, "def %s : Int := %s\n", c[0], c[1])
		}
		step, init := sl.StepLean, sl.InitLean
		if step == "" {
			step = "(-1)"
		}
		if init == "" {
			init = "(-1)"
		}
		fmt.Fprintf(&b, "\n/-- one step of the slot scan of `allocContextSlot`, translated from: `%s`%s -/\ndef slotStep (maxContext index : Int) : Int := %s\n\n",
			strings.ReplaceAll(sl.StepSrc, "\n", " "), map[bool]string{true: "", false: " — NOT TRANSLATABLE (" + sl.StepWhy + "): the definition is a placeholder that fails the theorems"}[sl.StepLean != ""], step)
		fmt.Fprintf(&b, "/-- the scan could be translated -/\ndef slotStepTranslated : Bool := %v\n\n", sl.StepLean != "")
		fmt.Fprintf(&b, "/-- initial value of `lastQueryIndex` (init() of package contract) -/\ndef slotInit : Int := %s\n\n", init)
		fact("ctxSlotWrites", "every assignment to `contexts[…]` (or to `contexts` as a whole, index `*`) in the analysed files: (function, index, value)", hT3(sl.SlotWrites), 3)
		fact("ctxServiceWrites", "every assignment to `vmContext.service`, incl. composite literals: (function, value)", hT2(sl.SvcWrites), 2)
		fact("lastQueryIndexWrites", "every assignment to `lastQueryIndex` outside init(): (function, value)", hT2(sl.LastWrites), 2)
		var sc [][]string
		for _, n := range []string{"allocContextSlot", "freeContextSlot"} {
			for _, c := range f.CallersOf[n] {
				sc = append(sc, []string{n, c})
			}
		}
		fact("slotCallers", "callers of allocContextSlot / freeContextSlot among the analysed functions: (function, caller)", sc, 2)
	}
	var ex [][]string
	for _, fn := range g.Real.Funcs {
		if why, ok := hostTables.RefuseExempt[fn.Name]; ok {
			ex = append(ex, []string{fn.Name, why})
		}
	}
	fact("refuseExempt", "functions that depend on a read-only flag without returning an error (their bodies start with an `exempt` event): (function, why accepted)", ex, 2)
	g.C.Lean(&b)
	b.WriteString("end Aergo.Gen.HostApi\n")
	return b.String()
}

func (g *HGen) assumeWhy() [][]string {
	var out [][]string
	for _, f := range g.Real.Funcs {
		for _, w := range f.AssumeWhy {
			out = append(out, []string{f.Name, w})
		}
	}
	return out
}

func (c *HCFacts) Lean(b *strings.Builder) {
	fmt.Fprintf(b, "/-- Lua functions registered by the C modules (%s): lexical scan -/\ndef cLuaFns : List CLuaFn := [", strings.Join(c.Files, ", "))
	for i, f := range c.LuaFns {
		if i > 0 {
			b.WriteString(",")
		}
		var gs []string
		for _, gd := range f.Guards {
			cmp := ".other"
			switch gd.Cmp {
			case "gt", "ge", "ne":
				cmp = fmt.Sprintf("(.%s %d)", gd.Cmp, gd.K)
			case "truthy":
				cmp = ".truthy"
			}
			gs = append(gs, fmt.Sprintf("{ call := %s, cmp := %s, raises := %v, text := %s }", hLeanStr(gd.Call), cmp, gd.Raise, hLeanStr(gd.Text)))
		}
		fmt.Fprintf(b, "\n  { file := %s, table := %s, luaName := %s, cfunc := %s, callbacks := %s, sqlStep := %v, guardsBeforeStep := %s,\n    guards := [%s] }",
			hLeanStr(f.File), hLeanStr(f.Table), hLeanStr(f.LuaName), hLeanStr(f.CFunc), hLeanStrList(f.Callbacks), f.SQLStep, hLeanStrList(f.GuardsBeforeStep), strings.Join(gs, ", "))
	}
	b.WriteString("]\n\n")
	fmt.Fprintf(b, "/-- direct C callers of the exported Go callbacks: (callback, C function) -/\ndef cCallbackCallers : List (String × String) := %s\n\n", hLeanTuples(hT2(c.CallbackCallers)))
	var internal [][2]string
	for _, r := range c.CallbackCallers {
		if hostInternalCallbacks[r[0]] {
			internal = append(internal, r)
		}
	}
	fmt.Fprintf(b, "/-- the rows of `cCallbackCallers` for the callbacks that only the C glue may call (recovery points, event truncation, view bracket) -/\ndef cInternalCallers : List (String × String) := %s\n\n", hLeanTuples(hT2(internal)))
	var registered [][2]string
	for _, f := range c.LuaFns {
		for _, cb := range f.Callbacks {
			if hostInternalCallbacks[cb] {
				registered = append(registered, [2]string{f.Table + "." + f.LuaName, cb})
			}
		}
	}
	fmt.Fprintf(b, "/-- registered Lua functions from which one of those callbacks is reachable: (table.name, callback) -/\ndef cInternalRoutes : List (String × String) := %s\n\n", hLeanTuples(hT2(registered)))
	fmt.Fprintf(b, "/-- sqlcheck.c, `sqlcheck_is_readonly_sql` (the only gate of `db.query`): leading keywords for which it answers non-zero: (keyword, prefix|exact|pragma|unrecognised) -/\ndef sqlReadonlyFirst : List (String × String) := %s\n\n", hLeanTuples(hT2(c.SQLReadonlyFirst)))
	fmt.Fprintf(b, "/-- sqlcheck.c, `sqlcheck_is_permitted_pragma`: the pragmas it admits: (name, prefix|exact|unrecognised) -/\ndef sqlReadonlyPragmas : List (String × String) := %s\n\n", hLeanTuples(hT2(c.SQLReadonlyPragmas)))
	fmt.Fprintf(b, "/-- registered Lua functions that call sqlite3_prepare*, with the gate calls in front of it: (table.name, gates) -/\ndef cPrepareGates : List (String × String) := %s\n\n", hLeanTuples(hT2(c.PrepareGates)))
	var refusing []string
	for _, r := range c.Refusing {
		refusing = append(refusing, r)
	}
	fmt.Fprintf(b, "/-- exported Go callbacks with a branch on a read-only flag that returns an error (the refusing guards) -/\ndef refusingCallbacks : List String := %s\n\n", hLeanStrList(refusing))
	fmt.Fprintf(b, "/-- how the C wrappers treat the value returned by the Go callbacks that refuse with an error: (callback, C function, test of the returned value with `r` for the variable and `call` for the call, raise|noraise) -/\ndef cErrChecks : List (String × String × String × String) := %s\n\n", hLeanTuples(hT4(c.ErrChecks)))
	fmt.Fprintf(b, "/-- assignments to the LuaJIT view-bracket function pointers: (pointer, function) -/\ndef cFnPtrWiring : List (String × String) := %s\n\n", hLeanTuples(hT2(c.FnPtrWiring)))
}

// ---------------------------------------------------------------------------------- dump

func hDumpCond(c *HCond, atoms []string) string {
	switch c.Op {
	case "atom":
		return "«" + atoms[c.Atom] + "»"
	case "not":
		return "!" + hDumpCond(c.A, atoms)
	case "and":
		return "(" + hDumpCond(c.A, atoms) + " && " + hDumpCond(c.B, atoms) + ")"
	case "or":
		return "(" + hDumpCond(c.A, atoms) + " || " + hDumpCond(c.B, atoms) + ")"
	}
	return c.Op
}

func hDumpStmt(b *strings.Builder, s *HStmt, atoms []string, ind string) {
	switch s.Op {
	case "seq":
		for _, e := range s.L {
			hDumpStmt(b, e, atoms, ind)
		}
	case "ite":
		fmt.Fprintf(b, "%sif %s {\n", ind, hDumpCond(s.C, atoms))
		hDumpStmt(b, s.T, atoms, ind+"  ")
		if s.E.Op != "skip" {
			fmt.Fprintf(b, "%s} else {\n", ind)
			hDumpStmt(b, s.E, atoms, ind+"  ")
		}
		fmt.Fprintf(b, "%s}\n", ind)
	case "loop", "scope":
		fmt.Fprintf(b, "%s%s {\n", ind, s.Op)
		hDumpStmt(b, s.T, atoms, ind+"  ")
		fmt.Fprintf(b, "%s}\n", ind)
	case "sink":
		fmt.Fprintf(b, "%sSINK %s %s   @%s\n", ind, s.Sink.Kind, s.Sink.Name, s.Sink.Pos)
	case "call":
		fmt.Fprintf(b, "%scall %s\n", ind, s.Fn)
	case "skip":
	default:
		fmt.Fprintf(b, "%s%s\n", ind, s.Op)
	}
}

func (g *HGen) Dump() string {
	var b strings.Builder
	for _, p := range []*HProgram{g.Real, g.Corpus} {
		for _, f := range p.Funcs {
			fmt.Fprintf(&b, "== %s (%s:%d) exported=%v\n", f.Name, f.File, f.Line, f.Exported)
			hDumpStmt(&b, f.Body, f.Atoms, "  ")
		}
		for _, u := range p.Facts.Unknown {
			fmt.Fprintf(&b, "UNKNOWN %s: %s @%s\n", u[0], u[1], u[2])
		}
		fmt.Fprintf(&b, "FACT flagForeign %v\nFACT ctxArgs %v\nFACT isViewWrites %v\nFACT sqlOpens %v\nFACT sqlExecs %v\nFACT roCallees %v\nFACT ifaceImpls %v\nFACT flagBranches %v\nFACT checkViewRet %v\n",
			p.Facts.FlagForeign, p.Facts.CtxArgs, p.Facts.IsViewWrites, p.Facts.SQLOpens, p.Facts.SQLExecs, p.Facts.RoCallees, p.Facts.IfaceImpls, p.Facts.FlagBranches, p.Facts.CheckViewRet)
	}
	return b.String()
}
